package rules

import (
	"fmt"
	"go/constant"
	"go/token"
	"go/types"
	"sort"
	"strings"

	"golang.org/x/tools/go/ssa"

	"verif/checker/core"
)

// R-PATH-3 — the identity of a file is its path as resolved on disk, never a
// case-folded spelling of it.
//
// The view cache (Transaction.CachedViews), the uncommitted-view sets and the
// handler container (file.Container) hold one entry per file: the entry owns the
// open handle, the lock files and the working copy that COMMIT writes back. Their
// keys are formed from the absolute path a resolver returned. If the key is a
// case-folded spelling of that path, two files whose names differ only in case
// (t.csv / T.csv on a file system that distinguishes case) are one entry: the
// second is read from the first one's copy, updated into the first one's file and
// created over the first one's cache entry (C20, C08, C10).
//
// What is decided (flow-insensitive may-analysis, existential):
//
//   - path values: results of filepath.Abs / Join / Clean / EvalSymlinks / Dir /
//     FromSlash / ToSlash / Rel and os.Getwd, everything computed from them through
//     phi, string concatenation, string conversions, local cells, captured variables,
//     call arguments (every call-graph callee), results (every call site), the string
//     fields of *file-owning structs* they are stored into (a struct with a *os.File
//     field, or a pointer to such a struct: file.Handler, file.ControlFile,
//     query.FileInfo — found by that role), and the values of map-typed struct fields
//     they are stored into. filepath.Base / Ext and the table name derived from a path
//     are not path values (names are case-insensitive by design).
//   - fold sites: every call strings.ToUpper / ToLower / ToTitle (and the …Special
//     forms) in csvq whose argument is a path value.
//   - a fold site is in order when (a) every use of the folded string — through phi,
//     concatenation, conversions and local cells — is an ordering/equality comparison
//     or an argument of a predicate of package strings / path/filepath (result bool or
//     int): the folded spelling is only looked at, or (b) the call is not executable in
//     the analysed configuration: sparse conditional constant propagation over the
//     function with the platform constants (runtime.GOOS …) and, when the argument is
//     the field of a query.FileInfo X, with X.ViewType = ViewTypeFile (also through the
//     bool methods of FileInfo called on X) — a fold kept for the platforms whose file
//     systems ignore case, or for the objects whose "path" is a name (temporary
//     tables, STDIN), is not a fold of a file's identity here.
//   - otherwise the folded path escapes — it indexes a map, is stored, returned or
//     passed on — and the site is a violation, named by function, origin of the path
//     and kind of use.
func init() {
	Register(&Rule{ID: "R-PATH-3", Props: []string{"C20", "C08", "C10"}, Floor: 5,
		Doc:      "file identity is never case-folded: path values are the results of filepath.Abs/Join/Clean/EvalSymlinks/Dir/Rel and os.Getwd and what is computed from them through phi, concatenation, cells, arguments (all call-graph callees), results (all call sites), string fields of file-owning structs (a *os.File field, or a pointer to such a struct — by role: file.Handler, file.ControlFile, query.FileInfo) and values of map-typed struct fields; at every strings.ToUpper/ToLower/ToTitle whose argument is a path value, either every use of the result (through phi, concatenation, cells) is a comparison or a bool/int predicate of strings / path/filepath, or the call is not executable under constant propagation with the platform constants and — for a field of a FileInfo X — X.ViewType = ViewTypeFile (a fold kept for case-insensitive platforms or for temporary-table names); otherwise the folded path is a key / stored / returned / passed on and two files that differ only in case share one cache entry, one handler and one commit target",
		Controls: []string{"CtlPath3FoldedHandlerKey", "CtlPath3FoldedIdentityReturned", "CtlPath3FoldedBehindHelper"},
		Run:      rulePath3})
}

var pf3Sources = map[string]bool{
	"path/filepath.Abs": true, "path/filepath.Join": true, "path/filepath.Clean": true,
	"path/filepath.EvalSymlinks": true, "path/filepath.Dir": true, "path/filepath.FromSlash": true,
	"path/filepath.ToSlash": true, "path/filepath.Rel": true, "os.Getwd": true,
}

var pf3Folds = map[string]bool{
	"strings.ToUpper": true, "strings.ToLower": true, "strings.ToTitle": true,
	"strings.ToUpperSpecial": true, "strings.ToLowerSpecial": true, "strings.ToTitleSpecial": true,
}

func pf3StdName(f *ssa.Function) string {
	if f == nil || f.Pkg == nil || f.Signature.Recv() != nil {
		return ""
	}
	return f.Pkg.Pkg.Path() + "." + f.Name()
}

func pf3IsString(t types.Type) bool {
	b, ok := t.Underlying().(*types.Basic)
	return ok && b.Info()&types.IsString != 0
}

// pf3FieldVar resolves the field a FieldAddr / Field instruction selects, with the struct it belongs to.
func pf3FieldVar(v ssa.Value) (*types.Var, *types.Struct) {
	switch x := v.(type) {
	case *ssa.FieldAddr:
		pt, ok := x.X.Type().Underlying().(*types.Pointer)
		if !ok {
			return nil, nil
		}
		st, ok := pt.Elem().Underlying().(*types.Struct)
		if !ok || x.Field >= st.NumFields() {
			return nil, nil
		}
		return st.Field(x.Field), st
	case *ssa.Field:
		st, ok := x.X.Type().Underlying().(*types.Struct)
		if !ok || x.Field >= st.NumFields() {
			return nil, nil
		}
		return st.Field(x.Field), st
	}
	return nil, nil
}

// pf3OwnsFile: the struct has a *os.File field (level 1) or a pointer to a struct that has one (level 2).
func pf3OwnsFile(st *types.Struct, level int) bool {
	for i := 0; i < st.NumFields(); i++ {
		pt, ok := st.Field(i).Type().(*types.Pointer)
		if !ok {
			continue
		}
		n, ok := pt.Elem().(*types.Named)
		if !ok {
			continue
		}
		if n.Obj().Pkg() != nil && n.Obj().Pkg().Path() == "os" && n.Obj().Name() == "File" {
			return true
		}
		if level > 1 {
			if inner, ok := n.Underlying().(*types.Struct); ok && inner != st && pf3OwnsFile(inner, level-1) {
				return true
			}
		}
	}
	return false
}

type pf3 struct {
	p          *core.Prog
	vals       map[ssa.Value]bool
	work       []ssa.Value
	fields     map[*types.Var]bool
	fieldName  map[*types.Var]string
	fieldPos   map[*types.Var]string
	mapFields  map[*types.Var]bool
	fieldLoads map[*types.Var][]ssa.Value
	mapLookups map[*types.Var][]*ssa.Lookup
	globLoads  map[*ssa.Global][]ssa.Value
	sites      map[*ssa.Function][]ssa.CallInstruction
	owns       map[*types.Struct]bool
	folds      []*ssa.Call
	own        map[*ssa.Function]bool  // csvq functions (paths are followed through these only)
	from       map[ssa.Value]ssa.Value // why a value is a path value (first reason found)
	cur        ssa.Value
}

// callees: the call-graph callees of a site in a fixed order.
func (t *pf3) callees(ci ssa.CallInstruction) []*ssa.Function {
	cs := append([]*ssa.Function(nil), t.p.Callees(ci)...)
	sort.SliceStable(cs, func(i, j int) bool { return t.p.FnRef(cs[i]) < t.p.FnRef(cs[j]) })
	return cs
}

func (t *pf3) ownsFile(st *types.Struct) bool {
	if r, ok := t.owns[st]; ok {
		return r
	}
	r := pf3OwnsFile(st, 2)
	t.owns[st] = r
	return r
}

func (t *pf3) mark(v ssa.Value) {
	if v == nil || t.vals[v] {
		return
	}
	t.vals[v] = true
	if t.from != nil {
		t.from[v] = t.cur
	}
	t.work = append(t.work, v)
}

// mapField: the struct field a map operand was loaded from (nil for local maps).
func pf3MapField(m ssa.Value) *types.Var {
	for {
		switch x := m.(type) {
		case *ssa.ChangeType:
			m = x.X
			continue
		case *ssa.UnOp:
			if x.Op == token.MUL {
				fv, _ := pf3FieldVar(x.X)
				return fv
			}
		case *ssa.Field:
			fv, _ := pf3FieldVar(x)
			return fv
		}
		return nil
	}
}

func (t *pf3) index() {
	for _, fn := range t.p.SrcFuncs() {
		t.own[fn] = true
	}
	for _, fn := range t.p.SrcFuncs() {
		for _, b := range fn.Blocks {
			for _, in := range b.Instrs {
				switch x := in.(type) {
				case *ssa.UnOp:
					if x.Op != token.MUL {
						break
					}
					if fv, _ := pf3FieldVar(x.X); fv != nil {
						t.fieldLoads[fv] = append(t.fieldLoads[fv], x)
					} else if g, ok := x.X.(*ssa.Global); ok {
						t.globLoads[g] = append(t.globLoads[g], x)
					}
				case *ssa.Field:
					if fv, _ := pf3FieldVar(x); fv != nil {
						t.fieldLoads[fv] = append(t.fieldLoads[fv], x)
					}
				case *ssa.Lookup:
					if _, ok := x.X.Type().Underlying().(*types.Map); ok {
						if mf := pf3MapField(x.X); mf != nil {
							t.mapLookups[mf] = append(t.mapLookups[mf], x)
						}
					}
				}
				ci, ok := in.(ssa.CallInstruction)
				if !ok {
					continue
				}
				for _, callee := range t.callees(ci) {
					if t.own[callee] {
						t.sites[callee] = append(t.sites[callee], ci)
					}
				}
				call, ok := in.(*ssa.Call)
				if !ok {
					continue
				}
				name := pf3StdName(core.StaticCallee(call))
				if pf3Sources[name] {
					t.markResult(call, 0)
				}
				if pf3Folds[name] && len(call.Call.Args) > 0 {
					t.folds = append(t.folds, call)
				}
			}
		}
	}
}

// markResult marks result #idx of a call value.
func (t *pf3) markResult(call ssa.Value, idx int) {
	if _, isTuple := call.Type().(*types.Tuple); !isTuple {
		if idx == 0 {
			t.mark(call)
		}
		return
	}
	for _, r := range *call.Referrers() {
		if e, ok := r.(*ssa.Extract); ok && e.Index == idx {
			t.mark(e)
		}
	}
}

func (t *pf3) markCellLoads(cell ssa.Value) {
	refs := cell.Referrers()
	if refs == nil {
		return
	}
	for _, r := range *refs {
		switch x := r.(type) {
		case *ssa.UnOp:
			if x.Op == token.MUL && x.X == cell {
				t.mark(x)
			}
		case *ssa.MakeClosure:
			f, ok := x.Fn.(*ssa.Function)
			if !ok {
				continue
			}
			for i, bnd := range x.Bindings {
				if bnd == cell && i < len(f.FreeVars) {
					t.markCellLoads(f.FreeVars[i])
				}
			}
		}
	}
}

func (t *pf3) solve() {
	p := t.p
	for len(t.work) > 0 {
		v := t.work[len(t.work)-1]
		t.work = t.work[:len(t.work)-1]
		t.cur = v
		refs := v.Referrers()
		if refs == nil {
			continue
		}
		for _, r := range *refs {
			switch x := r.(type) {
			case *ssa.Phi:
				t.mark(x)
			case *ssa.BinOp:
				if x.Op == token.ADD && pf3IsString(x.Type()) {
					t.mark(x)
				}
			case *ssa.ChangeType:
				if pf3IsString(x.Type()) {
					t.mark(x)
				}
			case *ssa.Convert:
				if pf3IsString(x.Type()) && pf3IsString(v.Type()) {
					t.mark(x)
				}
			case *ssa.Store:
				if x.Val != v {
					break
				}
				switch a := x.Addr.(type) {
				case *ssa.FieldAddr:
					fv, st := pf3FieldVar(a)
					if fv == nil || !t.ownsFile(st) || p.IsControl(x.Parent()) {
						break
					}
					if !t.fields[fv] {
						t.fields[fv] = true
						if fv.Pkg() != nil {
							t.fieldName[fv] = core.Short(fv.Pkg().Path()) + "." + pf3OwnerName(a.X.Type()) + "." + fv.Name()
							t.fieldPos[fv] = p.Pos(fv.Pos())
						}
						for _, l := range t.fieldLoads[fv] {
							t.mark(l)
						}
					}
				case *ssa.Alloc, *ssa.FreeVar:
					t.markCellLoads(a)
				case *ssa.Global:
					for _, l := range t.globLoads[a] {
						t.mark(l)
					}
				}
			case *ssa.MapUpdate:
				if x.Value != v || p.IsControl(x.Parent()) {
					break
				}
				if mf := pf3MapField(x.Map); mf != nil && !t.mapFields[mf] {
					t.mapFields[mf] = true
					for _, l := range t.mapLookups[mf] {
						t.markResult(l, 0)
					}
				}
			case *ssa.MakeClosure:
				if f, ok := x.Fn.(*ssa.Function); ok {
					for i, bnd := range x.Bindings {
						if bnd == v && i < len(f.FreeVars) {
							t.mark(f.FreeVars[i])
						}
					}
				}
			case *ssa.Return:
				fn := x.Parent()
				for idx, res := range x.Results {
					if res != v {
						continue
					}
					for _, site := range t.sites[fn] {
						val := site.Value()
						if val == nil || (p.IsControl(fn) && !p.IsControl(site.Parent())) {
							continue
						}
						t.markResult(val, idx)
					}
				}
			}
			if ci, ok := r.(ssa.CallInstruction); ok {
				com := ci.Common()
				off := 0
				if com.IsInvoke() {
					off = 1
				}
				for i, a := range com.Args {
					if a != v {
						continue
					}
					for _, callee := range t.callees(ci) {
						if !t.own[callee] || i+off >= len(callee.Params) {
							continue
						}
						if p.IsControl(ci.Parent()) && !p.IsControl(callee) {
							continue
						}
						t.mark(callee.Params[i+off])
					}
				}
			}
		}
	}
}

// pf3Use is how a folded path leaves the realm of comparisons ("" = it does not).
func (t *pf3) escape(fold ssa.Value) (string, ssa.Instruction) {
	seen := map[ssa.Value]bool{}
	work := []ssa.Value{fold}
	type esc struct {
		what string
		at   ssa.Instruction
	}
	var found []esc
	for len(work) > 0 {
		v := work[len(work)-1]
		work = work[:len(work)-1]
		if seen[v] {
			continue
		}
		seen[v] = true
		refs := v.Referrers()
		if refs == nil {
			continue
		}
		for _, r := range *refs {
			switch x := r.(type) {
			case *ssa.DebugRef:
			case *ssa.Phi:
				work = append(work, x)
			case *ssa.ChangeType:
				work = append(work, x)
			case *ssa.Convert:
				if pf3IsString(x.Type()) {
					work = append(work, x)
				} else {
					found = append(found, esc{"is converted and used further", x})
				}
			case *ssa.BinOp:
				switch x.Op {
				case token.EQL, token.NEQ, token.LSS, token.LEQ, token.GTR, token.GEQ:
				case token.ADD:
					work = append(work, x)
				default:
					found = append(found, esc{"is used in an expression", x})
				}
			case *ssa.Store:
				if x.Val != v {
					break
				}
				if a, ok := x.Addr.(*ssa.Alloc); ok && !pf3Captured(a) {
					for _, l := range *a.Referrers() {
						if u, ok := l.(*ssa.UnOp); ok && u.Op == token.MUL {
							work = append(work, u)
						}
					}
					break
				}
				found = append(found, esc{"is stored", x})
			case *ssa.Lookup:
				if x.Index == v {
					found = append(found, esc{"is a key of " + t.mapName(x.X), x})
				}
			case *ssa.MapUpdate:
				if x.Key == v {
					found = append(found, esc{"is a key of " + t.mapName(x.Map), x})
				} else if x.Value == v {
					found = append(found, esc{"is stored in " + t.mapName(x.Map), x})
				}
			case *ssa.Return:
				found = append(found, esc{"is returned", x})
			case *ssa.MakeInterface:
				found = append(found, esc{"is passed on as an interface value", x})
			case *ssa.MakeClosure:
				found = append(found, esc{"is captured by a closure", x})
			default:
				if ci, ok := r.(ssa.CallInstruction); ok {
					callee := core.StaticCallee(ci)
					if callee != nil && callee.Pkg != nil {
						switch callee.Pkg.Pkg.Path() {
						case "strings", "path/filepath", "bytes", "unicode/utf8":
							if res := callee.Signature.Results(); res.Len() == 1 {
								if b, ok := res.At(0).Type().Underlying().(*types.Basic); ok && b.Info()&(types.IsBoolean|types.IsInteger) != 0 {
									continue
								}
							}
						}
					}
					if b, ok := ci.Common().Value.(*ssa.Builtin); ok {
						if b.Name() == "len" {
							continue
						}
						if b.Name() == "delete" {
							found = append(found, esc{"is a key of " + t.mapName(ci.Common().Args[0]), r})
							continue
						}
					}
					name := "a function value"
					if cs := t.callees(ci); len(cs) > 0 {
						name = t.p.FnRef(cs[0])
					}
					found = append(found, esc{"is passed to " + name, r})
					continue
				}
				found = append(found, esc{"is used as a value", r})
			}
		}
	}
	if len(found) == 0 {
		return "", nil
	}
	sort.SliceStable(found, func(i, j int) bool {
		if found[i].what != found[j].what {
			return found[i].what < found[j].what
		}
		return found[i].at.Pos() < found[j].at.Pos()
	})
	return found[0].what, found[0].at
}

// mapName names a map by the struct field it is kept in, else by its type.
func (t *pf3) mapName(m ssa.Value) string {
	for {
		if ct, ok := m.(*ssa.ChangeType); ok {
			m = ct.X
			continue
		}
		break
	}
	if u, ok := m.(*ssa.UnOp); ok && u.Op == token.MUL {
		if fa, ok := u.X.(*ssa.FieldAddr); ok {
			if fv, _ := pf3FieldVar(fa); fv != nil {
				return "the map " + pf3OwnerName(fa.X.Type()) + "." + fv.Name()
			}
		}
	}
	return "a " + types.TypeString(m.Type(), func(pk *types.Package) string { return pk.Name() })
}

func pf3Captured(a *ssa.Alloc) bool {
	for _, r := range *a.Referrers() {
		switch x := r.(type) {
		case *ssa.UnOp:
		case *ssa.Store:
			if x.Addr != a {
				return true
			}
		case *ssa.DebugRef:
		default:
			return true
		}
	}
	return false
}

// origin describes where the folded path comes from (no local names: keys survive renamings).
func (t *pf3) origin(v ssa.Value) (string, ssa.Value) {
	switch x := v.(type) {
	case *ssa.Parameter:
		for i, q := range x.Parent().Params {
			if q == x {
				if x.Parent().Signature.Recv() != nil {
					if i == 0 {
						return "the receiver", nil
					}
					i--
				}
				return fmt.Sprintf("parameter %d", i), nil
			}
		}
	case *ssa.UnOp:
		if x.Op == token.MUL {
			if fa, ok := x.X.(*ssa.FieldAddr); ok {
				if fv, _ := pf3FieldVar(fa); fv != nil {
					return "field " + pf3OwnerName(fa.X.Type()) + "." + fv.Name(), fa.X
				}
			}
		}
	case *ssa.Field:
		if fv, _ := pf3FieldVar(x); fv != nil {
			return "field " + pf3OwnerName(x.X.Type()) + "." + fv.Name(), nil
		}
	case *ssa.Call:
		if cs := t.p.Callees(x); len(cs) > 0 {
			return "the result of " + t.p.FnRef(cs[0]), nil
		}
	case *ssa.Extract:
		if call, ok := x.Tuple.(*ssa.Call); ok {
			if cs := t.p.Callees(call); len(cs) > 0 {
				return "the result of " + t.p.FnRef(cs[0]), nil
			}
		}
	}
	return "a path value", nil
}

func pf3OwnerName(tp types.Type) string {
	if pt, ok := tp.Underlying().(*types.Pointer); ok {
		tp = pt.Elem()
	}
	if n, ok := tp.(*types.Named); ok {
		return n.Obj().Name()
	}
	return "struct"
}

// sameObject: the two values denote the same struct — the same SSA value, or loads of one local cell.
func pf3SameObject(a, b ssa.Value) bool {
	if a == b {
		return true
	}
	la, ok1 := a.(*ssa.UnOp)
	lb, ok2 := b.(*ssa.UnOp)
	if ok1 && ok2 && la.Op == token.MUL && lb.Op == token.MUL && la.X == lb.X {
		if _, isCell := la.X.(*ssa.Alloc); isCell {
			return true
		}
	}
	return false
}

// executable decides whether the fold call can run in the analysed configuration when the object
// whose field is folded (owner, may be nil) is a file-backed table.
func (t *pf3) executable(c *Ctx, fold *ssa.Call, owner ssa.Value, viewTypeFile constant.Value) bool {
	p := t.p
	isViewType := func(fa *ssa.FieldAddr) bool {
		fv, _ := pf3FieldVar(fa)
		return fv != nil && fv.Name() == "ViewType" && fv.Pkg() != nil && core.Short(fv.Pkg().Path()) == "lib/query" && pf3OwnerName(fa.X.Type()) == "FileInfo"
	}
	// predicate methods of the owner evaluated with ViewType = file
	predicate := func(m *ssa.Function) (core.PV, bool) {
		if m.Blocks == nil || len(m.Params) != 1 {
			return core.PV{}, false
		}
		ev := &core.PEval{P: p, Refine: func(fn *ssa.Function, v ssa.Value) (core.PV, bool) {
			if u, ok := v.(*ssa.UnOp); ok && u.Op == token.MUL && fn == m {
				if fa, ok := u.X.(*ssa.FieldAddr); ok && fa.X == m.Params[0] && isViewType(fa) {
					return core.PVConst(viewTypeFile), true
				}
			}
			return core.PV{}, false
		}}
		fr := ev.Run(m, nil)
		if _, known := fr.Result.Bool(); known {
			return fr.Result, true
		}
		return core.PV{}, false
	}
	fn := fold.Parent()
	ev := &core.PEval{P: p, Refine: func(f *ssa.Function, v ssa.Value) (core.PV, bool) {
		if f != fn || owner == nil || viewTypeFile == nil {
			return core.PV{}, false
		}
		switch x := v.(type) {
		case *ssa.UnOp:
			if x.Op == token.MUL {
				if fa, ok := x.X.(*ssa.FieldAddr); ok && isViewType(fa) && pf3SameObject(fa.X, owner) {
					return core.PVConst(viewTypeFile), true
				}
			}
		case *ssa.Call:
			m := core.StaticCallee(x)
			if m == nil || m.Signature.Recv() == nil || len(x.Call.Args) != 1 || !pf3SameObject(x.Call.Args[0], owner) {
				return core.PV{}, false
			}
			if b, ok := m.Signature.Results().At(0).Type().Underlying().(*types.Basic); !ok || m.Signature.Results().Len() != 1 || b.Kind() != types.Bool {
				return core.PV{}, false
			}
			return predicate(m)
		}
		return core.PV{}, false
	}}
	return ev.Run(fn, nil).Executable(fold.Block())
}

func rulePath3(c *Ctx) {
	p := c.P
	t := &pf3{p: p, vals: map[ssa.Value]bool{}, fields: map[*types.Var]bool{}, mapFields: map[*types.Var]bool{},
		fieldLoads: map[*types.Var][]ssa.Value{}, mapLookups: map[*types.Var][]*ssa.Lookup{}, globLoads: map[*ssa.Global][]ssa.Value{},
		sites: map[*ssa.Function][]ssa.CallInstruction{}, fieldName: map[*types.Var]string{}, fieldPos: map[*types.Var]string{}, owns: map[*types.Struct]bool{}, own: map[*ssa.Function]bool{}, from: map[ssa.Value]ssa.Value{}}
	t.index()
	t.solve()

	// the discriminator of FileInfo: anchors by package + type + name
	var viewTypeFile constant.Value
	if pk := p.ByPath["lib/query"]; pk != nil && pk.Types != nil {
		if k, ok := pk.Types.Scope().Lookup("ViewTypeFile").(*types.Const); ok {
			viewTypeFile = k.Val()
		}
	}
	if viewTypeFile == nil {
		c.Unknown("anchor:lib/query.ViewTypeFile", "-", "cannot-analyse: the constant lib/query.ViewTypeFile (discriminator of FileInfo objects whose Path is a file path) does not resolve")
	}
	// the role must find the identity fields of today's tree
	var fnames []string
	fpos := map[string]string{}
	for fv := range t.fields {
		if n := t.fieldName[fv]; strings.HasPrefix(n, "lib/") && !strings.HasPrefix(n, core.ControlPkg) {
			fnames = append(fnames, n)
			fpos[n] = t.fieldPos[fv]
		}
	}
	sort.Strings(fnames)
	for _, n := range fnames {
		c.Ok("identity field "+n+": holds a path as resolved on disk", fpos[n], "a string field of a file-owning struct into which a path value is stored; its loads are path values")
	}
	if len(fnames) == 0 {
		c.Unknown("anchor:path fields of file-owning structs", "-", "cannot-analyse: no string field of a struct that owns a *os.File is ever assigned a resolved path — the role that finds file.Handler.path / query.FileInfo.Path resolves to nothing")
	}

	type agg struct {
		status string
		pos    string
		why    string
		n      int
	}
	obs := map[string]*agg{}
	var keys []string
	for _, fold := range t.folds {
		arg := fold.Call.Args[0]
		if !t.vals[arg] {
			continue
		}
		fn := fold.Parent()
		c.Touch(fn)
		c.Sites++
		from, owner := t.origin(arg)
		what, at := t.escape(fold)
		foldName := core.StaticCallee(fold).Name()
		var key, status, why string
		switch {
		case what == "":
			key = pf3Key(c, fn, from, "is only compared")
			status = Discharged
			why = "strings." + foldName + " of " + from + ": every use of the result is a comparison or a predicate of strings / path/filepath"
		case !t.executable(c, fold, owner, viewTypeFile):
			key = pf3Key(c, fn, from, what+" — not on this platform / not for a file-backed table")
			status = Discharged
			why = "strings." + foldName + " of " + from + " " + what + ", but the call is not executable under constant propagation with the platform constants of the analysed configuration (GOOS=" + pf3GOOS(p) + ") and ViewType = ViewTypeFile for the object the field belongs to"
		default:
			key = pf3Key(c, fn, from, what)
			status = Violated
			why = "strings." + foldName + " of " + from + " (a path resolved on disk: origins filepath.Abs / Join … through arguments, results and the fields of file-owning structs " + strings.Join(fnames, ", ") + ") " + what + " at " + c.Pos(at) + ": two files whose names differ only in case get the same identity — one cache entry, one handler, one commit target (t.csv / T.csv on a case-sensitive file system)"
		}
		if status == Violated {
			why += "; the path reaches the call from " + t.trace(arg)
		}
		if a, ok := obs[key]; ok {
			a.n++
			continue
		}
		obs[key] = &agg{status: status, pos: c.Pos(fold), why: why, n: 1}
		keys = append(keys, key)
	}
	sort.Strings(keys)
	for _, k := range keys {
		a := obs[k]
		why := a.why
		if a.n > 1 {
			why += fmt.Sprintf(" (%d sites of this kind in the function)", a.n)
		}
		switch a.status {
		case Discharged:
			c.Ok(k, a.pos, why)
		default:
			c.Bad(k, a.pos, why)
		}
	}
}

// pf3Key: the construct is the origin of the path plus what becomes of the folded string. The enclosing function
// is part of it only where it is the construct itself (its own parameter is folded, or it returns the folded
// path): moving a fold of a resolver's result into a helper, next to the same sink, leaves the key alone.
func pf3Key(c *Ctx, fn *ssa.Function, from, what string) string {
	if c.P.IsControl(fn) || strings.HasPrefix(from, "parameter ") || from == "the receiver" || from == "a path value" || strings.HasPrefix(what, "is returned") || strings.HasPrefix(what, "is only compared") {
		return c.KeyAt(fn, "case-folded file path ("+from+") "+what)
	}
	pkg := "csvq"
	if pk := core.FnPkg(fn); pk != nil {
		pkg = core.Short(pk.Pkg.Path())
	}
	return pkg + ": case-folded file path (" + from + ") " + what
}

// trace lists the functions a path value travelled through, from the fold back to its source.
func (t *pf3) trace(v ssa.Value) string {
	var hops []string
	last := ""
	for i := 0; v != nil && i < 200; i++ {
		name := "?"
		if in, ok := v.(ssa.Instruction); ok && in.Parent() != nil {
			name = t.p.FnRef(in.Parent())
		} else if pa, ok := v.(*ssa.Parameter); ok {
			name = t.p.FnRef(pa.Parent())
		} else if fv, ok := v.(*ssa.FreeVar); ok {
			name = t.p.FnRef(fv.Parent())
		}
		if name != last {
			hops = append(hops, name)
			last = name
		}
		if call, ok := v.(*ssa.Call); ok && t.from[v] == nil {
			if n := pf3StdName(core.StaticCallee(call)); n != "" {
				hops = append(hops, n)
			}
		}
		if e, ok := v.(*ssa.Extract); ok && t.from[v] == nil {
			if call, ok := e.Tuple.(*ssa.Call); ok {
				if n := pf3StdName(core.StaticCallee(call)); n != "" {
					hops = append(hops, n)
				}
			}
		}
		v = t.from[v]
	}
	if len(hops) > 8 {
		hops = append(hops[:4], append([]string{"…"}, hops[len(hops)-3:]...)...)
	}
	return strings.Join(hops, " ← ")
}

func pf3GOOS(p *core.Prog) string {
	if p.GOOS != "" {
		return p.GOOS
	}
	return "host"
}
