package rules

import (
	"fmt"
	"go/token"
	"strings"

	"golang.org/x/tools/go/ssa"

	"verif/checker/core"
)

// R-FIXW-1 — a fixed-length writer has a position for every field (guards f048a16).
//
// go-text's fixedlen.Writer lays out ONE field per delimiter position and silently
// leaves out the fields that have no position. A table with more columns than
// positions is therefore written short: the file reads back with fewer fields (C02:
// "the same number of records and fields … a cell the format cannot spell is refused
// with an error and nothing is written"). Positions are right by construction when
// they are generated from a measure of the very field lists that are written
// ((*fixedlen.Measure).GeneratePositions); positions that come from anywhere else
// (DELIMITER_POSITIONS of the session or of the table) have to be counted against the
// view's fields before the writer is made.

const (
	fixwNewWriter = fxGoText + "/fixedlen.NewWriter"
	fixwGenerate  = "(*" + fxGoText + "/fixedlen.Measure).GeneratePositions"
	fixwViewT     = "lib/query.View"
)

func init() {
	Register(&Rule{ID: "R-FIXW-1", Props: []string{"C02"}, Floor: 2,
		Doc:      "a fixed-length writer has a position for every field: at every call of go-text's fixedlen.NewWriter in csvq, the delimiter positions handed over either all come out of (*fixedlen.Measure).GeneratePositions (followed through a field of a local options struct by the stores that reach the load) or the call is dominated by a branch that compares len(those positions) — the same value, or a load of the same field with the same reaching stores — with the field count of a view ((*View).FieldLen or len of View.Header), and the arm taken when the positions are fewer than the fields (for ==/!= : when the numbers differ) ends in error returns only — the writer leaves out the fields that have no position, so a table with more columns than positions would be written short without a word. Decides that the count is compared and refused, not the arithmetic of the positions",
		Controls: []string{"CtlFixwWriterWithoutCount", "CtlFixwCountRefusesTheWrongArm", "CtlFixwCountsRecords"},
		Run:      ruleFixw1})
}

// fixwFieldKey: a load of a field of a local struct -> (base cell, field index).
func fixwFieldLoad(v ssa.Value) (*ssa.FieldAddr, bool) {
	u, ok := v.(*ssa.UnOp)
	if !ok || u.Op != token.MUL {
		return nil, false
	}
	fa, ok := u.X.(*ssa.FieldAddr)
	if !ok {
		return nil, false
	}
	if _, isAlloc := fa.X.(*ssa.Alloc); !isAlloc {
		return nil, false
	}
	return fa, true
}

// fixwReaching: the values that may be in the field of a local struct when `at` (a load of
// it) executes: stored values, and `nil` for the value the struct had on entry / was
// initialised with as a whole.
func fixwReaching(fa *ssa.FieldAddr, at ssa.Instruction) []ssa.Value {
	var out []ssa.Value
	seenVal := map[ssa.Value]bool{}
	seen := map[*ssa.BasicBlock]bool{}
	add := func(v ssa.Value) {
		if !seenVal[v] {
			seenVal[v] = true
			out = append(out, v)
		}
	}
	var back func(b *ssa.BasicBlock, from int)
	back = func(b *ssa.BasicBlock, from int) {
		for i := from; i >= 0; i-- {
			st, ok := b.Instrs[i].(*ssa.Store)
			if !ok {
				continue
			}
			if sfa, ok := st.Addr.(*ssa.FieldAddr); ok && sfa.X == fa.X && sfa.Field == fa.Field {
				add(st.Val)
				return
			}
			if st.Addr == fa.X { // the whole struct is (re)initialised
				add(nil)
				return
			}
		}
		if len(b.Preds) == 0 {
			add(nil)
			return
		}
		for _, p := range b.Preds {
			if !seen[p] {
				seen[p] = true
				back(p, len(p.Instrs)-1)
			}
		}
	}
	back(at.Block(), core.InstrIndex(at)-1)
	return out
}

// fixwResolve expands a positions value: origins, with loads of a field of a local struct
// replaced by the stores that reach them. initial: the value the struct came with.
type fixwVal struct {
	v       ssa.Value      // a leaf origin (nil when initial)
	initial *ssa.FieldAddr // the field of the local struct as it was handed in
}

func fixwResolve(v ssa.Value) []fixwVal {
	var out []fixwVal
	seen := map[ssa.Value]bool{}
	var walk func(v ssa.Value)
	walk = func(v ssa.Value) {
		if v == nil || seen[v] {
			return
		}
		seen[v] = true
		for _, o := range core.Origins(v, true) {
			if fa, ok := fixwFieldLoad(o); ok {
				for _, s := range fixwReaching(fa, o.(ssa.Instruction)) {
					if s == nil {
						out = append(out, fixwVal{initial: fa})
					} else {
						walk(s)
					}
				}
				continue
			}
			out = append(out, fixwVal{v: o})
		}
	}
	walk(v)
	return out
}

func fixwSame(a, b []fixwVal) bool {
	if len(a) == 0 || len(a) != len(b) {
		return false
	}
	for _, x := range a {
		hit := false
		for _, y := range b {
			if x.v != nil && x.v == y.v {
				hit = true
			}
			if x.initial != nil && y.initial != nil && x.initial.X == y.initial.X && x.initial.Field == y.initial.Field {
				hit = true
			}
		}
		if !hit {
			return false
		}
	}
	return true
}

// fixwLenOf: v == len(x) -> x.
func fixwLenOf(v ssa.Value) ssa.Value {
	call, ok := v.(*ssa.Call)
	if !ok {
		return nil
	}
	if b, ok := call.Call.Value.(*ssa.Builtin); ok && b.Name() == "len" && len(call.Call.Args) == 1 {
		return call.Call.Args[0]
	}
	return nil
}

// fixwIsFieldCount: the number of fields of a view: (*View).FieldLen() or len(view.Header).
func fixwIsFieldCount(c *Ctx, v ssa.Value) bool {
	for _, o := range core.Origins(v, false) {
		if call, ok := o.(*ssa.Call); ok {
			if f := core.StaticCallee(call); f != nil && f.Name() == "FieldLen" && f.Signature.Recv() != nil && core.NamedOf(f.Signature.Recv().Type()) == fixwViewT {
				continue
			}
			if x := fixwLenOf(o); x != nil {
				okHeader := false
				for _, h := range core.Origins(x, true) {
					switch y := h.(type) {
					case *ssa.UnOp:
						if fa, ok := y.X.(*ssa.FieldAddr); ok && y.Op == token.MUL && core.NamedOf(fa.X.Type()) == fixwViewT && core.FieldName(fa) == "Header" {
							okHeader = true
						}
					case *ssa.Field:
						if core.NamedOf(y.X.Type()) == fixwViewT && core.FieldName(y) == "Header" {
							okHeader = true
						}
					}
				}
				if okHeader {
					continue
				}
			}
		}
		return false
	}
	return true
}

func ruleFixw1(c *Ctx) {
	sites := 0
	for _, fn := range c.P.SrcFuncs() {
		calls := c.P.CallsNamed(fn, fixwNewWriter)
		if len(calls) == 0 || (c.P.IsControl(fn) && !strings.Contains(fn.Name(), "Fixw")) {
			continue
		}
		c.Touch(fn)
		labels := map[string]int{}
		for _, call := range calls {
			if !c.P.IsControl(fn) {
				sites++
			}
			c.Sites++
			in, _ := call.(ssa.Instruction)
			args := call.Common().Args
			if len(args) < 2 || in == nil {
				continue
			}
			pos := fixwResolve(args[1])
			measured := len(pos) > 0
			for _, p := range pos {
				call, ok := p.v.(*ssa.Call)
				if !ok || c.P.CalleeName(call) != fixwGenerate {
					measured = false
				}
			}
			label := "given positions"
			if measured {
				label = "measured positions"
			}
			labels[label]++
			if labels[label] > 1 {
				label += fmt.Sprintf(" (%d)", labels[label])
			}
			key := c.KeyAt(fn, "fixedlen.NewWriter with "+label+" has a delimiter position for every field")
			if measured {
				c.Ok(key, c.Pos(in), "the positions come out of Measure.GeneratePositions: one position per measured field")
				continue
			}
			// a dominating comparison of len(positions) with the view's field count
			why := "no branch that dominates the call compares len(positions) with the field count of the view"
			done := false
			for _, b := range fn.Blocks {
				if done || len(b.Instrs) == 0 {
					continue
				}
				br, ok := b.Instrs[len(b.Instrs)-1].(*ssa.If)
				if !ok || !core.Dominates(br, in) {
					continue
				}
				cmp, ok := br.Cond.(*ssa.BinOp)
				if !ok {
					continue
				}
				var other ssa.Value
				lenLeft := false
				if x := fixwLenOf(cmp.X); x != nil && fixwSame(fixwResolve(x), pos) {
					other, lenLeft = cmp.Y, true
				} else if y := fixwLenOf(cmp.Y); y != nil && fixwSame(fixwResolve(y), pos) {
					other = cmp.X
				} else {
					continue
				}
				if !fixwIsFieldCount(c, other) {
					why = "the branch at " + c.Pos(br) + " compares len(positions) with " + valueLabel(other) + ", which is not the field count of a view ((*View).FieldLen or len of View.Header)"
					continue
				}
				// which arm is taken when the positions are fewer than the fields?
				op := cmp.Op
				if !lenLeft { // N op len  ==  len op' N
					switch op {
					case token.LSS:
						op = token.GTR
					case token.GTR:
						op = token.LSS
					case token.LEQ:
						op = token.GEQ
					case token.GEQ:
						op = token.LEQ
					}
				}
				var arm int
				switch op {
				case token.LSS, token.NEQ: // len < N, len != N : true arm
					arm = 0
				case token.GEQ, token.EQL: // len >= N, len == N : false arm
					arm = 1
				default: // len <= N, len > N: `fewer` is not separated from `equal`
					why = "the branch at " + c.Pos(br) + " compares len(positions) with the field count by " + op.String() + ", which does not separate `fewer positions than fields` from the accepted case"
					continue
				}
				if arm >= len(b.Succs) {
					continue
				}
				if impOnlyErrorReturns(fn, b.Succs[arm]) {
					c.Ok(key, c.Pos(br), "a dominating branch compares len(positions) with the field count; the arm for fewer positions than fields ends in error returns only")
					done = true
				} else {
					why = "the branch at " + c.Pos(br) + " compares len(positions) with the field count, but the arm taken when the positions are fewer than the fields does not end in error returns only"
				}
			}
			if !done {
				c.Bad(key, c.Pos(in), "the delimiter positions handed to fixedlen.NewWriter do not (all) come out of Measure.GeneratePositions, and "+why+": the writer lays out one field per position and leaves out the fields that have no position, so a table with more columns than positions is written short and reads back with fewer fields")
			}
		}
	}
	if sites == 0 {
		c.Unknown("anchor:"+fixwNewWriter, "-", "cannot-analyse: no call of "+fixwNewWriter+" in csvq")
	}
}
