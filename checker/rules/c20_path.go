package rules

import (
	"fmt"
	"sort"
	"strings"

	"golang.org/x/tools/go/ssa"

	"verif/checker/core"
)

// R-PATH-1 — one file, one path.
//
// FileInfo.Path is the table's identity everywhere: upper-cased it is the key
// of the view cache (a second spelling of the same file re-reads it in the
// middle of a transaction: C20), it is the path the lock / temp control files
// are derived from and the key of the handler container (two spellings are two
// lock holders of one file: C09). The functions that resolve a table identifier
// to that path must therefore return a cleaned absolute path on every success
// return.

func init() {
	Register(&Rule{ID: "R-PATH-1", Props: []string{"C20", "C09"}, Floor: 12,
		Doc:      "canonical table paths: the path-resolving functions are found by role — package-level functions with a (string, …, error) result whose string flows into the Path of a FileInfo built with ViewTypeFile, or through strings.ToUpper into an argument of a ViewMap method (cache key) — together with the csvq functions their results come from; in each of them every return that is not provably an error yields a string all of whose origins are results of filepath.Abs / filepath.Clean / filepath.EvalSymlinks or of another function of that set, the Path of a FileInfo, the empty string, or a lookup in a lib/query map field into which only such values are ever stored (a parameter, a filepath.Join, a concatenation or an element of a slice is not canonical: `/dir/./t.csv` and `/dir/t.csv` would be two cache keys and two lock holders of one file); and every file FileInfo.Path is stored from such a result",
		Controls: []string{"CtlResolveWithoutClean"},
		Run:      rulePath1})
}

var canonicalPathFuncs = map[string]bool{
	"path/filepath.Abs": true, "path/filepath.Clean": true, "path/filepath.EvalSymlinks": true,
}

const (
	fldFIViewType = "lib/query.FileInfo.ViewType"
)

// resultCallOf: v is result #0 of a call; returns the call.
func resultCallOf(v ssa.Value) *ssa.Call {
	call, idx, ok := core.ExtractOf(v)
	if !ok || idx != 0 {
		return nil
	}
	return call
}

// isResolverShaped: package-level csvq function returning (string, …, error).
func isResolverShaped(p *core.Prog, f *ssa.Function) bool {
	if f == nil || f.Blocks == nil || f.Parent() != nil || f.Signature.Recv() != nil || p.Name(f) == f.String() {
		return false
	}
	res := f.Signature.Results()
	return res.Len() >= 2 && isString(res.At(0).Type()) && core.IsErrorType(res.At(res.Len()-1).Type())
}

func rulePath1(c *Ctx) {
	p := c.P
	vtFile, ok := mustEnum(c, "lib/query", "ViewTypeFile")
	if !ok {
		return
	}
	scope := p.FuncsIn(true, "lib/query")
	resolvers := map[*ssa.Function]bool{}
	// role (a): the Path of a file FileInfo
	nStores := 0
	for _, fn := range scope {
		// allocations that get ViewType = ViewTypeFile
		fileInfos := map[ssa.Value]bool{}
		for _, b := range fn.Blocks {
			for _, in := range b.Instrs {
				if st, ok := in.(*ssa.Store); ok {
					if fa, ok := st.Addr.(*ssa.FieldAddr); ok && core.FieldOwner(fa) == fldFIViewType {
						if v, ok := core.ConstInt(st.Val); ok && v == vtFile {
							fileInfos[fa.X] = true
						}
					}
				}
			}
		}
		if len(fileInfos) == 0 {
			continue
		}
		idx := 0
		for _, b := range fn.Blocks {
			for _, in := range b.Instrs {
				st, ok := in.(*ssa.Store)
				if !ok {
					continue
				}
				fa, ok := st.Addr.(*ssa.FieldAddr)
				if !ok || core.FieldOwner(fa) != fldFIPath || !fileInfos[fa.X] {
					continue
				}
				idx++
				if !p.IsControl(fn) {
					nStores++
				}
				c.Sites++
				c.Touch(fn)
				key := c.KeyAt(fn, "Path of the file FileInfo comes from a path resolver")
				if idx > 1 {
					key += " " + ordinal(idx)
				}
				bad := ""
				for _, o := range core.Origins(st.Val, false) {
					call := resultCallOf(o)
					switch {
					case call != nil && canonicalPathFuncs[p.CalleeName(call)]:
					case call != nil && isResolverShaped(p, core.StaticCallee(call)):
						resolvers[core.StaticCallee(call)] = true
					default:
						bad = valueLabel(o)
					}
				}
				c.Check(bad == "", key, c.Pos(st), "stored from the result of a path-resolving function",
					"FileInfo.Path of a file table is set from "+bad+", which is not the result of a path-resolving function: the cache key and the lock path of this table are not canonical")
			}
		}
	}
	// role (b): cache keys strings.ToUpper(resolve(…)) handed to a ViewMap method
	for _, fn := range scope {
		for _, k := range core.Calls(fn) {
			up, ok := k.(*ssa.Call)
			if !ok || !calleeIn(p, k, "strings.ToUpper") || len(up.Call.Args) != 1 {
				continue
			}
			toViewMap := false
			for _, r := range *up.Referrers() {
				if uk, ok := r.(ssa.CallInstruction); ok {
					if f := core.StaticCallee(uk); f != nil && f.Signature.Recv() != nil && core.NamedOf(f.Signature.Recv().Type()) == "lib/query.ViewMap" {
						toViewMap = true
					}
				}
			}
			if !toViewMap {
				continue
			}
			for _, o := range core.Origins(up.Call.Args[0], false) {
				if call := resultCallOf(o); call != nil && isResolverShaped(p, core.StaticCallee(call)) {
					resolvers[core.StaticCallee(call)] = true
				}
			}
		}
	}
	if nStores == 0 {
		c.Unknown("anchor:FileInfo{ViewType: ViewTypeFile}", "-", "cannot-analyse: no function of lib/query builds a FileInfo with ViewTypeFile and a Path any more")
		return
	}
	// carriers of already resolved paths
	mapOK := map[string]int{}
	var pathOrigin func(o ssa.Value, follow *[]*ssa.Function, depth int) bool
	mapFieldOK := func(fld string) bool {
		switch mapOK[fld] {
		case 1:
			return true
		case 2:
			return false
		}
		mapOK[fld] = 1 // optimistic for recursion
		ok := true
		for _, fn := range p.SrcFuncs() {
			for _, b := range fn.Blocks {
				for _, in := range b.Instrs {
					mu, isMU := in.(*ssa.MapUpdate)
					if !isMU || lastField(mu.Map) != fld {
						continue
					}
					for _, o := range core.Origins(mu.Value, false) {
						if par, isPar := o.(*ssa.Parameter); isPar {
							f := par.Parent()
							idx := -1
							for i, q := range f.Params {
								if q == par {
									idx = i
								}
							}
							sites := callerSites(p, f)
							if idx < 0 || len(sites) == 0 {
								ok = false
							}
							for _, s := range sites {
								if idx >= len(s.Common().Args) {
									ok = false
									continue
								}
								for _, ao := range core.Origins(s.Common().Args[idx], false) {
									var sink []*ssa.Function
									if !pathOrigin(ao, &sink, 1) {
										ok = false
									}
								}
							}
							continue
						}
						var sink []*ssa.Function
						if !pathOrigin(o, &sink, 1) {
							ok = false
						}
					}
				}
			}
		}
		if ok {
			mapOK[fld] = 1
		} else {
			mapOK[fld] = 2
		}
		return ok
	}
	// pathOrigin: o is a canonical path or carries one; functions whose result it
	// is are appended to follow (they are judged themselves).
	pathOrigin = func(o ssa.Value, follow *[]*ssa.Function, depth int) bool {
		if s, isC := core.ConstString(o); isC && s == "" {
			return true // the empty string is no path: it names no file and collides with nothing
		}
		if lastField(o) == fldFIPath {
			return true // the Path of a FileInfo: canonical by the store obligations above
		}
		// a map of remembered paths: every value ever stored in it is one
		var lk *ssa.Lookup
		switch x := o.(type) {
		case *ssa.Lookup:
			lk = x
		case *ssa.Extract:
			if l, ok := x.Tuple.(*ssa.Lookup); ok && x.Index == 0 {
				lk = l
			}
		}
		if lk != nil {
			if fld := lastField(lk.X); fld != "" && strings.HasPrefix(fld, "lib/query.") {
				return mapFieldOK(fld)
			}
			return false
		}
		call := resultCallOf(o)
		if call == nil {
			return false
		}
		if canonicalPathFuncs[p.CalleeName(call)] {
			return true
		}
		f := core.StaticCallee(call)
		if f == nil || f.Blocks == nil || p.Name(f) == f.String() || f.Signature.Results().Len() == 0 || !isString(f.Signature.Results().At(0).Type()) {
			return false
		}
		*follow = append(*follow, f)
		return true
	}
	// closure: the csvq functions the resolvers' results come from
	var work []*ssa.Function
	for f := range resolvers {
		work = append(work, f)
	}
	type verdict struct {
		bad []string
		n   int
	}
	verdicts := map[*ssa.Function]*verdict{}
	for len(work) > 0 {
		f := work[len(work)-1]
		work = work[:len(work)-1]
		if verdicts[f] != nil {
			continue
		}
		v := &verdict{}
		verdicts[f] = v
		for _, r := range realReturns(f) {
			if _, nonNil := errOperandKinds(c, r); nonNil {
				continue
			}
			v.n++
			for _, val := range returnOperandDeep(r, 0) {
				if val == nil {
					continue // zero value of a result cell: the empty string
				}
				for _, o := range core.Origins(val, false) {
					if !pathOrigin(o, &work, 0) {
						v.bad = append(v.bad, fmt.Sprintf("the return at %s can yield %s", c.Pos(r), valueLabel(o)))
					}
				}
			}
		}
	}
	var fs []*ssa.Function
	for f := range verdicts {
		fs = append(fs, f)
	}
	sort.Slice(fs, func(i, j int) bool { return p.Name(fs[i]) < p.Name(fs[j]) })
	for _, f := range fs {
		v := verdicts[f]
		c.Touch(f)
		key := c.KeyAt(f, "success returns yield a cleaned absolute path")
		switch {
		case v.n == 0:
			c.Unknown(key, c.FnPos(f), "no return that can report success")
		case len(v.bad) > 0:
			sort.Strings(v.bad)
			c.Bad(key, c.FnPos(f), strings.Join(v.bad, "; ")+", which has not passed filepath.Abs / Clean / EvalSymlinks (nor comes from a function that guarantees it): two spellings of one file (`/dir/./t.csv`, `/dir/t.csv`, `/dir/x/../t.csv`) become two FileInfo.Path values — two cache keys, so the second spelling re-reads the file in the middle of the transaction, and two lock files, so both can hold the same table for update")
		default:
			c.Ok(key, c.FnPos(f), fmt.Sprintf("%d success return(s), every origin a filepath.Abs / Clean / EvalSymlinks result or the result of a function of this set", v.n))
		}
	}
}
