package rules

// R-BIND-1 — expressions handed to another statement through the context are bound first.
//
// EXECUTE … USING and OPEN … USING hand the values of their USING clause to the prepared statement
// through the context (a *ReplaceValues under StatementReplaceValuesContextKey); evalPlaceholder reads
// them wherever a placeholder occurs. If the carrier holds the expressions of the USING clause as
// they were parsed, each of them is evaluated again by every occurrence of its placeholder and for
// every row, in the scope of that row: `USING @i := @i + 1 AS a` gives `:a` a different value each
// time, `USING id + 0` resolves `id` against the tables of the prepared statement, and a cursor
// opened with such a value is not the result of one evaluation of its query.
//
// Decided for every struct type of lib/query that has a slot for syntax-tree expressions
// (parser.QueryExpression / []parser.QueryExpression) and a pointer to which is put in a context with
// context.WithValue: the value put there is followed back (phi, parameters to every call site, the
// copy `linked := *values`, fields of the carrier's own type) to where it comes from, and each origin
// is (a) nil, (b) taken out of a context (it went through this rule when it was put in) or (c) the
// result of a *binder*: a function that can reach Evaluate and fills the expression slot with
// literals (parser.PrimitiveType) whose Value is the result of a call reaching Evaluate — and stores
// nothing else in the slot.

import (
	"fmt"
	"go/token"
	"go/types"

	"golang.org/x/tools/go/ssa"

	"verif/checker/core"
)

func init() {
	Register(&Rule{ID: "R-BIND-1", Props: []string{"C14", "C16"}, Floor: 3,
		Doc:      "every struct of lib/query with a slot for syntax-tree expressions (parser.QueryExpression or a slice of it) whose pointer is put in a context by context.WithValue (ReplaceValues: the USING values of EXECUTE and OPEN, read back by evalPlaceholder in the scope of whatever row the placeholder occurs in) enters the context bound: followed back through phis, parameters (to every call site), whole-struct copies and fields of the carrier's own type, the value is nil, was itself taken out of a context, or is the result of a function that can reach Evaluate, stores parser.PrimitiveType literals whose Value comes from a call reaching Evaluate — into the slot itself, or into a list it built and hands to the constructor — and stores no other expression into a field or element — so a USING value is evaluated once, by the statement that has the USING clause, not once per placeholder occurrence and row in the prepared statement's scope",
		Controls: []string{"CtlBindUnboundValues", "CtlBindKeepsExpression", "CtlBindListIgnored"},
		Run:      ruleBind1})
}

const bindTExpr = "lib/parser.QueryExpression"

// bindSlots returns the indices of the expression slots of a (pointer to a) named struct type.
func bindSlots(t types.Type) (string, []int) {
	p, ok := t.Underlying().(*types.Pointer)
	if !ok {
		return "", nil
	}
	name := core.NamedOf(p.Elem())
	st, ok := p.Elem().Underlying().(*types.Struct)
	if !ok || name == "" {
		return "", nil
	}
	var out []int
	for i := 0; i < st.NumFields(); i++ {
		ft := st.Field(i).Type()
		if core.NamedOf(ft) == bindTExpr {
			out = append(out, i)
		} else if sl, ok := ft.Underlying().(*types.Slice); ok && core.NamedOf(sl.Elem()) == bindTExpr {
			out = append(out, i)
		}
	}
	return name, out
}

type bindRun struct {
	c       *Ctx
	funcs   []*ssa.Function
	isEval  func(*ssa.Function) bool
	seen    map[ssa.Value]bool
	binders map[*ssa.Function]string // "" = binder, otherwise the reason it is not
	real    int
}

func ruleBind1(c *Ctx) {
	start := len(c.Obs)
	eval := c.Fn("lib/query.Evaluate")
	if eval == nil {
		return
	}
	r := &bindRun{c: c, isEval: func(f *ssa.Function) bool { return f == eval }, seen: map[ssa.Value]bool{}, binders: map[*ssa.Function]string{}}
	r.funcs = c.P.FuncsIn(true, "lib/query")
	entries := 0
	for _, fn := range r.funcs {
		for _, b := range fn.Blocks {
			for _, in := range b.Instrs {
				call, ok := in.(*ssa.Call)
				if !ok || c.P.CalleeName(call) != "context.WithValue" || len(call.Call.Args) != 3 {
					continue
				}
				v := call.Call.Args[2]
				if mi, ok := v.(*ssa.MakeInterface); ok {
					v = mi.X
				}
				tn, slots := bindSlots(v.Type())
				if len(slots) == 0 {
					continue
				}
				entries++
				c.Touch(fn)
				r.resolve(v, fn, tn, 0)
			}
		}
	}
	if entries == 0 {
		c.Unknown("anchor:context.WithValue(*carrier)", "-", "cannot-analyse: no struct with an expression slot is put in a context any more (how do the USING values reach evalPlaceholder?)")
	}
	c.negControls(start, "okBindEvaluated:", "okBindEvaluatedList:")
}

// resolve follows v (a pointer to a carrier, in fn) back to its origins and judges each.
func (r *bindRun) resolve(v ssa.Value, fn *ssa.Function, tn string, depth int) {
	c := r.c
	if r.seen[v] {
		return
	}
	r.seen[v] = true
	pos := c.FnPos(fn)
	if in, ok := v.(ssa.Instruction); ok {
		pos = c.Pos(in)
	}
	if depth > 6 {
		c.Unknown(c.KeyAt(fn, "origin of the "+tn+" that enters a context"), pos, "cannot-analyse: followed through more than 6 steps")
		return
	}
	switch x := v.(type) {
	case *ssa.Const:
		if x.Value == nil {
			return // nil: no values
		}
	case *ssa.Phi:
		for _, e := range x.Edges {
			r.resolve(e, fn, tn, depth)
		}
		return
	case *ssa.Extract:
		if ta, ok := x.Tuple.(*ssa.TypeAssert); ok && bindFromContext(ta.X) {
			r.ok(fn, tn, pos, "taken out of a context", "it was bound when it was put there")
			return
		}
		if call, ok := x.Tuple.(*ssa.Call); ok {
			r.seen[call] = false
			r.resolve(call, fn, tn, depth)
			return
		}
	case *ssa.TypeAssert:
		if bindFromContext(x.X) {
			r.ok(fn, tn, pos, "taken out of a context", "it was bound when it was put there")
			return
		}
	case *ssa.Parameter:
		if fn.Parent() != nil {
			break
		}
		idx := -1
		for i, p := range fn.Params {
			if p == x {
				idx = i
			}
		}
		n := 0
		for _, e := range c.P.Callers(fn) {
			if e.Site == nil || idx < 0 || e.Site.Common().IsInvoke() || idx >= len(e.Site.Common().Args) || e.Site.Common().StaticCallee() != fn {
				continue
			}
			in := false
			for _, f := range r.funcs {
				if f == e.Caller.Func {
					in = true
				}
			}
			if !in {
				continue
			}
			n++
			c.Touch(e.Caller.Func)
			r.resolve(e.Site.Common().Args[idx], e.Caller.Func, tn, depth+1)
		}
		if n == 0 {
			r.ok(fn, tn, pos, "parameter "+x.Name()+" of a function nobody calls", "no value enters here")
		}
		return
	case *ssa.Alloc:
		// linked := *values — a copy of a carrier that is judged where it comes from
		whole := 0
		for _, ref := range *x.Referrers() {
			st, ok := ref.(*ssa.Store)
			if !ok || st.Addr != ssa.Value(x) {
				continue
			}
			if u, ok := st.Val.(*ssa.UnOp); ok && u.Op == token.MUL {
				whole++
				r.resolve(u.X, fn, tn, depth+1)
			} else {
				whole = -1 << 20
			}
		}
		if whole > 0 {
			return
		}
		r.bad(fn, tn, pos, "a "+tn+" built in place", "it is filled field by field in "+c.P.Name(fn)+" and not by a function that evaluates the expressions")
		return
	case *ssa.UnOp:
		if x.Op != token.MUL {
			break
		}
		if fa, ok := x.X.(*ssa.FieldAddr); ok {
			owner, fname := core.NamedOf(fa.X.Type()), core.FieldName(fa)
			n := 0
			for _, g := range r.funcs {
				for _, b := range g.Blocks {
					for _, in := range b.Instrs {
						st, ok := in.(*ssa.Store)
						if !ok {
							continue
						}
						fa2, ok := st.Addr.(*ssa.FieldAddr)
						if !ok || core.NamedOf(fa2.X.Type()) != owner || core.FieldName(fa2) != fname {
							continue
						}
						n++
						c.Touch(g)
						r.resolve(st.Val, g, tn, depth+1)
					}
				}
			}
			if n == 0 {
				r.ok(fn, tn, pos, "field "+owner+"."+fname+" that nothing stores into", "it is always nil")
			}
			return
		}
	case *ssa.Call:
		callee := x.Call.StaticCallee()
		if callee == nil || callee.Blocks == nil {
			break
		}
		why, known := r.binders[callee]
		if !known {
			why = r.binder(callee, tn)
			r.binders[callee] = why
		}
		c.Touch(callee)
		if why == "" {
			r.ok(fn, tn, pos, "result of "+shortCallee(c.P.Name(callee)), c.P.Name(callee)+" evaluates the expressions and fills the slot with the resulting literals")
		} else {
			r.bad(fn, tn, pos, "result of "+shortCallee(c.P.Name(callee)), c.P.Name(callee)+" "+why)
		}
		return
	}
	c.Unknown(c.KeyAt(fn, "origin of the "+tn+" that enters a context"), pos, fmt.Sprintf("cannot-analyse: the value %s (%T) is none of: nil, a phi, a parameter, a copy, a field of the carrier, the result of a call", v.Name(), v))
}

func (r *bindRun) key(fn *ssa.Function, tn, what string) string {
	return r.c.KeyAt(fn, fmt.Sprintf("the %s that enters a context (%s) holds values, not expressions", tn, what))
}

func (r *bindRun) ok(fn *ssa.Function, tn, pos, what, why string) {
	r.c.Sites++
	r.c.Ok(r.key(fn, tn, what), pos, why)
}

func (r *bindRun) bad(fn *ssa.Function, tn, pos, what, why string) {
	r.c.Sites++
	r.c.Bad(r.key(fn, tn, what), pos, why+": the expressions of the USING clause travel as they were parsed and evalPlaceholder evaluates them again at every occurrence of the placeholder and for every row, in the scope of that row — a side-effecting or non-deterministic value differs between occurrences (`USING @i := @i + 1 AS a` makes `SELECT :a, :a` return 1, 2), a column name in the value resolves against the prepared statement's tables, and OPEN … USING does not evaluate the cursor's query once")
}

// bindFromContext: v is the result of Value(key) on a context.Context.
func bindFromContext(v ssa.Value) bool {
	call, ok := v.(*ssa.Call)
	if !ok || !call.Call.IsInvoke() || call.Call.Method.Name() != "Value" {
		return false
	}
	return core.NamedOf(call.Call.Value.Type()) == "context.Context"
}

// bindCarriesExpr: values of type t can hold syntax-tree expressions (an expression, a struct with an
// expression field, a slice / pointer of those).
func bindCarriesExpr(t types.Type, depth int) bool {
	if depth > 3 {
		return false
	}
	if core.NamedOf(t) == bindTExpr {
		if _, isPtr := t.(*types.Pointer); !isPtr {
			return true
		}
	}
	switch u := t.Underlying().(type) {
	case *types.Slice:
		return bindCarriesExpr(u.Elem(), depth+1)
	case *types.Pointer:
		return bindCarriesExpr(u.Elem(), depth+1)
	case *types.Struct:
		for i := 0; i < u.NumFields(); i++ {
			if bindCarriesExpr(u.Field(i).Type(), depth+1) {
				return true
			}
		}
	}
	return false
}

// binder returns "" when fn evaluates expressions and the carrier it returns holds the resulting
// literals, otherwise the reason why not. Two spellings: the literals are stored into the carrier's
// expression slot, or the carrier is made by a constructor from a list that fn built itself and filled
// with the literals. In both, every expression fn stores into a field or an element is such a literal.
func (r *bindRun) binder(fn *ssa.Function, tn string) string {
	c := r.c
	if !c.P.FnReaches(fn, r.isEval) {
		return "cannot reach Evaluate"
	}
	lits, slotLits, others := 0, 0, 0
	var otherPos string
	for _, b := range fn.Blocks {
		for _, in := range b.Instrs {
			st, ok := in.(*ssa.Store)
			if !ok || core.NamedOf(st.Val.Type()) != bindTExpr {
				continue
			}
			if _, isPtr := st.Val.Type().(*types.Pointer); isPtr {
				continue
			}
			inSlot := false
			switch a := st.Addr.(type) {
			case *ssa.IndexAddr:
				if u, ok := a.X.(*ssa.UnOp); ok && u.Op == token.MUL {
					if fa, ok := u.X.(*ssa.FieldAddr); ok && core.NamedOf(fa.X.Type()) == tn {
						inSlot = true
					}
				}
			case *ssa.FieldAddr:
				inSlot = core.NamedOf(a.X.Type()) == tn
			default:
				continue // a local variable
			}
			if r.evaluatedLiteral(st.Val) {
				lits++
				if inSlot {
					slotLits++
				}
			} else {
				others++
				otherPos = c.Pos(st)
			}
		}
	}
	switch {
	case others > 0:
		return "stores an expression that is not an evaluated literal into a field or element (" + otherPos + ")"
	case lits == 0:
		return "reaches Evaluate but never stores a literal (parser.PrimitiveType holding the result) where the carrier is filled from"
	case slotLits > 0:
		return ""
	}
	// the carrier is made from what fn built: no expression-bearing parameter of fn goes into a call that yields the carrier
	for _, ret := range core.Returns(fn) {
		for i := 0; i < len(ret.Results); i++ {
			for _, v := range core.ReturnOperand(ret, i) {
				if v == nil || core.NamedOf(v.Type()) != tn {
					continue
				}
				for _, o := range core.Origins(v, false) {
					call, ok := o.(*ssa.Call)
					if !ok {
						continue
					}
					for _, a := range call.Call.Args {
						if !bindCarriesExpr(a.Type(), 0) {
							continue
						}
						for _, ao := range core.Origins(a, true) {
							if p, ok := ao.(*ssa.Parameter); ok {
								return "makes the carrier from its parameter " + p.Name() + " as it was parsed (" + c.Pos(call) + "), not from the literals it built"
							}
						}
					}
				}
			}
		}
	}
	return ""
}

// evaluatedLiteral: v is a parser.PrimitiveType (as an interface) whose Value field was given the
// result of a call that reaches Evaluate.
func (r *bindRun) evaluatedLiteral(v ssa.Value) bool {
	mi, ok := v.(*ssa.MakeInterface)
	if !ok || core.NamedOf(mi.X.Type()) != "lib/parser.PrimitiveType" {
		return false
	}
	u, ok := mi.X.(*ssa.UnOp)
	if !ok || u.Op != token.MUL {
		return false
	}
	al, ok := u.X.(*ssa.Alloc)
	if !ok {
		return false
	}
	for _, ref := range *al.Referrers() {
		fa, ok := ref.(*ssa.FieldAddr)
		if !ok || core.FieldName(fa) != "Value" {
			continue
		}
		for _, ref2 := range *fa.Referrers() {
			st, ok := ref2.(*ssa.Store)
			if !ok || st.Addr != ssa.Value(fa) {
				continue
			}
			val := st.Val
			if ex, ok := val.(*ssa.Extract); ok {
				val = ex.Tuple
			}
			if call, ok := val.(*ssa.Call); ok && r.c.P.CallReaches(call, r.isEval) {
				return true
			}
		}
	}
	return false
}
