package rules

import (
	"fmt"
	"go/constant"
	"go/token"
	"go/types"
	"sort"
	"strings"

	"golang.org/x/tools/go/ssa"

	"verif/checker/core"
)

// Rules added after the independently seeded changes (DESIGN §8).

func init() {
	Register(&Rule{ID: "R-FMT-7", Props: []string{"C02", "C19"}, Floor: 2,
		Doc:      "grow-and-replace keeps every element: where a slice variable is replaced by a freshly made slice into which its old contents were copied (make + copy + assign), the new length provably covers the old one — it is len(old), or a dominating test pins len(old) to (at most) the constant length — otherwise the elements beyond the new length are silently dropped (loaded tables lose records)",
		Controls: []string{"CtlGrowDropsTail"},
		Run:      ruleFmt7})
	Register(&Rule{ID: "R-TXN-9", Props: []string{"C01", "C02", "C10"}, Floor: 1,
		Doc: "rewind before encode: every EncodeView in Transaction.Commit that writes to a handler's file is dominated by Truncate(0) and Seek(0, start) on that same file — the temp file lives as long as the handler, so a COMMIT that was refused half-way must not leave a stale prefix for the next COMMIT",
		Run: ruleTxn9})
	Register(&Rule{ID: "R-SWAP-4", Props: []string{"C10", "C11"}, Floor: 1,
		Doc: "the original table descriptor is never written: no Write / WriteString / WriteAt / Truncate / Seek on a value loaded from Handler.fp inside lib/file unless the handler was opened ForCreate (dominating openType test); new contents of an updated table go to the temp file only",
		Run: ruleSwap4})
}

// cellOf returns the variable cell (Alloc / FreeVar / FieldAddr) a value was loaded from.
func cellOf(v ssa.Value) ssa.Value {
	for i := 0; i < 6; i++ {
		switch x := v.(type) {
		case *ssa.UnOp:
			if x.Op == token.MUL {
				return x.X
			}
			return nil
		case *ssa.Slice:
			v = x.X
		case *ssa.ChangeType:
			v = x.X
		default:
			return nil
		}
	}
	return nil
}

// sameVar: two values denote the same variable — the same SSA value, or loads
// of the same cell.
func sameVar(a, b ssa.Value) bool {
	a, b = stripSlice(a), stripSlice(b)
	if a == b {
		return true
	}
	ca, cb := cellOf(a), cellOf(b)
	return ca != nil && cb != nil && (ca == cb || core.SameAddr(ca, cb))
}

func stripSlice(v ssa.Value) ssa.Value {
	for {
		switch x := v.(type) {
		case *ssa.Slice:
			v = x.X
		case *ssa.ChangeType:
			v = x.X
		default:
			return v
		}
	}
}

func isLenOfVar(v ssa.Value, src ssa.Value) bool {
	c, ok := v.(*ssa.Call)
	if !ok {
		return false
	}
	b, ok := c.Common().Value.(*ssa.Builtin)
	if !ok || b.Name() != "len" {
		return false
	}
	return sameVar(c.Common().Args[0], src)
}

func ruleFmt7(c *Ctx) {
	for _, fn := range c.P.FuncsIn(true, "lib/query", "lib/json", "lib/file", "lib/value") {
		n := 0
		for _, call := range core.Calls(fn) {
			b, ok := call.Common().Value.(*ssa.Builtin)
			if !ok || b.Name() != "copy" {
				continue
			}
			dst, src := call.Common().Args[0], call.Common().Args[1]
			// dst must be a slice made here …
			var mk *ssa.MakeSlice
			for _, o := range core.Origins(dst, true) {
				if m, ok := o.(*ssa.MakeSlice); ok {
					mk = m
				}
			}
			if mk == nil {
				continue
			}
			fromMk := func(v ssa.Value) bool {
				for _, o := range core.Origins(v, true) {
					if o == ssa.Value(mk) {
						return true
					}
				}
				return false
			}
			// … that afterwards replaces the source variable: a store into the
			// source's cell, or a phi merging the new slice with the old variable
			replaces := false
			if srcCell := cellOf(src); srcCell != nil {
				core.WalkFrom(call.(ssa.Instruction), func(in ssa.Instruction) bool {
					if st, ok := in.(*ssa.Store); ok && (st.Addr == srcCell || core.SameAddr(st.Addr, srcCell)) && fromMk(st.Val) {
						replaces = true
					}
					return true
				})
			}
			for _, bb := range fn.Blocks {
				for _, in := range bb.Instrs {
					phi, ok := in.(*ssa.Phi)
					if !ok {
						break
					}
					hasNew, hasOld := false, false
					for _, e := range phi.Edges {
						if fromMk(e) && !sameVar(e, src) {
							hasNew = true
						}
						if stripSlice(e) == stripSlice(src) {
							hasOld = true
						}
					}
					if hasNew && hasOld {
						replaces = true
					}
				}
			}
			if !replaces {
				continue
			}
			n++
			c.Touch(fn)
			key := c.KeyAt(fn, fmt.Sprintf("grow-and-replace of %s #%d", varLabel(src), n))
			ok2 := false
			why := ""
			if coversLen(mk.Len, src, 0) {
				ok2, why = true, "new length is len(old) (possibly scaled or enlarged)"
			} else if k, isConst := core.ConstInt(mk.Len); isConst {
				for _, f := range core.FactsAt(call.Block()) {
					bo, isB := f.Cond.(*ssa.BinOp)
					if !isB || f.Neg {
						continue
					}
					kx, cx := core.ConstInt(bo.X)
					ky, cy := core.ConstInt(bo.Y)
					switch {
					case (bo.Op == token.EQL || bo.Op == token.LEQ) && cy && ky <= k && isLenOfVar(bo.X, src):
						ok2 = true
					case bo.Op == token.EQL && cx && kx <= k && isLenOfVar(bo.Y, src):
						ok2 = true
					case bo.Op == token.GEQ && cx && kx <= k && isLenOfVar(bo.Y, src):
						ok2 = true
					case bo.Op == token.LSS && cy && ky <= k+1 && isLenOfVar(bo.X, src):
						ok2 = true
					}
				}
				why = fmt.Sprintf("a dominating test pins len(old) to at most the constant new length %d", k)
			}
			c.Check(ok2, key, c.Pos(call), why,
				"the slice is replaced by a copy whose length is not shown to cover the old length (no len(old), no dominating len(old) == constant test): copy() silently drops the elements beyond the new length — records of a loaded table disappear")
		}
	}
}

// coversLen: v is len(src), len(src)*k (k ≥ 1), or len(src)+n (n a non-negative
// constant or another length).
func coversLen(v ssa.Value, src ssa.Value, depth int) bool {
	if depth > 4 {
		return false
	}
	if isLenOfVar(v, src) {
		return true
	}
	b, ok := v.(*ssa.BinOp)
	if !ok {
		return false
	}
	nonNeg := func(x ssa.Value, min int64) bool {
		if k, ok := core.ConstInt(x); ok {
			return k >= min
		}
		if c, ok := x.(*ssa.Call); ok {
			if bi, ok := c.Common().Value.(*ssa.Builtin); ok && (bi.Name() == "len" || bi.Name() == "cap") {
				return min <= 0
			}
		}
		return false
	}
	switch b.Op {
	case token.MUL:
		return (coversLen(b.X, src, depth+1) && nonNeg(b.Y, 1)) || (coversLen(b.Y, src, depth+1) && nonNeg(b.X, 1))
	case token.ADD:
		return (coversLen(b.X, src, depth+1) && nonNeg(b.Y, 0)) || (coversLen(b.Y, src, depth+1) && nonNeg(b.X, 0))
	}
	return false
}

func varLabel(v ssa.Value) string {
	v = stripSlice(v)
	if c := cellOf(v); c != nil {
		return cellLabel(c)
	}
	return cellLabel(v)
}

func ruleTxn9(c *Ctx) {
	fn := c.Fn("lib/query.(*Transaction).Commit")
	if fn == nil {
		return
	}
	// Commit, its closures and the lib/query helpers it calls statically: the encode may live in any of them.
	reach := staticReach(fn)
	var fns []*ssa.Function
	for f := range reach {
		if f.Blocks != nil && c.P.InPkg(f, "lib/query") {
			fns = append(fns, f)
		}
	}
	sort.Slice(fns, func(i, j int) bool { return c.P.Name(fns[i]) < c.P.Name(fns[j]) })
	// rewound(f, at, file): Truncate(0) and Seek(0, …) on file dominate the instruction at in f; when file is a
	// parameter of f, every call of f from the Commit region must pass a rewound file.
	var rewound func(f *ssa.Function, at ssa.Instruction, file ssa.Value, depth int) (bool, bool)
	rewound = func(f *ssa.Function, at ssa.Instruction, file ssa.Value, depth int) (bool, bool) {
		hasTrunc, hasSeek := false, false
		for _, other := range core.Calls(f) {
			name := c.P.CalleeName(other)
			if name != "(*os.File).Truncate" && name != "(*os.File).Seek" {
				continue
			}
			recv := other.Common().Args[0]
			if recv != file && !core.SameCell(recv, file) {
				continue
			}
			if !core.Dominates(other.(ssa.Instruction), at) {
				continue
			}
			zero, isConst := core.ConstInt(other.Common().Args[1])
			if !isConst || zero != 0 {
				continue
			}
			if name == "(*os.File).Truncate" {
				hasTrunc = true
			} else {
				hasSeek = true
			}
		}
		if hasTrunc && hasSeek {
			return true, true
		}
		par, isParam := core.Strip(file).(*ssa.Parameter)
		if !isParam || depth >= 3 {
			return hasTrunc, hasSeek
		}
		idx := -1
		for i, q := range f.Params {
			if q == par {
				idx = i
			}
		}
		callers := 0
		allT, allS := true, true
		for _, g := range fns {
			for _, call := range core.Calls(g) {
				if call.Common().StaticCallee() != f || idx < 0 || idx >= len(call.Common().Args) {
					continue
				}
				callers++
				t, s := rewound(g, call.(ssa.Instruction), core.Strip(call.Common().Args[idx]), depth+1)
				allT = allT && (t || hasTrunc)
				allS = allS && (s || hasSeek)
			}
		}
		if callers == 0 {
			return hasTrunc, hasSeek
		}
		return allT, allS
	}
	n := 0
	for _, f := range fns {
		k := 0
		for _, call := range c.P.CallsNamed(f, "lib/query.EncodeView") {
			fp := call.Common().Args[1]
			// the writer is an *os.File converted to io.Writer
			file := core.Strip(fp)
			if !strings.HasSuffix(file.Type().String(), "os.File") {
				if f == fn || f.Parent() == fn {
					n++
					k++
					c.Unknown(c.KeyAt(f, fmt.Sprintf("EncodeView #%d", k)), c.Pos(call), "cannot-analyse: the writer handed to EncodeView is not an *os.File value")
				}
				continue
			}
			n++
			k++
			c.Touch(f)
			key := c.KeyAt(f, fmt.Sprintf("EncodeView #%d", k))
			hasTrunc, hasSeek := rewound(f, call.(ssa.Instruction), file, 0)
			c.Check(hasTrunc && hasSeek, key, c.Pos(call), "dominated by Truncate(0) and Seek(0, …) on the same file",
				fmt.Sprintf("the file is not rewound before encoding (Truncate(0): %v, Seek(0): %v): what an earlier, refused COMMIT already flushed into the handler's temp file stays in front of the table", hasTrunc, hasSeek))
		}
	}
	if n == 0 {
		c.Unknown(c.KeyAt(fn, "EncodeView"), c.FnPos(fn), "cannot-analyse: no EncodeView call into a file in Commit, its closures or the lib/query functions it calls")
	}
}

func ruleSwap4(c *Ctx) {
	sites := 0
	for _, fn := range c.P.FuncsIn(false, "lib/file") {
		for _, call := range core.Calls(fn) {
			name := c.P.CalleeName(call)
			switch name {
			case "(*os.File).Write", "(*os.File).WriteString", "(*os.File).WriteAt", "(*os.File).Truncate", "(*os.File).Seek":
			default:
				continue
			}
			recv := call.Common().Args[0]
			cell := cellOf(recv)
			fa, ok := cell.(*ssa.FieldAddr)
			if !ok || core.FieldOwner(fa) != "lib/file.Handler.fp" {
				continue
			}
			sites++
			c.Touch(fn)
			// allowed only under openType == ForCreate
			guarded := false
			for _, f := range core.FactsAt(call.Block()) {
				bo, ok := f.Cond.(*ssa.BinOp)
				if !ok || bo.Op != token.EQL || f.Neg {
					continue
				}
				if strings.Contains(valuePathLabel(bo.X), "openType") || strings.Contains(valuePathLabel(bo.Y), "openType") {
					for _, o := range []ssa.Value{bo.X, bo.Y} {
						if k, ok := o.(*ssa.Const); ok && constName(c, "lib/file", k) == "ForCreate" {
							guarded = true
						}
					}
				}
			}
			c.Check(guarded, c.KeyAt(fn, short2(name)+" on Handler.fp"), c.Pos(call), "only for handlers opened ForCreate",
				"the descriptor of the original table file (Handler.fp) is written/truncated/repositioned ("+short2(name)+"): for an update handler this changes the live table in place before the commit's rename — a crash in between leaves it truncated or mixed")
		}
	}
	c.OkN("lib/file: writes through Handler.fp", "-", fmt.Sprintf("%d write/truncate/seek site(s) on Handler.fp examined", sites), sites+1)
}

// constName returns the name of the package-level constant of pkg that has the
// type and value of k.
func constName(c *Ctx, pkg string, k *ssa.Const) string {
	pk := c.P.ByPath[pkg]
	if pk == nil || k.Value == nil {
		return ""
	}
	sc := pk.Types.Scope()
	for _, n := range sc.Names() {
		if cst, ok := sc.Lookup(n).(*types.Const); ok && types.Identical(cst.Type(), k.Type()) && constant.Compare(cst.Val(), token.EQL, k.Value) {
			return n
		}
	}
	return ""
}

func init() {
	Register(&Rule{ID: "R-TXN-10", Props: []string{"C01", "C20", "C09"}, Floor: 1,
		Doc: "the auto-committing entry point is not re-entered from inside a transaction: the function in which the AutoCommit-gated commit lives ((*Processor).Execute) is not reachable, through static calls and closures, from (*Processor).ExecuteStatement — statements that run other statements (SOURCE, EXECUTE, IF, WHILE, functions) use the internal executor, otherwise every such statement would commit pending changes, release the locks and empty the view cache in the middle of the transaction",
		Run: ruleTxn10})
}

// staticReach: functions reachable from fn through statically resolved calls,
// go/defer operands and closures created along the way.
func staticReach(fn *ssa.Function) map[*ssa.Function][]*ssa.Function {
	parent := map[*ssa.Function][]*ssa.Function{fn: nil}
	queue := []*ssa.Function{fn}
	for len(queue) > 0 {
		f := queue[0]
		queue = queue[1:]
		if f.Blocks == nil {
			continue
		}
		add := func(g *ssa.Function) {
			if g == nil {
				return
			}
			if _, ok := parent[g]; !ok {
				parent[g] = append(append([]*ssa.Function(nil), parent[f]...), f)
				queue = append(queue, g)
			}
		}
		for _, call := range core.Calls(f) {
			add(call.Common().StaticCallee())
		}
		for _, af := range f.AnonFuncs {
			add(af)
		}
	}
	return parent
}

func ruleTxn10(c *Ctx) {
	stmt := c.Fn("lib/query.(*Processor).ExecuteStatement")
	if stmt == nil {
		return
	}
	// the auto-committing entry points: functions that read Transaction.AutoCommit and reach Commit
	var entries []*ssa.Function
	for _, fn := range c.P.FuncsIn(false, "lib/query") {
		reads := false
		for _, b := range fn.Blocks {
			for _, in := range b.Instrs {
				if fa, ok := in.(*ssa.FieldAddr); ok && core.FieldOwner(fa) == "lib/query.Transaction.AutoCommit" {
					for _, r := range *fa.Referrers() {
						if u, ok := r.(*ssa.UnOp); ok && u.Op == token.MUL {
							reads = true
						}
					}
				}
			}
		}
		if reads {
			entries = append(entries, fn)
		}
	}
	if len(entries) == 0 {
		c.Unknown("auto-commit entry point", "-", "cannot-analyse: no function of lib/query reads Transaction.AutoCommit any more")
		return
	}
	reach := staticReach(stmt)
	for _, e := range entries {
		key := c.P.Name(e) + ": not re-entered from ExecuteStatement"
		if path, ok := reach[e]; ok && e != stmt {
			var names []string
			for _, f := range path {
				names = append(names, short2(c.P.Name(f)))
			}
			names = append(names, short2(c.P.Name(e)))
			c.Bad(key, c.FnPos(e), "a statement reaches the auto-committing entry point: "+strings.Join(names, " → ")+" — with AutoCommit set (every non-interactive run) this commits the pending changes, releases all locks and clears the view cache in the middle of the transaction")
			continue
		}
		c.Ok(key, c.FnPos(e), "reads Transaction.AutoCommit and is only entered from outside the statement interpreter")
	}
}
