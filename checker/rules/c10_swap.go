package rules

import (
	"fmt"
	"go/types"
	"strings"

	"golang.org/x/tools/go/ssa"

	"verif/checker/core"
)

// C10 — a crash during COMMIT leaves each table old or new. Crash points lie
// between two file-system calls, so the clause is about the order of calls on
// every path of the functions that swap the temporary file over the table.

func init() {
	Register(&Rule{ID: "R-SWAP-1", Props: []string{"C10"}, Floor: 1,
		Doc:      "in every lib/file function that calls os.Rename, no call that can unlink the rename target (os.Remove/RemoveAll of the same value, the same field, or — through callees — a path of the same role) can execute before the rename — nor, one level up, before a static call of that function in its callers: between such an unlink and the rename a crash leaves the table missing",
		Controls: []string{"CtlRemoveBeforeRename"},
		Run:      ruleSwap1})
	Register(&Rule{ID: "R-SWAP-2", Props: []string{"C10"}, Floor: 4,
		Doc:      "every os.Rename of lib/file moves Handler.tempFile.path onto Handler.path, only for ForUpdate handlers, after the temp descriptor was closed (or is nil) on every path, and no release of Handler.lockFile can precede it",
		Controls: []string{"CtlRemoveBeforeRename: os.Rename moves"},
		Run:      ruleSwap2})
	Register(&Rule{ID: "R-SWAP-3", Props: []string{"C10"}, Floor: 8,
		Doc:      "(*Handler).FileForUpdate, evaluated for every OpenType constant, yields the temp file's descriptor for ForUpdate, the created file's for ForCreate and an error for ForRead; and no descriptor obtained from (*Handler).File is written, truncated or converted to a writer anywhere in csvq: new contents never go to the original in place",
		Controls: []string{"CtlWriteThroughReadDescriptor"},
		Run:      ruleSwap3})
}

// renameSites lists the direct os.Rename calls in lib/file (and the controls).
func renameSites(c *Ctx) (fns []*ssa.Function, sites map[*ssa.Function][]ssa.CallInstruction) {
	sites = map[*ssa.Function][]ssa.CallInstruction{}
	for _, fn := range c.P.FuncsIn(true, "lib/file") {
		for _, call := range core.Calls(fn) {
			if calleeIn(c.P, call, fnOsRename) && len(call.Common().Args) == 2 {
				if sites[fn] == nil {
					fns = append(fns, fn)
				}
				sites[fn] = append(sites[fn], call)
			}
		}
	}
	return
}

func ruleSwap1(c *Ctx) {
	fns, sites := renameSites(c)
	for _, fn := range fns {
		c.Touch(fn)
		for i, r := range sites[fn] {
			c.Sites++
			target := r.Common().Args[1]
			trole := roleOfPath(target)
			suffix := ""
			if len(sites[fn]) > 1 {
				suffix = " " + ordinal(i+1)
			}
			key := c.KeyAt(fn, "unlink of the rename target before os.Rename"+suffix)
			var bad, unknown []string
			for _, k := range core.Calls(fn) {
				if k == r || !reachAfter(k, r, nil, nil) {
					continue
				}
				for role, rms := range removalsAt(c.P, k) {
					for _, rm := range rms {
						arg := rm.Common().Args[0]
						same, undecided := false, false
						switch {
						case rm == k:
							same = arg == target || core.SameCell(arg, target) || (role != roleUnknown && role == trole)
						case role != roleUnknown:
							same = role == trole
						default:
							// a helper that removes one of its parameters: map to the actual
							if par, ok := arg.(*ssa.Parameter); ok && core.StaticCallee(k) == rm.Parent() {
								act := actualFor(k, par)
								same = act != nil && (act == target || core.SameCell(act, target) || (roleOfPath(act) != roleUnknown && roleOfPath(act) == trole))
								undecided = act == nil
							} else {
								undecided = true
							}
						}
						if same {
							bad = append(bad, fmt.Sprintf("%s (os.Remove at %s) unlinks %s, and os.Rename onto it at %s can run afterwards", describeCall(c.P, k), c.Pos(rm), trole, c.Pos(r)))
						} else if undecided {
							unknown = append(unknown, fmt.Sprintf("%s removes a path whose relation to the rename target cannot be established (os.Remove at %s)", describeCall(c.P, k), c.Pos(rm)))
						}
					}
				}
			}
			// one level up: a caller that unlinks a path of the target's role before
			// it calls this function (swap extracted into a helper)
			if trole != roleUnknown {
				for _, s := range callerSites(c.P, fn) {
					for _, k := range core.Calls(s.Parent()) {
						if k == s || !reachAfter(k, s, nil, nil) {
							continue
						}
						for _, rm := range removalsAt(c.P, k)[trole] {
							if rm.Parent() == fn {
								continue // the function's own removals are judged above
							}
							bad = append(bad, fmt.Sprintf("%s in %s (os.Remove at %s) unlinks %s before %s renames onto it", describeCall(c.P, k), c.P.Name(s.Parent()), c.Pos(rm), trole, fn.Name()))
						}
					}
				}
			}
			switch {
			case len(bad) > 0:
				c.Bad(key, c.Pos(r), strings.Join(bad, "; ")+": a crash (or a failing rename) between the two calls leaves the table file missing; os.Rename replaces its target atomically, so the unlink is unnecessary")
			case len(unknown) > 0:
				c.Unknown(key, c.Pos(r), strings.Join(unknown, "; "))
			default:
				c.Ok(key, c.Pos(r), "no call that can execute before the rename removes the target path")
			}
		}
	}
}

// actualFor maps a parameter of the static callee to the actual argument.
func actualFor(call ssa.CallInstruction, par *ssa.Parameter) ssa.Value {
	f := core.StaticCallee(call)
	if f == nil {
		return nil
	}
	for i, p := range f.Params {
		if p == par && i < len(call.Common().Args) {
			return call.Common().Args[i]
		}
	}
	return nil
}

func ruleSwap2(c *Ctx) {
	forUpdate, ok := mustEnum(c, "lib/file", "ForUpdate")
	if !ok {
		return
	}
	fns, sites := renameSites(c)
	n := 0
	for _, fn := range fns {
		c.Touch(fn)
		for i, r := range sites[fn] {
			c.Sites++
			n++
			suffix := ""
			if len(sites[fn]) > 1 {
				suffix = " " + ordinal(i+1)
			}
			src, dst := r.Common().Args[0], r.Common().Args[1]
			// (a) roles
			c.Check(chainEndsWith(src, fldHTemp, fldCPath) && chainEndsWith(dst, fldHPath),
				c.KeyAt(fn, "os.Rename moves the temp control file onto the data path"+suffix), c.Pos(r),
				"source is Handler.tempFile.path, target is Handler.path",
				fmt.Sprintf("os.Rename(%s, %s): the source must be loaded from Handler.tempFile.path and the target from Handler.path — anything else swaps the wrong file over the table", describePath(src), describePath(dst)))
			if c.P.IsControl(fn) {
				continue
			}
			// helper extraction: a clause that does not hold inside the function may
			// hold at every call site of it (one level, static callers)
			sites := callerSites(c.P, fn)
			atAllSites := func(pred func(s ssa.CallInstruction) bool) bool {
				if len(sites) == 0 {
					return false
				}
				for _, s := range sites {
					if !pred(s) {
						return false
					}
				}
				return true
			}
			// (b) only for handlers opened for update
			c.Check(enumFactAt(r, fldHType, forUpdate) || atAllSites(func(s ssa.CallInstruction) bool { return enumFactAt(s, fldHType, forUpdate) }),
				c.KeyAt(fn, "os.Rename only for ForUpdate handlers"+suffix), c.Pos(r),
				"dominated by the branch openType == ForUpdate",
				"the rename is not dominated by a test `openType == ForUpdate`: handlers opened for read/create have no temp file to swap")
			// (c) temp descriptor closed (or nil) before the rename
			closes := func(in ssa.Instruction) bool {
				k, ok := in.(ssa.CallInstruction)
				return ok && closesDescriptor(c.P, k, fldHTemp, fldCFp)
			}
			c.Check(!reachFromEntry(fn, r, closes, nilEdgeOf(fldHTemp, fldCFp)) ||
				atAllSites(func(s ssa.CallInstruction) bool {
					return !reachFromEntry(s.Parent(), s, closes, nilEdgeOf(fldHTemp, fldCFp))
				}),
				c.KeyAt(fn, "temp descriptor closed before os.Rename"+suffix), c.Pos(r),
				"every path from the entry to the rename closes Handler.tempFile.fp or has tested it nil",
				"a path reaches os.Rename while Handler.tempFile.fp may still be open: the swap would publish a file that is still being written (and fails outright on Windows)")
			// (d) the lock file outlives the rename
			var early []string
			for _, k := range core.Calls(fn) {
				if k != r && releasesControl(c.P, k, fldHLock) && reachAfter(k, r, nil, nil) {
					early = append(early, fmt.Sprintf("%s at %s", describeCall(c.P, k), c.Pos(k)))
				}
			}
			for _, s := range sites {
				for _, k := range core.Calls(s.Parent()) {
					if k != s && releasesControl(c.P, k, fldHLock) && reachAfter(k, s, nil, nil) {
						early = append(early, fmt.Sprintf("%s at %s (before the call of %s)", describeCall(c.P, k), c.Pos(k), fn.Name()))
					}
				}
			}
			c.Check(len(early) == 0,
				c.KeyAt(fn, "lock file released only after os.Rename"+suffix), c.Pos(r),
				"no release of Handler.lockFile can execute before the rename",
				"the lock file is removed by "+strings.Join(early, ", ")+" before the rename: another writer can start (and create its own temp file) while this one still swaps")
		}
	}
	if n == 0 {
		c.Unknown("anchor:os.Rename in lib/file", "-", "cannot-analyse: no function of lib/file calls os.Rename any more; the swap step the rule is about is gone")
	}
}

// callerSites lists the static call sites of fn in csvq code.
func callerSites(p *core.Prog, fn *ssa.Function) []ssa.CallInstruction {
	var out []ssa.CallInstruction
	for _, e := range p.Callers(fn) {
		if e.Site != nil && core.StaticCallee(e.Site) == fn && e.Caller.Func.Blocks != nil {
			out = append(out, e.Site)
		}
	}
	return out
}

func describePath(v ssa.Value) string {
	ch, _ := fieldChain(v)
	if len(ch) == 0 {
		return valueLabel(v)
	}
	for i := range ch {
		ch[i] = ch[i][strings.LastIndex(ch[i], "/")+1:]
	}
	return strings.Join(ch, "→")
}

func ruleSwap3(c *Ctx) {
	// (a) the open-type table of FileForUpdate
	if fn := c.Fn("lib/file.(*Handler).FileForUpdate"); fn != nil {
		type row struct {
			name string
			want string
		}
		rows := []row{{"ForUpdate", "temp"}, {"ForCreate", "own"}, {"ForRead", "error"}}
		for _, rw := range rows {
			val, ok := mustEnum(c, "lib/file", rw.name)
			if !ok {
				continue
			}
			key := c.KeyAt(fn, "openType == "+rw.name)
			rets := returnsWithout(fn, nil, nil, enumEdge(fldHType, val))
			if len(rets) == 0 {
				c.Unknown(key, c.FnPos(fn), "no return is reachable under this open type")
				continue
			}
			bad := ""
			for _, r := range rets {
				allNil, allNonNil := errOperandKinds(c, r)
				res := r.Results[0]
				switch rw.want {
				case "temp":
					if !chainEndsWith(res, fldHTemp, fldCFp) || !allNil {
						bad = fmt.Sprintf("return at %s yields %s: for a handler opened for update the writer must be Handler.tempFile.fp, otherwise COMMIT overwrites the original in place and a crash leaves it half written", c.Pos(r), describePath(res))
					}
				case "own":
					if !chainIs(res, fldHFp) || !allNil {
						bad = fmt.Sprintf("return at %s yields %s: a handler opened for create writes to the file it created (Handler.fp)", c.Pos(r), describePath(res))
					}
				case "error":
					if !core.IsNilConst(res) || !allNonNil {
						bad = fmt.Sprintf("return at %s hands out a descriptor (or no error) for a handler opened for read", c.Pos(r))
					}
				}
			}
			if bad != "" {
				c.Bad(key, c.Pos(rets[0]), bad)
			} else {
				c.OkN(key, c.Pos(rets[0]), fmt.Sprintf("%d return(s) under this open type, all as specified", len(rets)), 1)
			}
		}
	}
	// (b) descriptors handed out by (*Handler).File are read-only in csvq
	fileFn := c.Fn("lib/file.(*Handler).File")
	if fileFn == nil {
		return
	}
	for _, fn := range c.P.SrcFuncs() {
		n := 0
		for _, call := range core.Calls(fn) {
			if !calleeIn(c.P, call, "lib/file.(*Handler).File") {
				continue
			}
			v := call.Value()
			if v == nil {
				continue
			}
			n++
			c.Sites++
			c.Touch(fn)
			key := c.KeyAt(fn, "descriptor from Handler.File "+ordinal(n))
			if w := writeUse(c, v); w != "" {
				c.Bad(key, c.Pos(call), w+": the descriptor of (*Handler).File is the original table file; contents must go to the descriptor of FileForUpdate (the temp file) so that a crash leaves the table old or new")
			} else {
				c.Ok(key, c.Pos(call), "only read/seek uses and conversions to reader interfaces")
			}
		}
	}
}

var fileWriteMethods = map[string]bool{"Write": true, "WriteString": true, "WriteAt": true, "Truncate": true, "ReadFrom": true, "Chmod": true}

// writeUse follows a *os.File value through phis, local cells and closures and
// reports the first use that can modify the file.
func writeUse(c *Ctx, v ssa.Value) string {
	seen := map[ssa.Value]bool{}
	var visit func(v ssa.Value) string
	visit = func(v ssa.Value) string {
		if seen[v] {
			return ""
		}
		seen[v] = true
		refs := v.Referrers()
		if refs == nil {
			return ""
		}
		for _, r := range *refs {
			switch x := r.(type) {
			case *ssa.Phi:
				if w := visit(x); w != "" {
					return w
				}
			case *ssa.Store:
				if x.Val != v {
					continue
				}
				// stored into a local cell (possibly captured): follow its loads
				cell := x.Addr
				if _, ok := cell.(*ssa.Alloc); !ok {
					return fmt.Sprintf("stored into %s at %s, where later uses cannot be followed", storeTargetLabel(cell), c.Pos(x))
				}
				for _, ld := range loadsOfCell(cell) {
					if w := visit(ld); w != "" {
						return w
					}
				}
			case *ssa.MakeInterface:
				if hasMethod(x.Type(), "Write") || hasMethod(x.Type(), "Truncate") || swapIsEmptyInterface(x.Type()) {
					return fmt.Sprintf("converted to %s at %s", types.TypeString(x.Type(), nil), c.Pos(x))
				}
			case ssa.CallInstruction:
				com := x.Common()
				if !com.IsInvoke() {
					if f := com.StaticCallee(); f != nil && f.Signature.Recv() != nil && len(com.Args) > 0 && com.Args[0] == v {
						if fileWriteMethods[f.Name()] {
							return fmt.Sprintf("(*os.File).%s called on it at %s", f.Name(), c.Pos(x))
						}
						continue
					}
				}
				for i, a := range com.Args {
					if a != v {
						continue
					}
					// passed as *os.File to another function: follow one level into csvq code
					if f := com.StaticCallee(); f != nil && f.Blocks != nil && i < len(f.Params) {
						if w := visit(f.Params[i]); w != "" {
							return w
						}
						continue
					}
					if f := com.StaticCallee(); f != nil && isReadOnlyFileAPI(f) {
						continue
					}
					return fmt.Sprintf("passed as *os.File to %s at %s", describeCall(c.P, x), c.Pos(x))
				}
			}
		}
		return ""
	}
	return visit(v)
}

func storeTargetLabel(addr ssa.Value) string {
	switch x := addr.(type) {
	case *ssa.FieldAddr:
		return "field " + core.FieldOwner(x)
	case *ssa.FreeVar:
		return "captured variable " + x.Name()
	case *ssa.Global:
		return "global " + x.Name()
	}
	return "memory (" + addr.Name() + ")"
}

func isReadOnlyFileAPI(f *ssa.Function) bool {
	switch f.String() {
	case goFile + ".Close", goFile + ".Unlock":
		return true
	}
	return false
}

func hasMethod(t types.Type, name string) bool {
	it, ok := t.Underlying().(*types.Interface)
	if !ok {
		return false
	}
	for i := 0; i < it.NumMethods(); i++ {
		if it.Method(i).Name() == name {
			return true
		}
	}
	return false
}

func swapIsEmptyInterface(t types.Type) bool {
	it, ok := t.Underlying().(*types.Interface)
	return ok && it.NumMethods() == 0
}

// loadsOfCell returns the loads of a local cell in its function and in the
// closures that capture it.
func loadsOfCell(cell ssa.Value) []ssa.Value {
	var out []ssa.Value
	seen := map[ssa.Value]bool{}
	var visit func(c ssa.Value)
	visit = func(c ssa.Value) {
		if seen[c] || c.Referrers() == nil {
			return
		}
		seen[c] = true
		for _, r := range *c.Referrers() {
			switch x := r.(type) {
			case *ssa.UnOp:
				out = append(out, x)
			case *ssa.MakeClosure:
				fn, _ := x.Fn.(*ssa.Function)
				for i, b := range x.Bindings {
					if b == c && fn != nil && i < len(fn.FreeVars) {
						visit(fn.FreeVars[i])
					}
				}
			}
		}
	}
	visit(cell)
	return out
}
