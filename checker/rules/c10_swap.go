package rules

import (
	"fmt"
	"go/types"
	"strings"

	"golang.org/x/tools/go/ssa"

	"verif/checker/core"
)

// C10 — a crash during COMMIT leaves each table old or new. Crash points lie
// between two file-system calls, so the clause is about the order of calls on
// every path of the functions that swap the temporary file over the table.

func init() {
	Register(&Rule{ID: "R-SWAP-1", Props: []string{"C10"}, Floor: 1,
		Doc:      "in every lib/file function that calls os.Rename, no call that can unlink the rename target (os.Remove/RemoveAll of the same value, the same field, or — through callees — a path of the same role) can execute before the rename — nor, one level up, before a static call of that function in its callers: between such an unlink and the rename a crash leaves the table missing",
		Controls: []string{"CtlRemoveBeforeRename"},
		Run:      ruleSwap1})
	Register(&Rule{ID: "R-SWAP-2", Props: []string{"C10"}, Floor: 5,
		Doc:      "every os.Rename of lib/file moves Handler.tempFile.path onto Handler.path, only for ForUpdate handlers, after the temp descriptor was closed (or is nil) on every path, and no release of Handler.lockFile can precede it; under openType == ForUpdate every non-error return of Handler.commit has passed that rename (directly or in a helper that always performs it): an update is installed by the atomic rename or not at all",
		Controls: []string{"CtlRemoveBeforeRename: os.Rename moves"},
		Run:      ruleSwap2})
	Register(&Rule{ID: "R-SWAP-5", Props: []string{"C10"}, Floor: 4,
		Doc:      "an existing table is replaced only by os.Rename: wherever a string that is the table path (a load of Handler.path / FileInfo.Path, a Handler.Path() result, a value stored into Handler.path, or a parameter / filepath.Abs|Clean|EvalSymlinks / os.Readlink result receiving such a value — followed through static and dynamic calls) reaches a by-path file operation, that operation is read-only (os.Open/Stat/ReadFile, os.OpenFile with constant O_RDONLY, go-file OpenToRead*), an exclusive create (go-file Create: O_EXCL cannot touch an existing table), the constructor's flock-open whose descriptor goes to Handler.fp (never written: R-SWAP-3/4), or the target of os.Rename; os.OpenFile with write/trunc flags, os.Create, os.WriteFile, os.Truncate, os.Rename away from the path, generic go-file Open and unknown os/exec/syscall operations on the table path are violations — between truncation and the end of such a write the table is neither old nor new",
		Controls: []string{"ctlCopyContents"},
		Run:      ruleSwap5})
	Register(&Rule{ID: "R-SWAP-3", Props: []string{"C10"}, Floor: 8,
		Doc:      "(*Handler).FileForUpdate, evaluated for every OpenType constant, yields the temp file's descriptor for ForUpdate, the created file's for ForCreate and an error for ForRead; and no descriptor obtained from (*Handler).File is written, truncated or converted to a writer anywhere in csvq: new contents never go to the original in place",
		Controls: []string{"CtlWriteThroughReadDescriptor"},
		Run:      ruleSwap3})
}

// renameSites lists the direct os.Rename calls in lib/file (and the controls).
func renameSites(c *Ctx) (fns []*ssa.Function, sites map[*ssa.Function][]ssa.CallInstruction) {
	sites = map[*ssa.Function][]ssa.CallInstruction{}
	for _, fn := range c.P.FuncsIn(true, "lib/file") {
		for _, call := range core.Calls(fn) {
			if calleeIn(c.P, call, fnOsRename) && len(call.Common().Args) == 2 {
				if sites[fn] == nil {
					fns = append(fns, fn)
				}
				sites[fn] = append(sites[fn], call)
			}
		}
	}
	return
}

func ruleSwap1(c *Ctx) {
	fns, sites := renameSites(c)
	for _, fn := range fns {
		c.Touch(fn)
		for i, r := range sites[fn] {
			c.Sites++
			target := r.Common().Args[1]
			trole := roleOfPath(target)
			suffix := ""
			if len(sites[fn]) > 1 {
				suffix = " " + ordinal(i+1)
			}
			key := c.KeyAt(fn, "unlink of the rename target before os.Rename"+suffix)
			var bad, unknown []string
			for _, k := range core.Calls(fn) {
				if k == r || !reachAfter(k, r, nil, nil) {
					continue
				}
				for role, rms := range removalsAt(c.P, k) {
					for _, rm := range rms {
						arg := rm.Common().Args[0]
						same, undecided := false, false
						switch {
						case rm == k:
							same = arg == target || core.SameCell(arg, target) || (role != roleUnknown && role == trole)
						case role != roleUnknown:
							same = role == trole
						default:
							// a helper that removes one of its parameters: map to the actual
							if par, ok := arg.(*ssa.Parameter); ok && core.StaticCallee(k) == rm.Parent() {
								act := actualFor(k, par)
								same = act != nil && (act == target || core.SameCell(act, target) || (roleOfPath(act) != roleUnknown && roleOfPath(act) == trole))
								undecided = act == nil
							} else {
								undecided = true
							}
						}
						if same {
							bad = append(bad, fmt.Sprintf("%s (os.Remove at %s) unlinks %s, and os.Rename onto it at %s can run afterwards", describeCall(c.P, k), c.Pos(rm), trole, c.Pos(r)))
						} else if undecided {
							unknown = append(unknown, fmt.Sprintf("%s removes a path whose relation to the rename target cannot be established (os.Remove at %s)", describeCall(c.P, k), c.Pos(rm)))
						}
					}
				}
			}
			// one level up: a caller that unlinks a path of the target's role before
			// it calls this function (swap extracted into a helper)
			if trole != roleUnknown {
				for _, s := range callerSites(c.P, fn) {
					for _, k := range core.Calls(s.Parent()) {
						if k == s || !reachAfter(k, s, nil, nil) {
							continue
						}
						for _, rm := range removalsAt(c.P, k)[trole] {
							if rm.Parent() == fn {
								continue // the function's own removals are judged above
							}
							bad = append(bad, fmt.Sprintf("%s in %s (os.Remove at %s) unlinks %s before %s renames onto it", describeCall(c.P, k), c.P.Name(s.Parent()), c.Pos(rm), trole, fn.Name()))
						}
					}
				}
			}
			switch {
			case len(bad) > 0:
				c.Bad(key, c.Pos(r), strings.Join(bad, "; ")+": a crash (or a failing rename) between the two calls leaves the table file missing; os.Rename replaces its target atomically, so the unlink is unnecessary")
			case len(unknown) > 0:
				c.Unknown(key, c.Pos(r), strings.Join(unknown, "; "))
			default:
				c.Ok(key, c.Pos(r), "no call that can execute before the rename removes the target path")
			}
		}
	}
}

// actualFor maps a parameter of the static callee to the actual argument.
func actualFor(call ssa.CallInstruction, par *ssa.Parameter) ssa.Value {
	f := core.StaticCallee(call)
	if f == nil {
		return nil
	}
	for i, p := range f.Params {
		if p == par && i < len(call.Common().Args) {
			return call.Common().Args[i]
		}
	}
	return nil
}

func ruleSwap2(c *Ctx) {
	forUpdate, ok := mustEnum(c, "lib/file", "ForUpdate")
	if !ok {
		return
	}
	fns, sites := renameSites(c)
	n := 0
	for _, fn := range fns {
		c.Touch(fn)
		for i, r := range sites[fn] {
			c.Sites++
			n++
			suffix := ""
			if len(sites[fn]) > 1 {
				suffix = " " + ordinal(i+1)
			}
			src, dst := r.Common().Args[0], r.Common().Args[1]
			// (a) roles
			c.Check(chainEndsWith(src, fldHTemp, fldCPath) && chainEndsWith(dst, fldHPath),
				c.KeyAt(fn, "os.Rename moves the temp control file onto the data path"+suffix), c.Pos(r),
				"source is Handler.tempFile.path, target is Handler.path",
				fmt.Sprintf("os.Rename(%s, %s): the source must be loaded from Handler.tempFile.path and the target from Handler.path — anything else swaps the wrong file over the table", describePath(src), describePath(dst)))
			if c.P.IsControl(fn) {
				continue
			}
			// helper extraction: a clause that does not hold inside the function may
			// hold at every call site of it (one level, static callers)
			sites := callerSites(c.P, fn)
			atAllSites := func(pred func(s ssa.CallInstruction) bool) bool {
				if len(sites) == 0 {
					return false
				}
				for _, s := range sites {
					if !pred(s) {
						return false
					}
				}
				return true
			}
			// (b) only for handlers opened for update
			c.Check(enumFactAt(r, fldHType, forUpdate) || atAllSites(func(s ssa.CallInstruction) bool { return enumFactAt(s, fldHType, forUpdate) }),
				c.KeyAt(fn, "os.Rename only for ForUpdate handlers"+suffix), c.Pos(r),
				"dominated by the branch openType == ForUpdate",
				"the rename is not dominated by a test `openType == ForUpdate`: handlers opened for read/create have no temp file to swap")
			// (c) temp descriptor closed (or nil) before the rename
			closes := func(in ssa.Instruction) bool {
				k, ok := in.(ssa.CallInstruction)
				return ok && closesDescriptor(c.P, k, fldHTemp, fldCFp)
			}
			c.Check(!reachFromEntry(fn, r, closes, nilEdgeOf(fldHTemp, fldCFp)) ||
				atAllSites(func(s ssa.CallInstruction) bool {
					return !reachFromEntry(s.Parent(), s, closes, nilEdgeOf(fldHTemp, fldCFp))
				}),
				c.KeyAt(fn, "temp descriptor closed before os.Rename"+suffix), c.Pos(r),
				"every path from the entry to the rename closes Handler.tempFile.fp or has tested it nil",
				"a path reaches os.Rename while Handler.tempFile.fp may still be open: the swap would publish a file that is still being written (and fails outright on Windows)")
			// (d) the lock file outlives the rename
			var early []string
			for _, k := range core.Calls(fn) {
				if k != r && releasesControl(c.P, k, fldHLock) && reachAfter(k, r, nil, nil) {
					early = append(early, fmt.Sprintf("%s at %s", describeCall(c.P, k), c.Pos(k)))
				}
			}
			for _, s := range sites {
				for _, k := range core.Calls(s.Parent()) {
					if k != s && releasesControl(c.P, k, fldHLock) && reachAfter(k, s, nil, nil) {
						early = append(early, fmt.Sprintf("%s at %s (before the call of %s)", describeCall(c.P, k), c.Pos(k), fn.Name()))
					}
				}
			}
			c.Check(len(early) == 0,
				c.KeyAt(fn, "lock file released only after os.Rename"+suffix), c.Pos(r),
				"no release of Handler.lockFile can execute before the rename",
				"the lock file is removed by "+strings.Join(early, ", ")+" before the rename: another writer can start (and create its own temp file) while this one still swaps")
		}
	}
	if n == 0 {
		c.Unknown("anchor:os.Rename in lib/file", "-", "cannot-analyse: no function of lib/file calls os.Rename any more; the swap step the rule is about is gone")
	}
	// (e) the rename is the only way an update is installed: a ForUpdate commit
	// that reports success has passed it on every path
	if fn := c.Fn(fnHCommit); fn != nil {
		base := orPrune(boolFieldEdge(fldHClosed, true), enumEdge(fldHType, forUpdate))
		bad, saw := returnsWithoutSwap(c, fn, base, 0)
		key := c.KeyAt(fn, "a ForUpdate commit succeeds only through the os.Rename of the temp file")
		switch {
		case !saw:
			c.Bad(key, c.FnPos(fn), "under openType == ForUpdate no path of commit reaches an os.Rename of Handler.tempFile.path onto Handler.path (directly or in a helper that always performs it)")
		case len(bad) > 0:
			c.Bad(key, c.FnPos(fn), "under openType == ForUpdate the non-error return at "+strings.Join(bad, ", ")+" is reachable without the os.Rename of the temp file onto the table: on that path the new contents are either not installed at all or installed by something other than the atomic rename (copy / write in place), and a crash in between leaves a table that is neither old nor new")
		default:
			c.Ok(key, c.FnPos(fn), "every non-error return under openType == ForUpdate has passed the rename (or a helper that passes it on all its non-error paths)")
		}
	}
}

// isSwapRename: os.Rename(Handler.tempFile.path, Handler.path).
func isSwapRename(p *core.Prog, k ssa.CallInstruction) bool {
	return calleeIn(p, k, fnOsRename) && len(k.Common().Args) == 2 &&
		chainEndsWith(k.Common().Args[0], fldHTemp, fldCPath) && chainEndsWith(k.Common().Args[1], fldHPath)
}

// returnsWithoutSwap lists the non-error returns of fn reachable without the
// swap rename; a call of a lib/file method that itself passes the rename on
// all of its non-error paths counts as the rename (helper extraction).
func returnsWithoutSwap(c *Ctx, fn *ssa.Function, base edgePrune, depth int) (bad []string, saw bool) {
	p := c.P
	var partial []string
	rets := returnsWithout(fn, nil, func(in ssa.Instruction) bool {
		k, ok := in.(ssa.CallInstruction)
		if !ok {
			return false
		}
		if _, isDefer := in.(*ssa.Defer); isDefer {
			return false
		}
		if isSwapRename(p, k) {
			saw = true
			return true
		}
		if f := core.StaticCallee(k); f != nil && depth < 2 && f != fn && f.Blocks != nil && p.InPkg(f, "lib/file") && f.Signature.Recv() != nil {
			hb, hs := returnsWithoutSwap(c, f, base, depth+1)
			if hs && len(hb) == 0 {
				saw = true
				return true
			}
			if hs {
				partial = append(partial, fmt.Sprintf("%s at %s (called at %s; it performs the rename on some paths only)", f.Name(), strings.Join(hb, ", "), c.Pos(k)))
			}
		}
		return false
	}, base)
	if len(partial) > 0 {
		saw = true
	}
	for _, r := range rets {
		if _, nonNil := errOperandKinds(c, r); !nonNil {
			bad = append(bad, c.Pos(r))
		}
	}
	if len(bad) > 0 && len(partial) > 0 {
		bad = append(bad, "via "+strings.Join(partial, "; "))
	}
	return
}

// callerSites lists the static call sites of fn in csvq code.
func callerSites(p *core.Prog, fn *ssa.Function) []ssa.CallInstruction {
	var out []ssa.CallInstruction
	for _, e := range p.Callers(fn) {
		if e.Site != nil && core.StaticCallee(e.Site) == fn && e.Caller.Func.Blocks != nil {
			out = append(out, e.Site)
		}
	}
	return out
}

func describePath(v ssa.Value) string {
	ch, _ := fieldChain(v)
	if len(ch) == 0 {
		return valueLabel(v)
	}
	for i := range ch {
		ch[i] = ch[i][strings.LastIndex(ch[i], "/")+1:]
	}
	return strings.Join(ch, "→")
}

func ruleSwap3(c *Ctx) {
	// (a) the open-type table of FileForUpdate
	if fn := c.Fn("lib/file.(*Handler).FileForUpdate"); fn != nil {
		type row struct {
			name string
			want string
		}
		rows := []row{{"ForUpdate", "temp"}, {"ForCreate", "own"}, {"ForRead", "error"}}
		for _, rw := range rows {
			val, ok := mustEnum(c, "lib/file", rw.name)
			if !ok {
				continue
			}
			key := c.KeyAt(fn, "openType == "+rw.name)
			rets := returnsWithout(fn, nil, nil, enumEdge(fldHType, val))
			if len(rets) == 0 {
				c.Unknown(key, c.FnPos(fn), "no return is reachable under this open type")
				continue
			}
			bad := ""
			for _, r := range rets {
				allNil, allNonNil := errOperandKinds(c, r)
				res := r.Results[0]
				switch rw.want {
				case "temp":
					if !chainEndsWith(res, fldHTemp, fldCFp) || !allNil {
						bad = fmt.Sprintf("return at %s yields %s: for a handler opened for update the writer must be Handler.tempFile.fp, otherwise COMMIT overwrites the original in place and a crash leaves it half written", c.Pos(r), describePath(res))
					}
				case "own":
					if !chainIs(res, fldHFp) || !allNil {
						bad = fmt.Sprintf("return at %s yields %s: a handler opened for create writes to the file it created (Handler.fp)", c.Pos(r), describePath(res))
					}
				case "error":
					if !core.IsNilConst(res) || !allNonNil {
						bad = fmt.Sprintf("return at %s hands out a descriptor (or no error) for a handler opened for read", c.Pos(r))
					}
				}
			}
			if bad != "" {
				c.Bad(key, c.Pos(rets[0]), bad)
			} else {
				c.OkN(key, c.Pos(rets[0]), fmt.Sprintf("%d return(s) under this open type, all as specified", len(rets)), 1)
			}
		}
	}
	// (b) descriptors handed out by (*Handler).File are read-only in csvq
	fileFn := c.Fn("lib/file.(*Handler).File")
	if fileFn == nil {
		return
	}
	for _, fn := range c.P.SrcFuncs() {
		n := 0
		for _, call := range core.Calls(fn) {
			if !calleeIn(c.P, call, "lib/file.(*Handler).File") {
				continue
			}
			v := call.Value()
			if v == nil {
				continue
			}
			n++
			c.Sites++
			c.Touch(fn)
			key := c.KeyAt(fn, "descriptor from Handler.File "+ordinal(n))
			if w := writeUse(c, v); w != "" {
				c.Bad(key, c.Pos(call), w+": the descriptor of (*Handler).File is the original table file; contents must go to the descriptor of FileForUpdate (the temp file) so that a crash leaves the table old or new")
			} else {
				c.Ok(key, c.Pos(call), "only read/seek uses and conversions to reader interfaces")
			}
		}
	}
}

var fileWriteMethods = map[string]bool{"Write": true, "WriteString": true, "WriteAt": true, "Truncate": true, "ReadFrom": true, "Chmod": true}

// writeUse follows a *os.File value through phis, local cells and closures and
// reports the first use that can modify the file.
func writeUse(c *Ctx, v ssa.Value) string {
	seen := map[ssa.Value]bool{}
	var visit func(v ssa.Value) string
	visit = func(v ssa.Value) string {
		if seen[v] {
			return ""
		}
		seen[v] = true
		refs := v.Referrers()
		if refs == nil {
			return ""
		}
		for _, r := range *refs {
			switch x := r.(type) {
			case *ssa.Phi:
				if w := visit(x); w != "" {
					return w
				}
			case *ssa.Store:
				if x.Val != v {
					continue
				}
				// stored into a local cell (possibly captured): follow its loads
				cell := x.Addr
				if _, ok := cell.(*ssa.Alloc); !ok {
					return fmt.Sprintf("stored into %s at %s, where later uses cannot be followed", storeTargetLabel(cell), c.Pos(x))
				}
				for _, ld := range loadsOfCell(cell) {
					if w := visit(ld); w != "" {
						return w
					}
				}
			case *ssa.MakeInterface:
				if hasMethod(x.Type(), "Write") || hasMethod(x.Type(), "Truncate") || swapIsEmptyInterface(x.Type()) {
					return fmt.Sprintf("converted to %s at %s", types.TypeString(x.Type(), nil), c.Pos(x))
				}
			case ssa.CallInstruction:
				com := x.Common()
				if !com.IsInvoke() {
					if f := com.StaticCallee(); f != nil && f.Signature.Recv() != nil && len(com.Args) > 0 && com.Args[0] == v {
						if fileWriteMethods[f.Name()] {
							return fmt.Sprintf("(*os.File).%s called on it at %s", f.Name(), c.Pos(x))
						}
						continue
					}
				}
				for i, a := range com.Args {
					if a != v {
						continue
					}
					// passed as *os.File to another function: follow one level into csvq code
					if f := com.StaticCallee(); f != nil && f.Blocks != nil && i < len(f.Params) {
						if w := visit(f.Params[i]); w != "" {
							return w
						}
						continue
					}
					if f := com.StaticCallee(); f != nil && isReadOnlyFileAPI(f) {
						continue
					}
					return fmt.Sprintf("passed as *os.File to %s at %s", describeCall(c.P, x), c.Pos(x))
				}
			}
		}
		return ""
	}
	return visit(v)
}

func storeTargetLabel(addr ssa.Value) string {
	switch x := addr.(type) {
	case *ssa.FieldAddr:
		return "field " + core.FieldOwner(x)
	case *ssa.FreeVar:
		return "captured variable " + x.Name()
	case *ssa.Global:
		return "global " + x.Name()
	}
	return "memory (" + addr.Name() + ")"
}

func isReadOnlyFileAPI(f *ssa.Function) bool {
	switch f.String() {
	case goFile + ".Close", goFile + ".Unlock":
		return true
	}
	return false
}

func hasMethod(t types.Type, name string) bool {
	it, ok := t.Underlying().(*types.Interface)
	if !ok {
		return false
	}
	for i := 0; i < it.NumMethods(); i++ {
		if it.Method(i).Name() == name {
			return true
		}
	}
	return false
}

func swapIsEmptyInterface(t types.Type) bool {
	it, ok := t.Underlying().(*types.Interface)
	return ok && it.NumMethods() == 0
}

// loadsOfCell returns the loads of a local cell in its function and in the
// closures that capture it.
func loadsOfCell(cell ssa.Value) []ssa.Value {
	var out []ssa.Value
	seen := map[ssa.Value]bool{}
	var visit func(c ssa.Value)
	visit = func(c ssa.Value) {
		if seen[c] || c.Referrers() == nil {
			return
		}
		seen[c] = true
		for _, r := range *c.Referrers() {
			switch x := r.(type) {
			case *ssa.UnOp:
				out = append(out, x)
			case *ssa.MakeClosure:
				fn, _ := x.Fn.(*ssa.Function)
				for i, b := range x.Bindings {
					if b == c && fn != nil && i < len(fn.FreeVars) {
						visit(fn.FreeVars[i])
					}
				}
			}
		}
	}
	visit(cell)
	return out
}

// ---------------------------------------------------------------------------
// R-SWAP-5: by-path operations on the table path

var samePathFuncs = map[string]bool{
	"path/filepath.Abs": true, "path/filepath.Clean": true, "path/filepath.EvalSymlinks": true,
	"path/filepath.FromSlash": true, "path/filepath.ToSlash": true, "os.Readlink": true,
}

var readOnlyPathOps = map[string]bool{
	"os.Stat": true, "os.Lstat": true, "os.Open": true, "os.ReadFile": true, "os.Readlink": true,
	"os.ReadDir": true, "io/ioutil.ReadFile": true, "os.IsExist": true, "os.IsNotExist": true,
	"os.Remove": true, "os.RemoveAll": true, // unlinking the table is judged by R-SWAP-1 / R-CLEAN-6
	goFile + ".OpenToRead": true, goFile + ".TryOpenToRead": true, goFile + ".OpenToReadContext": true,
}

const (
	fldFIPath = "lib/query.FileInfo.Path"
)

// dataPathTaint computes which string values are the path of a table file.
type dataPathTaint struct {
	p       *core.Prog
	params  map[*ssa.Parameter]bool
	returns map[*ssa.Function]bool               // result #0 is a table path
	stored  map[*ssa.Function]map[ssa.Value]bool // values stored into Handler.path, per function
}

func (t *dataPathTaint) storedIn(fn *ssa.Function) map[ssa.Value]bool {
	if m, ok := t.stored[fn]; ok {
		return m
	}
	m := map[ssa.Value]bool{}
	for _, b := range fn.Blocks {
		for _, in := range b.Instrs {
			if st, ok := in.(*ssa.Store); ok {
				if fa, ok := st.Addr.(*ssa.FieldAddr); ok && core.FieldOwner(fa) == fldHPath {
					m[st.Val] = true
				}
			}
		}
	}
	t.stored[fn] = m
	return m
}

// is: v may be the table path.
func (t *dataPathTaint) is(v ssa.Value, depth int) bool {
	if v == nil || depth > 6 || !isString(v.Type()) {
		return false
	}
	for _, o := range core.Origins(v, false) {
		switch lastField(o) {
		case fldHPath, fldFIPath:
			return true
		}
		if fn := valueParent(o); fn != nil && t.storedIn(fn)[o] {
			return true
		}
		switch x := o.(type) {
		case *ssa.Parameter:
			if t.params[x] {
				return true
			}
		case *ssa.Call:
			if t.callYieldsPath(x, depth) {
				return true
			}
		case *ssa.Extract:
			if call, ok := x.Tuple.(*ssa.Call); ok && x.Index == 0 && t.callYieldsPath(call, depth) {
				return true
			}
		}
	}
	return false
}

func (t *dataPathTaint) callYieldsPath(call *ssa.Call, depth int) bool {
	if samePathFuncs[t.p.CalleeName(call)] && len(call.Call.Args) > 0 && t.is(call.Call.Args[0], depth+1) {
		return true
	}
	if f := core.StaticCallee(call); f != nil && t.returns[f] {
		return true
	}
	return false
}

func valueParent(v ssa.Value) *ssa.Function {
	switch x := v.(type) {
	case ssa.Instruction:
		return x.Parent()
	case *ssa.Parameter:
		return x.Parent()
	case *ssa.FreeVar:
		return x.Parent()
	}
	return nil
}

func newDataPathTaint(c *Ctx) *dataPathTaint {
	p := c.P
	t := &dataPathTaint{p: p, params: map[*ssa.Parameter]bool{}, returns: map[*ssa.Function]bool{}, stored: map[*ssa.Function]map[ssa.Value]bool{}}
	fns := p.SrcFuncs()
	for changed, round := true, 0; changed && round < 12; round++ {
		changed = false
		for _, fn := range fns {
			// accessor summaries: every return yields a table path
			if !t.returns[fn] && fn.Signature.Results().Len() >= 1 && isString(fn.Signature.Results().At(0).Type()) {
				rets := realReturns(fn)
				all := len(rets) > 0
				for _, r := range rets {
					for _, v := range returnOperandDeep(r, 0) {
						if v == nil || !t.is(v, 0) {
							all = false
						}
					}
				}
				if all {
					t.returns[fn] = true
					changed = true
				}
			}
			for _, k := range core.Calls(fn) {
				var tainted []int
				for i, a := range k.Common().Args {
					if isString(a.Type()) && t.is(a, 0) {
						tainted = append(tainted, i)
					}
				}
				if len(tainted) == 0 {
					continue
				}
				for _, callee := range p.Callees(k) {
					if callee.Blocks == nil || p.Name(callee) == callee.String() {
						continue
					}
					off := 0
					if k.Common().IsInvoke() {
						off = 1 // receiver is Params[0]
					}
					for _, i := range tainted {
						if i+off < len(callee.Params) && isString(callee.Params[i+off].Type()) && !t.params[callee.Params[i+off]] {
							t.params[callee.Params[i+off]] = true
							changed = true
						}
					}
				}
			}
		}
	}
	return t
}

func ruleSwap5(c *Ctx) {
	p := c.P
	c.Fn(fnHCommit)
	t := newDataPathTaint(c)
	const oRDONLY, writeBits = 0, 0x1 | 0x2 | 0x40 | 0x200 | 0x400 // O_WRONLY|O_RDWR|O_CREATE|O_TRUNC|O_APPEND (linux)
	for _, fn := range p.SrcFuncs() {
		cnt := map[string]int{}
		for _, k := range core.Calls(fn) {
			name := p.CalleeName(k)
			if name == "" || strings.HasPrefix(name, "invoke:") || strings.HasPrefix(name, "builtin:") {
				continue
			}
			callee := core.StaticCallee(k)
			if callee == nil || p.Name(callee) != callee.String() {
				continue // csvq functions are followed through their parameters
			}
			pkg := ""
			if callee.Pkg != nil {
				pkg = callee.Pkg.Pkg.Path()
			}
			fileAPI := pkg == "os" || pkg == "io/ioutil" || pkg == "os/exec" || pkg == "syscall" || pkg == goFile || strings.HasPrefix(pkg, "golang.org/x/sys/")
			if !fileAPI {
				continue
			}
			args := k.Common().Args
			var hit []int
			for i, a := range args {
				if t.is(a, 0) {
					hit = append(hit, i)
				}
			}
			if len(hit) == 0 {
				continue
			}
			if readOnlyPathOps[name] {
				if strings.Contains(name, "Open") || strings.Contains(name, "ReadFile") {
					c.Sites++
					c.Touch(fn)
					ro := name[strings.LastIndex(name, "/")+1:]
					if strings.HasPrefix(ro, "v2.") {
						ro = "go-file." + ro[3:]
					}
					cnt[ro]++
					key := c.KeyAt(fn, ro+" on the table path")
					if cnt[ro] > 1 {
						key += " " + ordinal(cnt[ro])
					}
					c.Ok(key, c.Pos(k), "read-only open")
				}
				continue
			}
			c.Sites++
			c.Touch(fn)
			short := name[strings.LastIndex(name, "/")+1:]
			if strings.HasPrefix(short, "v2.") {
				short = "go-file." + short[3:]
			}
			cnt[short]++
			key := c.KeyAt(fn, short+" on the table path")
			if cnt[short] > 1 {
				key += " " + ordinal(cnt[short])
			}
			pos := c.Pos(k)
			danger := "from the moment the table is truncated / partly overwritten until the write has finished it holds neither its old nor its new contents, and a crash (or ENOSPC) in that window loses the old table for good; an existing table may only be replaced by os.Rename of the completely written temp file"
			switch name {
			case "os.OpenFile":
				if fl, ok := core.ConstInt(args[1]); ok && len(args) == 3 && fl&writeBits == 0 && fl == oRDONLY {
					c.Ok(key, pos, "constant O_RDONLY")
				} else {
					c.Bad(key, pos, "os.OpenFile opens the table path with write / truncate (or non-constant) flags: "+danger)
				}
			case "os.Create", "os.WriteFile", "io/ioutil.WriteFile", "os.Truncate":
				c.Bad(key, pos, short+" truncates or rewrites the table in place: "+danger)
			case fnOsRename:
				if hit[0] == 0 {
					c.Bad(key, pos, "os.Rename moves the table itself away (the table path is the source): until something is renamed back, the table is missing")
				} else {
					c.Ok(key, pos, "the table path is the target of the rename (source and order: R-SWAP-1/2)")
				}
			case fnGoCreate:
				c.Ok(key, pos, "O_CREATE|O_EXCL: fails if a table already exists at the path, cannot modify one")
			case goFile + ".OpenToUpdate", goFile + ".TryOpenToUpdate", goFile + ".OpenToUpdateContext":
				fp := resultOf(k, 0)
				stored, other := false, ""
				if fp != nil {
					for _, r := range *fp.Referrers() {
						switch x := r.(type) {
						case *ssa.Store:
							if fa, ok := x.Addr.(*ssa.FieldAddr); ok && x.Val == fp && core.FieldOwner(fa) == fldHFp {
								stored = true
							} else {
								other = "stored at " + c.Pos(x)
							}
						case *ssa.DebugRef:
						default:
							other = "used at " + c.Pos(r)
						}
					}
				}
				if handlerAlloc(fn) != nil && stored && other == "" {
					c.Ok(key, pos, "the constructor's flock-open; the descriptor only goes to Handler.fp, which is never written (R-SWAP-3, R-SWAP-4)")
				} else {
					c.Bad(key, pos, "the table is opened read-write outside a Handler constructor (or its descriptor is "+other+" instead of only being kept in Handler.fp): contents written through it change the table in place; "+danger)
				}
			default:
				c.Bad(key, pos, short+" receives the table path and is not known to leave the file unchanged: "+danger)
			}
		}
	}
}
