package rules

import (
	"fmt"
	"go/token"
	"strings"

	"golang.org/x/tools/go/ssa"

	"verif/checker/core"
)

// R-ERR-13 — indexing the result of strings.Split / SplitN / SplitAfter(N) /
// Fields / FieldsFunc. Over ALL csvq packages including the generated parsers.
// len(Split(s, sep)) ≥ 1 for a non-empty sep (SplitN: n ≠ 0), nothing more; an
// index k needs k < len shown by a dominating len test of the same slice, by a
// range/loop bound, or by a dominating strings.Contains(s, sep) /
// strings.Index(s, sep) ≥ 0 test of the same operands (then len ≥ 2).

var e19SplitFns = map[string]bool{
	"strings.Split": true, "strings.SplitN": true, "strings.SplitAfter": true, "strings.SplitAfterN": true,
	"strings.Fields": true, "strings.FieldsFunc": true,
}

func init() {
	Register(&Rule{ID: "R-ERR-13", Props: []string{"C19", "C18"}, Floor: 15,
		Doc: "every index or slice bound applied to the result of strings.Split/SplitN/SplitAfter(N)/Fields/FieldsFunc, in all csvq packages including the generated parsers, is shown < len (≤ len for bounds) where it is used: Split with a non-empty separator yields at least one element and nothing more, so an index ≥ 1 needs a dominating len test of the same slice (or a loop/range bound), " +
			"or a dominating strings.Contains(s, sep) / strings.Index(s, sep) ≥ 0 test of the same string and separator (then len ≥ 2)" + e19BoundsAssumption,
		Controls: []string{"CtlSplitSecondElement"},
		Run:      ruleErr13})
}

// e19SplitOrigin: the Split-family call(s) a slice value comes from (nil if any origin is something else).
func e19SplitOrigin(c *Ctx, base ssa.Value) []*ssa.Call { return e19SplitOriginD(c, base, 0) }

func e19SplitOriginD(c *Ctx, base ssa.Value, d int) []*ssa.Call {
	var out []*ssa.Call
	for _, o := range core.Origins(base, false) {
		if p, ok := o.(*ssa.Parameter); ok && d < 2 {
			// a helper's parameter: split-derived when every caller passes a Split result
			fn := p.Parent()
			idx := -1
			for i, q := range fn.Params {
				if q == p {
					idx = i
				}
			}
			edges := c.P.RealCallers(fn)
			if idx < 0 || len(edges) == 0 || len(edges) > 8 {
				return nil
			}
			for _, ed := range edges {
				if ed.Site == nil || ed.Site.Common().StaticCallee() != fn || idx >= len(ed.Site.Common().Args) {
					return nil
				}
				sub := e19SplitOriginD(c, ed.Site.Common().Args[idx], d+1)
				if sub == nil {
					return nil
				}
				out = append(out, sub...)
			}
			continue
		}
		call, ok := o.(*ssa.Call)
		if !ok || !e19SplitFns[c.P.CalleeName(call)] {
			return nil
		}
		out = append(out, call)
	}
	return out
}

// e19ContainsSep: a dominating fact shows that s contains sep.
func e19ContainsSep(c *Ctx, call *ssa.Call, at ssa.Instruction) bool {
	args := call.Common().Args
	if len(args) < 2 {
		return false
	}
	if n, ok := core.ConstInt(args[len(args)-1]); ok && len(args) == 3 && n >= 0 && n < 2 {
		return false
	}
	for _, f := range core.FactsAt(at.Block()) {
		switch x := f.Cond.(type) {
		case *ssa.Call:
			if !f.Neg && c.P.CalleeName(x) == "strings.Contains" && core.SameVal(x.Common().Args[0], args[0]) && core.SameVal(x.Common().Args[1], args[1]) {
				return true
			}
		case *ssa.BinOp:
			ic, ok := x.X.(*ssa.Call)
			if !ok || c.P.CalleeName(ic) != "strings.Index" || !core.SameVal(ic.Common().Args[0], args[0]) || !core.SameVal(ic.Common().Args[1], args[1]) {
				continue
			}
			k, ok := core.ConstInt(x.Y)
			if !ok {
				continue
			}
			op := x.Op
			if f.Neg {
				op = e19Neg(op)
			}
			if (op == token.GEQ && k == 0) || (op == token.GTR && k == -1) || (op == token.NEQ && k == -1) {
				return true
			}
		}
	}
	return false
}

func ruleErr13(c *Ctx) {
	e := e19NewBounds(c)
	pr := &e19Prover{c: c, e: e, busy: map[e19BusyKey]bool{}}
	seq := e19SeqKey{}
	check := func(fn *ssa.Function, in ssa.Instruction, base, idx ssa.Value, strict bool, role string) {
		if idx == nil {
			return
		}
		calls := e19SplitOrigin(c, base)
		if calls == nil {
			return
		}
		c.Sites++
		c.Touch(fn)
		name := e19ShortFn(c.P.CalleeName(calls[0]))
		key := seq.key(c, fn, fmt.Sprintf("%s result[%s]%s", name, e19ExprLabel(idx), role))
		var bad []string
		if a := e.Eval(idx, in, core.KInt); !a.Bot && a.Lo < 0 {
			bad = append(bad, "not shown ≥ 0 ("+e19FmtAV(a)+")")
		}
		ok := pr.le(idx, e19Term{base: base}, strict, core.FactsAt(in.Block()), in, 0)
		if !ok {
			// separator proven present ⇒ at least two elements
			if k, isK := core.ConstInt(idx); isK && ((strict && k <= 1) || (!strict && k <= 2)) {
				all := true
				for _, call := range calls {
					if !e19ContainsSep(c, call, in) {
						all = false
					}
				}
				ok = all
			}
		}
		if !ok {
			l := e.Eval(base, in, core.KLen)
			bad = append(bad, fmt.Sprintf("not shown within the %d..%s elements that %s can return here: no dominating len test of this slice and no test that the separator occurs", int(l.Lo), e19FmtBound(l.Hi), name))
		}
		if len(bad) == 0 {
			c.Ok(key, c.Pos(in), "index within the guaranteed length")
			return
		}
		c.Bad(key, c.Pos(in), fmt.Sprintf("element %s of the result of %s is used but the index is %s — index out of range when the input lacks the separator (panic; in the parser: a Go stack trace instead of a syntax error)", e19ExprLabel(idx), name, strings.Join(bad, "; ")))
	}
	for _, fn := range c.P.SrcFuncs() {
		for _, b := range fn.Blocks {
			for _, in := range b.Instrs {
				switch x := in.(type) {
				case *ssa.Index:
					check(fn, x, x.X, x.Index, true, "")
				case *ssa.IndexAddr:
					check(fn, x, x.X, x.Index, true, "")
				case *ssa.Slice:
					if x.Low != nil {
						check(fn, x, x.X, x.Low, false, " (low)")
					}
					if x.High != nil {
						check(fn, x, x.X, x.High, false, " (high)")
					}
				}
			}
		}
	}
}
