package rules

import (
	"fmt"
	"strings"

	"golang.org/x/tools/go/ssa"

	"verif/checker/core"
)

// R-MTX-1: every Lock is paired with an Unlock on every path.

func init() {
	Register(&Rule{ID: "R-MTX-1", Props: []string{"C19", "C13", "C09"}, Floor: 20,
		Doc:      "every Lock is paired: for each call of (*sync.Mutex).Lock / (*sync.RWMutex).Lock / RLock in csvq, every path from the call to an exit of the function (return or panic, error exits included) passes the matching Unlock / RUnlock of the same mutex, or a deferred one has been registered before the exit — a mutex left locked on one error return makes the next statement of a session, or a sibling worker goroutine, wait forever (the process then ignores SIGTERM too, because the signal only cancels the context)",
		Controls: []string{"CtlLockLeakedOnErrorReturn"},
		Run:      ruleMtx1})
}

func ruleMtx1(c *Ctx) {
	pair := map[string]string{
		"(*sync.Mutex).Lock":    "(*sync.Mutex).Unlock",
		"(*sync.RWMutex).Lock":  "(*sync.RWMutex).Unlock",
		"(*sync.RWMutex).RLock": "(*sync.RWMutex).RUnlock",
	}
	// wrappers: a function whose whole effect on a mutex reached from its first parameter / receiver is to lock it
	// (or to unlock it) — `func (m SyncMap) lock() { m.mtx.Lock() }`. Calls of such a pair are paired like the
	// primitive calls; the wrapper itself is not an obligation.
	acquire := map[*ssa.Function]string{} // wrapper → "recvType/fieldPath/unlockName"
	release := map[*ssa.Function]string{}
	for _, fn := range c.P.SrcFuncs() {
		if len(fn.Params) == 0 || fn.Parent() != nil {
			continue
		}
		var locks, unlocks []ssa.CallInstruction
		for _, call := range core.Calls(fn) {
			name := c.P.CalleeName(call)
			if _, ok := pair[name]; ok {
				locks = append(locks, call)
			}
			for _, u := range pair {
				if name == u {
					unlocks = append(unlocks, call)
				}
			}
		}
		paramRooted := func(v ssa.Value) (string, bool) {
			l := valuePathLabel(v)
			p0 := fn.Params[0].Name()
			if l == p0 || strings.HasPrefix(l, p0+".") {
				return fn.Params[0].Type().String() + "/" + strings.TrimPrefix(l, p0), true
			}
			return "", false
		}
		if len(locks) == 1 && len(unlocks) == 0 {
			if id, ok := paramRooted(locks[0].Common().Args[0]); ok {
				acquire[fn] = id + "/" + pair[c.P.CalleeName(locks[0])]
			}
		}
		if len(unlocks) == 1 && len(locks) == 0 {
			if id, ok := paramRooted(unlocks[0].Common().Args[0]); ok {
				release[fn] = id + "/" + c.P.CalleeName(unlocks[0])
			}
		}
	}
	n := 0
	for _, fn := range c.P.SrcFuncs() {
		if _, isWrapper := acquire[fn]; isWrapper {
			continue
		}
		k := 0
		for _, call := range core.Calls(fn) {
			if _, isDefer := call.(*ssa.Defer); isDefer {
				continue
			}
			unlock, ok := pair[c.P.CalleeName(call)]
			wrapperID := ""
			if !ok {
				if g := call.Common().StaticCallee(); g != nil {
					if id, isAcq := acquire[g]; isAcq && len(call.Common().Args) > 0 {
						wrapperID, ok = id, true
						unlock = "the unlocking wrapper"
					}
				}
			}
			if !ok {
				continue
			}
			k++
			n++
			c.Touch(fn)
			mu := call.Common().Args[0]
			label := valuePathLabel(mu)
			key := c.KeyAt(fn, fmt.Sprintf("Lock #%d of %s is released on every path", k, label))
			same := func(v ssa.Value) bool {
				return v == mu || core.SameCell(v, mu) || valuePathLabel(v) == label
			}
			// a lock-and-return helper (the function's purpose is to leave the mutex locked for its caller):
			// accepted only when the function's name says so and an Unlock sibling exists is not modelled — report.
			isTarget := func(in ssa.Instruction) bool {
				ci, ok := in.(ssa.CallInstruction)
				if !ok {
					return false
				}
				if wrapperID == "" && c.P.CalleeName(ci) == unlock && len(ci.Common().Args) > 0 && same(ci.Common().Args[0]) {
					return true // explicit unlock, or a defer that will run at every exit from here on
				}
				if wrapperID != "" {
					if g := ci.Common().StaticCallee(); g != nil && release[g] == wrapperID && len(ci.Common().Args) > 0 && same(ci.Common().Args[0]) {
						return true
					}
				}
				// a deferred closure that unlocks
				if d, ok := in.(*ssa.Defer); ok {
					if mc, ok := d.Call.Value.(*ssa.MakeClosure); ok {
						if cf, ok := mc.Fn.(*ssa.Function); ok {
							for _, cc := range c.P.CallsNamed(cf, unlock) {
								_ = cc
								return true
							}
						}
					}
				}
				return false
			}
			// defers registered BEFORE the lock also count
			pre := false
			for _, other := range core.Calls(fn) {
				if d, ok := other.(*ssa.Defer); ok && core.Dominates(d, call.(ssa.Instruction)) && isTarget(d) {
					pre = true
				}
			}
			if pre {
				c.Ok(key, c.Pos(call), "a deferred unlock is registered before the lock")
				continue
			}
			esc := core.EscapeWithout(call.(ssa.Instruction), isTarget, nil)
			if esc == nil {
				c.Ok(key, c.Pos(call), "every path to an exit passes "+unlock+" (explicit or deferred)")
			} else {
				c.Bad(key, c.Pos(call), fmt.Sprintf("the exit at %s is reachable from the Lock at %s without %s on %s: the mutex stays locked after this function returns, and the next Lock — the following statement of the session, or another worker goroutine — waits forever", c.Pos(esc), c.Pos(call), unlock, label))
			}
		}
	}
	if n == 0 {
		c.Unknown("mutex locks", "-", "cannot-analyse: no sync.Mutex / RWMutex Lock call found in csvq")
	}
}
