package rules

import (
	"fmt"
	"go/token"
	"go/types"
	"sort"
	"strings"

	"golang.org/x/tools/go/ssa"

	"verif/checker/core"
)

// R-SCP-11 — a variable is born with its initial value.
//
// A declaration makes a new name in the innermost block, and a lookup walks
// the blocks from the innermost one. While the initial value of `VAR @x := e`
// is being evaluated the name @x must therefore not exist yet in the new
// block: `VAR @total := @total + 5` in an IF / WHILE body or in a function
// body reads the OUTER @total (the idiom for a private copy of an outer
// variable or of a parameter). A declaration that registers its names first
// (with a NULL placeholder) and fills the values in afterwards makes the
// expression read its own half-declared NULL. Added after seeded change
// C15-13 (DESIGN §8).

func init() {
	Register(&Rule{ID: "R-SCP-11", Props: []string{"C15"}, Floor: 3,
		Doc:      "a variable is born with its initial value: every call that can create a name in a lib/query.VariableMap (the raw store of the map that is not dominated by a successful Exists / Load test of the same name; pure pass-throughs of a name and a value — Store, Add, DeclareVariableDirectly, extracted helpers — are judged at their static call sites) is judged on the value it stores. When the name is the Variable of a parser.VariableAssignment A, every value that can reach the call (through φ, local cells and csvq helpers that are handed A or A.Value) is the first result of Evaluate on that same A's Value; anything else (the NULL of a declaration without initial value) reaches the call only on paths on which `A.Value == nil` has been tested (the test may sit at the call, at the φ edge, at the store into the cell, or — for a helper that declares a placeholder for a name it is handed — at every call site of the helper). Because the value is data-dependent on the evaluation, no name is added before its own initial value has been evaluated, while the names declared by earlier iterations stay visible to later ones (`VAR @a := 1, @b := @a + 1`). When the name does not come from an assignment (the parameters of a user defined function) the value is a given argument or an evaluation, never a constant placeholder that is filled in later. Decides where the stored value comes from, not what the expression evaluates to",
		Controls: []string{"CtlBornNamesRegisteredFirst", "CtlBornPlaceholderThenSet", "CtlBornEvaluatesOtherAssignment", "CtlBornParamPlaceholder", "CtlBornHelperDeclaresNull"},
		Run:      ruleScp11})
}

// bornFrame: the function a value is looked at in, with what is known about the declaration the name comes from
type bornFrame struct {
	fn     *ssa.Function
	aBase  ssa.Value      // address (cell / pointer) of the VariableAssignment whose Variable is being declared, or nil
	aParam *ssa.Parameter // … or the parameter that carries that assignment by value
	eVal   ssa.Value      // a value that is the assignment's Value (a helper's parameter), or nil
	anyE   bool           // no assignment: any evaluation is an initial value
	parent *bornFrame     // caller frame of a helper that was descended into
	call   *ssa.Call      // the call in parent
}

type bornName struct {
	aBase  ssa.Value
	aParam *ssa.Parameter // the assignment is a parameter (by value)
	nParam *ssa.Parameter // the name / the Variable is a parameter
}

func bornNamedField(t types.Type, owner, field string, idx int) bool {
	if p, ok := t.Underlying().(*types.Pointer); ok {
		t = p.Elem()
	}
	n, ok := t.(*types.Named)
	if !ok || n.Obj().Pkg() == nil || n.Obj().Name() != owner || !strings.HasSuffix(n.Obj().Pkg().Path(), "/lib/parser") {
		return false
	}
	st, ok := n.Underlying().(*types.Struct)
	return ok && idx < st.NumFields() && st.Field(idx).Name() == field
}

func bornLoad(v ssa.Value) ssa.Value {
	if u, ok := v.(*ssa.UnOp); ok && u.Op == token.MUL {
		return u.X
	}
	return nil
}

// bornEq: the two values are the same SSA value or the same pure address / load expression over the same roots
func bornEq(a, b ssa.Value) bool {
	if a == b {
		return true
	}
	switch x := a.(type) {
	case *ssa.UnOp:
		y, ok := b.(*ssa.UnOp)
		return ok && x.Op == token.MUL && y.Op == token.MUL && bornEq(x.X, y.X)
	case *ssa.FieldAddr:
		y, ok := b.(*ssa.FieldAddr)
		return ok && x.Field == y.Field && bornEq(x.X, y.X)
	case *ssa.Field:
		y, ok := b.(*ssa.Field)
		return ok && x.Field == y.Field && bornEq(x.X, y.X)
	case *ssa.IndexAddr:
		y, ok := b.(*ssa.IndexAddr)
		return ok && bornEq(x.X, y.X) && bornEq(x.Index, y.Index)
	}
	return false
}

// bornWholeStores: the values stored as a whole into a local cell
func bornWholeStores(cell ssa.Value) []*ssa.Store {
	refs := cell.Referrers()
	if refs == nil {
		return nil
	}
	var out []*ssa.Store
	for _, r := range *refs {
		if st, ok := r.(*ssa.Store); ok && st.Addr == cell {
			out = append(out, st)
		}
	}
	return out
}

// bornSpilledParam: the cell is the spill slot of a by-value parameter
func bornSpilledParam(cell ssa.Value) *ssa.Parameter {
	al, ok := cell.(*ssa.Alloc)
	if !ok {
		return nil
	}
	sts := bornWholeStores(al)
	if len(sts) != 1 {
		return nil
	}
	p, _ := sts[0].Val.(*ssa.Parameter)
	return p
}

func bornAssignmentAt(base ssa.Value) bornName {
	n := bornName{aBase: base}
	if p := bornSpilledParam(base); p != nil {
		n.aParam = p
	}
	return n
}

// bornResolveVarAddr: what the parser.Variable at address a is
func bornResolveVarAddr(a ssa.Value, depth int) bornName {
	if depth > 4 {
		return bornName{}
	}
	switch x := a.(type) {
	case *ssa.FieldAddr:
		if bornNamedField(x.X.Type(), "VariableAssignment", "Variable", x.Field) {
			return bornAssignmentAt(x.X)
		}
	case *ssa.Alloc:
		sts := bornWholeStores(x)
		var got *bornName
		for _, st := range sts {
			r := bornResolveVarVal(st.Val, depth+1)
			if got == nil {
				got = &r
				continue
			}
			same := got.nParam == r.nParam && got.aParam == r.aParam && (got.aBase == r.aBase || (got.aBase != nil && r.aBase != nil && bornEq(got.aBase, r.aBase)))
			if !same {
				return bornName{}
			}
		}
		if got != nil {
			return *got
		}
	}
	return bornName{}
}

// bornResolveVarVal: what the parser.Variable value v is
func bornResolveVarVal(v ssa.Value, depth int) bornName {
	v = core.Strip(v)
	switch x := v.(type) {
	case *ssa.Parameter:
		return bornName{nParam: x}
	case *ssa.UnOp:
		if x.Op == token.MUL {
			return bornResolveVarAddr(x.X, depth)
		}
	case *ssa.Field:
		if bornNamedField(x.X.Type(), "VariableAssignment", "Variable", x.Field) {
			if p, ok := x.X.(*ssa.Parameter); ok {
				return bornName{aParam: p}
			}
			if a := bornLoad(x.X); a != nil {
				return bornAssignmentAt(a)
			}
		}
	}
	return bornName{}
}

// bornResolveName: the declaration a name (string) or Variable argument comes from
func bornResolveName(v ssa.Value) bornName {
	v = core.Strip(v)
	if p, ok := v.(*ssa.Parameter); ok {
		return bornName{nParam: p}
	}
	if a := bornLoad(v); a != nil {
		if fa, ok := a.(*ssa.FieldAddr); ok && bornNamedField(fa.X.Type(), "Variable", "Name", fa.Field) {
			return bornResolveVarAddr(fa.X, 0)
		}
	}
	if f, ok := v.(*ssa.Field); ok && bornNamedField(f.X.Type(), "Variable", "Name", f.Field) {
		return bornResolveVarVal(f.X, 0)
	}
	return bornResolveVarVal(v, 0)
}

func (fr *bornFrame) isA(y ssa.Value) bool {
	y = core.Strip(y)
	if fr.aParam != nil && y == ssa.Value(fr.aParam) {
		return true
	}
	if fr.aBase == nil {
		return false
	}
	if y == fr.aBase || bornEq(y, fr.aBase) {
		return true // the pointer itself
	}
	if a := bornLoad(y); a != nil && bornEq(a, fr.aBase) {
		return true
	}
	return false
}

func (fr *bornFrame) isE(x ssa.Value) bool {
	if fr.anyE {
		return true
	}
	x = core.Strip(x)
	if fr.eVal != nil && x == fr.eVal {
		return true
	}
	if a := bornLoad(x); a != nil {
		if fa, ok := a.(*ssa.FieldAddr); ok && bornNamedField(fa.X.Type(), "VariableAssignment", "Value", fa.Field) {
			if fr.aBase != nil && bornEq(fa.X, fr.aBase) {
				return true
			}
		}
	}
	if f, ok := x.(*ssa.Field); ok && bornNamedField(f.X.Type(), "VariableAssignment", "Value", f.Field) {
		return fr.isA(f.X)
	}
	return false
}

func (fr *bornFrame) hasAssignment() bool {
	return fr.aBase != nil || fr.aParam != nil || fr.eVal != nil
}

// noValue: one of the facts says that the assignment has no initial expression
func (fr *bornFrame) noValue(facts []core.Fact) bool {
	if !fr.hasAssignment() {
		return false
	}
	for _, f := range facts {
		x, isNeq, ok := core.NilCmp(f.Cond)
		if !ok || !fr.isE(x) {
			continue
		}
		if isNeq == f.Neg { // (x != nil) is false, or (x == nil) is true
			return true
		}
	}
	return false
}

type bornJudge struct {
	c        *Ctx
	evaluate *ssa.Function
	bad      []string
	evals    int
	givens   int
	nulls    int             // placeholders justified by the test
	pending  []ssa.Value     // placeholders that only the callers of the enclosing helper can justify
	seen     map[string]bool // (frame fn, value, under)
}

func (j *bornJudge) descr(v ssa.Value) string {
	if v == nil {
		return "(the zero value)"
	}
	if in, ok := v.(ssa.Instruction); ok {
		return describeValue(j.c.P, v) + " at " + j.c.Pos(in)
	}
	return describeValue(j.c.P, v)
}

func (j *bornJudge) other(fr *bornFrame, v ssa.Value, under bool, constant bool, top *bornFrame) {
	if fr.hasAssignment() || top.hasAssignment() {
		if under {
			j.nulls++
			return
		}
		j.bad = append(j.bad, "the value "+j.descr(v)+" is not the evaluation of the assignment's own initial expression and reaches the declaration on a path on which the assignment has not been tested to have no Value: the name exists (with a placeholder) before its initial value is evaluated")
		return
	}
	if !constant {
		j.givens++
		return
	}
	j.pending = append(j.pending, v)
}

func (j *bornJudge) walk(fr *bornFrame, v ssa.Value, under bool, depth int) {
	top := fr
	for top.parent != nil {
		top = top.parent
	}
	if v == nil {
		j.other(fr, ssa.Value(nil), under, true, top)
		return
	}
	v = core.Strip(v)
	k := fmt.Sprintf("%p/%p/%v", fr, v, under)
	if j.seen[k] || depth > 40 {
		return
	}
	j.seen[k] = true
	switch x := v.(type) {
	case *ssa.Phi:
		for i, e := range x.Edges {
			j.walk(fr, e, under || fr.noValue(core.EdgeFacts(x.Block().Preds[i], x.Block())), depth+1)
		}
		return
	case *ssa.Parameter:
		if fr.parent != nil {
			for i, p := range fr.fn.Params {
				if p == x && i < len(fr.call.Call.Args) {
					j.walk(fr.parent, fr.call.Call.Args[i], under, depth+1)
					return
				}
			}
		}
		if top.hasAssignment() {
			j.bad = append(j.bad, "the value is handed in by the caller (parameter "+x.Name()+") while the name comes from an assignment of this function: it was evaluated before the names of the earlier assignments existed, not as this assignment's initial expression")
			return
		}
		j.givens++
		return
	case *ssa.Const:
		j.other(fr, v, under, true, top)
		return
	case *ssa.Extract:
		if call, ok := x.Tuple.(*ssa.Call); ok {
			j.call(fr, call, x.Index, under, depth, top)
			return
		}
	case *ssa.Call:
		j.call(fr, x, 0, under, depth, top)
		return
	case *ssa.UnOp:
		if x.Op == token.MUL {
			switch cell := x.X.(type) {
			case *ssa.Alloc, *ssa.FreeVar:
				if _, complete := core.StoresTo(cell); complete {
					if sts := bornWholeStores(cell); len(sts) > 0 {
						for _, st := range sts {
							j.walk(fr, st.Val, under || fr.noValue(core.FactsAt(st.Block())), depth+1)
						}
						return
					}
				}
			}
		}
	}
	// anything else: a load from an argument slice, a field, a map … — given when it hangs off a parameter
	j.other(fr, v, under, false, top)
}

func (j *bornJudge) call(fr *bornFrame, call *ssa.Call, idx int, under bool, depth int, top *bornFrame) {
	under = under || fr.noValue(core.FactsAt(call.Block()))
	g := call.Common().StaticCallee()
	if g != nil && g == j.evaluate {
		if idx != 0 {
			j.other(fr, call, under, false, top)
			return
		}
		e := call.Call.Args[len(call.Call.Args)-1]
		for i, p := range g.Params {
			if strings.HasSuffix(p.Type().String(), "parser.QueryExpression") && i < len(call.Call.Args) {
				e = call.Call.Args[i]
			}
		}
		if fr.isE(e) {
			j.evals++
			return
		}
		j.bad = append(j.bad, "the value is Evaluate("+j.descr(e)+"), which is not the Value of the assignment whose Variable is declared")
		return
	}
	if g != nil && g.Blocks != nil && (j.c.P.InPkg(g, "lib/query") || j.c.P.IsControl(g)) && depth < 30 {
		sub := &bornFrame{fn: g, parent: fr, call: call, anyE: fr.anyE}
		for i, a := range call.Call.Args {
			if i >= len(g.Params) {
				break
			}
			switch {
			case fr.isA(a):
				if _, isPtr := g.Params[i].Type().Underlying().(*types.Pointer); isPtr {
					sub.aBase = g.Params[i]
				} else {
					sub.aParam = g.Params[i]
					// a by-value struct parameter lives in its spill slot
					if refs := g.Params[i].Referrers(); refs != nil {
						for _, r := range *refs {
							if st, ok := r.(*ssa.Store); ok && st.Val == ssa.Value(g.Params[i]) {
								if al, ok := st.Addr.(*ssa.Alloc); ok {
									sub.aBase = al
								}
							}
						}
					}
				}
			case !fr.anyE && fr.hasAssignment() && fr.isE(a):
				sub.eVal = g.Params[i]
			}
		}
		n := 0
		for _, r := range core.Returns(g) {
			for _, rv := range core.ReturnOperand(r, idx) {
				n++
				j.walk(sub, rv, under || sub.noValue(core.FactsAt(r.Block())), depth+1)
			}
		}
		if n > 0 {
			return
		}
	}
	constant := true
	for _, a := range call.Call.Args {
		if _, ok := core.Strip(a).(*ssa.Const); !ok {
			constant = false
		}
	}
	if call.Common().IsInvoke() {
		constant = false
	}
	j.other(fr, call, under, constant, top)
}

// bornSite: one call that hands a name and a value to something that creates the name
type bornSite struct {
	fn        *ssa.Function
	in        ssa.CallInstruction
	name, val ssa.Value
	via       string
}

func ruleScp11(c *Ctx) {
	evaluate := c.Fn("lib/query.Evaluate")
	store := c.Fn("lib/query.(VariableMap).Store")
	if evaluate == nil || store == nil {
		return
	}
	vmT := c.P.Type("lib/query", "VariableMap")
	if vmT == nil {
		c.Unknown("anchor: lib/query.VariableMap", "-", "cannot-analyse: type not found")
		return
	}
	fromVariableMap := func(v ssa.Value) bool {
		for i := 0; i < 6 && v != nil; i++ {
			switch x := v.(type) {
			case *ssa.UnOp:
				v = x.X
				continue
			case *ssa.FieldAddr:
				t := x.X.Type()
				if p, ok := t.Underlying().(*types.Pointer); ok {
					t = p.Elem()
				}
				return types.Identical(t, vmT)
			case *ssa.Field:
				return types.Identical(x.X.Type(), vmT)
			}
			break
		}
		return false
	}
	// existence tests of a variable map: Exists / exists / Load / load (the comma-ok result)
	isExistsTest := func(call *ssa.Call) bool {
		g := call.Common().StaticCallee()
		if g == nil || g.Signature.Recv() == nil {
			return false
		}
		rt := g.Signature.Recv().Type().String()
		if !strings.HasSuffix(rt, "lib/query.VariableMap") && !strings.HasSuffix(rt, "lib/query.SyncMap") && !strings.HasSuffix(rt, "sync.Map") {
			return false
		}
		switch g.Name() {
		case "Exists", "exists", "Load", "load", "LoadDirect", "Get":
			return true
		}
		return false
	}
	// nameOfTest: the string / Variable a test is about, brought to a comparable form
	sameName := func(a, b ssa.Value) bool {
		a, b = core.Strip(a), core.Strip(b)
		if bornEq(a, b) {
			return true
		}
		// a.Name of the same Variable
		na, nb := bornResolveName(a), bornResolveName(b)
		if na.nParam != nil && na.nParam == nb.nParam {
			return true
		}
		if na.aBase != nil && nb.aBase != nil && bornEq(na.aBase, nb.aBase) {
			return true
		}
		if na.aParam != nil && na.aParam == nb.aParam {
			return true
		}
		// both read the Name of the same Variable cell
		la, lb := bornLoad(a), bornLoad(b)
		if la != nil && lb != nil && bornEq(la, lb) {
			return true
		}
		return false
	}
	isUpdate := func(in ssa.CallInstruction, name ssa.Value) bool {
		for _, f := range core.FactsAt(in.Block()) {
			if f.Neg {
				continue
			}
			var t *ssa.Call
			switch x := f.Cond.(type) {
			case *ssa.Call:
				t = x
			case *ssa.Extract:
				t, _ = x.Tuple.(*ssa.Call)
			}
			if t == nil || !isExistsTest(t) {
				continue
			}
			for i, a := range t.Call.Args {
				if i > 0 && sameName(a, name) {
					return true
				}
			}
		}
		return false
	}

	// primitive sites: the raw store of a variable map
	var work []bornSite
	for _, fn := range c.P.FuncsIn(true, "lib/query") {
		for _, call := range core.Calls(fn) {
			g := call.Common().StaticCallee()
			if g == nil || g.Signature.Recv() == nil || len(call.Common().Args) < 3 {
				continue
			}
			args := call.Common().Args
			switch {
			case g == store:
				work = append(work, bornSite{fn, call, args[1], args[2], "Store"})
			case g.Name() == "store" && strings.HasSuffix(g.Signature.Recv().Type().String(), "lib/query.SyncMap") && fn != store && fromVariableMap(args[0]):
				work = append(work, bornSite{fn, call, args[1], args[2], "store"})
			case c.P.CalleeName(call) == "(*sync.Map).Store" && fromVariableMap(args[0]):
				work = append(work, bornSite{fn, call, args[1], args[2], "sync.Map.Store"})
			}
		}
	}
	paramIdx := func(fn *ssa.Function, p *ssa.Parameter) int {
		for i, q := range fn.Params {
			if q == p {
				return i
			}
		}
		return -1
	}
	passThrough := func(fn *ssa.Function, v ssa.Value) *ssa.Parameter {
		var one *ssa.Parameter
		for _, o := range core.Origins(v, false) {
			p, ok := core.Strip(o).(*ssa.Parameter)
			if !ok || (one != nil && one != p) {
				return nil
			}
			one = p
		}
		return one
	}
	staticSites := func(fn *ssa.Function) []ssa.CallInstruction {
		var out []ssa.CallInstruction
		for _, e := range c.P.Callers(fn) {
			if e.Site != nil && e.Site.Common().StaticCallee() == fn && !e.Site.Common().IsInvoke() {
				out = append(out, e.Site)
			}
		}
		return out
	}
	// placeholderAtCallers: a helper that declares a constant for the name it is handed (parameter #pi) is right
	// when every call site hands it the Variable of an assignment that was tested to have no Value
	var placeholderAtCallers func(fn *ssa.Function, pi int, depth int) string
	placeholderAtCallers = func(fn *ssa.Function, pi int, depth int) string {
		if depth > 4 {
			return "call chain too deep"
		}
		for _, site := range staticSites(fn) {
			caller := site.Parent()
			if c.P.IsControl(caller) && !c.P.IsControl(fn) {
				continue
			}
			args := site.Common().Args
			if pi >= len(args) {
				return "called with fewer arguments at " + c.Pos(site)
			}
			n := bornResolveName(args[pi])
			switch {
			case n.aBase != nil || n.aParam != nil:
				fr := &bornFrame{fn: caller, aBase: n.aBase, aParam: n.aParam}
				if !fr.noValue(core.FactsAt(site.Block())) {
					return "the call at " + c.Pos(site) + " hands it the Variable of an assignment that has not been tested to have no Value"
				}
			case n.nParam != nil:
				if r := placeholderAtCallers(caller, paramIdx(caller, n.nParam), depth+1); r != "" {
					return r
				}
			default:
				return "the call at " + c.Pos(site) + " hands it a name that has no `no initial value` case"
			}
		}
		return ""
	}

	var sites []bornSite
	done := map[ssa.Instruction]bool{}
	for len(work) > 0 {
		s := work[0]
		work = work[1:]
		if done[s.in] {
			continue
		}
		done[s.in] = true
		if isUpdate(s.in, s.name) {
			continue // the name exists already: an assignment, not a birth
		}
		n := bornResolveName(s.name)
		np := n.nParam
		if np == nil {
			np = n.aParam
		}
		if vp := passThrough(s.fn, s.val); np != nil && vp != nil {
			// pure pass-through: judged at its static call sites (a callback handed both by a foreign caller has none)
			ni, vi := paramIdx(s.fn, np), paramIdx(s.fn, vp)
			for _, site := range staticSites(s.fn) {
				args := site.Common().Args
				if ni < 0 || vi < 0 || ni >= len(args) || vi >= len(args) {
					continue
				}
				work = append(work, bornSite{site.Parent(), site, args[ni], args[vi], s.fn.Name()})
			}
			continue
		}
		sites = append(sites, s)
	}
	sort.SliceStable(sites, func(a, b int) bool {
		na, nb := c.P.Name(sites[a].fn), c.P.Name(sites[b].fn)
		if na != nb {
			return na < nb
		}
		if sites[a].in.Block().Index != sites[b].in.Block().Index {
			return sites[a].in.Block().Index < sites[b].in.Block().Index
		}
		return core.InstrIndex(sites[a].in) < core.InstrIndex(sites[b].in)
	})
	count := map[string]int{}
	for _, s := range sites {
		c.Touch(s.fn)
		if !c.P.IsControl(s.fn) {
			c.Sites++
		}
		base := c.KeyAt(s.fn, "variable born by "+s.via)
		count[base]++
		key := fmt.Sprintf("%s #%d", base, count[base])
		n := bornResolveName(s.name)
		fr := &bornFrame{fn: s.fn, aBase: n.aBase, aParam: n.aParam}
		if !fr.hasAssignment() {
			fr.anyE = true
		}
		j := &bornJudge{c: c, evaluate: evaluate, seen: map[string]bool{}}
		under := fr.noValue(core.FactsAt(s.in.Block()))
		j.walk(fr, s.val, under, 0)
		for _, p := range j.pending {
			if n.nParam != nil {
				if r := placeholderAtCallers(s.fn, paramIdx(s.fn, n.nParam), 0); r == "" {
					j.nulls++
					continue
				} else {
					j.bad = append(j.bad, "the name is handed in (parameter "+n.nParam.Name()+") and is declared with the constant "+j.descr(p)+": "+r)
					continue
				}
			}
			j.bad = append(j.bad, "the name does not come from an assignment (it has no `no initial value` case) and is declared with the constant "+j.descr(p)+": a placeholder that is filled in later exists while the real value is evaluated")
		}
		if len(j.bad) > 0 {
			sort.Strings(j.bad)
			c.Bad(key, c.Pos(s.in), strings.Join(dedup(j.bad), "; ")+" — an initial value that mentions the name being declared (`VAR @total := @total + 5` in a block or a function body, the private copy of an outer variable or parameter) reads the half-declared inner NULL instead of the outer variable")
			continue
		}
		what := "an argument / a value given to the function"
		if fr.hasAssignment() {
			what = "Evaluate of the same assignment's Value"
		} else if j.evals > 0 && j.givens == 0 {
			what = "an evaluation"
		} else if j.evals > 0 {
			what = "an evaluation or a given argument"
		}
		c.Ok(key, c.Pos(s.in), fmt.Sprintf("the stored value is %s (%d); a constant only where the assignment has no Value (%d)", what, j.evals+j.givens, j.nulls))
	}
}
