package rules

import (
	"fmt"
	"go/token"
	"go/types"
	"sort"
	"strings"

	"golang.org/x/tools/go/ssa"

	"verif/checker/core"
)

// R-CACHE-5 (sibling of R-CACHE-1) — a read-through cache must not be blind to
// the options the entry was produced with.
//
// A *read-through cache function* is a lib/query function F with a parameter o
// of type option.ImportOptions that (1) reads a keyed view container (a call
// whose callee, or a closure of F, returns a *View it obtained from
// (*sync.Map).Load / a map lookup), and (2) stores into a keyed container,
// through a self-keyed writer (see R-ORD-2), a view that is computed from o.
// On a miss the fields of o decide how the table is parsed; on a hit the
// cached entry is returned. If the hit path never compares those fields with
// the entry, the options of whoever loads first win — and when two table
// objects with different options name one file in one query, which of them is
// first depends on the goroutine schedule (--cpu).
//
// Decided, per such F: every field of o that the producing side reads (in F
// and in the callees o, or a struct filled from o, is handed to; three levels)
// occurs in an ==/!= comparison whose other side is computed from the cached
// entry — in F, or in a callee that receives both o and the entry.

func init() {
	Register(&Rule{ID: "R-CACHE-5", Props: []string{"C12"}, Floor: 2,
		Doc:      "read-through cache functions of lib/query (an option.ImportOptions parameter, a read of a keyed *View container, and a self-keyed store of a view computed from the options — found by these roles, not by name): every ImportOptions field the producing side reads is compared (==/!=, in the function or in a callee that receives the options and the entry) with something computed from the cached entry, so that a hit is never served with options other than the requested ones; otherwise the first loader's options win and the order of first loads depends on the schedule",
		Controls: []string{"CtlCache5HitIgnoresOptions", "CtlCache5HitComparesOneField"},
		Run:      ruleCache5})
}

func ruleCache5(c *Ctx) {
	p := c.P
	e := &ord2Engine{c: c, stores: map[*ssa.Function]map[ord2Pair]bool{}, loads: map[*ssa.Function]map[int]bool{}, atoms: map[string]map[*types.Var]bool{}}
	e.summarise()
	// functions that return a *View they read from a keyed container
	returnsCached := map[*ssa.Function]bool{}
	returnsView := func(f *ssa.Function) bool {
		res := f.Signature.Results()
		for i := 0; i < res.Len(); i++ {
			if core.NamedOf(res.At(i).Type()) == "lib/query.View" {
				return true
			}
		}
		return false
	}
	fns := p.SrcFuncs()
	for changed := true; changed; {
		changed = false
		for _, f := range fns {
			if returnsCached[f] || f.Blocks == nil || !returnsView(f) {
				continue
			}
			hit := len(e.loads[f]) > 0
			for _, b := range f.Blocks {
				for _, in := range b.Instrs {
					switch x := in.(type) {
					case *ssa.Lookup:
						if _, isMap := x.X.Type().Underlying().(*types.Map); isMap && !localMap(x.X) {
							hit = true
						}
					case ssa.CallInstruction:
						if p.CalleeName(x) == "(*sync.Map).Load" {
							hit = true
						} else if g := x.Common().StaticCallee(); g != nil && (returnsCached[g] || len(e.loads[g]) > 0 && returnsView(g)) {
							hit = true
						} else if mc, ok := x.Common().Value.(*ssa.MakeClosure); ok && returnsCached[mc.Fn.(*ssa.Function)] {
							hit = true
						}
					}
				}
			}
			if hit {
				returnsCached[f] = true
				changed = true
			}
		}
	}
	isOpt := func(t types.Type) bool { return core.NamedOf(t) == "lib/option.ImportOptions" }
	for _, fn := range p.FuncsIn(true, "lib/query") {
		if fn.Blocks == nil {
			continue
		}
		var opt *ssa.Parameter
		for _, pa := range fn.Params {
			if isOpt(pa.Type()) {
				opt = pa
			}
		}
		if opt == nil {
			continue
		}
		// (1) cached entries read in fn
		var cached []ssa.Value
		for _, call := range core.Calls(fn) {
			v, ok := call.(ssa.Value)
			if !ok {
				continue
			}
			g := call.Common().StaticCallee()
			if mc, isMC := call.Common().Value.(*ssa.MakeClosure); isMC {
				g = mc.Fn.(*ssa.Function)
			}
			if g != nil && returnsCached[g] {
				cached = append(cached, v)
			}
		}
		if len(cached) == 0 {
			continue
		}
		// (2) a self-keyed store of a view computed from the options
		var store ssa.CallInstruction
		for _, call := range core.Calls(fn) {
			g := call.Common().StaticCallee()
			if g == nil {
				continue
			}
			for _, j := range e.selfKeyed(g) {
				if j < len(call.Common().Args) && c5DependsOnOpt(call.Common().Args[j], opt) {
					store = call
				}
			}
		}
		if store == nil {
			continue
		}
		c.Touch(fn)
		key := c.KeyAt(fn, "import options compared with the cached entry on a hit")
		read := map[*types.Var]bool{}
		c5ReadFields(p, fn, opt, read, 3, map[string]bool{})
		compared := map[*types.Var]bool{}
		c5Compared(p, fn, opt, func(v ssa.Value) bool {
			for _, cv := range cached {
				if core.DependsOn(v, cv) {
					return true
				}
			}
			return false
		}, compared, 2)
		var missing []string
		for _, f := range ord2SortedVars(read) {
			if !compared[f] {
				missing = append(missing, f.Name())
			}
		}
		if len(read) == 0 {
			c.Unknown(key, c.Pos(store), "the stored view is computed from the options, but no field read was found on the producing side")
			continue
		}
		if len(missing) > 0 {
			c.Bad(key, c.Pos(store), fmt.Sprintf("on a miss the view stored by %s is produced from %d ImportOptions field(s); on a hit the cached entry is returned without comparing %s with it: the options of the first loader win, and when two table objects with different options name one table in one query the first loader is chosen by the goroutine schedule (--cpu)", short2(p.CalleeName(store)), len(read), strings.Join(missing, ", ")))
			continue
		}
		c.Ok(key, c.Pos(store), fmt.Sprintf("every ImportOptions field the producing side reads (%s) is compared with the cached entry", ord2AtomNames(read)))
	}
}

// c5DependsOnOpt: v is computed from the options parameter (also through the
// local copy a modified parameter is spilled into).
func c5DependsOnOpt(v ssa.Value, opt *ssa.Parameter) bool {
	if core.DependsOn(v, opt) {
		return true
	}
	return false
}

// c5Holders: the values of fn that hold the ImportOptions passed as v: v
// itself, loads of the local it is spilled into.
func c5Holders(v ssa.Value) (vals []ssa.Value, cells []*ssa.Alloc) {
	vals = append(vals, v)
	if refs := v.Referrers(); refs != nil {
		for _, r := range *refs {
			if st, ok := r.(*ssa.Store); ok && st.Val == v {
				if al, ok := st.Addr.(*ssa.Alloc); ok {
					cells = append(cells, al)
					for _, rr := range *al.Referrers() {
						if u, ok := rr.(*ssa.UnOp); ok && u.Op == token.MUL {
							vals = append(vals, u)
						}
					}
				}
			}
		}
	}
	return
}

func c5FieldVar(t types.Type, idx int) *types.Var {
	if pt, ok := t.Underlying().(*types.Pointer); ok {
		t = pt.Elem()
	}
	if st, ok := t.Underlying().(*types.Struct); ok && idx < st.NumFields() {
		return st.Field(idx)
	}
	return nil
}

// c5ReadFields: fields of the ImportOptions value v read in fn and in the
// callees it is handed to.
func c5ReadFields(p *core.Prog, fn *ssa.Function, v ssa.Value, out map[*types.Var]bool, depth int, seen map[string]bool) {
	k := p.Name(fn) + "|" + v.Name()
	if seen[k] {
		return
	}
	seen[k] = true
	vals, cells := c5Holders(v)
	for _, al := range cells {
		for _, r := range *al.Referrers() {
			if fa, ok := r.(*ssa.FieldAddr); ok {
				for _, rr := range *fa.Referrers() {
					if u, ok := rr.(*ssa.UnOp); ok && u.Op == token.MUL {
						if f := c5FieldVar(al.Type(), fa.Field); f != nil {
							out[f] = true
						}
					}
				}
			}
		}
	}
	for _, hv := range vals {
		refs := hv.Referrers()
		if refs == nil {
			continue
		}
		for _, r := range *refs {
			switch x := r.(type) {
			case *ssa.Field:
				if f := c5FieldVar(hv.Type(), x.Field); f != nil {
					out[f] = true
				}
			case ssa.CallInstruction:
				g := x.Common().StaticCallee()
				if g == nil || g.Blocks == nil || depth == 0 {
					continue
				}
				for i, a := range x.Common().Args {
					if a == hv && i < len(g.Params) {
						c5ReadFields(p, g, g.Params[i], out, depth-1, seen)
					}
				}
			}
		}
	}
}

// c5Compared: fields f of the ImportOptions value opt for which an ==/!=
// comparison of opt.f with something satisfying isEntry exists in fn, or in a
// callee that receives opt and an entry-derived argument.
func c5Compared(p *core.Prog, fn *ssa.Function, opt ssa.Value, isEntry func(ssa.Value) bool, out map[*types.Var]bool, depth int) {
	vals, cells := c5Holders(opt)
	fieldOf := func(v ssa.Value) *types.Var {
		switch x := v.(type) {
		case *ssa.Field:
			for _, hv := range vals {
				if x.X == hv {
					return c5FieldVar(hv.Type(), x.Field)
				}
			}
		case *ssa.UnOp:
			if fa, ok := x.X.(*ssa.FieldAddr); ok && x.Op == token.MUL {
				for _, al := range cells {
					if fa.X == al {
						return c5FieldVar(al.Type(), fa.Field)
					}
				}
			}
		case *ssa.Convert:
			return nil
		}
		return nil
	}
	for _, b := range fn.Blocks {
		for _, in := range b.Instrs {
			switch x := in.(type) {
			case *ssa.BinOp:
				if x.Op != token.EQL && x.Op != token.NEQ {
					continue
				}
				if f := fieldOf(x.X); f != nil && isEntry(x.Y) {
					out[f] = true
				}
				if f := fieldOf(x.Y); f != nil && isEntry(x.X) {
					out[f] = true
				}
			case ssa.CallInstruction:
				// a comparison helper given the field and something of the entry
				// (reflect.DeepEqual, an Equal method) that answers with a bool
				if cv, isVal := x.(ssa.Value); isVal {
					if bt, isB := cv.Type().Underlying().(*types.Basic); isB && bt.Kind() == types.Bool {
						var fs []*types.Var
						entry := false
						for _, a := range x.Common().Args {
							for _, o := range core.Origins(a, false) {
								if f := fieldOf(o); f != nil {
									fs = append(fs, f)
								} else if isEntry(o) {
									entry = true
								}
							}
						}
						if entry {
							for _, f := range fs {
								out[f] = true
							}
						}
					}
				}
				g := x.Common().StaticCallee()
				if g == nil || g.Blocks == nil || depth == 0 {
					continue
				}
				optIdx := -1
				entryIdx := map[int]bool{}
				for i, a := range x.Common().Args {
					for _, hv := range vals {
						if a == hv {
							optIdx = i
						}
					}
					if isEntry(a) {
						entryIdx[i] = true
					}
				}
				if optIdx < 0 || len(entryIdx) == 0 || optIdx >= len(g.Params) {
					continue
				}
				var idxs []int
				for i := range entryIdx {
					idxs = append(idxs, i)
				}
				sort.Ints(idxs)
				c5Compared(p, g, g.Params[optIdx], func(v ssa.Value) bool {
					for _, i := range idxs {
						if i < len(g.Params) && core.DependsOn(v, g.Params[i]) {
							return true
						}
					}
					return false
				}, out, depth-1)
			}
		}
	}
}
