package rules

import (
	"fmt"
	"go/ast"
	"go/types"
	"sort"
	"strings"
)

// R-DROP-1: no error result is dropped.
//
// csvq reports failures only through returned errors: "the file was written"
// (C01, C02), "the statement failed and changed nothing" (C08) and "every
// failure ends with a message and an exit code" (C19) all presuppose that an
// error produced anywhere reaches a caller that looks at it. The pinned tree
// has no call whose error result is silently discarded; the rule keeps it so.

func init() {
	Register(&Rule{ID: "R-DROP-1", Props: []string{"C02", "C01", "C19", "C10"}, Floor: 1300,
		Doc:      "no error is dropped on the floor: (a) in every csvq package, no call whose result type is error (or a tuple containing error) is used as an expression statement, deferred or started with go — `defer w.Flush()` loses the only report that the last buffer could not be encoded or written, and the caller then announces a complete file; calls that cannot fail by contract are listed by callee with the reason (writes into bytes.Buffer / strings.Builder, fmt.Print* to the process streams); (b) an explicit `_ =` / `x, _ :=` discard is accepted as a visible decision except for output primitives — callee named Write*, Flush, Sync, Close, Truncate, Seek, Rename, Remove*, Commit* — whose error is the difference between a table that was written and one that was not. Decides that errors are looked at, not that they are handled correctly",
		Controls: []string{"CtlDeferredFlushDropsError", "CtlBlankedWriteError"},
		Run:      ruleDrop1})
}

// callees whose error result is always nil by contract
var dropNeverFails = map[string]string{
	"(*bytes.Buffer).Write":          "bytes.Buffer writes never fail (they panic on out-of-memory)",
	"(*bytes.Buffer).WriteString":    "bytes.Buffer",
	"(*bytes.Buffer).WriteByte":      "bytes.Buffer",
	"(*bytes.Buffer).WriteRune":      "bytes.Buffer",
	"(*strings.Builder).Write":       "strings.Builder writes never fail",
	"(*strings.Builder).WriteString": "strings.Builder",
	"(*strings.Builder).WriteByte":   "strings.Builder",
	"(*strings.Builder).WriteRune":   "strings.Builder",
	"(hash.Hash).Write":              "hash.Hash: Write never returns an error (documented contract)",
	"fmt.Print":                      "diagnostic output to the process's own stdout",
	"fmt.Println":                    "diagnostic output to the process's own stdout",
	"fmt.Printf":                     "diagnostic output to the process's own stdout",
}

var dropOutputPrimitive = []string{"Write", "Flush", "Sync", "Close", "Truncate", "Seek", "Rename", "Remove", "Commit"}

func dropCalleeName(info *types.Info, call *ast.CallExpr) (full, short string) {
	var id *ast.Ident
	switch f := ast.Unparen(call.Fun).(type) {
	case *ast.Ident:
		id = f
	case *ast.SelectorExpr:
		id = f.Sel
	case *ast.IndexExpr:
		if s, ok := f.X.(*ast.SelectorExpr); ok {
			id = s.Sel
		} else if i, ok := f.X.(*ast.Ident); ok {
			id = i
		}
	}
	if id == nil {
		return "", ""
	}
	short = id.Name
	if fn, ok := info.Uses[id].(*types.Func); ok {
		// a method promoted from an embedded interface is named after the static type it is called on
		// (hash.Hash embeds io.Writer: "It never returns an error")
		if s, ok := ast.Unparen(call.Fun).(*ast.SelectorExpr); ok {
			if rt := info.TypeOf(s.X); rt != nil && rt.String() == "hash.Hash" {
				return "(hash.Hash)." + fn.Name(), short
			}
		}
		return fn.FullName(), short
	}
	return "", short
}

func hasErrorResult(t types.Type) bool {
	if t == nil {
		return false
	}
	isErr := func(x types.Type) bool {
		n, ok := x.(*types.Named)
		return ok && n.Obj().Pkg() == nil && n.Obj().Name() == "error"
	}
	if tup, ok := t.(*types.Tuple); ok {
		for i := 0; i < tup.Len(); i++ {
			if isErr(tup.At(i).Type()) {
				return true
			}
		}
		return false
	}
	return isErr(t)
}

// errorResultIndexes: positions of error in the call's result tuple
func errorResultIndexes(t types.Type) []int {
	var out []int
	isErr := func(x types.Type) bool {
		n, ok := x.(*types.Named)
		return ok && n.Obj().Pkg() == nil && n.Obj().Name() == "error"
	}
	if tup, ok := t.(*types.Tuple); ok {
		for i := 0; i < tup.Len(); i++ {
			if isErr(tup.At(i).Type()) {
				out = append(out, i)
			}
		}
	} else if t != nil && isErr(t) {
		out = append(out, 0)
	}
	return out
}

func ruleDrop1(c *Ctx) {
	var pkgs []string
	for short := range c.P.ByPath {
		pkgs = append(pkgs, short)
	}
	sort.Strings(pkgs)
	calls := 0
	for _, short := range pkgs {
		pk := c.P.ByPath[short]
		info := pk.TypesInfo
		if info == nil {
			continue
		}
		for _, file := range pk.Syntax {
			fname := c.P.Fset.Position(file.Pos()).Filename
			if strings.HasSuffix(fname, "_test.go") {
				continue
			}
			for _, decl := range file.Decls {
				fd, ok := decl.(*ast.FuncDecl)
				if !ok || fd.Body == nil {
					continue
				}
				host := short + "." + fd.Name.Name
				if fd.Recv != nil && len(fd.Recv.List) > 0 {
					host = short + ".(" + types.ExprString(fd.Recv.List[0].Type) + ")." + fd.Name.Name
				}
				type finding struct{ what, pos, why string }
				var bad []finding
				n := 0
				dropped := func(call *ast.CallExpr, how string) {
					t := info.TypeOf(call)
					if !hasErrorResult(t) {
						return
					}
					full, sh := dropCalleeName(info, call)
					if _, ok := dropNeverFails[full]; ok {
						return
					}
					label := full
					if label == "" {
						label = types.ExprString(call.Fun)
					}
					_ = sh
					bad = append(bad, finding{how + " " + label, c.P.Pos(call.Pos()), "the error result of " + label + " is dropped (" + how + "): a failure at this point is reported to nobody"})
				}
				blanked := func(call *ast.CallExpr, lhs []ast.Expr) {
					t := info.TypeOf(call)
					idx := errorResultIndexes(t)
					if len(idx) == 0 {
						return
					}
					full, sh := dropCalleeName(info, call)
					prim := false
					for _, p := range dropOutputPrimitive {
						if strings.HasPrefix(sh, p) {
							prim = true
						}
					}
					if !prim {
						return
					}
					if _, ok := dropNeverFails[full]; ok {
						return
					}
					for _, i := range idx {
						if i < len(lhs) {
							if id, ok := lhs[i].(*ast.Ident); ok && id.Name == "_" {
								label := full
								if label == "" {
									label = types.ExprString(call.Fun)
								}
								bad = append(bad, finding{"blank " + label, c.P.Pos(call.Pos()), "the error of the output primitive " + label + " is assigned to _: whether the bytes reached the file is no longer known to the caller"})
							}
						}
					}
				}
				ast.Inspect(fd.Body, func(nd ast.Node) bool {
					switch x := nd.(type) {
					case *ast.CallExpr:
						n++
					case *ast.ExprStmt:
						if call, ok := ast.Unparen(x.X).(*ast.CallExpr); ok {
							dropped(call, "expression statement")
						}
					case *ast.DeferStmt:
						dropped(x.Call, "defer")
					case *ast.GoStmt:
						dropped(x.Call, "go")
					case *ast.AssignStmt:
						if len(x.Rhs) == 1 {
							if call, ok := ast.Unparen(x.Rhs[0]).(*ast.CallExpr); ok {
								blanked(call, x.Lhs)
							}
						}
					}
					return true
				})
				if n == 0 {
					continue
				}
				calls += n
				key := host + ": no error result dropped"
				if len(bad) == 0 {
					c.OkN(key, c.P.Pos(fd.Pos()), fmt.Sprintf("%d call(s) examined", n), n)
					continue
				}
				sort.Slice(bad, func(i, j int) bool { return bad[i].pos < bad[j].pos })
				var why []string
				for _, b := range bad {
					why = append(why, b.why)
				}
				c.Bad(key, bad[0].pos, strings.Join(dedup(why), "; "))
			}
		}
	}
	c.Sites += calls
}
