package rules

import (
	"fmt"
	"go/ast"
	"go/types"
	"sort"
	"strings"

	"golang.org/x/tools/go/ssa"

	"verif/checker/core"
)

// R-DROP-1: no error result is dropped.
//
// csvq reports failures only through returned errors: "the file was written"
// (C01, C02), "the statement failed and changed nothing" (C08) and "every
// failure ends with a message and an exit code" (C19) all presuppose that an
// error produced anywhere reaches a caller that looks at it. The pinned tree
// has no call whose error result is silently discarded; the rule keeps it so.

func init() {
	Register(&Rule{ID: "R-DROP-1", Props: []string{"C02", "C01", "C19", "C10"}, Floor: 1300,
		Doc:      "no error is dropped on the floor: (a) in every csvq package, no call whose result type is error (or a tuple containing error) is used as an expression statement, deferred or started with go — `defer w.Flush()` loses the only report that the last buffer could not be encoded or written, and the caller then announces a complete file; calls that cannot fail by contract are listed by callee with the reason (writes into bytes.Buffer / strings.Builder, fmt.Print* to the process streams); (b) an explicit `_ =` / `x, _ :=` discard is accepted as a visible decision except for output primitives — callee named Write*, Flush, Sync, Close, Truncate, Seek, Rename, Remove*, Commit* — whose error is the difference between a table that was written and one that was not — and (c) for encode primitives: the csvq functions with an error result that the writer (lib/query.EncodeView) reaches through static calls and that can return a non-nil error (every return is followed, through result cells and through callees whose error is passed on) — their error is the refusal of a value the output format cannot spell (C02), and whoever else encodes with them (JSON_OBJECT builds its text with the record → JSON conversion of the JSON Lines writer) has to pass the refusal on instead of returning the text of a nil structure. A function that cannot fail may be blanked: the discard becomes a finding the day the function becomes fallible. Decides that errors are looked at, not that they are handled correctly",
		Controls: []string{"CtlDeferredFlushDropsError", "CtlBlankedWriteError", "CtlBlankedEncodeError"},
		Run:      ruleDrop1})
}

// callees whose error result is always nil by contract
var dropNeverFails = map[string]string{
	"(*bytes.Buffer).Write":          "bytes.Buffer writes never fail (they panic on out-of-memory)",
	"(*bytes.Buffer).WriteString":    "bytes.Buffer",
	"(*bytes.Buffer).WriteByte":      "bytes.Buffer",
	"(*bytes.Buffer).WriteRune":      "bytes.Buffer",
	"(*strings.Builder).Write":       "strings.Builder writes never fail",
	"(*strings.Builder).WriteString": "strings.Builder",
	"(*strings.Builder).WriteByte":   "strings.Builder",
	"(*strings.Builder).WriteRune":   "strings.Builder",
	"(hash.Hash).Write":              "hash.Hash: Write never returns an error (documented contract)",
	"fmt.Print":                      "diagnostic output to the process's own stdout",
	"fmt.Println":                    "diagnostic output to the process's own stdout",
	"fmt.Printf":                     "diagnostic output to the process's own stdout",
}

var dropOutputPrimitive = []string{"Write", "Flush", "Sync", "Close", "Truncate", "Seek", "Rename", "Remove", "Commit"}

func dropCalleeName(info *types.Info, call *ast.CallExpr) (full, short string) {
	var id *ast.Ident
	switch f := ast.Unparen(call.Fun).(type) {
	case *ast.Ident:
		id = f
	case *ast.SelectorExpr:
		id = f.Sel
	case *ast.IndexExpr:
		if s, ok := f.X.(*ast.SelectorExpr); ok {
			id = s.Sel
		} else if i, ok := f.X.(*ast.Ident); ok {
			id = i
		}
	}
	if id == nil {
		return "", ""
	}
	short = id.Name
	if fn, ok := info.Uses[id].(*types.Func); ok {
		// a method promoted from an embedded interface is named after the static type it is called on
		// (hash.Hash embeds io.Writer: "It never returns an error")
		if s, ok := ast.Unparen(call.Fun).(*ast.SelectorExpr); ok {
			if rt := info.TypeOf(s.X); rt != nil && rt.String() == "hash.Hash" {
				return "(hash.Hash)." + fn.Name(), short
			}
		}
		return fn.FullName(), short
	}
	return "", short
}

func hasErrorResult(t types.Type) bool {
	if t == nil {
		return false
	}
	isErr := func(x types.Type) bool {
		n, ok := x.(*types.Named)
		return ok && n.Obj().Pkg() == nil && n.Obj().Name() == "error"
	}
	if tup, ok := t.(*types.Tuple); ok {
		for i := 0; i < tup.Len(); i++ {
			if isErr(tup.At(i).Type()) {
				return true
			}
		}
		return false
	}
	return isErr(t)
}

// errorResultIndexes: positions of error in the call's result tuple
func errorResultIndexes(t types.Type) []int {
	var out []int
	isErr := func(x types.Type) bool {
		n, ok := x.(*types.Named)
		return ok && n.Obj().Pkg() == nil && n.Obj().Name() == "error"
	}
	if tup, ok := t.(*types.Tuple); ok {
		for i := 0; i < tup.Len(); i++ {
			if isErr(tup.At(i).Type()) {
				out = append(out, i)
			}
		}
	} else if t != nil && isErr(t) {
		out = append(out, 0)
	}
	return out
}

// dropEncodePrimitives: csvq functions with an error result that EncodeView reaches and that can fail.
func dropEncodePrimitives(c *Ctx) map[*types.Func]bool {
	out := map[*types.Func]bool{}
	root := c.Fn("lib/query.EncodeView")
	if root == nil {
		return out
	}
	fallible := map[*ssa.Function]int{} // 1 in progress / no, 2 yes
	var canFail func(f *ssa.Function) bool
	canFail = func(f *ssa.Function) bool {
		if f == nil || f.Blocks == nil {
			return true // foreign or bodiless: assume it can
		}
		switch fallible[f] {
		case 1:
			return false
		case 2:
			return true
		}
		fallible[f] = 1
		idx := core.ErrorResultIndex(f)
		if idx < 0 {
			return false
		}
		for _, r := range core.Returns(f) {
			for _, v := range core.ReturnOperand(r, idx) {
				if v == nil {
					continue // zero value of the result cell
				}
				for _, o := range core.Origins(v, false) {
					if core.IsNilConst(o) {
						continue
					}
					if call, _, ok := core.ExtractOf(o); ok {
						if g := call.Common().StaticCallee(); g != nil && g.Blocks != nil && c.P.Name(g) != g.String() {
							if canFail(g) {
								fallible[f] = 2
								return true
							}
							continue
						}
					}
					fallible[f] = 2
					return true
				}
			}
		}
		return false
	}
	// the writer's own chain: static calls only (what a String() method reached through an interface can do is
	// not part of encoding a table)
	chain := map[*ssa.Function]bool{root: true}
	work := []*ssa.Function{root}
	for len(work) > 0 {
		f := work[len(work)-1]
		work = work[:len(work)-1]
		for _, g := range append([]*ssa.Function{f}, f.AnonFuncs...) {
			for _, call := range core.Calls(g) {
				h := call.Common().StaticCallee()
				if h == nil || h.Blocks == nil || chain[h] || c.P.Name(h) == h.String() || c.P.IsControl(h) {
					continue
				}
				chain[h] = true
				work = append(work, h)
			}
		}
	}
	var fns []*ssa.Function
	for f := range chain {
		fns = append(fns, f)
	}
	sortFuncs(c.P, fns)
	for _, f := range fns {
		if f == root || f.Parent() != nil {
			continue
		}
		obj, ok := f.Object().(*types.Func)
		if !ok || core.ErrorResultIndex(f) < 0 {
			continue
		}
		// error constructors return the error they build: nobody blanks those, and they are not primitives
		if f.Signature.Results().Len() == 1 {
			continue
		}
		if canFail(f) {
			out[obj] = true
		}
	}
	return out
}

func dropCalleeObj(info *types.Info, call *ast.CallExpr) *types.Func {
	var id *ast.Ident
	switch f := ast.Unparen(call.Fun).(type) {
	case *ast.Ident:
		id = f
	case *ast.SelectorExpr:
		id = f.Sel
	}
	if id == nil {
		return nil
	}
	fn, _ := info.Uses[id].(*types.Func)
	return fn
}

func ruleDrop1(c *Ctx) {
	encodePrims := dropEncodePrimitives(c)
	if len(encodePrims) < 5 {
		c.Unknown("anchor:encode primitives", "-", fmt.Sprintf("cannot-analyse: only %d fallible csvq function(s) are reachable from EncodeView (the JSON conversions and the per-format encoders were confirmed by hand)", len(encodePrims)))
	}
	var pkgs []string
	for short := range c.P.ByPath {
		pkgs = append(pkgs, short)
	}
	sort.Strings(pkgs)
	calls := 0
	for _, short := range pkgs {
		pk := c.P.ByPath[short]
		info := pk.TypesInfo
		if info == nil {
			continue
		}
		for _, file := range pk.Syntax {
			fname := c.P.Fset.Position(file.Pos()).Filename
			if strings.HasSuffix(fname, "_test.go") {
				continue
			}
			for _, decl := range file.Decls {
				fd, ok := decl.(*ast.FuncDecl)
				if !ok || fd.Body == nil {
					continue
				}
				host := short + "." + fd.Name.Name
				if fd.Recv != nil && len(fd.Recv.List) > 0 {
					host = short + ".(" + types.ExprString(fd.Recv.List[0].Type) + ")." + fd.Name.Name
				}
				type finding struct{ what, pos, why string }
				var bad []finding
				n := 0
				dropped := func(call *ast.CallExpr, how string) {
					t := info.TypeOf(call)
					if !hasErrorResult(t) {
						return
					}
					full, sh := dropCalleeName(info, call)
					if _, ok := dropNeverFails[full]; ok {
						return
					}
					label := full
					if label == "" {
						label = types.ExprString(call.Fun)
					}
					_ = sh
					bad = append(bad, finding{how + " " + label, c.P.Pos(call.Pos()), "the error result of " + label + " is dropped (" + how + "): a failure at this point is reported to nobody"})
				}
				blanked := func(call *ast.CallExpr, lhs []ast.Expr) {
					t := info.TypeOf(call)
					idx := errorResultIndexes(t)
					if len(idx) == 0 {
						return
					}
					full, sh := dropCalleeName(info, call)
					prim := false
					for _, p := range dropOutputPrimitive {
						if strings.HasPrefix(sh, p) {
							prim = true
						}
					}
					if !prim {
						if obj := dropCalleeObj(info, call); obj != nil && encodePrims[obj] {
							for _, i := range idx {
								if i < len(lhs) {
									if id, ok := lhs[i].(*ast.Ident); ok && id.Name == "_" {
										bad = append(bad, finding{"blank " + full, c.P.Pos(call.Pos()), "the error of the encode primitive " + full + " is assigned to _: the function is used by the writer (EncodeView reaches it) and can fail — its error says that the value cannot be spelled in the output format; here the caller goes on with the result of a failed conversion"})
									}
								}
							}
						}
						return
					}
					if _, ok := dropNeverFails[full]; ok {
						return
					}
					for _, i := range idx {
						if i < len(lhs) {
							if id, ok := lhs[i].(*ast.Ident); ok && id.Name == "_" {
								label := full
								if label == "" {
									label = types.ExprString(call.Fun)
								}
								bad = append(bad, finding{"blank " + label, c.P.Pos(call.Pos()), "the error of the output primitive " + label + " is assigned to _: whether the bytes reached the file is no longer known to the caller"})
							}
						}
					}
				}
				ast.Inspect(fd.Body, func(nd ast.Node) bool {
					switch x := nd.(type) {
					case *ast.CallExpr:
						n++
					case *ast.ExprStmt:
						if call, ok := ast.Unparen(x.X).(*ast.CallExpr); ok {
							dropped(call, "expression statement")
						}
					case *ast.DeferStmt:
						dropped(x.Call, "defer")
					case *ast.GoStmt:
						dropped(x.Call, "go")
					case *ast.AssignStmt:
						if len(x.Rhs) == 1 {
							if call, ok := ast.Unparen(x.Rhs[0]).(*ast.CallExpr); ok {
								blanked(call, x.Lhs)
							}
						}
					}
					return true
				})
				if n == 0 {
					continue
				}
				calls += n
				key := host + ": no error result dropped"
				if len(bad) == 0 {
					c.OkN(key, c.P.Pos(fd.Pos()), fmt.Sprintf("%d call(s) examined", n), n)
					continue
				}
				sort.Slice(bad, func(i, j int) bool { return bad[i].pos < bad[j].pos })
				var why []string
				for _, b := range bad {
					why = append(why, b.why)
				}
				c.Bad(key, bad[0].pos, strings.Join(dedup(why), "; "))
			}
		}
	}
	c.Sites += calls
}
