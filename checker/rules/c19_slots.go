package rules

import (
	"fmt"
	"go/token"
	"go/types"

	"golang.org/x/tools/go/ssa"

	"verif/checker/core"
)

// R-ERR-15 — per-worker result slots are filled on every non-error path.
//
// Pattern (lib/query): a function P allocates xs := make([][]T / []*T, n), a
// closure W of P (a `go` operand, a directly called worker, or a task callback)
// stores its own slot xs[i] = v, and P (or another closure of P) later reads
// *through* a slot — xs[i][j], `for _, x := range xs { x[j] }`, or a field /
// method of a pointer element — i.e. in a way that panics on the zero value.
// Obligation per (P, xs, W): every path through W from its entry to a normal
// return passes a store into xs. Paths that are error paths are exempt when P
// tests the error before reading: paths through (*GoroutineTaskManager).SetError,
// the true edge of gm.HasError() / ctx.Err() != nil, and returns of a non-nil error.
// Not decided: that the stored slot is long enough for the reader's index
// (value-level), slots filled by index arithmetic other than the worker's own.

func init() {
	Register(&Rule{ID: "R-ERR-15", Props: []string{"C19"}, Floor: 1,
		Doc: "for every slice of slices / slice of pointers that a lib/query function allocates with make, that a worker closure of it fills by slot (xs[i] = v) and that is later read through a slot (xs[i][j], range xs + index, pointer element dereferenced): every path through the worker from entry to a normal return stores into xs; error paths (SetError, gm.HasError() / ctx.Err() true edges, non-nil error returns) are exempt because the parent tests the error before it reads. " +
			"An early return that leaves the slot nil makes the reader index a nil slice (index out of range → Fatal Error)",
		Controls: []string{"CtlSlotSkippedByEarlyReturn"},
		Run:      ruleErr15})
}

// e19CellOf: the local variable cell (in its root function) a loaded value comes from.
func e19CellOf(v ssa.Value) ssa.Value {
	ld, ok := v.(*ssa.UnOp)
	if !ok || ld.Op != token.MUL {
		return nil
	}
	switch a := ld.X.(type) {
	case *ssa.Alloc:
		return a
	case *ssa.FreeVar:
		return e19RootCell(a)
	}
	return nil
}

// e19RootCell maps a FreeVar to the Alloc it was bound to in the enclosing function(s).
func e19RootCell(fv *ssa.FreeVar) ssa.Value {
	fn := fv.Parent()
	parent := fn.Parent()
	if parent == nil {
		return fv
	}
	idx := -1
	for i, x := range fn.FreeVars {
		if x == fv {
			idx = i
		}
	}
	for _, b := range parent.Blocks {
		for _, in := range b.Instrs {
			if mc, ok := in.(*ssa.MakeClosure); ok && mc.Fn == fn && idx >= 0 && idx < len(mc.Bindings) {
				switch bv := mc.Bindings[idx].(type) {
				case *ssa.Alloc:
					return bv
				case *ssa.FreeVar:
					return e19RootCell(bv)
				}
			}
		}
	}
	return fv
}

func e19AllClosures(fn *ssa.Function, out *[]*ssa.Function) {
	*out = append(*out, fn)
	for _, af := range fn.AnonFuncs {
		e19AllClosures(af, out)
	}
}

func e19SlotKind(t types.Type) string {
	sl, ok := t.Underlying().(*types.Slice)
	if !ok {
		return ""
	}
	switch sl.Elem().Underlying().(type) {
	case *types.Slice:
		return "slice"
	case *types.Pointer:
		return "pointer"
	}
	return ""
}

func ruleErr15(c *Ctx) {
	seq := e19SeqKey{}
	pr := &e19Prover{c: c, e: e19NewBounds(c), busy: map[e19BusyKey]bool{}}
	var roots []*ssa.Function
	for _, fn := range c.P.FuncsIn(true, "lib/query") {
		if fn.Parent() == nil && len(fn.AnonFuncs) > 0 {
			roots = append(roots, fn)
		}
	}
	for _, root := range roots {
		var fns []*ssa.Function
		e19AllClosures(root, &fns)
		// candidate cells: allocated in root, holding make([]…) of a slot kind
		for _, b := range root.Blocks {
			for _, in := range b.Instrs {
				cell, ok := in.(*ssa.Alloc)
				if !ok {
					continue
				}
				kind := e19SlotKind(cell.Type().Underlying().(*types.Pointer).Elem())
				if kind == "" {
					continue
				}
				vals, complete := core.StoresTo(cell)
				if !complete || len(vals) == 0 {
					continue
				}
				made := true
				for _, v := range vals {
					if _, ok := v.(*ssa.MakeSlice); !ok {
						made = false
					}
				}
				if !made {
					continue
				}
				// readers through a slot, writers of a slot
				var readers []ssa.Instruction
				writers := map[*ssa.Function][]ssa.Instruction{}
				inCell := func(v ssa.Value) bool { return e19CellOf(v) == cell }
				var collect func(f *ssa.Function, isColl func(ssa.Value) bool, depth int)
				collect = func(f *ssa.Function, isColl func(ssa.Value) bool, depth int) {
					for _, fb := range f.Blocks {
						for _, fi := range fb.Instrs {
							switch x := fi.(type) {
							case *ssa.IndexAddr:
								// an index that is shown < len(element) (range loops) never touches a nil slot
								if e19ElemOf(x.X, isColl) && !pr.le(x.Index, e19Term{base: x.X}, true, core.FactsAt(x.Block()), x, 0) {
									readers = append(readers, x)
								}
							case *ssa.Index:
								if e19ElemOf(x.X, isColl) && !pr.le(x.Index, e19Term{base: x.X}, true, core.FactsAt(x.Block()), x, 0) {
									readers = append(readers, x)
								}
							case *ssa.FieldAddr:
								if kind == "pointer" && e19ElemOf(x.X, isColl) {
									readers = append(readers, x)
								}
							case *ssa.Call:
								// the collection (or one of its slots) handed to a helper: the helper's
								// parameter stands for it
								callee := x.Common().StaticCallee()
								if callee == nil || callee.Blocks == nil || depth >= 3 || !c.P.InPkg(callee, "lib/query", core.ControlPkg) || len(x.Common().Args) != len(callee.Params) {
									continue
								}
								for i, a := range x.Common().Args {
									prm := callee.Params[i]
									if isColl(a) {
										collect(callee, func(v ssa.Value) bool { return v == prm }, depth+1)
									} else if e19ElemOf(a, isColl) {
										// a single slot passed on: indexing the parameter reads through the slot
										for _, pb := range callee.Blocks {
											for _, pi := range pb.Instrs {
												switch y := pi.(type) {
												case *ssa.IndexAddr:
													if y.X == prm && !pr.le(y.Index, e19Term{base: y.X}, true, core.FactsAt(y.Block()), y, 0) {
														readers = append(readers, y)
													}
												case *ssa.Index:
													if y.X == prm && !pr.le(y.Index, e19Term{base: y.X}, true, core.FactsAt(y.Block()), y, 0) {
														readers = append(readers, y)
													}
												}
											}
										}
									}
								}
							}
						}
					}
				}
				for _, f := range fns {
					for _, fb := range f.Blocks {
						for _, fi := range fb.Instrs {
							if x, ok := fi.(*ssa.Store); ok {
								if ia, ok := x.Addr.(*ssa.IndexAddr); ok && e19CellOf(ia.X) == cell {
									writers[f] = append(writers[f], x)
								}
							}
						}
					}
					collect(f, inCell, 0)
				}
				if len(readers) == 0 {
					continue
				}
				name := cell.Comment
				for _, w := range fns {
					ws := writers[w]
					if w == root || len(ws) == 0 {
						continue
					}
					c.Sites++
					c.Touch(w)
					key := seq.key(c, root, fmt.Sprintf("slots of %s filled by %s", name, c.P.Name(w)))
					isTarget := func(in ssa.Instruction) bool {
						for _, s := range ws {
							if s == in {
								return true
							}
						}
						if call, ok := in.(ssa.CallInstruction); ok {
							if f := call.Common().StaticCallee(); f != nil && f.Name() == "SetError" {
								return true
							}
						}
						return false
					}
					bad := e19SlotEscape(w, isTarget)
					if bad == nil {
						c.Ok(key, c.FnPos(w), fmt.Sprintf("every non-error path through the worker stores its slot; read through a slot at %s", c.Pos(readers[0])))
					} else {
						c.Bad(key, c.Pos(bad), fmt.Sprintf("the worker %s can reach the return at %s without storing its slot of %s (no error recorded on that path); %s is later read through a slot at %s — the zero slot is nil: index out of range / nil dereference → internal Fatal Error", c.P.Name(w), c.Pos(bad), name, name, c.Pos(readers[0])))
					}
				}
			}
		}
	}
}

// e19ElemOf: v is an element loaded from the slice held by cell (xs[i] or the range element).
func e19ElemOf(v ssa.Value, isColl func(ssa.Value) bool) bool {
	os := core.Origins(v, false)
	if len(os) == 0 {
		return false
	}
	for _, o := range os {
		ld, ok := o.(*ssa.UnOp)
		if !ok || ld.Op != token.MUL {
			return false
		}
		ia, ok := ld.X.(*ssa.IndexAddr)
		if !ok || !isColl(ia.X) {
			return false
		}
	}
	// a slot that the reading function filled itself just before (xs[k] = make(...); xs[k][i] = …) is not a worker's slot
	for _, o := range os {
		ld := o.(*ssa.UnOp)
		ia := ld.X.(*ssa.IndexAddr)
		own := false
		for _, b := range ld.Parent().Blocks {
			for _, in := range b.Instrs {
				st, ok := in.(*ssa.Store)
				if !ok {
					continue
				}
				sia, ok := st.Addr.(*ssa.IndexAddr)
				if ok && isColl(sia.X) && core.SameVal(sia.Index, ia.Index) && core.Dominates(st, ld) {
					own = true
				}
			}
		}
		if !own {
			return true
		}
	}
	return false
}

// e19SlotEscape: a normal (non-error) return of w reachable from its entry
// without crossing a target; error edges are pruned.
func e19SlotEscape(w *ssa.Function, isTarget func(ssa.Instruction) bool) ssa.Instruction {
	errEdge := func(from, to *ssa.BasicBlock) bool {
		iff, ok := from.Instrs[len(from.Instrs)-1].(*ssa.If)
		if !ok || len(from.Succs) != 2 || from.Succs[0] != to {
			return false
		}
		// true edge of gm.HasError() or ctx.Err() != nil
		if call, ok := iff.Cond.(*ssa.Call); ok {
			if f := call.Common().StaticCallee(); f != nil && f.Name() == "HasError" {
				return true
			}
		}
		if x, neq, ok := core.NilCmp(iff.Cond); ok && neq {
			if call, ok := x.(*ssa.Call); ok && call.Common().IsInvoke() && call.Common().Method.Name() == "Err" {
				return true
			}
		}
		return false
	}
	seen := map[*ssa.BasicBlock]bool{}
	var found ssa.Instruction
	ei := core.ErrorResultIndex(w)
	var walk func(b *ssa.BasicBlock)
	walk = func(b *ssa.BasicBlock) {
		if found != nil || seen[b] {
			return
		}
		seen[b] = true
		for _, in := range b.Instrs {
			if isTarget(in) {
				return
			}
			if r, ok := in.(*ssa.Return); ok {
				if ei >= 0 {
					nonNil := false
					for _, ev := range core.ReturnOperand(r, ei) {
						if ev != nil && core.ClassifyNil(ev, r) == core.NonNil {
							nonNil = true
						}
					}
					if nonNil {
						return // error return
					}
				}
				found = r
				return
			}
		}
		for _, s := range b.Succs {
			if !errEdge(b, s) {
				walk(s)
			}
		}
	}
	if len(w.Blocks) > 0 {
		walk(w.Blocks[0])
	}
	return found
}
