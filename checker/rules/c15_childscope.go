package rules

// R-SCP-14 (after the tenth round, by hand). A reader's note said that a function's local temporary
// table is hidden by the recursive table of a calling recursive CTE. Reproduced on the binary:
//
//	DECLARE f FUNCTION (@a) AS BEGIN DECLARE t VIEW (x) AS SELECT 100; RETURN (SELECT x FROM t); END;
//	WITH RECURSIVE t (n) AS (SELECT 1 UNION ALL SELECT n + 1 FROM t WHERE n < 3 AND f(n) > 0) SELECT n FROM t;
//
// answered "field x does not exist": CreateChild — the scope of a function invocation and of every
// IF / WHILE block — set `nodes` (the inline tables and aliases of the calling query) to nil but
// copied RecursiveTable / RecursiveTmpView / RecursiveCount, and loadObject asks the recursive
// table before the temporary tables. The clause: a scope that opens a new block carries nothing
// that belongs to the query it was created in.

import (
	"fmt"
	"go/types"
	"sort"

	"golang.org/x/tools/go/ssa"

	"verif/checker/core"
)

// scp14Roles: every field of ReferenceScope has a role (one line of reason). A field without a role
// is listed in the evidence and not judged (no alarm for a field added by a harmless change).
var scp14Roles = map[string]string{
	"Tx":               "shared: the transaction",
	"Blocks":           "block chain: what a block scope extends",
	"nodes":            "query: inline tables and aliases of the running query",
	"cachedFilePath":   "shared: path cache of the statement (guarded by R-PAR-6, order decided by R-SCP-12)",
	"now":              "shared: the statement's clock",
	"Records":          "query: the rows the running query stands on",
	"RecursiveTable":   "query: the inline table a recursive CTE is computing",
	"RecursiveTmpView": "query: the rows of the previous recursion step",
	"RecursiveCount":   "query: the recursion counter of that CTE",
}

func init() {
	Register(&Rule{ID: "R-SCP-14", Props: []string{"C15"}, Floor: 10,
		Doc: "a scope that opens a new block carries nothing of the query it was created in: in every function of lib/query that builds a ReferenceScope " +
			"whose Blocks field receives a slice made in that function (the scope of a function invocation, of an IF / WHILE / CASE block, of a sourced file — today CreateChild and the root constructor), " +
			"no field with the role 'query' (nodes, Records, RecursiveTable, RecursiveTmpView, RecursiveCount; role table over the fields of the struct; a field without a role is reported and not judged) " +
			"is stored with anything but nil — loadObject asks the recursive table and the inline tables before the temporary tables, so a copied one hides the " +
			"temporary table a function declares under the same name (genuine defect repaired: a function called from a recursive CTE could not see its own table)",
		Controls: []string{"CtlChildScopeKeepsRecursion"},
		Run:      ruleScp14})
}

func ruleScp14(c *Ctx) {
	p := c.P
	// completeness of the role table
	var st *types.Struct
	for _, fn := range p.FuncsIn(false, "lib/query") {
		if fn.Signature.Recv() != nil && core.NamedOf(fn.Signature.Recv().Type()) == "lib/query.ReferenceScope" {
			if ptr, ok := fn.Signature.Recv().Type().(*types.Pointer); ok {
				st, _ = ptr.Elem().Underlying().(*types.Struct)
			}
			if st != nil {
				break
			}
		}
	}
	if st == nil {
		c.Unknown("lib/query.ReferenceScope: role table", "-", "the struct type ReferenceScope was not found")
		return
	}
	for i := 0; i < st.NumFields(); i++ {
		if _, ok := scp14Roles[st.Field(i).Name()]; !ok {
			c.Ok("lib/query.ReferenceScope."+st.Field(i).Name()+": role", "-", "the field has no role in the table of R-SCP-14 and is not judged (a field added later; classify it to have it judged)")
		}
	}
	var query []string
	for f, r := range scp14Roles {
		if len(r) >= 5 && r[:5] == "query" {
			query = append(query, f)
		}
	}
	sort.Strings(query)

	for _, fn := range p.FuncsIn(true, "lib/query") {
		for _, b := range fn.Blocks {
			for _, ins := range b.Instrs {
				al, ok := ins.(*ssa.Alloc)
				if !ok || core.NamedOf(al.Type()) != "lib/query.ReferenceScope" {
					continue
				}
				if ptr, isPtr := al.Type().(*types.Pointer); !isPtr || core.NamedOf(ptr.Elem()) != "lib/query.ReferenceScope" {
					continue
				}
				stores := map[string][]*ssa.Store{}
				for _, r := range *al.Referrers() {
					fa, ok := r.(*ssa.FieldAddr)
					if !ok {
						continue
					}
					for _, rr := range *fa.Referrers() {
						if s, ok := rr.(*ssa.Store); ok && s.Addr == fa {
							stores[core.FieldName(fa)] = append(stores[core.FieldName(fa)], s)
						}
					}
				}
				// a block-opening scope: Blocks receives a slice made here
				opens := false
				for _, s := range stores["Blocks"] {
					for _, o := range core.Origins(s.Val, false) {
						switch o.(type) {
						case *ssa.MakeSlice, *ssa.Alloc:
							opens = true
						case *ssa.Slice:
							opens = true
						}
					}
				}
				if !opens {
					continue
				}
				c.Touch(fn)
				for _, f := range query {
					c.Sites++
					key := c.KeyAt(fn, fmt.Sprintf("block-opening scope leaves %s unset", f))
					bad := ""
					for _, s := range stores[f] {
						if core.IsNilConst(s.Val) {
							continue
						}
						bad = fmt.Sprintf("%s stores %s of the new block scope at %s (%s): the block sees what belongs to the calling query — a temporary table the function declares under the same name is hidden", fn.Name(), f, c.Pos(s), scp14Roles[f])
					}
					if bad != "" {
						c.Bad(key, c.Pos(al), bad)
					} else {
						c.Ok(key, c.Pos(al), "not stored (or nil)")
					}
				}
			}
		}
	}
}
