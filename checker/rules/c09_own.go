package rules

import (
	"fmt"
	"sort"
	"strings"

	"golang.org/x/tools/go/ssa"

	"verif/checker/core"
)

// R-OWN-1 — only the owner releases a handler.
//
// A handler stored in a cached view's FileInfo.Handler is the transaction's
// hold on the table: its lock file, its exclusive flock and its temp file stay
// until COMMIT / ROLLBACK. Code that runs *inside* the transaction (loading a
// table, reading it as an inline table, CREATE TABLE …) may release only the
// handlers it has created itself; the stored ones belong to the
// transaction-end functions.

func init() {
	Register(&Rule{ID: "R-OWN-1", Props: []string{"C09", "C20", "C11"}, Floor: 9,
		Doc:      "only the owner releases a handler: at every call of a releasing method of file.Container (the methods with a *Handler parameter that reach Handler.close / commit / closeWithErrors) outside lib/file, either the calling function belongs to the end of the transaction (reachable from Transaction.Commit / Rollback / ReleaseResources / ReleaseResourcesWithErrors) or every possible origin of the handler argument is (O1) the result of a Container method that returns a new *Handler (CreateHandler…), called in the same function — also through a private helper that only returns such results — or (O2) a load of X.FileInfo.Handler for which the same function stores an O1 result into that very field of X on every path to the release that is consistent with the branch facts at the release (the creator's error path), or (O3) a parameter whose actual argument satisfies this at every call site; nil is ignored. A handler taken from a cached view (a plain field load, a map / cache lookup) is never released by loading code: that would drop the transaction's lock, flock and temp file in the middle of the transaction (C09 lost update, C20 the loaded table is no longer protected, C11 a read removes control files)",
		Controls: []string{"CtlCloseBorrowedHandler"},
		Run:      ruleOwn1})
}

const fldFIHandler = "lib/query.FileInfo.Handler"

// containerReleasers: methods of *file.Container with a *Handler parameter
// that reach a terminal method of Handler (by role, not by name).
func containerReleasers(c *Ctx) map[*ssa.Function]bool {
	p := c.P
	out := map[*ssa.Function]bool{}
	term := reachers(p, "handler terminal methods", p.NameIs(fnHClose, fnHCommit, fnHCloseErrs))
	for _, fn := range p.FuncsIn(false, "lib/file") {
		recv := fn.Signature.Recv()
		if recv == nil || fn.Parent() != nil || core.NamedOf(recv.Type()) != "lib/file.Container" || !term[fn] {
			continue
		}
		for _, par := range fn.Params[1:] {
			if core.NamedOf(par.Type()) == "lib/file.Handler" {
				out[fn] = true
			}
		}
	}
	return out
}

// isHandlerCtorCall: the value is result #0 of a *Container method that returns
// a new *Handler.
func isHandlerCtorCall(p *core.Prog, v ssa.Value) (*ssa.Call, bool) {
	call, idx, ok := core.ExtractOf(v)
	if !ok || idx != 0 {
		return nil, false
	}
	f := core.StaticCallee(call)
	if f == nil || f.Signature.Recv() == nil || core.NamedOf(f.Signature.Recv().Type()) != "lib/file.Container" {
		return nil, false
	}
	res := f.Signature.Results()
	if res.Len() == 0 || core.NamedOf(res.At(0).Type()) != "lib/file.Handler" {
		return nil, false
	}
	// a method that takes a handler and hands it back is not a constructor
	for _, par := range f.Params[1:] {
		if core.NamedOf(par.Type()) == "lib/file.Handler" {
			return nil, false
		}
	}
	return call, true
}

func rootOf(fn *ssa.Function) *ssa.Function {
	for fn.Parent() != nil {
		fn = fn.Parent()
	}
	return fn
}

type ownCheck struct {
	c *Ctx
	p *core.Prog
}

// consistentPrune prunes the edges that contradict a branch fact holding at `at`
// (same condition value, opposite polarity).
func consistentPrune(at ssa.Instruction) edgePrune {
	facts := core.FactsAt(at.Block())
	return func(from, to *ssa.BasicBlock) bool {
		for _, ef := range edgeFactOnly(from, to) {
			for _, f := range facts {
				if (ef.Cond == f.Cond || core.SameCell(ef.Cond, f.Cond)) && ef.Neg != f.Neg {
					return true
				}
			}
		}
		return false
	}
}

// newHandler: v is (only) freshly created handlers of this function: O1.
func (o *ownCheck) newHandler(v ssa.Value, depth int) bool {
	os := core.Origins(v, false)
	if len(os) == 0 {
		return false
	}
	for _, x := range os {
		if core.IsNilConst(x) {
			continue
		}
		if _, ok := isHandlerCtorCall(o.p, x); ok {
			continue
		}
		// a private helper that only returns freshly created handlers
		if call, idx, ok := core.ExtractOf(x); ok && depth < 2 {
			if f := core.StaticCallee(call); f != nil && f.Blocks != nil && o.p.Name(f) != f.String() && !o.p.InPkg(f, "lib/file") {
				all := len(realReturns(f)) > 0
				for _, r := range realReturns(f) {
					for _, rv := range returnOperandDeep(r, idx) {
						if rv == nil || !o.newHandler(rv, depth+1) {
							all = false
						}
					}
				}
				if all {
					continue
				}
			}
		}
		return false
	}
	return true
}

// accept decides one origin of the handler argument of the release `site`
// (a call instruction of fn). Returns "" or the reason for rejecting it.
func (o *ownCheck) accept(x ssa.Value, site ssa.CallInstruction, depth int) string {
	p := o.p
	if core.IsNilConst(x) {
		return ""
	}
	if o.newHandler(x, 0) {
		return ""
	}
	fn := site.Parent()
	root := rootOf(fn)
	// O2: X.FileInfo.Handler, stored from a fresh handler by this very function
	if lastField(x) == fldFIHandler {
		load := x.(*ssa.UnOp)
		base := load.X.(*ssa.FieldAddr).X
		var stores []*ssa.Store
		for _, f := range funcAndClosures(root) {
			for _, b := range f.Blocks {
				for _, in := range b.Instrs {
					st, ok := in.(*ssa.Store)
					if !ok {
						continue
					}
					fa, ok := st.Addr.(*ssa.FieldAddr)
					if !ok || core.FieldOwner(fa) != fldFIHandler || !o.newHandler(st.Val, 0) {
						continue
					}
					if fa.X == base || sameOrigins(fa.X, base) {
						stores = append(stores, st)
					}
				}
			}
		}
		if len(stores) == 0 {
			return fmt.Sprintf("it is loaded from %s at %s, and this function never stores a handler it created into that field: the handler belongs to a cached view, i.e. to the transaction", fldFIHandler, p.InstrPos(load))
		}
		isStore := func(in ssa.Instruction) bool {
			for _, st := range stores {
				if in == st {
					return true
				}
			}
			return false
		}
		// the point of the root function at which the release can first execute
		at := ssa.Instruction(site)
		for f := fn; f != root; f = f.Parent() {
			var mk ssa.Instruction
			for _, b := range f.Parent().Blocks {
				for _, in := range b.Instrs {
					if mc, ok := in.(*ssa.MakeClosure); ok && mc.Fn == f {
						mk = mc
					}
				}
			}
			if mk == nil {
				return "it is released inside a closure whose creation point cannot be found"
			}
			at = mk
		}
		if reachFromEntry(root, at, isStore, consistentPrune(at)) {
			return fmt.Sprintf("it is loaded from %s at %s, and a path reaches the release on which this function has not stored a handler of its own into that field (store at %s): on that path the field still holds the transaction's handler", fldFIHandler, p.InstrPos(load), p.InstrPos(stores[0]))
		}
		return ""
	}
	// O3: a parameter — decided at the call sites
	if par, ok := x.(*ssa.Parameter); ok && depth < 2 {
		f := par.Parent()
		idx := -1
		for i, q := range f.Params {
			if q == par {
				idx = i
			}
		}
		sites := callerSites(p, f)
		if idx < 0 || len(sites) == 0 {
			return "it is the parameter " + par.Name() + " of a function without a static caller"
		}
		for _, s := range sites {
			if idx >= len(s.Common().Args) {
				return "it is the parameter " + par.Name() + " and a call site cannot be matched"
			}
			for _, ao := range core.Origins(s.Common().Args[idx], false) {
				if why := o.accept(ao, s, depth+1); why != "" {
					return "it is the parameter " + par.Name() + "; at the call at " + p.InstrPos(s) + " " + why
				}
			}
		}
		return ""
	}
	return "its origin is " + valueLabel(x) + ", which is neither a handler created by this function nor the field it stored one into"
}

func ruleOwn1(c *Ctx) {
	p := c.P
	rel := containerReleasers(c)
	if len(rel) == 0 {
		c.Unknown("anchor:releasing methods of file.Container", "-", "cannot-analyse: no method of file.Container with a *Handler parameter reaches Handler.close / commit / closeWithErrors")
		return
	}
	// the end of the transaction
	end := map[*ssa.Function]bool{}
	nRoots := 0
	for _, n := range []string{"lib/query.(*Transaction).Commit", "lib/query.(*Transaction).Rollback", "lib/query.(*Transaction).ReleaseResources", "lib/query.(*Transaction).ReleaseResourcesWithErrors"} {
		if f := c.Fn(n); f != nil {
			nRoots++
			for g := range p.ReachSet(f) {
				end[g] = true
			}
		}
	}
	if nRoots == 0 {
		return
	}
	// sanity of the partition: the loaders must not be part of the transaction end
	for _, n := range []string{"lib/query.loadView", "lib/query.cacheViewFromFile"} {
		if f := c.FnOpt(n); f != nil && end[f] {
			c.Unknown("anchor:transaction end", c.FnPos(f), "cannot-analyse: "+n+" is reachable from Commit / Rollback / ReleaseResources; the partition into loading code and transaction end no longer exists")
			return
		}
	}
	o := &ownCheck{c, p}
	var relNames []string
	for f := range rel {
		relNames = append(relNames, f.Name())
	}
	sort.Strings(relNames)
	for _, fn := range p.SrcFuncs() {
		if p.InPkg(fn, "lib/file") {
			continue
		}
		cnt := map[string]int{}
		for _, k := range core.Calls(fn) {
			callee := core.StaticCallee(k)
			if callee == nil || !rel[callee] {
				continue
			}
			c.Sites++
			c.Touch(fn)
			cnt[callee.Name()]++
			key := c.KeyAt(fn, "handler released through Container."+callee.Name())
			if cnt[callee.Name()] > 1 {
				key += " " + ordinal(cnt[callee.Name()])
			}
			if end[rootOf(fn)] {
				c.Ok(key, c.Pos(k), "end of the transaction (reachable from Commit / Rollback / ReleaseResources): stored handlers are released here")
				continue
			}
			var arg ssa.Value
			for i, par := range callee.Params {
				if i > 0 && core.NamedOf(par.Type()) == "lib/file.Handler" && i < len(k.Common().Args) {
					arg = k.Common().Args[i]
				}
			}
			if arg == nil {
				c.Unknown(key, c.Pos(k), "the handler argument cannot be identified")
				continue
			}
			var bad []string
			for _, x := range core.Origins(arg, false) {
				if why := o.accept(x, k, 0); why != "" {
					bad = append(bad, why)
				}
			}
			if len(bad) > 0 {
				c.Bad(key, c.Pos(k), "this function runs inside the transaction and releases a handler it does not own: "+strings.Join(bad, "; ")+". Container."+callee.Name()+" removes the lock / temp files and drops the flock; for a table the transaction holds for update another process can now change the file before COMMIT (lost update), and COMMIT no longer finds the handler")
			} else {
				c.Ok(key, c.Pos(k), "every origin of the handler is a Container.CreateHandler… result of this function (or the FileInfo.Handler field it stored one into on every path to this point)")
			}
		}
	}
	_ = relNames
}
