package rules

import (
	"fmt"
	"go/token"
	"go/types"
	"sort"
	"strings"

	"golang.org/x/tools/go/ssa"

	"verif/checker/core"
)

// R-MEMBER-1 — the answer a scan gives after exhaustion is given only after exhaustion.
//
// A bool function that runs `for i := range coll` and answers a constant D on
// the path that leaves the loop through its exhaustion edge is a quantifier
// over coll: D = false is a membership test ("absent" is a statement about
// every element), D = true is an all-test ("all match" likewise). The opposite
// answer has a witness (one element) and may be given from inside the loop;
// the answer D has none. So every return that is reached from inside the loop
// without crossing the exhaustion edge must be the constant !D — a `return
// false` on an element that is "already greater", or a `return val == x[i]`
// on the first element that is not smaller, presumes an order of the
// collection that no writer of lib/query establishes ((*UintPool).Add appends,
// DropColumns adds the indices in the order the statement lists them).
// The generalisation of R-LOCK-11 (lib/file, directory listings) to lib/query.

func init() {
	Register(&Rule{ID: "R-MEMBER-1", Props: []string{"C05", "C03"}, Floor: 15,
		Doc: "quantified answers of scans: for every function, method or closure of the repository with a single bool result and every loop in it that visits index 0, 1, … len-1 of a slice (the exit edge of `i < len(coll)` for an induction variable that starts at 0 and advances by 1 — the form go/ssa gives `for … range coll`) and whose exits through that exhaustion edge all return one constant D (tracked through bool φ-nodes: `found := false; for … { if … { found = true; break } }; return found` has D = false), " +
			"every return that is reached after the loop was entered and before its exhaustion edge was crossed returns the constant !D: no early `return D`, no computed answer (`return v == coll[i]`) from a part of the collection. (*UintPool).Exists must be among the functions decided (its slice mode answers `absent` for the dropped-column / assigned-column / USING-column pools, which are filled in statement order, not in ascending order). " +
			"Returns that are reached without entering the loop (another mode of the function, a guard) are not judged; loops whose exhaustion exits return different or computed values are not quantifiers and are not judged; loops that index a second slice with the same induction variable walk two sequences in step (a positional relation such as the lexicographic order of SortValues.Less) and are not judged",
		Controls: []string{"CtlMemberScanStopsAtGreater"},
		Run:      ruleMember1})
}

type memberLoop struct {
	header *ssa.BasicBlock // the block whose If is the loop condition
	exit   *ssa.BasicBlock // successor on exhaustion
	coll   ssa.Value
	ind    *ssa.Phi // the induction variable
}

// memberSameColl: the same SSA value, or two loads of the same field of the same object.
func memberSameColl(a, b ssa.Value) bool {
	if a == b {
		return true
	}
	la, ok1 := a.(*ssa.UnOp)
	lb, ok2 := b.(*ssa.UnOp)
	if !ok1 || !ok2 || la.Op != token.MUL || lb.Op != token.MUL {
		return false
	}
	fa, ok1 := la.X.(*ssa.FieldAddr)
	fb, ok2 := lb.X.(*ssa.FieldAddr)
	return ok1 && ok2 && fa.X == fb.X && fa.Field == fb.Field
}

// memberSecondSequence: a slice other than the collection of the loop that is
// indexed with the loop's induction variable — the loop walks two sequences in
// step (a positional relation such as a lexicographic order), it is not a
// quantifier over one collection.
func memberSecondSequence(fn *ssa.Function, lp memberLoop) ssa.Value {
	for _, b := range fn.Blocks {
		for _, in := range b.Instrs {
			var x, idx ssa.Value
			switch v := in.(type) {
			case *ssa.IndexAddr:
				x, idx = v.X, v.Index
			case *ssa.Index:
				x, idx = v.X, v.Index
			default:
				continue
			}
			base, _ := core.LinearIndex(idx)
			if base != ssa.Value(lp.ind) {
				continue
			}
			if !memberSameColl(x, lp.coll) {
				return x
			}
		}
	}
	return nil
}

// memberLoops: the loops of fn over a whole slice, in block order.
func memberLoops(fn *ssa.Function) []memberLoop {
	var out []memberLoop
	for _, b := range fn.Blocks {
		if len(b.Instrs) == 0 || len(b.Succs) != 2 {
			continue
		}
		iff, ok := b.Instrs[len(b.Instrs)-1].(*ssa.If)
		if !ok {
			continue
		}
		bo, ok := iff.Cond.(*ssa.BinOp)
		if !ok {
			continue
		}
		for _, side := range []ssa.Value{bo.X, bo.Y} {
			call, ok := side.(*ssa.Call)
			if !ok {
				continue
			}
			bi, ok := call.Call.Value.(*ssa.Builtin)
			if !ok || bi.Name() != "len" || len(call.Call.Args) != 1 {
				continue
			}
			coll := call.Call.Args[0]
			if _, isSlice := coll.Type().Underlying().(*types.Slice); !isSlice {
				continue
			}
			other := bo.X
			if side == bo.X {
				other = bo.Y
			}
			base, _ := core.LinearIndex(other)
			ind, ok := base.(*ssa.Phi)
			if !ok {
				continue
			}
			for _, s := range b.Succs {
				if exhaustionEdge(b, s, coll) {
					out = append(out, memberLoop{b, s, coll, ind})
				}
			}
		}
	}
	return out
}

type memberRet struct {
	pos string
	val int // bvTrue / bvFalse / bvUnknown
}

// memberScan walks every path of fn from the entry; returns reached after the
// header of lp was entered are collected as pre (exhaustion edge not crossed)
// or post (crossed).
func memberScan(c *Ctx, fn *ssa.Function, lp memberLoop) (pre, post []memberRet) {
	type env map[*ssa.Phi]int
	const (
		phBefore = iota
		phInside
		phCrossed
	)
	var eval func(v ssa.Value, e env) int
	eval = func(v ssa.Value, e env) int {
		if bv, ok := core.ConstBool(v); ok {
			if bv {
				return bvTrue
			}
			return bvFalse
		}
		if ph, ok := v.(*ssa.Phi); ok {
			if x, ok := e[ph]; ok {
				return x
			}
			return bvUnknown
		}
		if u, ok := v.(*ssa.UnOp); ok && u.Op == token.NOT {
			switch eval(u.X, e) {
			case bvTrue:
				return bvFalse
			case bvFalse:
				return bvTrue
			}
		}
		return bvUnknown
	}
	keyOf := func(b *ssa.BasicBlock, phase int, e env) string {
		var ks []string
		for ph, v := range e {
			ks = append(ks, fmt.Sprintf("%s=%d", ph.Name(), v))
		}
		sort.Strings(ks)
		return fmt.Sprintf("%d|%d|%s", b.Index, phase, strings.Join(ks, ","))
	}
	seenRet := map[string]bool{}
	seen := map[string]bool{}
	var walk func(b *ssa.BasicBlock, phase int, e env)
	walk = func(b *ssa.BasicBlock, phase int, e env) {
		if b == lp.header && phase == phBefore {
			phase = phInside
		}
		for _, in := range b.Instrs {
			r, ok := in.(*ssa.Return)
			if !ok {
				continue
			}
			if len(r.Results) != 1 || phase == phBefore {
				return
			}
			m := memberRet{c.Pos(r), eval(r.Results[0], e)}
			id := fmt.Sprintf("%d|%s|%d", phase, m.pos, m.val)
			if seenRet[id] {
				return
			}
			seenRet[id] = true
			if phase == phCrossed {
				post = append(post, m)
			} else {
				pre = append(pre, m)
			}
			return
		}
		var dead *ssa.BasicBlock
		if iff, ok := b.Instrs[len(b.Instrs)-1].(*ssa.If); ok && len(b.Succs) == 2 {
			switch eval(iff.Cond, e) {
			case bvTrue:
				dead = b.Succs[1]
			case bvFalse:
				dead = b.Succs[0]
			}
		}
		for _, s := range b.Succs {
			if s == dead && b.Succs[0] != b.Succs[1] {
				continue
			}
			np := phase
			if b == lp.header && s == lp.exit && phase == phInside {
				np = phCrossed
			}
			ne := env{}
			for k, v := range e {
				ne[k] = v
			}
			pi := -1
			for j, pr := range s.Preds {
				if pr == b {
					pi = j
				}
			}
			for _, in := range s.Instrs {
				ph, ok := in.(*ssa.Phi)
				if !ok {
					break
				}
				if bt, ok := ph.Type().Underlying().(*types.Basic); !ok || bt.Kind() != types.Bool || pi < 0 {
					continue
				}
				ne[ph] = eval(ph.Edges[pi], e)
			}
			id := keyOf(s, np, ne)
			if seen[id] {
				continue
			}
			seen[id] = true
			walk(s, np, ne)
		}
	}
	if len(fn.Blocks) > 0 {
		walk(fn.Blocks[0], phBefore, env{})
	}
	return pre, post
}

func memberCollName(v ssa.Value) string {
	v = core.Strip(v)
	if u, ok := v.(*ssa.UnOp); ok && u.Op == token.MUL {
		if fa, ok := u.X.(*ssa.FieldAddr); ok {
			return "field " + fieldName2(fa)
		}
	}
	if p, ok := v.(*ssa.Parameter); ok {
		return "parameter " + p.Name()
	}
	if f, ok := v.(*ssa.Field); ok {
		return "field #" + fmt.Sprint(f.Field)
	}
	return "a " + types.TypeString(v.Type(), func(p *types.Package) string { return p.Name() })
}

func fieldName2(fa *ssa.FieldAddr) string {
	t := fa.X.Type()
	if p, ok := t.Underlying().(*types.Pointer); ok {
		t = p.Elem()
	}
	if st, ok := t.Underlying().(*types.Struct); ok && fa.Field < st.NumFields() {
		return st.Field(fa.Field).Name()
	}
	return fmt.Sprintf("#%d", fa.Field)
}

func ruleMember1(c *Ctx) {
	p := c.P
	anchor := c.Fn("lib/query.(*UintPool).Exists")
	var fns []*ssa.Function
	for _, fn := range p.SrcFuncs() {
		if fn.Blocks == nil || !isBoolResult(fn) {
			continue
		}
		if p.IsControl(fn) && !strings.Contains(fn.Name(), "MemberScan") {
			continue // controls of other rules
		}
		fns = append(fns, fn)
	}
	sortFuncs(p, fns)
	sawAnchor := false
	for _, fn := range fns {
		loops := memberLoops(fn)
		for li, lp := range loops {
			pre, post := memberScan(c, fn, lp)
			if len(post) == 0 {
				continue
			}
			d := post[0].val
			quant := d != bvUnknown
			for _, m := range post {
				if m.val != d {
					quant = false
				}
			}
			if !quant {
				continue // the loop accumulates: its answer after exhaustion is not one constant
			}
			if memberSecondSequence(fn, lp) != nil {
				continue // two sequences walked in step: a positional relation, not a quantifier over one collection
			}
			if fn == anchor && strings.HasPrefix(memberCollName(lp.coll), "field ") {
				sawAnchor = true
			}
			c.Touch(fn)
			c.Sites++
			dn, on := "false", "true"
			what := "absent"
			if d == bvTrue {
				dn, on = "true", "false"
				what = "all elements pass"
			}
			key := c.KeyAt(fn, fmt.Sprintf("scan #%d over %s answers %s only after exhaustion", li+1, memberCollName(lp.coll), dn))
			var bad []string
			for _, m := range pre {
				switch {
				case m.val == bvUnknown:
					bad = append(bad, fmt.Sprintf("the return at %s answers with a value computed inside the loop before the whole collection was examined: it can be %s (%q), which only the exhaustion of the loop establishes", m.pos, dn, what))
				case m.val == d:
					bad = append(bad, fmt.Sprintf("the return of %s at %s is reached from inside the loop, before the exhaustion edge of `i < len(collection)`: %q is answered after looking at a part of the collection (an order of the elements is presumed that no writer establishes: the collection is filled in the order of the statement)", dn, m.pos, what))
				}
			}
			sort.Strings(bad)
			where := c.FnPos(fn)
			if len(bad) > 0 && p.IsControl(fn) && strings.HasPrefix(fn.Name(), "OkMemberScan") {
				c.Unknown("negative-control:"+key, "-", "the rule reports "+fn.Name()+", a correct spelling of a scan: "+strings.Join(bad, "; "))
			}
			c.Check(len(bad) == 0, key, where,
				fmt.Sprintf("%d return(s) after exhaustion answer %s; %d return(s) from inside the loop all answer the constant %s", len(post), dn, len(pre), on),
				strings.Join(bad, "; "))
		}
	}
	if anchor != nil && !sawAnchor {
		// no judged scan over a field of the pool: either the function does not scan at
		// all (it answers from the map, which holds every member), or it searches in a
		// way that is not an exhaustive scan
		scans := 0
		for _, b := range anchor.Blocks {
			for _, in := range b.Instrs {
				switch in.(type) {
				case *ssa.IndexAddr, *ssa.Index, *ssa.Range, *ssa.Slice:
					scans++
				}
			}
		}
		key := c.KeyAt(anchor, "scan over the pool answers false only after exhaustion")
		c.Touch(anchor)
		c.Check(scans == 0, key, c.FnPos(anchor), "(*UintPool).Exists does not index or range over a slice: it answers from the map, which holds every member",
			"(*UintPool).Exists indexes a slice but has no loop over the whole slice field of the pool whose exhaustion answers one constant: its slice mode is not a scan of all stored values any more (a search that stops early, or over a part of the values, presumes an order that Add does not establish: it appends in statement order)")
	}
}
