package rules

import (
	"fmt"
	"sort"
	"strings"

	"go/token"
	"go/types"

	"golang.org/x/tools/go/ssa"

	"verif/checker/core"
)

// R-CLEAN-9 — a control file / descriptor that was created is never lost.
//
// R-CLEAN-7 follows the created object through the functions that build a
// Handler and the methods of *Handler. The creators below them (the Try*
// functions, the wait loop CreateControlFileContext, …) are the functions
// through which the object travels before it reaches a handler: a path of one
// of them that ends without the object means that nobody will ever remove the
// file — Handler.CreateControlFileContext stores what it is given, and what it
// is not given is tracked nowhere.
//
// Typestate (per creating call, per path, engine E10): created →
// returned | stored into a handler slot | released (Close / deferred Close) |
// wrapped (the wrapper becomes the tracked object). The aliases of the object
// are tracked per path (phi operands are selected by the edge taken, local
// cells by the store that reaches the load), so `f` after a loop that was left
// by `break` on success is the created object, and `f` after the loop was left
// for another reason is not.

func init() {
	Register(&Rule{ID: "R-CLEAN-9", Props: []string{"C11"}, Floor: 8,
		Doc:      "a created control file / descriptor is never lost: in every function of lib/file outside the domain of R-CLEAN-7 (functions that build a Handler, methods of *Handler), for every call that can create / open a file and yields a *ControlFile or *os.File with an error, on every path from the success edge of the call (error nil; edges on which the object itself tests nil are infeasible) to a return, the object — followed per path through phis, local cells, conversions and wrapping constructors — is returned, stored into a released handler field, or released (a call that receives it and reaches ControlFile.Close / CloseWithErrors / go-file Close / (*os.File).Close, directly or registered by defer); no such path returns without it, and none reaches the creating call again while the earlier object is still held",
		Controls: []string{"CtlCreatedFileDroppedAfterLoop", "CtlCreatedFileOverwrittenByRetry"},
		Run:      ruleClean9})
}

var releaseFns = []string{fnCtlClose, fnCtlCloseErr, fnGoClose, "(*os.File).Close"}

// ownSet is the per-path set of SSA values that are the created object (or a
// wrapper that owns it) and of local cells that currently hold it.
type ownSet struct {
	vals  map[ssa.Value]bool
	cells map[ssa.Value]bool
}

func (s ownSet) clone() ownSet {
	n := ownSet{vals: map[ssa.Value]bool{}, cells: map[ssa.Value]bool{}}
	for v := range s.vals {
		n.vals[v] = true
	}
	for v := range s.cells {
		n.cells[v] = true
	}
	return n
}

func (s ownSet) key() string {
	var ks []string
	for v := range s.vals {
		ks = append(ks, "v"+v.Name())
	}
	for v := range s.cells {
		ks = append(ks, "c"+v.Name())
	}
	sort.Strings(ks)
	return strings.Join(ks, ",")
}

// has: v is the object on this path (looking through value-preserving wrappers).
func (s ownSet) has(v ssa.Value) bool {
	for v != nil {
		if s.vals[v] {
			return true
		}
		n := core.Strip(v)
		if n == v {
			return false
		}
		v = n
	}
	return false
}

// wrapsParam: f is a constructor that stores parameter #i into a field of a
// fresh object and returns that object from every return (NewControlFile).
func wrapsParam(f *ssa.Function, i int) bool {
	if f == nil || f.Blocks == nil || i >= len(f.Params) || f.Signature.Results().Len() != 1 {
		return false
	}
	par := f.Params[i]
	var box *ssa.Alloc
	for _, b := range f.Blocks {
		for _, in := range b.Instrs {
			st, ok := in.(*ssa.Store)
			if !ok || core.Strip(st.Val) != ssa.Value(par) {
				continue
			}
			if fa, ok := st.Addr.(*ssa.FieldAddr); ok {
				if al, ok := fa.X.(*ssa.Alloc); ok {
					box = al
				}
			}
		}
	}
	if box == nil {
		return false
	}
	rets := realReturns(f)
	if len(rets) == 0 {
		return false
	}
	for _, r := range rets {
		if len(r.Results) != 1 || core.Strip(r.Results[0]) != ssa.Value(box) {
			return false
		}
	}
	return true
}

// closureReleases: the closure (or one nested in it) passes the captured
// variable #i to a call that reaches a release function.
func closureReleases(p *core.Prog, clo *ssa.Function, i int, s ownSet) bool {
	if clo == nil || i >= len(clo.FreeVars) {
		return false
	}
	fv := clo.FreeVars[i]
	for _, k := range core.Calls(clo) {
		if !callReachesNamed(p, k, releaseFns...) {
			continue
		}
		for _, a := range callArgs(k) {
			for _, o := range append(core.Origins(a, false), a) {
				if o == ssa.Value(fv) || s.has(o) {
					return true
				}
				if u, ok := o.(*ssa.UnOp); ok && u.Op == token.MUL && u.X == ssa.Value(fv) {
					return true
				}
			}
		}
	}
	return false
}

// deferReleases: the deferred call releases the object at every later exit.
func deferReleases(p *core.Prog, d *ssa.Defer, s ownSet) bool {
	for _, a := range callArgs(d) {
		if s.has(a) && callReachesNamed(p, d, releaseFns...) {
			return true
		}
	}
	mc, ok := d.Call.Value.(*ssa.MakeClosure)
	if !ok {
		return false
	}
	clo, _ := mc.Fn.(*ssa.Function)
	for i, b := range mc.Bindings {
		if (s.cells[b] || s.has(b)) && closureReleases(p, clo, i, s) {
			return true
		}
	}
	return false
}

func isCreatedObjectType(t types.Type) bool {
	return core.NamedOf(t) == "lib/file.ControlFile" || isOsFilePtr(t)
}

func outermost(fn *ssa.Function) *ssa.Function {
	for fn.Parent() != nil {
		fn = fn.Parent()
	}
	return fn
}

func ruleClean9(c *Ctx) {
	p := c.P
	covered := map[*ssa.Function]bool{}
	for _, fn := range handlerCtors(c) {
		covered[fn] = true
	}
	var fns []*ssa.Function
	for _, fn := range p.FuncsIn(true, "lib/file") {
		root := outermost(fn)
		if recv := root.Signature.Recv(); recv != nil && core.NamedOf(recv.Type()) == "lib/file.Handler" {
			continue
		}
		if covered[root] || fn.Blocks == nil {
			continue
		}
		fns = append(fns, fn)
	}
	sortFuncs(p, fns)
	for _, fn := range fns {
		cnt := map[string]int{}
		for _, k := range core.Calls(fn) {
			if _, isCall := k.(*ssa.Call); !isCall || !acquires(p, k) {
				continue
			}
			r := resultOf(k, 0)
			if r == nil || !isCreatedObjectType(r.Type()) {
				continue
			}
			c.Sites++
			c.Touch(fn)
			lbl := acqLabel(c, k)
			cnt[lbl]++
			if cnt[lbl] > 1 {
				lbl += " " + ordinal(cnt[lbl])
			}
			what := "descriptor"
			if !isOsFilePtr(r.Type()) {
				what = "control file"
			}
			key := c.KeyAt(fn, what+" created by "+lbl+" is returned, handed over or released on every path")
			if errValueOf(k) == nil {
				c.Unknown(key, c.Pos(k), "the creating call has no error result: its success edge cannot be identified")
				continue
			}
			bad, paths := createdLost(c, fn, k, r, what)
			c.Check(bad == "", key, c.Pos(k), fmt.Sprintf("on every path from the success edge the %s is returned, stored into a released handler field or released (%d path end(s) examined)", what, paths), bad)
		}
	}
}

// createdLost walks the paths from the success edge of k and returns the first
// path end at which the created object r is lost ("" when there is none) and
// the number of path ends examined.
func createdLost(c *Ctx, fn *ssa.Function, k ssa.CallInstruction, r ssa.Value, what string) (bad string, ends int) {
	p := c.P
	failed := failureEdgeOf(k)
	seen := map[string]bool{}
	report := func(s string) {
		if bad == "" {
			bad = s
		}
	}
	// nilEdge: the edge establishes that the object itself is nil — infeasible
	// after a successful creation.
	nilEdge := func(from, to *ssa.BasicBlock, s ownSet) bool {
		for _, f := range edgeFactOnly(from, to) {
			x, neq, ok := core.NilCmp(f.Cond)
			if ok && s.has(x) && neq == f.Neg {
				return true
			}
		}
		return false
	}
	var walk func(b *ssa.BasicBlock, start int, s ownSet)
	walk = func(b *ssa.BasicBlock, start int, s ownSet) {
		for i := start; i < len(b.Instrs); i++ {
			in := b.Instrs[i]
			if in == ssa.Instruction(k) {
				ends++
				report(fmt.Sprintf("the creating call at %s is reached again while the %s it created before is still held only by this function: the earlier one is overwritten and nothing ever removes it", c.Pos(k), what))
				return
			}
			switch x := in.(type) {
			case *ssa.Phi:
				// handled on the edge
			case *ssa.Store:
				switch {
				case s.has(x.Val):
					if storesIntoHandler(x, x.Val) || addrIsHandlerSlot(x.Addr, 0) {
						ends++
						return
					}
					if al, ok := x.Addr.(*ssa.Alloc); ok {
						s.cells[al] = true
					} else if fa, ok := x.Addr.(*ssa.FieldAddr); ok {
						if al, ok := fa.X.(*ssa.Alloc); ok {
							s.vals[al] = true // &T{fp: fp}: the fresh object owns it
						}
					}
				case s.cells[x.Addr]:
					delete(s.cells, x.Addr) // overwritten by something else
				}
			case *ssa.UnOp:
				if x.Op == token.MUL && s.cells[x.X] {
					s.vals[x] = true
				}
			case *ssa.Defer:
				if deferReleases(p, x, s) {
					ends++
					return
				}
			case *ssa.Return:
				ends++
				for _, res := range x.Results {
					if s.has(res) {
						return
					}
				}
				report(fmt.Sprintf("the return at %s is reachable after the %s was created at %s (the call succeeded) without it being returned, stored into the handler or released: the caller receives nothing to track, so the file stays on disk (and the descriptor open) after the process has ended", c.Pos(x), what, c.Pos(k)))
				return
			case ssa.CallInstruction:
				mine := -1
				for j, a := range callArgs(x) {
					if s.has(a) {
						mine = j
					}
				}
				if mine < 0 {
					break
				}
				if _, isGo := x.(*ssa.Go); !isGo && callReachesNamed(p, x, releaseFns...) {
					ends++
					return
				}
				for v := range s.vals {
					if handsOverByHelper(p, x, v) {
						ends++
						return
					}
				}
				if f := core.StaticCallee(x); f != nil && x.Value() != nil && !x.Common().IsInvoke() {
					for j, a := range x.Common().Args {
						if s.has(a) && wrapsParam(f, j) {
							s.vals[x.Value()] = true
						}
					}
				}
			}
		}
		for _, succ := range b.Succs {
			if failed(b, succ) || nilEdge(b, succ, s) {
				continue
			}
			ns := s.clone()
			pi := -1
			for j, pr := range succ.Preds {
				if pr == b {
					pi = j
				}
			}
			for _, in := range succ.Instrs {
				ph, ok := in.(*ssa.Phi)
				if !ok {
					break
				}
				if pi >= 0 && s.has(ph.Edges[pi]) {
					ns.vals[ph] = true
				} else {
					delete(ns.vals, ph)
				}
			}
			id := fmt.Sprintf("%d|%s", succ.Index, ns.key())
			if seen[id] {
				continue
			}
			seen[id] = true
			walk(succ, 0, ns)
		}
	}
	s0 := ownSet{vals: map[ssa.Value]bool{r: true}, cells: map[ssa.Value]bool{}}
	walk(k.Block(), core.InstrIndex(k)+1, s0)
	return bad, ends
}
