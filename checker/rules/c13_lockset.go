package rules

import (
	"fmt"
	"go/token"
	"go/types"
	"sort"
	"strings"

	"golang.org/x/tools/go/ssa"

	"verif/checker/core"
)

// R-LKS-1 — lockset of the mutex-carrying structs.
//
// A struct type that carries a sync.Mutex / sync.RWMutex field announces that its objects are shared between
// goroutines. Which of its fields the mutex protects is read off the code: a field F of T is *guarded by* the
// mutex field M of T when some function stores into x.F (or updates / deletes from the map, or stores into an
// element of the slice, held by x.F) at a point where x.M is locked exclusively; in a struct with a single mutex
// a locked read of a field that is written after construction counts as well. For every guarded field the rule
// demands that EVERY access of y.F — by any function of csvq, loads included — happens while y.M is held (Lock
// for a write; Lock or RLock for a read), where "held" means: a Lock of the mutex of the same object (directly
// or through a lock wrapper such as (SyncMap).lock) dominates the access and is not released on the way.
// Accepted without the lock, each by a mechanical condition:
//   - accesses to an object the function itself has just allocated (constructors fill a fresh object);
//   - accesses in a function that receives the object as a parameter / receiver / captured variable and whose
//     every call site holds the object's mutex (helpers that run inside the critical section);
//   - fields none of whose writers can run in a worker goroutine, and accesses in functions that cannot run in
//     one (call-graph reachability from the operands of `go` statements and the callbacks of goroutine runners,
//     the statement interpreter included: a user-defined function called from a parallel query executes
//     statements — FETCH, OPEN, CLOSE — in the worker);
//   - the transaction-terminating functions (R-PAR-6's standing assumption: no COMMIT / ROLLBACK inside a query);
//   - reads published through an atomic flag (GoroutineTaskManager.err / hasErr): the field is written once,
//     under the mutex, before an atomic store into a flag field of the same object, and the read is reached only
//     through the success edge of a test of that flag.
// Written after the round-7 report "cursor accessors are not locked against FETCH".
//
// Round 9 (reports "flags are read by workers without flagMutex", "SOURCE in a parallel WHERE crashes in
// file.(*Container).Add"): the OBJECT BEHIND a pointer field. When a field F of T points to a struct of csvq that
// carries no mutex / sync field of its own (Transaction.Flags → option.Flags, Transaction.FileContainer →
// file.Container), the state of that object is part of T's critical sections. An access of the object through x.F
// is a load / store of one of its fields on the pointer loaded from x.F (nested struct values and the contents of
// its maps / slices included) or a call that receives that pointer as receiver / argument and whose callee
// (summarised transitively over the static callee or the call-graph callees) reads / writes the pointee. The
// guards are inferred as for fields — a write of the pointee while x.M is held exclusively, COMMIT / ROLLBACK
// (functions that end with ReleaseResources) not counted — and each function gets ONE obligation per pointer
// field, demanding every inferred mutex. Two more idioms are recognised for these: a closure deferred inside a
// critical section whose Unlock was deferred earlier (runs before the release), and — for an owner type csvq
// allocates at exactly one place (one object per process) — a call chain through an interface, followed in the
// call graph. Copies of the pointer kept in another struct are not followed.

func init() {
	Register(&Rule{ID: "R-LKS-1", Props: []string{"C13", "C16"}, Floor: 60,
		Doc:      "consistent locking of mutex-carrying structs: for every struct type of csvq that has a sync.Mutex / sync.RWMutex field M, every field F that some function writes (store into the field, map update / delete or element store through it) while holding x.M — or, when M is the only mutex of T, reads under it while F is written somewhere after construction — is accessed — read or written, by every function of csvq — only while the M of the same object is held (a dominating Lock, or RLock for reads, of that object's mutex, directly or through a lock wrapper, not yet released), except (each decided mechanically) in an object the function has just allocated, in helpers all of whose call sites hold the mutex, when no writer of F or not the accessing function can run in a worker goroutine (call-graph reachability from go operands and runner callbacks, through the statement interpreter too: user-defined functions called from parallel queries execute FETCH / OPEN / CLOSE in the worker), in the transaction-terminating functions, and for a read published by an atomic flag (written once under the mutex before an atomic store into a flag of the same object, read only after that flag was seen set); a bare read races with the locked writers, and a test made before the Lock acts on a stale answer. The same is demanded of the OBJECT BEHIND a pointer field F of T whose pointee is a struct of csvq without a mutex / sync field of its own (Transaction.Flags, Transaction.FileContainer): an access through x.F — a load / store of a field of the pointee (nested values, map / slice contents) or a call that hands the pointer to a callee that reads / writes it (transitive summary) — holds every mutex of x under which some function, COMMIT / ROLLBACK aside, writes the pointee (one obligation per function and pointer field); a closure deferred inside a critical section whose Unlock was deferred earlier counts as inside it, and for an owner type allocated at one place only the callers are followed through interface calls in the call graph; copies of the pointer stored in other structs are not followed",
		Controls: []string{"CtlGuardedFieldReadBare", "CtlGuardedFieldTestedBeforeLock", "CtlOwnerRegistryCallBare", "CtlOwnerRegistryFieldBare", "CtlOwnerDeferredAfterRelease"},
		Run:      ruleLks1})
}

type lksAccess struct {
	fn      *ssa.Function
	at      ssa.Instruction
	base    ssa.Value // the object (x in x.F)
	write   bool
	content bool // access of the map / slice held by the field, not of the field itself
	pointee bool // access of the struct object the (pointer) field points to — directly or by a callee that receives the pointer
}

type lksLockEv struct {
	in     ssa.Instruction
	label  string
	unlock bool
	shared bool // RLock / RUnlock
}

type lksWrapper struct {
	suffix string // path below the first parameter: ".mtx"
	unlock bool
	shared bool
}

func isMutexType(t types.Type) bool {
	if p, ok := t.(*types.Pointer); ok {
		t = p.Elem()
	}
	n, ok := t.(*types.Named)
	if !ok || n.Obj().Pkg() == nil || n.Obj().Pkg().Path() != "sync" {
		return false
	}
	return n.Obj().Name() == "Mutex" || n.Obj().Name() == "RWMutex"
}

// lksStruct returns the named struct type behind t (a T or *T) when it is declared in csvq and has mutex fields.
func lksStruct(t types.Type, cache map[*types.Named][]int) (*types.Named, *types.Struct, []int) {
	if p, ok := t.Underlying().(*types.Pointer); ok {
		t = p.Elem()
	}
	n, ok := t.(*types.Named)
	if !ok || n.Obj().Pkg() == nil || !strings.Contains(n.Obj().Pkg().Path(), "mithrandie/csvq") {
		return nil, nil, nil
	}
	st, ok := n.Underlying().(*types.Struct)
	if !ok {
		return nil, nil, nil
	}
	idx, seen := cache[n]
	if !seen {
		for i := 0; i < st.NumFields(); i++ {
			if isMutexType(st.Field(i).Type()) {
				idx = append(idx, i)
			}
		}
		cache[n] = idx
	}
	if len(idx) == 0 {
		return nil, nil, nil
	}
	return n, st, idx
}

func ruleLks1(c *Ctx) {
	lockKind := func(name string) (isLock, unlock, shared bool) {
		switch name {
		case "(*sync.Mutex).Lock", "(*sync.RWMutex).Lock":
			return true, false, false
		case "(*sync.RWMutex).RLock":
			return true, false, true
		case "(*sync.Mutex).Unlock", "(*sync.RWMutex).Unlock":
			return true, true, false
		case "(*sync.RWMutex).RUnlock":
			return true, true, true
		}
		return false, false, false
	}

	// lock wrappers: a function whose only operation on a mutex is one Lock (or one Unlock) of a mutex reached
	// from its first parameter — (SyncMap).lock / unlock; a nil test around it does not matter.
	wrappers := map[*ssa.Function]lksWrapper{}
	for _, fn := range c.P.SrcFuncs() {
		if len(fn.Params) == 0 || fn.Parent() != nil {
			continue
		}
		var ops []ssa.CallInstruction
		for _, call := range core.Calls(fn) {
			if is, _, _ := lockKind(c.P.CalleeName(call)); is {
				ops = append(ops, call)
			}
		}
		if len(ops) != 1 {
			continue
		}
		if _, isDefer := ops[0].(*ssa.Defer); isDefer {
			continue
		}
		l := valuePathLabel(ops[0].Common().Args[0])
		p0 := fn.Params[0].Name()
		if !strings.HasPrefix(l, p0+".") {
			continue
		}
		_, unlock, shared := lockKind(c.P.CalleeName(ops[0]))
		wrappers[fn] = lksWrapper{suffix: strings.TrimPrefix(l, p0), unlock: unlock, shared: shared}
	}

	events := map[*ssa.Function][]lksLockEv{}
	lockEvents := func(fn *ssa.Function) []lksLockEv {
		if evs, ok := events[fn]; ok {
			return evs
		}
		var evs []lksLockEv
		for _, call := range core.Calls(fn) {
			if _, isDefer := call.(*ssa.Defer); isDefer {
				continue // a deferred unlock releases at the exit only
			}
			if _, isGo := call.(*ssa.Go); isGo {
				continue
			}
			if is, unlock, shared := lockKind(c.P.CalleeName(call)); is {
				evs = append(evs, lksLockEv{call.(ssa.Instruction), valuePathLabel(call.Common().Args[0]), unlock, shared})
				continue
			}
			if g := call.Common().StaticCallee(); g != nil {
				if w, ok := wrappers[g]; ok && len(call.Common().Args) > 0 {
					evs = append(evs, lksLockEv{call.(ssa.Instruction), valuePathLabel(call.Common().Args[0]) + w.suffix, w.unlock, w.shared})
				}
			}
		}
		events[fn] = evs
		return evs
	}
	// held: 0 = not held, 1 = held shared (RLock), 2 = held exclusively
	held := func(fn *ssa.Function, at ssa.Instruction, label string) int {
		best := 0
		evs := lockEvents(fn)
		for _, l := range evs {
			if l.unlock || l.label != label || !core.Dominates(l.in, at) {
				continue
			}
			again := func(in ssa.Instruction) bool { return in == l.in }
			released := false
			for _, u := range evs {
				if !u.unlock || u.label != label {
					continue
				}
				if core.Reachable(l.in, u.in, again) && (u.in == at || core.Reachable(u.in, at, again)) {
					released = true
				}
			}
			if released {
				continue
			}
			if l.shared {
				if best < 1 {
					best = 1
				}
			} else {
				best = 2
			}
		}
		return best
	}

	// ---- collect the accesses of every non-mutex field of the mutex-carrying structs
	cache := map[*types.Named][]int{}
	// the slot of a field (the pointer / map / slice header / scalar stored in the struct) and the contents
	// reached through it (map entries, slice elements) are two locations: a map field that is assigned once by
	// the constructor may be loaded anywhere, its entries may not
	type fieldID struct {
		t       *types.Named
		f       int
		content bool
		pointee bool
	}
	acc := map[fieldID][]lksAccess{}
	mutexes := map[*types.Named][]int{}
	structs := map[*types.Named]*types.Struct{}
	add := func(id fieldID, a lksAccess) {
		id.content, id.pointee = a.content, a.pointee
		acc[id] = append(acc[id], a)
	}
	contentUses := func(id fieldID, fn *ssa.Function, base ssa.Value, loaded ssa.Value) {
		refs := loaded.Referrers()
		if refs == nil {
			return
		}
		for _, u := range *refs {
			switch x := u.(type) {
			case *ssa.MapUpdate:
				if x.Map == loaded {
					add(id, lksAccess{fn: fn, at: x, base: base, write: true, content: true})
				}
			case *ssa.Lookup:
				if x.X == loaded {
					add(id, lksAccess{fn: fn, at: x, base: base, write: false, content: true})
				}
			case *ssa.Range:
				if x.X == loaded {
					add(id, lksAccess{fn: fn, at: x, base: base, write: false, content: true})
				}
			case *ssa.Index:
				if x.X == loaded {
					add(id, lksAccess{fn: fn, at: x, base: base, write: false, content: true})
				}
			case *ssa.IndexAddr:
				if x.X != loaded || x.Referrers() == nil {
					continue
				}
				for _, r := range *x.Referrers() {
					switch y := r.(type) {
					case *ssa.Store:
						if y.Addr == x {
							add(id, lksAccess{fn: fn, at: y, base: base, write: true, content: true})
						}
					case *ssa.UnOp:
						add(id, lksAccess{fn: fn, at: y, base: base, write: false, content: true})
					}
				}
			case ssa.CallInstruction:
				if bi, ok := x.Common().Value.(*ssa.Builtin); ok && len(x.Common().Args) > 0 && x.Common().Args[0] == loaded {
					switch bi.Name() {
					case "delete":
						add(id, lksAccess{fn: fn, at: x, base: base, write: true, content: true})
					case "len", "cap":
						if _, isMap := loaded.Type().Underlying().(*types.Map); isMap {
							add(id, lksAccess{fn: fn, at: x, base: base, write: false, content: true})
						}
					}
				}
			}
		}
	}
	// ---- the object a pointer field points to: when the pointee is a struct of csvq that has no mutex of its own
	// (Transaction.Flags → option.Flags, Transaction.FileContainer → file.Container), its state belongs to the
	// owner's critical sections. An access of the pointee through x.F is a load / store of one of its fields (nested
	// struct values and the contents of its maps / slices included) on the pointer loaded from x.F, or a call that
	// receives that pointer as receiver / argument and whose callee accesses the pointee (summarised over the
	// callees, transitively). Copies of the pointer kept elsewhere (another struct, a channel) are not followed.
	type ptrSum struct{ r, w bool }
	type ptrKey struct {
		fn *ssa.Function
		i  int
	}
	ptrMemo := map[ptrKey]*ptrSum{}
	var ptrUses func(ptr ssa.Value, direct func(at ssa.Instruction, write bool), depth int)
	var ptrSummary func(fn *ssa.Function, i int, depth int) ptrSum
	// slotUses: the uses of the address of a field (or of a nested field / array element) of the pointee
	var slotUses func(addr ssa.Value, direct func(at ssa.Instruction, write bool))
	slotUses = func(addr ssa.Value, direct func(at ssa.Instruction, write bool)) {
		if addr.Referrers() == nil {
			return
		}
		for _, r := range *addr.Referrers() {
			switch y := r.(type) {
			case *ssa.Store:
				direct(y, y.Addr == addr)
			case *ssa.UnOp:
				if y.Op != token.MUL {
					continue
				}
				direct(y, false)
				// contents of a map / slice held by the pointee
				if y.Referrers() == nil {
					continue
				}
				for _, u := range *y.Referrers() {
					switch z := u.(type) {
					case *ssa.MapUpdate:
						if z.Map == ssa.Value(y) {
							direct(z, true)
						}
					case *ssa.IndexAddr:
						if z.X == ssa.Value(y) && z.Referrers() != nil {
							for _, r2 := range *z.Referrers() {
								if st, ok := r2.(*ssa.Store); ok && st.Addr == ssa.Value(z) {
									direct(st, true)
								}
							}
						}
					case ssa.CallInstruction:
						if bi, ok := z.Common().Value.(*ssa.Builtin); ok && bi.Name() == "delete" && len(z.Common().Args) > 0 && z.Common().Args[0] == ssa.Value(y) {
							direct(z, true)
						}
					}
				}
			case *ssa.FieldAddr:
				if y.X == addr {
					slotUses(y, direct)
				}
			case *ssa.IndexAddr:
				if y.X == addr {
					slotUses(y, direct)
				}
			case *ssa.DebugRef:
			default:
				if ci, ok := r.(ssa.CallInstruction); ok && isSyncSafe(c.P.CalleeName(ci)) {
					continue
				}
				direct(r, false) // the address of the field is handed on
			}
		}
	}
	ptrUses = func(ptr ssa.Value, direct func(at ssa.Instruction, write bool), depth int) {
		if ptr.Referrers() == nil {
			return
		}
		for _, r := range *ptr.Referrers() {
			switch y := r.(type) {
			case *ssa.FieldAddr:
				if y.X == ptr {
					slotUses(y, direct)
				}
			case ssa.CallInstruction:
				cc := y.Common()
				if cc.IsInvoke() {
					continue
				}
				var callees []*ssa.Function
				if g := cc.StaticCallee(); g != nil {
					callees = []*ssa.Function{g}
				} else {
					callees = c.P.Callees(y)
				}
				var sum ptrSum
				for i, a := range cc.Args {
					if a != ptr {
						continue
					}
					for _, g := range callees {
						if g == nil || g.Blocks == nil || i >= len(g.Params) {
							continue
						}
						gs := ptrSummary(g, i, depth+1)
						sum.r, sum.w = sum.r || gs.r, sum.w || gs.w
					}
				}
				if sum.w {
					direct(y.(ssa.Instruction), true)
				} else if sum.r {
					direct(y.(ssa.Instruction), false)
				}
			}
		}
	}
	ptrSummary = func(fn *ssa.Function, i int, depth int) ptrSum {
		k := ptrKey{fn, i}
		if s, ok := ptrMemo[k]; ok {
			return *s // a summary in progress (recursion) contributes what it has found so far
		}
		s := &ptrSum{}
		ptrMemo[k] = s
		if depth > 8 {
			return *s
		}
		ptrUses(fn.Params[i], func(_ ssa.Instruction, write bool) {
			if write {
				s.w = true
			} else {
				s.r = true
			}
		}, depth)
		return *s
	}
	// pointeeType: the field holds a pointer to a struct of csvq without a mutex of its own
	pointeeType := func(t types.Type) bool {
		p, ok := t.Underlying().(*types.Pointer)
		if !ok {
			return false
		}
		n, ok := p.Elem().(*types.Named)
		if !ok || n.Obj().Pkg() == nil || !strings.Contains(n.Obj().Pkg().Path(), "mithrandie/csvq") {
			return false
		}
		st, ok := n.Underlying().(*types.Struct)
		if !ok {
			return false
		}
		for i := 0; i < st.NumFields(); i++ {
			ft := st.Field(i).Type()
			if isMutexType(ft) {
				return false
			}
			if fn, ok := ft.(*types.Named); ok && fn.Obj().Pkg() != nil && (fn.Obj().Pkg().Path() == "sync" || fn.Obj().Pkg().Path() == "sync/atomic") {
				return false
			}
		}
		return true
	}

	for _, fn := range c.P.SrcFuncs() {
		for _, b := range fn.Blocks {
			for _, in := range b.Instrs {
				switch x := in.(type) {
				case *ssa.FieldAddr:
					n, st, idx := lksStruct(x.X.Type(), cache)
					if n == nil || isMutexType(st.Field(x.Field).Type()) {
						continue
					}
					mutexes[n], structs[n] = idx, st
					id := fieldID{t: n, f: x.Field}
					if x.Referrers() == nil {
						continue
					}
					for _, r := range *x.Referrers() {
						switch y := r.(type) {
						case *ssa.Store:
							if y.Addr == x {
								add(id, lksAccess{fn: fn, at: y, base: x.X, write: true, content: false})
							} else {
								add(id, lksAccess{fn: fn, at: y, base: x.X, write: false, content: false})
							}
						case *ssa.UnOp:
							if y.Op == token.MUL {
								add(id, lksAccess{fn: fn, at: y, base: x.X, write: false, content: false})
								contentUses(id, fn, x.X, y)
								if pointeeType(st.Field(x.Field).Type()) {
									base := x.X
									ptrUses(y, func(at ssa.Instruction, write bool) {
										add(id, lksAccess{fn: fn, at: at, base: base, write: write, pointee: true})
									}, 0)
								}
							}
						case *ssa.DebugRef:
						default:
							if ci, ok := r.(ssa.CallInstruction); ok && isSyncSafe(c.P.CalleeName(ci)) {
								continue // sync/atomic operation on the field: synchronised by itself
							}
							// the address of the field is handed on (method with pointer receiver, &x.F)
							add(id, lksAccess{fn: fn, at: r, base: x.X, write: false, content: false})
						}
					}
				case *ssa.Field:
					n, st, idx := lksStruct(x.X.Type(), cache)
					if n == nil || isMutexType(st.Field(x.Field).Type()) {
						continue
					}
					mutexes[n], structs[n] = idx, st
					id := fieldID{t: n, f: x.Field}
					// a struct VALUE is a copy; only the contents reached through it are shared
					contentUses(id, fn, x.X, x)
				}
			}
		}
	}

	// isFresh: the object is allocated by the function that accesses it (not yet shared)
	isFresh := func(base ssa.Value) bool {
		switch x := base.(type) {
		case *ssa.Alloc:
			return true
		case *ssa.UnOp:
			if al, ok := x.X.(*ssa.Alloc); ok && x.Op == token.MUL {
				vals, complete := core.StoresTo(al)
				if !complete || len(vals) == 0 {
					return false
				}
				for _, v := range vals {
					if _, ok := v.(*ssa.Alloc); !ok {
						return false
					}
				}
				return true
			}
		}
		return false
	}

	// ---- which functions can run in a worker goroutine: everything reachable (call graph, the statement
	// interpreter included — a user-defined function called from a parallel query executes statements) from the
	// operand of a `go` statement or from a callback handed to a goroutine runner
	inWorker := map[*ssa.Function]bool{}
	inWorkerQuery := map[*ssa.Function]bool{} // … without passing through the statement interpreter
	var roots []*ssa.Function
	for _, fn := range c.P.SrcFuncs() {
		for _, call := range core.Calls(fn) {
			g, isGo := call.(*ssa.Go)
			if !isGo {
				continue
			}
			if f := g.Common().StaticCallee(); f != nil {
				roots = append(roots, f)
			} else {
				roots = append(roots, c.P.Callees(g)...)
			}
		}
	}
	for _, fam := range parAnalysis(c.P).families {
		for _, r := range fam.regions {
			roots = append(roots, r.fn)
		}
	}
	for _, r := range roots {
		for f := range c.P.ReachSet(r) {
			inWorker[f] = true
		}
		for f, path := range staticReach(r) {
			through := false
			for _, pf := range path {
				if c.P.Name(pf) == "lib/query.(*Processor).ExecuteStatement" {
					through = true
				}
			}
			if !through {
				inWorkerQuery[f] = true
			}
		}
	}
	if len(roots) == 0 {
		c.Unknown("concurrent regions", "-", "cannot-analyse: no go statement / goroutine runner found in csvq")
		return
	}
	// terminal: a transaction-terminating function (R-PAR-6's list); a function from which one is reached by static
	// calls without going through the statement interpreter (Transaction.Commit / Rollback end — directly or through
	// a helper — with ReleaseResources); or a helper all of whose callers are such functions. Never one that a
	// worker reaches without the statement interpreter. Used for the pointee objects only: what COMMIT / ROLLBACK do
	// to the file container is not concurrent with a query (standing assumption), so their critical sections do not
	// name its guard.
	terminalMemo := map[*ssa.Function]bool{}
	var terminal func(fn *ssa.Function) bool
	terminal = func(fn *ssa.Function) bool {
		if t, ok := terminalMemo[fn]; ok {
			return t
		}
		terminalMemo[fn] = false // recursion: decided by the other callers
		t := isTxnTerminal(c, fn)
		if !t && c.P.Name(fn) != "lib/query.(*Processor).ExecuteStatement" {
			reach := staticReach(fn)
			ends, interp := false, false
			for g := range reach {
				if g == fn {
					continue
				}
				if c.P.Name(g) == "lib/query.(*Processor).ExecuteStatement" {
					interp = true
				}
				if isTxnTerminal(c, g) && c.P.Name(g) != "lib/query.NewTransaction" {
					ends = true
				}
			}
			t = ends && !interp
		}
		if !t {
			edges := c.P.RealCallers(fn)
			all := len(edges) > 0
			for _, e := range edges {
				if e.Site == nil || e.Site.Common().StaticCallee() != fn || !terminal(e.Caller.Func) {
					all = false
					break
				}
			}
			t = all
		}
		t = t && !inWorkerQuery[fn]
		terminalMemo[fn] = t
		return t
	}

	// ---- guarded fields: written at least once while the mutex of the same object is held exclusively
	type guardID struct {
		t       *types.Named
		f, m    int
		content bool
		pointee bool
	}
	guarded := map[guardID]string{} // → position of one locked write (the witness)
	for id, as := range acc {
		written := false // outside constructors
		for _, a := range as {
			if a.write && !isFresh(a.base) {
				written = true
			}
		}
		for _, a := range as {
			if a.pointee && terminal(a.fn) {
				continue
			}
			// a locked write proves the intent; in a struct with a single mutex a locked read of a field that is
			// written after construction does too (the mutex has nothing else to protect the read from)
			if !written || (!a.write && len(mutexes[id.t]) != 1) {
				continue
			}
			for _, m := range mutexes[id.t] {
				label := valuePathLabel(a.base) + "." + structs[id.t].Field(m).Name()
				if held(a.fn, a.at, label) == 2 {
					g := guardID{id.t, id.f, m, id.content, id.pointee}
					if w, ok := guarded[g]; !ok || c.Pos(a.at) < w {
						guarded[g] = c.Pos(a.at)
					}
				}
			}
		}
	}

	// ---- call sites (for helpers that run inside the critical section of their callers)
	type site struct {
		caller *ssa.Function
		call   ssa.CallInstruction
	}
	sites := map[*ssa.Function][]site{}
	closureSites := map[*ssa.Function][]*ssa.MakeClosure{}
	for _, fn := range c.P.SrcFuncs() {
		for _, call := range core.Calls(fn) {
			if g := call.Common().StaticCallee(); g != nil {
				sites[g] = append(sites[g], site{fn, call})
			}
		}
		for _, b := range fn.Blocks {
			for _, in := range b.Instrs {
				if mc, ok := in.(*ssa.MakeClosure); ok {
					if g, ok := mc.Fn.(*ssa.Function); ok {
						closureSites[g] = append(closureSites[g], mc)
					}
				}
			}
		}
	}
	// rootOf: the parameter / free variable a base value is read from, and the path below it
	var rootOf func(v ssa.Value) (ssa.Value, string)
	rootOf = func(v ssa.Value) (ssa.Value, string) {
		switch x := v.(type) {
		case *ssa.Parameter, *ssa.FreeVar:
			return x, ""
		case *ssa.UnOp:
			if x.Op == token.MUL {
				if fv, ok := x.X.(*ssa.FreeVar); ok {
					return fv, ""
				}
				if al, ok := x.X.(*ssa.Alloc); ok {
					// a parameter spilled into a cell because a closure captures it
					vals, complete := core.StoresTo(al)
					if complete && len(vals) == 1 {
						if p, ok := vals[0].(*ssa.Parameter); ok {
							return p, ""
						}
					}
				}
				return rootOf(x.X)
			}
		case *ssa.FieldAddr:
			r, p := rootOf(x.X)
			if r != nil {
				return r, p + "." + core.FieldName(x)
			}
		case *ssa.Field:
			r, p := rootOf(x.X)
			if r != nil {
				return r, p + "." + core.FieldName(x)
			}
		}
		return nil, ""
	}
	var calledLocked func(fn *ssa.Function, root ssa.Value, suffix string, need int, depth int, stack map[*ssa.Function]bool) (bool, string)
	calledLocked = func(fn *ssa.Function, root ssa.Value, suffix string, need int, depth int, stack map[*ssa.Function]bool) (bool, string) {
		if depth > 5 || stack[fn] {
			return false, "call chain too deep"
		}
		stack[fn] = true
		defer delete(stack, fn)
		switch r := root.(type) {
		case *ssa.Parameter:
			pi := -1
			for i, p := range fn.Params {
				if p == r {
					pi = i
				}
			}
			dynamic := false
			for _, e := range c.P.RealCallers(fn) {
				if e.Site == nil || e.Site.Common().StaticCallee() != fn {
					dynamic = true
				}
			}
			ss := sites[fn]
			var use []site
			for _, s := range ss {
				if c.P.IsControl(s.caller) && !c.P.IsControl(fn) {
					continue
				}
				use = append(use, s)
			}
			if pi < 0 || len(use) == 0 {
				return false, c.P.Name(fn) + " has no static call site"
			}
			if dynamic {
				return false, c.P.Name(fn) + " is also called dynamically"
			}
			for _, s := range use {
				if _, isGo := s.call.(*ssa.Go); isGo {
					return false, "started as a goroutine at " + c.Pos(s.call)
				}
				if _, isDefer := s.call.(*ssa.Defer); isDefer {
					return false, "deferred at " + c.Pos(s.call)
				}
				args := s.call.Common().Args
				if pi >= len(args) {
					return false, "argument not found at " + c.Pos(s.call)
				}
				label := valuePathLabel(args[pi]) + suffix
				if held(s.caller, s.call.(ssa.Instruction), label) >= need {
					continue
				}
				if r2, p2 := rootOf(args[pi]); r2 != nil {
					if ok, _ := calledLocked(s.caller, r2, p2+suffix, need, depth+1, stack); ok {
						continue
					}
				}
				return false, "called from " + c.P.Name(s.caller) + " at " + c.Pos(s.call) + " without the mutex"
			}
			return true, ""
		case *ssa.FreeVar:
			fi := -1
			for i, fv := range fn.FreeVars {
				if fv == r {
					fi = i
				}
			}
			mcs := closureSites[fn]
			if fi < 0 || len(mcs) != 1 || fn.Parent() == nil {
				return false, "closure created at several places"
			}
			mc := mcs[0]
			parent := fn.Parent()
			// the closure must be used only as an argument of ordinary calls made while the mutex is held (it is
			// then run, if at all, by the callee before the call returns — for the callees csvq uses: Range-like
			// iterators), or called directly
			if mc.Referrers() == nil {
				return false, "closure value escapes"
			}
			bound := mc.Bindings[fi]
			label := valuePathLabel(bound) + suffix
			if u, ok := bound.(*ssa.Alloc); ok {
				label = u.Comment + suffix
			}
			for _, ref := range *mc.Referrers() {
				var call ssa.Instruction
				switch x := ref.(type) {
				case *ssa.Call:
					call = x
				case *ssa.Defer:
					// `defer func() { … }()` registered inside a critical section whose Unlock is itself deferred (and
					// registered earlier: the Lock dominates this defer): deferred calls run last-in first-out, so the
					// closure runs before the mutex is released. An explicit Unlock anywhere in the function would run
					// before the closure: not accepted.
					if x.Call.Value != ssa.Value(mc) {
						return false, "closure value is handed to a deferred call at " + c.Pos(ref)
					}
					for _, ev := range lockEvents(parent) {
						if ev.unlock && ev.label == label {
							return false, "the closure is deferred at " + c.Pos(ref) + " but the mutex is released by an explicit Unlock before the deferred calls run"
						}
					}
					earlier := false
					for _, dc := range core.Calls(parent) {
						d, isDefer := dc.(*ssa.Defer)
						if !isDefer || len(d.Call.Args) == 0 {
							continue
						}
						if is, unlock, _ := lockKind(c.P.CalleeName(d)); !is || !unlock || valuePathLabel(d.Call.Args[0]) != label {
							continue
						}
						if !core.Dominates(d, x) {
							return false, "the closure is deferred at " + c.Pos(ref) + " before the deferred Unlock at " + c.Pos(d) + " is registered: it runs after the release"
						}
						earlier = true
					}
					if !earlier {
						return false, "the closure is deferred at " + c.Pos(ref) + " in a function that does not release the mutex by a deferred Unlock"
					}
					call = x
				default:
					return false, "closure value is stored or started as a goroutine at " + c.Pos(ref)
				}
				if held(parent, call, label) >= need {
					continue
				}
				var r2 ssa.Value
				var p2 string
				if al, ok := bound.(*ssa.Alloc); ok {
					vals, complete := core.StoresTo(al)
					if complete && len(vals) == 1 {
						r2, p2 = rootOf(vals[0])
					}
				} else {
					r2, p2 = rootOf(bound)
				}
				if r2 != nil {
					if ok, _ := calledLocked(parent, r2, p2+suffix, need, depth+1, stack); ok {
						continue
					}
				}
				return false, "the closure is used at " + c.Pos(call) + " without the mutex"
			}
			return true, ""
		}
		return false, ""
	}

	// a guarded field matters when one of its writers (outside constructors) can run in a worker
	writerInWorker := func(id fieldID) string {
		w := ""
		for _, a := range acc[id] {
			if a.write && !isFresh(a.base) && inWorker[a.fn] && !(a.pointee && terminal(a.fn)) {
				if n := c.P.Name(a.fn); w == "" || n < w {
					w = n
				}
			}
		}
		return w
	}

	// ---- publication through an atomic flag: every write of the field happens at most once per object (under
	// the mutex, dominated by a test that the field is still nil) and is followed, inside the critical section,
	// by an atomic store into a flag field X of the same object; a read that is reached only after an atomic
	// load of X was seen non-zero happens after that write and no later write exists.
	isAtomicStore := func(n string) bool {
		return strings.HasPrefix(n, "sync/atomic.Store") || strings.HasPrefix(n, "sync/atomic.Add") || strings.HasPrefix(n, "sync/atomic.CompareAndSwap") ||
			(strings.HasPrefix(n, "(*sync/atomic.") && (strings.HasSuffix(n, ").Store") || strings.HasSuffix(n, ").Add") || strings.HasSuffix(n, ").CompareAndSwap")))
	}
	isAtomicLoad := func(n string) bool {
		return strings.HasPrefix(n, "sync/atomic.Load") || (strings.HasPrefix(n, "(*sync/atomic.") && strings.HasSuffix(n, ").Load"))
	}
	pubFlags := func(g guardID) map[string]bool {
		var out map[string]bool
		mname := structs[g.t].Field(g.m).Name()
		for _, a := range acc[fieldID{g.t, g.f, g.content, g.pointee}] {
			if !a.write || isFresh(a.base) {
				continue
			}
			here := map[string]bool{}
			st, isStore := a.at.(*ssa.Store)
			if !a.content && isStore && held(a.fn, a.at, valuePathLabel(a.base)+"."+mname) == 2 {
				// written only when still nil
				once := false
				for _, b := range a.fn.Blocks {
					for _, in := range b.Instrs {
						if u, ok := in.(*ssa.UnOp); ok && u.Op == token.MUL && core.SameAddr(u.X, st.Addr) && core.NilAt(u, a.at) {
							once = true
						}
					}
				}
				if once {
					for _, call := range core.Calls(a.fn) {
						if !isAtomicStore(c.P.CalleeName(call)) || len(call.Common().Args) == 0 {
							continue
						}
						fa, ok := call.Common().Args[0].(*ssa.FieldAddr)
						if !ok || valuePathLabel(fa.X) != valuePathLabel(a.base) {
							continue
						}
						in := call.(ssa.Instruction)
						if core.Dominates(a.at, in) && held(a.fn, in, valuePathLabel(a.base)+"."+mname) == 2 {
							here[core.FieldName(fa)] = true
						}
					}
				}
			}
			if out == nil {
				out = here
			} else {
				for k := range out {
					if !here[k] {
						delete(out, k)
					}
				}
			}
		}
		return out
	}
	// flagTester: fn returns whether an atomic load of field X of its first parameter is non-zero / true
	flagTester := func(fn *ssa.Function) string {
		if fn == nil || len(fn.Params) == 0 || fn.Blocks == nil {
			return ""
		}
		rets := core.Returns(fn)
		if len(rets) != 1 || len(rets[0].Results) != 1 {
			return ""
		}
		v := rets[0].Results[0]
		if bo, ok := v.(*ssa.BinOp); ok && bo.Op == token.NEQ {
			if _, isConst := bo.Y.(*ssa.Const); isConst {
				v = bo.X
			}
		}
		call, ok := v.(*ssa.Call)
		if !ok || !isAtomicLoad(c.P.CalleeName(call)) || len(call.Common().Args) == 0 {
			return ""
		}
		fa, ok := call.Common().Args[0].(*ssa.FieldAddr)
		if !ok || fa.X != ssa.Value(fn.Params[0]) {
			return ""
		}
		return core.FieldName(fa)
	}
	// seenFlag: `at` is reached only through the success edge of a test of flag X of the object `obj`
	seenFlag := func(fn *ssa.Function, at ssa.Instruction, obj ssa.Value, flags map[string]bool) bool {
		for _, b := range fn.Blocks {
			iff, ok := b.Instrs[len(b.Instrs)-1].(*ssa.If)
			if !ok {
				continue
			}
			cond, succ := iff.Cond, 0
			if u, ok := cond.(*ssa.UnOp); ok && u.Op == token.NOT {
				cond, succ = u.X, 1
			}
			flag := ""
			if bo, ok := cond.(*ssa.BinOp); ok && bo.Op == token.NEQ {
				if _, isConst := bo.Y.(*ssa.Const); isConst {
					cond = bo.X
				}
			}
			if call, ok := cond.(*ssa.Call); ok && len(call.Common().Args) > 0 {
				if isAtomicLoad(c.P.CalleeName(call)) {
					if fa, ok := call.Common().Args[0].(*ssa.FieldAddr); ok && valuePathLabel(fa.X) == valuePathLabel(obj) {
						flag = core.FieldName(fa)
					}
				} else if x := flagTester(call.Common().StaticCallee()); x != "" && valuePathLabel(call.Common().Args[0]) == valuePathLabel(obj) {
					flag = x
				}
			}
			if flag == "" || !flags[flag] {
				continue
			}
			tb := b.Succs[succ]
			if len(tb.Preds) == 1 && (tb == at.Block() || tb.Dominates(at.Block())) {
				return true
			}
		}
		return false
	}
	published := func(g guardID, a lksAccess) bool {
		if a.write {
			return false
		}
		flags := pubFlags(g)
		if len(flags) == 0 {
			return false
		}
		if seenFlag(a.fn, a.at, a.base, flags) {
			return true
		}
		root, suffix := rootOf(a.base)
		p, ok := root.(*ssa.Parameter)
		if !ok || suffix != "" {
			return false
		}
		pi := -1
		for i, q := range a.fn.Params {
			if q == p {
				pi = i
			}
		}
		for _, e := range c.P.RealCallers(a.fn) {
			if e.Site == nil || e.Site.Common().StaticCallee() != a.fn {
				return false
			}
		}
		k := 0
		for _, s := range sites[a.fn] {
			if c.P.IsControl(s.caller) && !c.P.IsControl(a.fn) {
				continue
			}
			k++
			args := s.call.Common().Args
			if _, isCall := s.call.(*ssa.Call); !isCall || pi < 0 || pi >= len(args) || !seenFlag(s.caller, s.call.(ssa.Instruction), args[pi], flags) {
				return false
			}
		}
		return k > 0
	}

	// ---- singleton owners: a struct type that csvq allocates at exactly one place (Transaction: NewTransaction) has
	// one object per process, so "the mutex of the same object" is the mutex field itself (R-MTX-2 uses the same
	// fact). For the pointee objects of such an owner a call chain that crosses an interface (Reload →
	// Terminal.ReloadConfig → Prompt.LoadConfig) is followed in the call graph: every caller holds the field's
	// mutex at the call, or is itself only called with it held.
	allocSites := map[*types.Named]int{}
	for _, fn := range c.P.SrcFuncs() {
		if c.P.IsControl(fn) {
			continue
		}
		for _, b := range fn.Blocks {
			for _, in := range b.Instrs {
				if al, ok := in.(*ssa.Alloc); ok {
					if nt, ok := al.Type().(*types.Pointer).Elem().(*types.Named); ok {
						allocSites[nt]++
					}
				}
			}
		}
	}
	var heldUp func(fn *ssa.Function, mn string, need int, depth int, stack map[*ssa.Function]bool) bool
	heldUp = func(fn *ssa.Function, mn string, need int, depth int, stack map[*ssa.Function]bool) bool {
		if depth > 6 || stack[fn] {
			return false
		}
		stack[fn] = true
		defer delete(stack, fn)
		edges := c.P.RealCallers(fn)
		if len(edges) == 0 {
			return false
		}
		for _, e := range edges {
			if e.Site == nil {
				return false
			}
			if _, isGo := e.Site.(*ssa.Go); isGo {
				return false
			}
			if _, isDefer := e.Site.(*ssa.Defer); isDefer {
				return false
			}
			caller := e.Caller.Func
			if !inWorker[caller] {
				continue // a chain that starts outside the worker goroutines (set-up) is not concurrent with them
			}
			ok := false
			for _, ev := range lockEvents(caller) {
				if !ev.unlock && (ev.label == mn || strings.HasSuffix(ev.label, "."+mn)) && held(caller, e.Site, ev.label) >= need {
					ok = true
				}
			}
			if !ok && !heldUp(caller, mn, need, depth+1, stack) {
				return false
			}
		}
		return true
	}

	// ---- obligations
	var gs []guardID
	for g := range guarded {
		gs = append(gs, g)
	}
	name := func(t *types.Named) string { return core.NamedOf(t) }
	sort.Slice(gs, func(i, j int) bool {
		a, b := gs[i], gs[j]
		if name(a.t) != name(b.t) {
			return name(a.t) < name(b.t)
		}
		if a.f != b.f {
			return a.f < b.f
		}
		if a.m != b.m {
			return a.m < b.m
		}
		if a.content != b.content {
			return !a.content
		}
		return !a.pointee && b.pointee
	})
	// the object behind a pointer field gets ONE obligation per function, which demands every mutex some writer
	// relies on (two writers that hold different mutexes exclude each other only when each holds both)
	type ptrGuard struct {
		t *types.Named
		f int
	}
	ptrGuards := map[ptrGuard][]guardID{}
	for _, g := range gs {
		if g.pointee {
			ptrGuards[ptrGuard{g.t, g.f}] = append(ptrGuards[ptrGuard{g.t, g.f}], g)
		}
	}
	n := 0
	for _, g := range gs {
		st := structs[g.t]
		fname, mname := st.Field(g.f).Name(), st.Field(g.m).Name()
		tname := strings.TrimPrefix(name(g.t), "lib/")
		mnames := []string{mname}
		witness := guarded[g]
		if g.pointee {
			all := ptrGuards[ptrGuard{g.t, g.f}]
			if all[0] != g {
				continue
			}
			mnames, witness = nil, ""
			for i, o := range all {
				mnames = append(mnames, st.Field(o.m).Name())
				if i > 0 {
					witness += "; "
				}
				witness += st.Field(o.m).Name() + ": " + guarded[o]
			}
		}
		writer := writerInWorker(fieldID{g.t, g.f, g.content, g.pointee})
		// group the accesses by function
		byFn := map[*ssa.Function][]lksAccess{}
		var fns []*ssa.Function
		for _, a := range acc[fieldID{g.t, g.f, g.content, g.pointee}] {
			if _, ok := byFn[a.fn]; !ok {
				fns = append(fns, a.fn)
			}
			byFn[a.fn] = append(byFn[a.fn], a)
		}
		sort.Slice(fns, func(i, j int) bool { return c.P.Name(fns[i]) < c.P.Name(fns[j]) })
		// granularity of the report for a pointee: when most of the functions that access it (controls aside) do so
		// without the mutex, the discipline is not established for this object at all — one obligation for the pointer
		// field, which lists the functions, instead of one per function (the clause decided is the same; the key then
		// survives the extraction of helpers)
		type pend struct {
			key, pos, why string
			ctl           bool
		}
		var pendBad []pend
		nFn, nCtl := 0, 0
		for _, fn := range fns {
			if c.P.IsControl(fn) {
				nCtl++
			} else {
				nFn++
			}
		}
		for _, fn := range fns {
			as := byFn[fn]
			sort.SliceStable(as, func(i, j int) bool { return c.Pos(as[i].at) < c.Pos(as[j].at) })
			what := ""
			if g.content {
				what = "the contents of "
			}
			if g.pointee {
				what = "the object behind "
			}
			key := c.KeyAt(fn, fmt.Sprintf("every access of %s%s.%s holds %s.%s", what, tname, fname, tname, mname))
			if g.pointee {
				key = c.KeyAt(fn, fmt.Sprintf("every access of %s%s.%s holds the mutex its writers hold", what, tname, fname))
			}
			c.Touch(fn)
			n++
			var bad []string
			firstBad := ""
			okWhy := map[string]bool{}
			for _, a := range as {
				need := 1
				if a.write {
					need = 2
				}
				if isFresh(a.base) {
					okWhy["the object is allocated by this function"] = true
					continue
				}
				heldAll := true
				for _, mn := range mnames {
					if held(fn, a.at, valuePathLabel(a.base)+"."+mn) < need {
						heldAll = false
					}
				}
				if heldAll {
					okWhy["the mutex of the same object is held at the access"] = true
					continue
				}
				if writer == "" {
					okWhy["no function that writes the field can run in a worker goroutine (the writers are called during set-up only)"] = true
					continue
				}
				if !inWorker[fn] {
					okWhy["this function cannot run in a worker goroutine"] = true
					continue
				}
				if !inWorkerQuery[fn] && (isTxnTerminal(c, fn) || a.pointee && terminal(fn)) {
					okWhy["transaction-terminating function: runs when no query is being evaluated (the standing assumption of R-PAR-6)"] = true
					continue
				}
				if published(g, a) {
					okWhy["the field is written once, under the mutex, before an atomic flag of the object is set, and this read is reached only after that flag was seen set"] = true
					continue
				}
				why := ""
				if root, suffix := rootOf(a.base); root != nil {
					ok, w := true, ""
					for _, mn := range mnames {
						if held(fn, a.at, valuePathLabel(a.base)+"."+mn) >= need {
							continue
						}
						if ok1, w1 := calledLocked(fn, root, suffix+"."+mn, need, 0, map[*ssa.Function]bool{}); !ok1 {
							ok, w = false, w1
							break
						}
					}
					if ok {
						okWhy["every call site of this function holds the object's mutex"] = true
						continue
					}
					why = w
				}
				if a.pointee && allocSites[g.t] == 1 {
					up := true
					for _, mn := range mnames {
						if held(fn, a.at, valuePathLabel(a.base)+"."+mn) < need && !heldUp(fn, mn, need, 0, map[*ssa.Function]bool{}) {
							up = false
						}
					}
					if up {
						okWhy["every caller of this function in the call graph holds the mutex of the (one) owner object"] = true
						continue
					}
				}
				kind := "read"
				if a.write {
					kind = "write"
				}
				d := kind + " at " + c.Pos(a.at)
				if why != "" {
					d += " (" + why + ")"
				}
				bad = append(bad, d)
				if firstBad == "" {
					firstBad = c.Pos(a.at)
				}
			}
			if len(bad) == 0 {
				var ws []string
				for w := range okWhy {
					ws = append(ws, w)
				}
				sort.Strings(ws)
				c.Ok(key, c.Pos(as[0].at), strings.Join(ws, "; "))
				continue
			}
			under := tname + "." + mname + " (e.g. at " + witness + ")"
			if g.pointee {
				under = "mutexes of " + tname + " (" + witness + ")"
			}
			if g.pointee {
				pendBad = append(pendBad, pend{key, firstBad, strings.Join(bad, "; "), c.P.IsControl(fn)})
				continue
			}
			c.Bad(key, firstBad, fmt.Sprintf("%s%s.%s is written under %s, but here it is accessed without that mutex: %s — both this function and a writer (%s) can run in worker goroutines (e.g. through a user-defined function called from a parallel query), so this access and the locked write are a data race, and a test-then-lock sequence acts on a stale answer", what, tname, fname, under, strings.Join(bad, "; "), writer))
		}
		if g.pointee {
			real := 0
			for _, pb := range pendBad {
				if !pb.ctl {
					real++
				}
			}
			aggregate := real >= 10 && real*2 > nFn
			var names []string
			for _, pb := range pendBad {
				tail := fmt.Sprintf("the object behind %s.%s is written under mutexes of %s (%s), but here it is accessed without: %s — both this function and a writer (%s) can run in worker goroutines (e.g. through a user-defined function called from a parallel query), so this access and the locked write are a data race", tname, fname, tname, witness, pb.why, writer)
				if aggregate && !pb.ctl {
					names = append(names, strings.SplitN(pb.key, ": ", 2)[0]+" ("+pb.pos+")")
					continue
				}
				c.Bad(pb.key, pb.pos, tail)
			}
			if aggregate {
				c.Bad(fmt.Sprintf("%s.%s: every access of the object behind it holds the mutex its writers hold", tname, fname), pendBad[0].pos,
					fmt.Sprintf("the object behind %s.%s is written under mutexes of %s (%s), but %d of the %d functions that access it do so without (the locking discipline is not established for this object, hence one obligation for the field): %s — these functions and a writer (%s) can run in worker goroutines (e.g. through a user-defined function called from a parallel query): data race", tname, fname, tname, witness, real, nFn, strings.Join(names, ", "), writer))
			}
		}
	}
	if n == 0 {
		c.Unknown("mutex-carrying structs", "-", "cannot-analyse: no field of a struct with a sync.Mutex field is written under that mutex anywhere in csvq")
	}
}
