package rules

import (
	"fmt"
	"go/token"
	"go/types"
	"sort"
	"strings"

	"golang.org/x/tools/go/ssa"

	"verif/checker/core"
)

// R-LKS-1 — lockset of the mutex-carrying structs.
//
// A struct type that carries a sync.Mutex / sync.RWMutex field announces that its objects are shared between
// goroutines. Which of its fields the mutex protects is read off the code: a field F of T is *guarded by* the
// mutex field M of T when some function stores into x.F (or updates / deletes from the map, or stores into an
// element of the slice, held by x.F) at a point where x.M is locked exclusively; in a struct with a single mutex
// a locked read of a field that is written after construction counts as well. For every guarded field the rule
// demands that EVERY access of y.F — by any function of csvq, loads included — happens while y.M is held (Lock
// for a write; Lock or RLock for a read), where "held" means: a Lock of the mutex of the same object (directly
// or through a lock wrapper such as (SyncMap).lock) dominates the access and is not released on the way.
// Accepted without the lock, each by a mechanical condition:
//   - accesses to an object the function itself has just allocated (constructors fill a fresh object);
//   - accesses in a function that receives the object as a parameter / receiver / captured variable and whose
//     every call site holds the object's mutex (helpers that run inside the critical section);
//   - fields none of whose writers can run in a worker goroutine, and accesses in functions that cannot run in
//     one (call-graph reachability from the operands of `go` statements and the callbacks of goroutine runners,
//     the statement interpreter included: a user-defined function called from a parallel query executes
//     statements — FETCH, OPEN, CLOSE — in the worker);
//   - the transaction-terminating functions (R-PAR-6's standing assumption: no COMMIT / ROLLBACK inside a query);
//   - reads published through an atomic flag (GoroutineTaskManager.err / hasErr): the field is written once,
//     under the mutex, before an atomic store into a flag field of the same object, and the read is reached only
//     through the success edge of a test of that flag.
// Written after the round-7 report "cursor accessors are not locked against FETCH".

func init() {
	Register(&Rule{ID: "R-LKS-1", Props: []string{"C13", "C16"}, Floor: 40,
		Doc:      "consistent locking of mutex-carrying structs: for every struct type of csvq that has a sync.Mutex / sync.RWMutex field M, every field F that some function writes (store into the field, map update / delete or element store through it) while holding x.M — or, when M is the only mutex of T, reads under it while F is written somewhere after construction — is accessed — read or written, by every function of csvq — only while the M of the same object is held (a dominating Lock, or RLock for reads, of that object's mutex, directly or through a lock wrapper, not yet released), except (each decided mechanically) in an object the function has just allocated, in helpers all of whose call sites hold the mutex, when no writer of F or not the accessing function can run in a worker goroutine (call-graph reachability from go operands and runner callbacks, through the statement interpreter too: user-defined functions called from parallel queries execute FETCH / OPEN / CLOSE in the worker), in the transaction-terminating functions, and for a read published by an atomic flag (written once under the mutex before an atomic store into a flag of the same object, read only after that flag was seen set); a bare read races with the locked writers, and a test made before the Lock acts on a stale answer",
		Controls: []string{"CtlGuardedFieldReadBare", "CtlGuardedFieldTestedBeforeLock"},
		Run:      ruleLks1})
}

type lksAccess struct {
	fn      *ssa.Function
	at      ssa.Instruction
	base    ssa.Value // the object (x in x.F)
	write   bool
	content bool // access of the map / slice held by the field, not of the field itself
}

type lksLockEv struct {
	in     ssa.Instruction
	label  string
	unlock bool
	shared bool // RLock / RUnlock
}

type lksWrapper struct {
	suffix string // path below the first parameter: ".mtx"
	unlock bool
	shared bool
}

func isMutexType(t types.Type) bool {
	if p, ok := t.(*types.Pointer); ok {
		t = p.Elem()
	}
	n, ok := t.(*types.Named)
	if !ok || n.Obj().Pkg() == nil || n.Obj().Pkg().Path() != "sync" {
		return false
	}
	return n.Obj().Name() == "Mutex" || n.Obj().Name() == "RWMutex"
}

// lksStruct returns the named struct type behind t (a T or *T) when it is declared in csvq and has mutex fields.
func lksStruct(t types.Type, cache map[*types.Named][]int) (*types.Named, *types.Struct, []int) {
	if p, ok := t.Underlying().(*types.Pointer); ok {
		t = p.Elem()
	}
	n, ok := t.(*types.Named)
	if !ok || n.Obj().Pkg() == nil || !strings.Contains(n.Obj().Pkg().Path(), "mithrandie/csvq") {
		return nil, nil, nil
	}
	st, ok := n.Underlying().(*types.Struct)
	if !ok {
		return nil, nil, nil
	}
	idx, seen := cache[n]
	if !seen {
		for i := 0; i < st.NumFields(); i++ {
			if isMutexType(st.Field(i).Type()) {
				idx = append(idx, i)
			}
		}
		cache[n] = idx
	}
	if len(idx) == 0 {
		return nil, nil, nil
	}
	return n, st, idx
}

func ruleLks1(c *Ctx) {
	lockKind := func(name string) (isLock, unlock, shared bool) {
		switch name {
		case "(*sync.Mutex).Lock", "(*sync.RWMutex).Lock":
			return true, false, false
		case "(*sync.RWMutex).RLock":
			return true, false, true
		case "(*sync.Mutex).Unlock", "(*sync.RWMutex).Unlock":
			return true, true, false
		case "(*sync.RWMutex).RUnlock":
			return true, true, true
		}
		return false, false, false
	}

	// lock wrappers: a function whose only operation on a mutex is one Lock (or one Unlock) of a mutex reached
	// from its first parameter — (SyncMap).lock / unlock; a nil test around it does not matter.
	wrappers := map[*ssa.Function]lksWrapper{}
	for _, fn := range c.P.SrcFuncs() {
		if len(fn.Params) == 0 || fn.Parent() != nil {
			continue
		}
		var ops []ssa.CallInstruction
		for _, call := range core.Calls(fn) {
			if is, _, _ := lockKind(c.P.CalleeName(call)); is {
				ops = append(ops, call)
			}
		}
		if len(ops) != 1 {
			continue
		}
		if _, isDefer := ops[0].(*ssa.Defer); isDefer {
			continue
		}
		l := valuePathLabel(ops[0].Common().Args[0])
		p0 := fn.Params[0].Name()
		if !strings.HasPrefix(l, p0+".") {
			continue
		}
		_, unlock, shared := lockKind(c.P.CalleeName(ops[0]))
		wrappers[fn] = lksWrapper{suffix: strings.TrimPrefix(l, p0), unlock: unlock, shared: shared}
	}

	events := map[*ssa.Function][]lksLockEv{}
	lockEvents := func(fn *ssa.Function) []lksLockEv {
		if evs, ok := events[fn]; ok {
			return evs
		}
		var evs []lksLockEv
		for _, call := range core.Calls(fn) {
			if _, isDefer := call.(*ssa.Defer); isDefer {
				continue // a deferred unlock releases at the exit only
			}
			if _, isGo := call.(*ssa.Go); isGo {
				continue
			}
			if is, unlock, shared := lockKind(c.P.CalleeName(call)); is {
				evs = append(evs, lksLockEv{call.(ssa.Instruction), valuePathLabel(call.Common().Args[0]), unlock, shared})
				continue
			}
			if g := call.Common().StaticCallee(); g != nil {
				if w, ok := wrappers[g]; ok && len(call.Common().Args) > 0 {
					evs = append(evs, lksLockEv{call.(ssa.Instruction), valuePathLabel(call.Common().Args[0]) + w.suffix, w.unlock, w.shared})
				}
			}
		}
		events[fn] = evs
		return evs
	}
	// held: 0 = not held, 1 = held shared (RLock), 2 = held exclusively
	held := func(fn *ssa.Function, at ssa.Instruction, label string) int {
		best := 0
		evs := lockEvents(fn)
		for _, l := range evs {
			if l.unlock || l.label != label || !core.Dominates(l.in, at) {
				continue
			}
			again := func(in ssa.Instruction) bool { return in == l.in }
			released := false
			for _, u := range evs {
				if !u.unlock || u.label != label {
					continue
				}
				if core.Reachable(l.in, u.in, again) && (u.in == at || core.Reachable(u.in, at, again)) {
					released = true
				}
			}
			if released {
				continue
			}
			if l.shared {
				if best < 1 {
					best = 1
				}
			} else {
				best = 2
			}
		}
		return best
	}

	// ---- collect the accesses of every non-mutex field of the mutex-carrying structs
	cache := map[*types.Named][]int{}
	// the slot of a field (the pointer / map / slice header / scalar stored in the struct) and the contents
	// reached through it (map entries, slice elements) are two locations: a map field that is assigned once by
	// the constructor may be loaded anywhere, its entries may not
	type fieldID struct {
		t       *types.Named
		f       int
		content bool
	}
	acc := map[fieldID][]lksAccess{}
	mutexes := map[*types.Named][]int{}
	structs := map[*types.Named]*types.Struct{}
	add := func(id fieldID, a lksAccess) {
		id.content = a.content
		acc[id] = append(acc[id], a)
	}
	contentUses := func(id fieldID, fn *ssa.Function, base ssa.Value, loaded ssa.Value) {
		refs := loaded.Referrers()
		if refs == nil {
			return
		}
		for _, u := range *refs {
			switch x := u.(type) {
			case *ssa.MapUpdate:
				if x.Map == loaded {
					add(id, lksAccess{fn, x, base, true, true})
				}
			case *ssa.Lookup:
				if x.X == loaded {
					add(id, lksAccess{fn, x, base, false, true})
				}
			case *ssa.Range:
				if x.X == loaded {
					add(id, lksAccess{fn, x, base, false, true})
				}
			case *ssa.Index:
				if x.X == loaded {
					add(id, lksAccess{fn, x, base, false, true})
				}
			case *ssa.IndexAddr:
				if x.X != loaded || x.Referrers() == nil {
					continue
				}
				for _, r := range *x.Referrers() {
					switch y := r.(type) {
					case *ssa.Store:
						if y.Addr == x {
							add(id, lksAccess{fn, y, base, true, true})
						}
					case *ssa.UnOp:
						add(id, lksAccess{fn, y, base, false, true})
					}
				}
			case ssa.CallInstruction:
				if bi, ok := x.Common().Value.(*ssa.Builtin); ok && len(x.Common().Args) > 0 && x.Common().Args[0] == loaded {
					switch bi.Name() {
					case "delete":
						add(id, lksAccess{fn, x, base, true, true})
					case "len", "cap":
						if _, isMap := loaded.Type().Underlying().(*types.Map); isMap {
							add(id, lksAccess{fn, x, base, false, true})
						}
					}
				}
			}
		}
	}
	for _, fn := range c.P.SrcFuncs() {
		for _, b := range fn.Blocks {
			for _, in := range b.Instrs {
				switch x := in.(type) {
				case *ssa.FieldAddr:
					n, st, idx := lksStruct(x.X.Type(), cache)
					if n == nil || isMutexType(st.Field(x.Field).Type()) {
						continue
					}
					mutexes[n], structs[n] = idx, st
					id := fieldID{t: n, f: x.Field}
					if x.Referrers() == nil {
						continue
					}
					for _, r := range *x.Referrers() {
						switch y := r.(type) {
						case *ssa.Store:
							if y.Addr == x {
								add(id, lksAccess{fn, y, x.X, true, false})
							} else {
								add(id, lksAccess{fn, y, x.X, false, false})
							}
						case *ssa.UnOp:
							if y.Op == token.MUL {
								add(id, lksAccess{fn, y, x.X, false, false})
								contentUses(id, fn, x.X, y)
							}
						case *ssa.DebugRef:
						default:
							if ci, ok := r.(ssa.CallInstruction); ok && isSyncSafe(c.P.CalleeName(ci)) {
								continue // sync/atomic operation on the field: synchronised by itself
							}
							// the address of the field is handed on (method with pointer receiver, &x.F)
							add(id, lksAccess{fn, r, x.X, false, false})
						}
					}
				case *ssa.Field:
					n, st, idx := lksStruct(x.X.Type(), cache)
					if n == nil || isMutexType(st.Field(x.Field).Type()) {
						continue
					}
					mutexes[n], structs[n] = idx, st
					id := fieldID{t: n, f: x.Field}
					// a struct VALUE is a copy; only the contents reached through it are shared
					contentUses(id, fn, x.X, x)
				}
			}
		}
	}

	// isFresh: the object is allocated by the function that accesses it (not yet shared)
	isFresh := func(base ssa.Value) bool {
		switch x := base.(type) {
		case *ssa.Alloc:
			return true
		case *ssa.UnOp:
			if al, ok := x.X.(*ssa.Alloc); ok && x.Op == token.MUL {
				vals, complete := core.StoresTo(al)
				if !complete || len(vals) == 0 {
					return false
				}
				for _, v := range vals {
					if _, ok := v.(*ssa.Alloc); !ok {
						return false
					}
				}
				return true
			}
		}
		return false
	}

	// ---- guarded fields: written at least once while the mutex of the same object is held exclusively
	type guardID struct {
		t       *types.Named
		f, m    int
		content bool
	}
	guarded := map[guardID]string{} // → position of one locked write (the witness)
	for id, as := range acc {
		written := false // outside constructors
		for _, a := range as {
			if a.write && !isFresh(a.base) {
				written = true
			}
		}
		for _, a := range as {
			// a locked write proves the intent; in a struct with a single mutex a locked read of a field that is
			// written after construction does too (the mutex has nothing else to protect the read from)
			if !written || (!a.write && len(mutexes[id.t]) != 1) {
				continue
			}
			for _, m := range mutexes[id.t] {
				label := valuePathLabel(a.base) + "." + structs[id.t].Field(m).Name()
				if held(a.fn, a.at, label) == 2 {
					g := guardID{id.t, id.f, m, id.content}
					if w, ok := guarded[g]; !ok || c.Pos(a.at) < w {
						guarded[g] = c.Pos(a.at)
					}
				}
			}
		}
	}

	// ---- call sites (for helpers that run inside the critical section of their callers)
	type site struct {
		caller *ssa.Function
		call   ssa.CallInstruction
	}
	sites := map[*ssa.Function][]site{}
	closureSites := map[*ssa.Function][]*ssa.MakeClosure{}
	for _, fn := range c.P.SrcFuncs() {
		for _, call := range core.Calls(fn) {
			if g := call.Common().StaticCallee(); g != nil {
				sites[g] = append(sites[g], site{fn, call})
			}
		}
		for _, b := range fn.Blocks {
			for _, in := range b.Instrs {
				if mc, ok := in.(*ssa.MakeClosure); ok {
					if g, ok := mc.Fn.(*ssa.Function); ok {
						closureSites[g] = append(closureSites[g], mc)
					}
				}
			}
		}
	}
	// rootOf: the parameter / free variable a base value is read from, and the path below it
	var rootOf func(v ssa.Value) (ssa.Value, string)
	rootOf = func(v ssa.Value) (ssa.Value, string) {
		switch x := v.(type) {
		case *ssa.Parameter, *ssa.FreeVar:
			return x, ""
		case *ssa.UnOp:
			if x.Op == token.MUL {
				if fv, ok := x.X.(*ssa.FreeVar); ok {
					return fv, ""
				}
				if al, ok := x.X.(*ssa.Alloc); ok {
					// a parameter spilled into a cell because a closure captures it
					vals, complete := core.StoresTo(al)
					if complete && len(vals) == 1 {
						if p, ok := vals[0].(*ssa.Parameter); ok {
							return p, ""
						}
					}
				}
				return rootOf(x.X)
			}
		case *ssa.FieldAddr:
			r, p := rootOf(x.X)
			if r != nil {
				return r, p + "." + core.FieldName(x)
			}
		case *ssa.Field:
			r, p := rootOf(x.X)
			if r != nil {
				return r, p + "." + core.FieldName(x)
			}
		}
		return nil, ""
	}
	var calledLocked func(fn *ssa.Function, root ssa.Value, suffix string, need int, depth int, stack map[*ssa.Function]bool) (bool, string)
	calledLocked = func(fn *ssa.Function, root ssa.Value, suffix string, need int, depth int, stack map[*ssa.Function]bool) (bool, string) {
		if depth > 5 || stack[fn] {
			return false, "call chain too deep"
		}
		stack[fn] = true
		defer delete(stack, fn)
		switch r := root.(type) {
		case *ssa.Parameter:
			pi := -1
			for i, p := range fn.Params {
				if p == r {
					pi = i
				}
			}
			dynamic := false
			for _, e := range c.P.RealCallers(fn) {
				if e.Site == nil || e.Site.Common().StaticCallee() != fn {
					dynamic = true
				}
			}
			ss := sites[fn]
			var use []site
			for _, s := range ss {
				if c.P.IsControl(s.caller) && !c.P.IsControl(fn) {
					continue
				}
				use = append(use, s)
			}
			if pi < 0 || len(use) == 0 {
				return false, c.P.Name(fn) + " has no static call site"
			}
			if dynamic {
				return false, c.P.Name(fn) + " is also called dynamically"
			}
			for _, s := range use {
				if _, isGo := s.call.(*ssa.Go); isGo {
					return false, "started as a goroutine at " + c.Pos(s.call)
				}
				if _, isDefer := s.call.(*ssa.Defer); isDefer {
					return false, "deferred at " + c.Pos(s.call)
				}
				args := s.call.Common().Args
				if pi >= len(args) {
					return false, "argument not found at " + c.Pos(s.call)
				}
				label := valuePathLabel(args[pi]) + suffix
				if held(s.caller, s.call.(ssa.Instruction), label) >= need {
					continue
				}
				if r2, p2 := rootOf(args[pi]); r2 != nil {
					if ok, _ := calledLocked(s.caller, r2, p2+suffix, need, depth+1, stack); ok {
						continue
					}
				}
				return false, "called from " + c.P.Name(s.caller) + " at " + c.Pos(s.call) + " without the mutex"
			}
			return true, ""
		case *ssa.FreeVar:
			fi := -1
			for i, fv := range fn.FreeVars {
				if fv == r {
					fi = i
				}
			}
			mcs := closureSites[fn]
			if fi < 0 || len(mcs) != 1 || fn.Parent() == nil {
				return false, "closure created at several places"
			}
			mc := mcs[0]
			parent := fn.Parent()
			// the closure must be used only as an argument of ordinary calls made while the mutex is held (it is
			// then run, if at all, by the callee before the call returns — for the callees csvq uses: Range-like
			// iterators), or called directly
			if mc.Referrers() == nil {
				return false, "closure value escapes"
			}
			bound := mc.Bindings[fi]
			label := valuePathLabel(bound) + suffix
			if u, ok := bound.(*ssa.Alloc); ok {
				label = u.Comment + suffix
			}
			for _, ref := range *mc.Referrers() {
				call, ok := ref.(*ssa.Call)
				if !ok {
					return false, "closure value is stored or started as a goroutine at " + c.Pos(ref)
				}
				if held(parent, call, label) >= need {
					continue
				}
				var r2 ssa.Value
				var p2 string
				if al, ok := bound.(*ssa.Alloc); ok {
					vals, complete := core.StoresTo(al)
					if complete && len(vals) == 1 {
						r2, p2 = rootOf(vals[0])
					}
				} else {
					r2, p2 = rootOf(bound)
				}
				if r2 != nil {
					if ok, _ := calledLocked(parent, r2, p2+suffix, need, depth+1, stack); ok {
						continue
					}
				}
				return false, "the closure is used at " + c.Pos(call) + " without the mutex"
			}
			return true, ""
		}
		return false, ""
	}

	// ---- which functions can run in a worker goroutine: everything reachable (call graph, the statement
	// interpreter included — a user-defined function called from a parallel query executes statements) from the
	// operand of a `go` statement or from a callback handed to a goroutine runner
	inWorker := map[*ssa.Function]bool{}
	inWorkerQuery := map[*ssa.Function]bool{} // … without passing through the statement interpreter
	var roots []*ssa.Function
	for _, fn := range c.P.SrcFuncs() {
		for _, call := range core.Calls(fn) {
			g, isGo := call.(*ssa.Go)
			if !isGo {
				continue
			}
			if f := g.Common().StaticCallee(); f != nil {
				roots = append(roots, f)
			} else {
				roots = append(roots, c.P.Callees(g)...)
			}
		}
	}
	for _, fam := range parAnalysis(c.P).families {
		for _, r := range fam.regions {
			roots = append(roots, r.fn)
		}
	}
	for _, r := range roots {
		for f := range c.P.ReachSet(r) {
			inWorker[f] = true
		}
		for f, path := range staticReach(r) {
			through := false
			for _, pf := range path {
				if c.P.Name(pf) == "lib/query.(*Processor).ExecuteStatement" {
					through = true
				}
			}
			if !through {
				inWorkerQuery[f] = true
			}
		}
	}
	if len(roots) == 0 {
		c.Unknown("concurrent regions", "-", "cannot-analyse: no go statement / goroutine runner found in csvq")
		return
	}
	// a guarded field matters when one of its writers (outside constructors) can run in a worker
	writerInWorker := func(id fieldID) string {
		w := ""
		for _, a := range acc[id] {
			if a.write && !isFresh(a.base) && inWorker[a.fn] {
				if n := c.P.Name(a.fn); w == "" || n < w {
					w = n
				}
			}
		}
		return w
	}

	// ---- publication through an atomic flag: every write of the field happens at most once per object (under
	// the mutex, dominated by a test that the field is still nil) and is followed, inside the critical section,
	// by an atomic store into a flag field X of the same object; a read that is reached only after an atomic
	// load of X was seen non-zero happens after that write and no later write exists.
	isAtomicStore := func(n string) bool {
		return strings.HasPrefix(n, "sync/atomic.Store") || strings.HasPrefix(n, "sync/atomic.Add") || strings.HasPrefix(n, "sync/atomic.CompareAndSwap") ||
			(strings.HasPrefix(n, "(*sync/atomic.") && (strings.HasSuffix(n, ").Store") || strings.HasSuffix(n, ").Add") || strings.HasSuffix(n, ").CompareAndSwap")))
	}
	isAtomicLoad := func(n string) bool {
		return strings.HasPrefix(n, "sync/atomic.Load") || (strings.HasPrefix(n, "(*sync/atomic.") && strings.HasSuffix(n, ").Load"))
	}
	pubFlags := func(g guardID) map[string]bool {
		var out map[string]bool
		mname := structs[g.t].Field(g.m).Name()
		for _, a := range acc[fieldID{g.t, g.f, g.content}] {
			if !a.write || isFresh(a.base) {
				continue
			}
			here := map[string]bool{}
			st, isStore := a.at.(*ssa.Store)
			if !a.content && isStore && held(a.fn, a.at, valuePathLabel(a.base)+"."+mname) == 2 {
				// written only when still nil
				once := false
				for _, b := range a.fn.Blocks {
					for _, in := range b.Instrs {
						if u, ok := in.(*ssa.UnOp); ok && u.Op == token.MUL && core.SameAddr(u.X, st.Addr) && core.NilAt(u, a.at) {
							once = true
						}
					}
				}
				if once {
					for _, call := range core.Calls(a.fn) {
						if !isAtomicStore(c.P.CalleeName(call)) || len(call.Common().Args) == 0 {
							continue
						}
						fa, ok := call.Common().Args[0].(*ssa.FieldAddr)
						if !ok || valuePathLabel(fa.X) != valuePathLabel(a.base) {
							continue
						}
						in := call.(ssa.Instruction)
						if core.Dominates(a.at, in) && held(a.fn, in, valuePathLabel(a.base)+"."+mname) == 2 {
							here[core.FieldName(fa)] = true
						}
					}
				}
			}
			if out == nil {
				out = here
			} else {
				for k := range out {
					if !here[k] {
						delete(out, k)
					}
				}
			}
		}
		return out
	}
	// flagTester: fn returns whether an atomic load of field X of its first parameter is non-zero / true
	flagTester := func(fn *ssa.Function) string {
		if fn == nil || len(fn.Params) == 0 || fn.Blocks == nil {
			return ""
		}
		rets := core.Returns(fn)
		if len(rets) != 1 || len(rets[0].Results) != 1 {
			return ""
		}
		v := rets[0].Results[0]
		if bo, ok := v.(*ssa.BinOp); ok && bo.Op == token.NEQ {
			if _, isConst := bo.Y.(*ssa.Const); isConst {
				v = bo.X
			}
		}
		call, ok := v.(*ssa.Call)
		if !ok || !isAtomicLoad(c.P.CalleeName(call)) || len(call.Common().Args) == 0 {
			return ""
		}
		fa, ok := call.Common().Args[0].(*ssa.FieldAddr)
		if !ok || fa.X != ssa.Value(fn.Params[0]) {
			return ""
		}
		return core.FieldName(fa)
	}
	// seenFlag: `at` is reached only through the success edge of a test of flag X of the object `obj`
	seenFlag := func(fn *ssa.Function, at ssa.Instruction, obj ssa.Value, flags map[string]bool) bool {
		for _, b := range fn.Blocks {
			iff, ok := b.Instrs[len(b.Instrs)-1].(*ssa.If)
			if !ok {
				continue
			}
			cond, succ := iff.Cond, 0
			if u, ok := cond.(*ssa.UnOp); ok && u.Op == token.NOT {
				cond, succ = u.X, 1
			}
			flag := ""
			if bo, ok := cond.(*ssa.BinOp); ok && bo.Op == token.NEQ {
				if _, isConst := bo.Y.(*ssa.Const); isConst {
					cond = bo.X
				}
			}
			if call, ok := cond.(*ssa.Call); ok && len(call.Common().Args) > 0 {
				if isAtomicLoad(c.P.CalleeName(call)) {
					if fa, ok := call.Common().Args[0].(*ssa.FieldAddr); ok && valuePathLabel(fa.X) == valuePathLabel(obj) {
						flag = core.FieldName(fa)
					}
				} else if x := flagTester(call.Common().StaticCallee()); x != "" && valuePathLabel(call.Common().Args[0]) == valuePathLabel(obj) {
					flag = x
				}
			}
			if flag == "" || !flags[flag] {
				continue
			}
			tb := b.Succs[succ]
			if len(tb.Preds) == 1 && (tb == at.Block() || tb.Dominates(at.Block())) {
				return true
			}
		}
		return false
	}
	published := func(g guardID, a lksAccess) bool {
		if a.write {
			return false
		}
		flags := pubFlags(g)
		if len(flags) == 0 {
			return false
		}
		if seenFlag(a.fn, a.at, a.base, flags) {
			return true
		}
		root, suffix := rootOf(a.base)
		p, ok := root.(*ssa.Parameter)
		if !ok || suffix != "" {
			return false
		}
		pi := -1
		for i, q := range a.fn.Params {
			if q == p {
				pi = i
			}
		}
		for _, e := range c.P.RealCallers(a.fn) {
			if e.Site == nil || e.Site.Common().StaticCallee() != a.fn {
				return false
			}
		}
		k := 0
		for _, s := range sites[a.fn] {
			if c.P.IsControl(s.caller) && !c.P.IsControl(a.fn) {
				continue
			}
			k++
			args := s.call.Common().Args
			if _, isCall := s.call.(*ssa.Call); !isCall || pi < 0 || pi >= len(args) || !seenFlag(s.caller, s.call.(ssa.Instruction), args[pi], flags) {
				return false
			}
		}
		return k > 0
	}

	// ---- obligations
	var gs []guardID
	for g := range guarded {
		gs = append(gs, g)
	}
	name := func(t *types.Named) string { return core.NamedOf(t) }
	sort.Slice(gs, func(i, j int) bool {
		a, b := gs[i], gs[j]
		if name(a.t) != name(b.t) {
			return name(a.t) < name(b.t)
		}
		if a.f != b.f {
			return a.f < b.f
		}
		if a.m != b.m {
			return a.m < b.m
		}
		return !a.content && b.content
	})
	n := 0
	for _, g := range gs {
		st := structs[g.t]
		fname, mname := st.Field(g.f).Name(), st.Field(g.m).Name()
		tname := strings.TrimPrefix(name(g.t), "lib/")
		writer := writerInWorker(fieldID{g.t, g.f, g.content})
		// group the accesses by function
		byFn := map[*ssa.Function][]lksAccess{}
		var fns []*ssa.Function
		for _, a := range acc[fieldID{g.t, g.f, g.content}] {
			if _, ok := byFn[a.fn]; !ok {
				fns = append(fns, a.fn)
			}
			byFn[a.fn] = append(byFn[a.fn], a)
		}
		sort.Slice(fns, func(i, j int) bool { return c.P.Name(fns[i]) < c.P.Name(fns[j]) })
		for _, fn := range fns {
			as := byFn[fn]
			sort.SliceStable(as, func(i, j int) bool { return c.Pos(as[i].at) < c.Pos(as[j].at) })
			what := ""
			if g.content {
				what = "the contents of "
			}
			key := c.KeyAt(fn, fmt.Sprintf("every access of %s%s.%s holds %s.%s", what, tname, fname, tname, mname))
			c.Touch(fn)
			n++
			var bad []string
			firstBad := ""
			okWhy := map[string]bool{}
			for _, a := range as {
				need := 1
				if a.write {
					need = 2
				}
				if isFresh(a.base) {
					okWhy["the object is allocated by this function"] = true
					continue
				}
				label := valuePathLabel(a.base) + "." + mname
				if held(fn, a.at, label) >= need {
					okWhy["the mutex of the same object is held at the access"] = true
					continue
				}
				if writer == "" {
					okWhy["no function that writes the field can run in a worker goroutine (the writers are called during set-up only)"] = true
					continue
				}
				if !inWorker[fn] {
					okWhy["this function cannot run in a worker goroutine"] = true
					continue
				}
				if !inWorkerQuery[fn] && isTxnTerminal(c, fn) {
					okWhy["transaction-terminating function: runs when no query is being evaluated (the standing assumption of R-PAR-6)"] = true
					continue
				}
				if published(g, a) {
					okWhy["the field is written once, under the mutex, before an atomic flag of the object is set, and this read is reached only after that flag was seen set"] = true
					continue
				}
				why := ""
				if root, suffix := rootOf(a.base); root != nil {
					ok, w := calledLocked(fn, root, suffix+"."+mname, need, 0, map[*ssa.Function]bool{})
					if ok {
						okWhy["every call site of this function holds the object's mutex"] = true
						continue
					}
					why = w
				}
				kind := "read"
				if a.write {
					kind = "write"
				}
				d := kind + " at " + c.Pos(a.at)
				if why != "" {
					d += " (" + why + ")"
				}
				bad = append(bad, d)
				if firstBad == "" {
					firstBad = c.Pos(a.at)
				}
			}
			if len(bad) == 0 {
				var ws []string
				for w := range okWhy {
					ws = append(ws, w)
				}
				sort.Strings(ws)
				c.Ok(key, c.Pos(as[0].at), strings.Join(ws, "; "))
				continue
			}
			c.Bad(key, firstBad, fmt.Sprintf("%s%s.%s is written under %s.%s (e.g. at %s), but here it is accessed without that mutex: %s — both this function and a writer (%s) can run in worker goroutines (e.g. through a user-defined function called from a parallel query), so this access and the locked write are a data race, and a test-then-lock sequence acts on a stale answer", what, tname, fname, tname, mname, guarded[g], strings.Join(bad, "; "), writer))
		}
	}
	if n == 0 {
		c.Unknown("mutex-carrying structs", "-", "cannot-analyse: no field of a struct with a sync.Mutex field is written under that mutex anywhere in csvq")
	}
}
