package rules

import (
	"fmt"
	"go/token"
	"sort"
	"strings"

	"golang.org/x/tools/go/ssa"

	"verif/checker/core"
)

// R-IMP-1 — what steers the reading of a table file is either handed back to the
// writer or makes the table read-only.
//
// A table file is rewritten, at COMMIT, from the view alone: EncodeView gets the
// view and FileInfo.ExportOptions, nothing else. So every attribute of the FileInfo
// that a loader consults while it turns the bytes of the file into the view (the
// delimiter, the column positions, the encoding, the header convention — and the
// JSON query, which selects the PART of the document that becomes the view) has to
// come back on the way out, or the file that is written is not the file that was
// read with the change applied. Two ways are sound:
//
//   (a) FileInfo.ExportOptions reads the field (R-FMT-2 decides that what it reads
//       reaches the encoder), or
//   (b) the guard that makes a table updatable, (*View).IsUpdatable (with the FileInfo
//       methods it asks), tests the field — and then every statement executor whose FileInfo result is marked as
//       updated (UncommittedViews.SetForUpdatedView) has a branch on that guard that
//       ends in an error return, in its own body or in a helper whose error it
//       returns. (b) is demanded only when some field relies on it.
//
// Path is exempt: it names the file (the loaders take the view's name and their
// messages from it) and is where the encoder's output goes.

const (
	impFileInfoT  = "lib/query.FileInfo"
	impGuard      = "lib/query.(*View).IsUpdatable"
	impMarkUpdate = "lib/query.(*UncommittedViews).SetForUpdatedView"
)

var impExempt = map[string]string{
	"Path": "the file's name: the loaders take the view's name and their messages from it; the encoder's output goes to that very file",
}

func init() {
	Register(&Rule{ID: "R-IMP-1", Props: []string{"C02"}, Floor: 5,
		Doc:      "what steers the reading of a table file comes back on the way out: every field of FileInfo that a loader dispatched by loadViewFromFile reads (in the loader, its closures, the lib/query helpers and FileInfo methods it hands the FileInfo to) is either read by (*FileInfo).ExportOptions (fed back to the encoder that rewrites the file) or read by the updatability guard (*View).IsUpdatable (in the FileInfo methods and helpers it hands the FileInfo to) — a parameter that selects a part of the file (the JSON query) and is neither written back nor refused makes COMMIT replace the document by the selected part. When a field relies on the guard, every lib/query function whose *FileInfo / []*FileInfo result is handed to UncommittedViews.SetForUpdatedView (the statement executors) branches on the guard — a call of IsUpdatable or of a bool function that returns it — with one arm that ends in error returns only, in its own body or in a helper whose error it returns the same way. Path is exempt (identity of the file). Decides that the field is looked at, not which values are refused",
		Controls: []string{"ctlImpLoadA: FileInfo.JsonQuery", "CtlImpExecBForgetsGuard"},
		Run:      ruleImp1})
}

// impReads: fields of FileInfo read in fns -> position of one read (the first in function / block order).
func impReads(c *Ctx, fns []*ssa.Function) map[string]string {
	out := map[string]string{}
	note := func(name string, in ssa.Instruction) {
		if name == "" {
			return
		}
		if _, has := out[name]; !has {
			out[name] = c.Pos(in)
		}
	}
	for _, in := range fx15Instrs(fns) {
		switch x := in.(type) {
		case *ssa.Field:
			if core.NamedOf(x.X.Type()) == impFileInfoT {
				note(core.FieldName(x), in)
			}
		case *ssa.FieldAddr:
			if core.NamedOf(x.X.Type()) != impFileInfoT || x.Referrers() == nil {
				continue
			}
			for _, r := range *x.Referrers() {
				if st, isStore := r.(*ssa.Store); isStore && st.Addr == ssa.Value(x) {
					continue
				}
				note(core.FieldName(x), in)
			}
		}
	}
	return out
}

// impCondCalls: the calls a branch condition is computed from (through !, ==/!= with a
// constant, φ of the short-circuit operators).
func impCondCalls(v ssa.Value) []*ssa.Call {
	var out []*ssa.Call
	seen := map[ssa.Value]bool{}
	var walk func(v ssa.Value)
	walk = func(v ssa.Value) {
		if v == nil || seen[v] {
			return
		}
		seen[v] = true
		switch x := v.(type) {
		case *ssa.Phi:
			for _, e := range x.Edges {
				walk(e)
			}
		case *ssa.UnOp:
			if x.Op == token.NOT {
				walk(x.X)
				return
			}
			if al, ok := x.X.(*ssa.Alloc); ok && x.Op == token.MUL {
				// a local (possibly captured) variable: the stores that may be the latest at this load
				for _, s := range core.ReachingStores(al, x) {
					walk(s)
				}
				return
			}
			for _, o := range core.Origins(v, false) {
				if o != v {
					walk(o)
				}
			}
		case *ssa.BinOp:
			if x.Op == token.EQL || x.Op == token.NEQ {
				walk(x.X)
				walk(x.Y)
			}
		case *ssa.Call:
			out = append(out, x)
		case *ssa.Extract:
			if call, ok := x.Tuple.(*ssa.Call); ok {
				out = append(out, call)
			}
		case *ssa.ChangeInterface, *ssa.MakeInterface, *ssa.ChangeType:
			for _, o := range core.Origins(v, false) {
				if o != v {
					walk(o)
				}
			}
		}
	}
	walk(v)
	return out
}

// impMayBeNil: the value may be the nil constant (a nil entry stands for the zero value of a
// result cell). Loads of local cells are resolved by the stores that reach the load, so that
// `return nil, err` under a deferred closure is not mistaken for the `err = nil` of another return.
func impMayBeNil(v ssa.Value, seen map[ssa.Value]bool) bool {
	if v == nil {
		return true
	}
	if seen[v] {
		return false
	}
	seen[v] = true
	switch x := v.(type) {
	case *ssa.Phi:
		for _, e := range x.Edges {
			if impMayBeNil(e, seen) {
				return true
			}
		}
		return false
	case *ssa.UnOp:
		if al, ok := x.X.(*ssa.Alloc); ok && x.Op == token.MUL {
			for _, s := range core.ReachingStores(al, x) {
				if impMayBeNil(s, seen) {
					return true
				}
			}
			return false
		}
	case *ssa.MakeInterface, *ssa.ChangeInterface, *ssa.ChangeType:
		for _, o := range core.Origins(v, false) {
			if o != v && impMayBeNil(o, seen) {
				return true
			}
		}
		return false
	}
	return core.IsNilConst(v)
}

// impOnlyErrorReturns: every return reachable from start (at least one) returns a non-nil error.
func impOnlyErrorReturns(fn *ssa.Function, start *ssa.BasicBlock) bool {
	idx := core.ErrorResultIndex(fn)
	if idx < 0 {
		return false
	}
	seen := map[*ssa.BasicBlock]bool{}
	work := []*ssa.BasicBlock{start}
	found := false
	for len(work) > 0 {
		b := work[len(work)-1]
		work = work[:len(work)-1]
		if seen[b] {
			continue
		}
		seen[b] = true
		if len(b.Instrs) > 0 {
			if r, ok := b.Instrs[len(b.Instrs)-1].(*ssa.Return); ok {
				vals := core.ReturnOperand(r, idx)
				if len(vals) == 0 {
					return false
				}
				for _, v := range vals {
					if impMayBeNil(v, map[ssa.Value]bool{}) {
						return false
					}
				}
				found = true
			}
		}
		work = append(work, b.Succs...)
	}
	return found
}

// impGuardBools: the guard and the lib/query (control package) bool functions that return it.
func impGuardBools(c *Ctx, guard *ssa.Function) map[*ssa.Function]bool {
	g := map[*ssa.Function]bool{guard: true}
	cands := c.P.FuncsIn(true, "lib/query")
	for changed := true; changed; {
		changed = false
		for _, f := range cands {
			if g[f] || f.Signature.Results().Len() != 1 || f.Signature.Results().At(0).Type().String() != "bool" {
				continue
			}
			for _, v := range core.ReturnedValues(f, 0) {
				if call, ok := v.(*ssa.Call); ok {
					if h := core.StaticCallee(call); h != nil && g[h] {
						g[f] = true
						changed = true
					}
				}
			}
		}
	}
	return g
}

// impTestsGuard: fn (or a closure of it) branches on the guard with an arm that ends in error
// returns only; or it calls a lib/query helper that does and returns that helper's error the same way.
func impTestsGuard(c *Ctx, fn *ssa.Function, guards map[*ssa.Function]bool, depth int, seen map[*ssa.Function]bool) (bool, string) {
	if fn == nil || fn.Blocks == nil || seen[fn] {
		return false, ""
	}
	seen[fn] = true
	for _, f := range fxWithClosures(fn) {
		for _, b := range f.Blocks {
			if len(b.Instrs) == 0 {
				continue
			}
			br, ok := b.Instrs[len(b.Instrs)-1].(*ssa.If)
			if !ok {
				continue
			}
			for _, call := range impCondCalls(br.Cond) {
				h := core.StaticCallee(call)
				if h == nil {
					continue
				}
				hit := guards[h]
				if !hit && depth > 0 && h.Blocks != nil && c.P.InPkg(h, "lib/query", core.ControlPkg) && core.ErrorResultIndex(h) >= 0 {
					hit, _ = impTestsGuard(c, h, guards, depth-1, seen)
				}
				if !hit {
					continue
				}
				for _, s := range b.Succs {
					if impOnlyErrorReturns(f, s) {
						return true, c.Pos(br)
					}
				}
			}
		}
	}
	return false, ""
}

// impExecutorsBehind: the lib/query functions whose result the value is (through φ, local
// cells, the elements of a returned slice).
func impExecutorsBehind(c *Ctx, v ssa.Value) (fns []*ssa.Function, unresolved string) {
	seen := map[ssa.Value]bool{}
	var walk func(v ssa.Value, depth int)
	walk = func(v ssa.Value, depth int) {
		if v == nil || seen[v] {
			return
		}
		seen[v] = true
		for _, o := range core.Origins(v, true) {
			if par, ok := o.(*ssa.Parameter); ok && depth > 0 && par.Parent() != nil {
				// a helper that is handed the FileInfo(s): the arguments of its static callers
				idx := -1
				for i, q := range par.Parent().Params {
					if q == par {
						idx = i
					}
				}
				edges := c.P.RealCallers(par.Parent())
				if idx >= 0 && len(edges) > 0 {
					okAll := true
					for _, e := range edges {
						if e.Site == nil || core.StaticCallee(e.Site) != par.Parent() || idx >= len(e.Site.Common().Args) {
							okAll = false
							break
						}
					}
					if okAll {
						for _, e := range edges {
							walk(e.Site.Common().Args[idx], depth-1)
						}
						continue
					}
				}
			}
			if call, _, ok := core.ExtractOf(o); ok {
				if h := core.StaticCallee(call); h != nil && h.Blocks != nil && c.P.InPkg(h, "lib/query", core.ControlPkg) {
					fns = append(fns, h)
					continue
				}
				unresolved = valueLabel(o)
				continue
			}
			if u, ok := o.(*ssa.UnOp); ok && u.Op == token.MUL {
				if ia, ok := u.X.(*ssa.IndexAddr); ok {
					walk(ia.X, depth)
					continue
				}
			}
			if ix, ok := o.(*ssa.Index); ok {
				walk(ix.X, depth)
				continue
			}
			unresolved = valueLabel(o)
		}
	}
	walk(v, 3)
	return
}

func ruleImp1(c *Ctx) {
	check := func(load, export, guard *ssa.Function, execs []*ssa.Function, execsKnown bool) {
		loaders := fx15Closure(c, []*ssa.Function{load}, impFileInfoT)
		for _, f := range loaders {
			c.Touch(f)
		}
		reads := impReads(c, loaders)
		exportReads := impReads(c, fx15Closure(c, []*ssa.Function{export}, impFileInfoT))
		guardReads := impReads(c, fx15Closure(c, []*ssa.Function{guard}, impFileInfoT))
		var fields []string
		for f := range reads {
			fields = append(fields, f)
		}
		sort.Strings(fields)
		if len(fields) == 0 {
			c.Unknown(c.KeyAt(load, "FileInfo fields read by the loaders"), c.FnPos(load), "cannot-analyse: the loaders dispatched by "+c.P.Name(load)+" read no field of the FileInfo they are handed")
			return
		}
		var relies []string
		for _, f := range fields {
			key := c.KeyAt(load, "FileInfo."+f+" (read by the loaders) is fed back to the writer or tested by the updatability guard")
			switch {
			case exportReads[f] != "":
				c.Ok(key, reads[f], "read by "+c.P.Name(export)+" ("+exportReads[f]+"): the writer gets it back")
			case guardReads[f] != "":
				relies = append(relies, f)
				c.Ok(key, reads[f], "tested by the guard "+c.P.Name(guard)+" ("+guardReads[f]+")")
			case impExempt[f] != "":
				c.Ok(key, reads[f], "exempt: "+impExempt[f])
			default:
				c.Bad(key, reads[f], fmt.Sprintf("a loader reads FileInfo.%s while it turns the file into the view, but %s does not read it (the encoder that rewrites the file at COMMIT never sees it) and the guard %s does not test it either: a table read under this parameter is updatable and is written back without it — for a parameter that selects a part of the file (the JSON query) the rest of the file is dropped", f, c.P.Name(export), c.P.Name(guard)))
			}
		}
		if len(relies) == 0 {
			return
		}
		if !execsKnown {
			return
		}
		if len(execs) == 0 {
			c.Unknown(c.KeyAt(guard, "statement executors that mark a file as updated"), c.FnPos(guard), "cannot-analyse: FileInfo."+strings.Join(relies, ", ")+" relies on the guard, but no lib/query function was found whose FileInfo result is handed to "+impMarkUpdate)
			return
		}
		guards := impGuardBools(c, guard)
		for _, e := range execs {
			c.Touch(e)
			key := c.KeyAt(e, "refuses a table that "+c.P.Name(guard)+" does not accept")
			ok, pos := impTestsGuard(c, e, guards, 2, map[*ssa.Function]bool{})
			if ok {
				c.Ok(key, pos, "branches on the guard; one arm ends in error returns only")
			} else {
				c.Bad(key, c.FnPos(e), fmt.Sprintf("the FileInfo this function returns is marked as updated (%s) and rewritten at COMMIT, and FileInfo.%s is kept out of the writer only by the guard %s — but the function has no branch on the guard (nor on a bool function returning it, nor on the error of a helper that has one) with an arm that ends in error returns only: a table the guard refuses is changed and written back all the same", impMarkUpdate, strings.Join(relies, ", "), c.P.Name(guard)))
			}
		}
	}

	load, export, guard := c.Fn(fxLoadFromFile), c.Fn(fxExportOptions), c.Fn(impGuard)
	if load != nil && export != nil && guard != nil {
		// the executors: by provenance of the argument of SetForUpdatedView
		var execs []*ssa.Function
		seen := map[*ssa.Function]bool{}
		sites := 0
		for _, fn := range c.P.SrcFuncs() {
			if c.P.IsControl(fn) {
				continue
			}
			for _, call := range c.P.CallsNamed(fn, impMarkUpdate) {
				args := call.Common().Args
				if len(args) < 2 {
					continue
				}
				sites++
				c.Sites++
				fns, unresolved := impExecutorsBehind(c, args[len(args)-1])
				if unresolved != "" || len(fns) == 0 {
					c.Unknown(c.KeyAt(fn, "origin of the FileInfo marked as updated"), c.Pos(call), "cannot-analyse: the argument of "+impMarkUpdate+" is not the result of a lib/query function ("+unresolved+")")
					continue
				}
				for _, f := range fns {
					if !seen[f] {
						seen[f] = true
						execs = append(execs, f)
					}
				}
			}
		}
		sortFuncs(c.P, execs)
		if sites == 0 {
			c.Unknown("anchor:"+impMarkUpdate, "-", "cannot-analyse: no call of "+impMarkUpdate+" in the current tree")
		}
		check(load, export, guard, execs, true)
	}

	// control groups of the overlay package: ctlImpLoad<X> / ctlImpExport<X> / …ImpGuard<X> / …ImpExec<X>…
	byName := map[string]*ssa.Function{}
	var loads []*ssa.Function
	var all []*ssa.Function
	for _, f := range fxCtlFuncs(c) {
		if !c.P.IsControl(f) || f.Parent() != nil {
			continue
		}
		byName[f.Name()] = f
		all = append(all, f)
		if strings.HasPrefix(f.Name(), "ctlImpLoad") {
			loads = append(loads, f)
		}
	}
	sortFuncs(c.P, loads)
	sortFuncs(c.P, all)
	for _, l := range loads {
		x := strings.TrimPrefix(l.Name(), "ctlImpLoad")
		e, g := byName["ctlImpExport"+x], byName["ctlImpGuard"+x]
		if e == nil || g == nil {
			continue
		}
		var execs []*ssa.Function
		for _, f := range all {
			if strings.Contains(f.Name(), "ImpExec"+x) {
				execs = append(execs, f)
			}
		}
		check(l, e, g, execs, len(execs) > 0)
	}
}
