package rules

// R-ISO-8 "a statement that was applied returns no error" (C08).
//
// R-ISO-5 decides publish-last inside the ten statement functions: once Insert,
// Update, … have published the new table nothing in them can fail. The caller
// has the same duty one level up: the statement function returns to the arm of
// (*Processor).ExecuteStatement that runs it, the arm registers the table as
// uncommitted and reports the count — and whatever the arm does after the
// statement function came back WITHOUT an error must not become the error of the
// statement, because by then the table holds the new content ("the statement
// failed, yet the following statements see its rows and COMMIT writes them").
//
// Decided, for every function of the module (and of the control package) that
// calls a statement function — directly, or through a wrapper with an error
// result that calls one (helper extraction, immediately invoked closure), the
// dispatcher ExecuteStatement being the place where the lifting stops because it
// runs one statement per call —: for every return that can execute after the
// call, every value its error result can have on such an execution (read edge-
// sensitively through Phi and result cells, R-ISO-5's engine) is
//   * nil, or
//   * the error result of that very call (nil when the statement was applied), or
//   * a value chosen where a dominating branch / the travelled edge says that the
//     call's error is non-nil (the error handling of a statement that failed:
//     CREATE TABLE IF NOT EXISTS, wrapped errors), or
//   * that very error handed through a function which yields nil when it is
//     given nil for it (evaluated under "this parameter is nil", core.NilArgEval).
// Anything else — a write error of the result message, a cancellation test, a
// defensive consistency check — is reported. No exemption.
//
// Not vacuous: every frozen statement function must be run by the dispatcher
// through a checked call chain (one obligation per statement function).

import (
	"fmt"
	"sort"
	"strings"

	"golang.org/x/tools/go/ssa"

	"verif/checker/core"
)

const iso8Dispatcher = "lib/query.(*Processor).ExecuteStatement"

func init() {
	Register(&Rule{ID: "R-ISO-8", Props: []string{"C08"}, Floor: 20,
		Doc:      "a statement that was applied returns no error: in every function that calls one of the ten data-changing statement functions (Insert, Update, Replace, Delete, CreateTable, AddColumns, DropColumns, RenameColumn, SetTableAttribute, DeclareView) — directly or through a wrapper with an error result that calls one; the lifting stops at (*Processor).ExecuteStatement, which runs one statement per call — every value the function's error result can have at a return that is reachable after the call is nil, the error result of that very call, or a value chosen under a dominating / edge fact that the call's error is non-nil. Values are read edge-sensitively through Phi and result cells; no exemption (a result message that cannot be written, a cancellation noticed after the call, a consistency check on the counts must not fail a statement whose table is already published and registered). Every statement function must be run by the dispatcher through such a checked chain",
		Controls: []string{"CtlAppliedThenReportFails", "CtlAppliedThenCancelled", "CtlAppliedWrapperThenFails", "CtlAppliedFinisherFails"},
		Run:      ruleIso8})
}

// iso8NilInNilOut: called with nil for param, every return of fn that can execute
// yields nil for result #ridx (the parameter itself counts as nil). Branches the
// hypothesis decides are pruned (core.NilArgEval).
func iso8NilInNilOut(fn *ssa.Function, param *ssa.Parameter, ridx int) bool {
	ev := core.NewNilArgEval(fn, param)
	for _, r := range core.Returns(fn) {
		if !ev.Reachable(r.Block()) {
			continue
		}
		for _, v := range core.ReturnOperand(r, ridx) {
			if v == nil {
				continue
			}
			for _, l := range ev.Leaves(v) {
				if ci, ok := l.(*ssa.ChangeInterface); ok {
					l = ci.X
				}
				if l == ssa.Value(param) {
					continue
				}
				if core.ClassifyNil(l, r) != core.IsNil {
					return false
				}
			}
		}
	}
	return true
}

func ruleIso8(c *Ctx) {
	p := c.P
	disp := c.Fn(iso8Dispatcher)

	// members: the statement functions and the wrappers that hand their error on
	base := map[*ssa.Function]map[string]bool{} // member -> statement functions it runs
	frozen := map[*ssa.Function]bool{}
	for _, n := range iso5Statements {
		if f := c.Fn(n); f != nil {
			frozen[f] = true
			base[f] = map[string]bool{n: true}
		}
	}
	funcs := append([]*ssa.Function(nil), p.SrcFuncs()...)
	sortFuncs(p, funcs)
	memberCallees := func(call ssa.CallInstruction) []*ssa.Function {
		var out []*ssa.Function
		for _, g := range p.Callees(call) {
			if base[g] != nil {
				out = append(out, g)
			}
		}
		return out
	}
	for changed := true; changed; {
		changed = false
		for _, fn := range funcs {
			if frozen[fn] || fn == disp || core.ErrorResultIndex(fn) < 0 {
				continue
			}
			for _, call := range core.Calls(fn) {
				for _, g := range memberCallees(call) {
					if g == fn {
						continue
					}
					if base[fn] == nil {
						base[fn] = map[string]bool{}
					}
					for n := range base[g] {
						if !base[fn][n] {
							base[fn][n] = true
							changed = true
						}
					}
				}
			}
		}
	}

	covered := map[string]bool{}
	for _, fn := range funcs {
		if frozen[fn] {
			continue // the inside of a statement function is R-ISO-5's
		}
		eidx := core.ErrorResultIndex(fn)
		seenName := map[string]int{}
		for _, call := range core.Calls(fn) {
			ms := memberCallees(call)
			if len(ms) == 0 {
				continue
			}
			if len(ms) == 1 && ms[0] == fn {
				continue
			}
			c.Sites++
			c.Touch(fn)
			var names []string
			for _, g := range ms {
				names = append(names, g.Name())
				if fn == disp {
					for b := range base[g] {
						covered[b] = true
					}
				}
			}
			sort.Strings(names)
			label := strings.Join(names, "/")
			seenName[label]++
			key := c.KeyAt(fn, "after "+label+" has returned")
			if k := seenName[label]; k > 1 {
				key = c.KeyAt(fn, fmt.Sprintf("after %s has returned (call #%d)", label, k))
			}
			in := call.(ssa.Instruction)
			cv, isCall := call.(*ssa.Call)
			if !isCall {
				c.Unknown(key, c.Pos(in), "a statement function is started with go / defer: whether it was applied when the function returns is not modelled")
				continue
			}
			if eidx < 0 {
				c.Ok(key, c.Pos(in), "the calling function has no error result: it cannot report a failure after the statement was applied")
				continue
			}
			// the error result(s) of this call
			own := map[ssa.Value]bool{}
			if res := cv.Call.Signature().Results(); res.Len() == 1 {
				if core.IsErrorType(res.At(0).Type()) {
					own[cv] = true
				}
			} else if res.Len() > 1 && core.IsErrorType(res.At(res.Len()-1).Type()) {
				for _, r := range *cv.Referrers() {
					if ex, ok := r.(*ssa.Extract); ok && ex.Index == res.Len()-1 {
						own[ex] = true
					}
				}
			}
			var isOwnD func(v ssa.Value, depth int) bool
			isOwn := func(v ssa.Value) bool { return isOwnD(v, 0) }
			isOwnD = func(v ssa.Value, depth int) bool {
				if own[v] {
					return true
				}
				if depth > 4 {
					return false
				}
				// the call's error handed through a function that yields nil for a nil error
				// (a wrapper of the message, an arm-finishing helper that takes the error)
				cl, ridx, ok := core.ExtractOf(v)
				if !ok {
					return false
				}
				f := core.StaticCallee(cl)
				if f == nil || f.Blocks == nil || len(f.Params) != len(cl.Call.Args) || ridx != core.ErrorResultIndex(f) {
					return false
				}
				handed := false
				for i, a := range cl.Call.Args {
					if ci, ok := a.(*ssa.ChangeInterface); ok {
						a = ci.X
					}
					if !isOwnD(a, depth+1) {
						continue
					}
					if !iso8NilInNilOut(f, f.Params[i], ridx) {
						return false
					}
					handed = true
				}
				return handed
			}
			// was the value chosen where the statement is known to have failed?
			ownNonNilAt := func(at ssa.Instruction) bool {
				if at == nil {
					return false
				}
				for o := range own {
					if core.NonNilAt(o, at) {
						return true
					}
				}
				return false
			}
			ownNonNilOnEdge := func(from, to *ssa.BasicBlock) bool {
				if from == nil {
					return false
				}
				for _, f := range core.EdgeFacts(from, to) {
					if x, neq, ok := core.NilCmp(f.Cond); ok && own[x] && neq != f.Neg {
						return true
					}
				}
				return false
			}
			actx := newAfterCtx(in)
			var bad []string
			nret, nown, nfail := 0, 0, 0
			for _, r := range core.Returns(fn) {
				if !actx.after(r) {
					continue
				}
				nret++
				for _, l := range actx.leaves(r.Results[eidx], r) {
					if l.v != nil && l.all(isOwn) {
						nown++
						continue
					}
					k := classifyLeaf(l)
					if k == core.IsNil {
						continue
					}
					if ownNonNilAt(l.at) || ownNonNilOnEdge(l.from, l.to) {
						nfail++
						continue
					}
					if def, ok := l.v.(ssa.Instruction); ok && def.Block() != nil && def.Parent() == fn && ownNonNilAt(def) {
						nfail++
						continue
					}
					what := "a non-nil error"
					if k == core.MaybeNil {
						what = "a possibly non-nil error"
					}
					if l.all(func(v ssa.Value) bool { return isConvertCtxErr(p, v) }) {
						what = "the cancellation error"
					}
					bad = append(bad, fmt.Sprintf("return at %s yields %s (%s)", c.Pos(r), what, valueLabel(l.v)))
				}
			}
			if len(bad) > 0 {
				c.Bad(key, c.Pos(in), "after the statement function has returned without an error the caller can still fail: "+strings.Join(dedup(bad), "; ")+" — the statement reports an error although its table is already published: the following statements see the change and COMMIT writes it")
			} else {
				c.Ok(key, c.Pos(in), fmt.Sprintf("%d return(s) reachable after the call; the error result is nil, the call's own error (%d value(s)) or chosen where the call's error is non-nil (%d value(s))", nret, nown, nfail))
			}
		}
	}

	if disp != nil {
		for _, n := range iso5Statements {
			key := c.KeyAt(disp, "runs "+strings.TrimPrefix(n, "lib/query."))
			if covered[n] {
				c.Ok(key, c.FnPos(disp), "called from the dispatcher directly or through a checked wrapper")
			} else {
				c.Unknown(key, c.FnPos(disp), "the dispatcher reaches "+n+" through no call chain this rule follows (direct call or wrapper with an error result): what happens after the statement was applied cannot be decided")
			}
		}
	}
}
