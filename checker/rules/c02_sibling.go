package rules

import (
	"fmt"
	"go/constant"
	"go/token"
	"go/types"
	"sort"
	"strings"

	"golang.org/x/tools/go/ssa"

	"verif/checker/core"
)

// R-FMT-15 — the dialect a file is rewritten with is the dialect it was found in,
// for every format (sibling agreement of the loaders, driven by the encoders).
//
// R-FMT-3 is source-driven: a loader that creates a detection source (a go-text
// reader with DetectedLineBreak, DetectInSpecifiedEncoding, …) must record it. A
// loader that never looks has no obligation there, although the encoder of the
// same format writes the file back with that very field of the FileInfo (through
// FileInfo.ExportOptions, R-FMT-2) — the field then still holds the session
// default, and an UPDATE turns a CRLF file into an LF file. This rule is
// sink-driven and reads both dispatch tables:
//
//   D      = the dialect fields of FileInfo that at least one loader dispatched
//            by loadViewFromFile stores into the FileInfo it is given (what csvq
//            detects at all);
//   enc(K) = the ExportOptions fields the encoder EncodeView selects for format K
//            reads (followed into closures and the lib/query helpers it hands
//            its options to);
//   clause : for every loadable format K and every F in D whose ExportOptions
//            counterpart is in enc(K), the loader selected for K (or the arm of
//            the dispatcher that selects it) stores FileInfo.F — directly, in a
//            closure, or in a lib/query helper / method it hands the FileInfo to.
//
// Nothing is demanded about where or in which order the store happens, nor about
// what is stored (R-FMT-3 / R-FMT-8 decide the value and its guard).

func init() {
	Register(&Rule{ID: "R-FMT-15", Props: []string{"C02"}, Floor: 13,
		Doc:      "sibling agreement of the loaders, driven by the encoders: for every loadable format K, every dialect field of FileInfo that some loader dispatched by loadViewFromFile records (Encoding, LineBreak, Delimiter, EncloseAll, JsonEscape today) and whose ExportOptions counterpart the encoder selected by EncodeView for K reads is stored by the loader selected for K (in the loader, its closures, the lib/query helpers and FileInfo methods it hands the FileInfo to, or the dispatcher's arm for K) — a format whose loader does not look at a field its encoder writes the file back with rewrites the file with the session default (a CRLF .jsonl becomes LF on UPDATE)",
		Controls: []string{"CtlDialectLtsvLoaderForgetsLineBreak"},
		Run:      ruleFmt15})
}

// fx15Callees: the static lib/query (or control package) callees, with a parameter of
// the named type, of the calls in the given blocks.
func fx15Callees(c *Ctx, fn *ssa.Function, blocks map[*ssa.BasicBlock]bool, paramType string) []*ssa.Function {
	var out []*ssa.Function
	seen := map[*ssa.Function]bool{}
	for _, b := range fn.Blocks {
		if !blocks[b] {
			continue
		}
		for _, in := range b.Instrs {
			ci, ok := in.(ssa.CallInstruction)
			if !ok {
				continue
			}
			f := core.StaticCallee(ci)
			if f == nil || f.Blocks == nil || f == fn || seen[f] || !c.P.InPkg(f, "lib/query", core.ControlPkg) || fxParamOfType(f, paramType) == nil {
				continue
			}
			seen[f] = true
			out = append(out, f)
		}
	}
	return out
}

// fx15Closure: fn, its anonymous functions and, transitively, the lib/query (control
// package) functions with a parameter of the named type they call statically.
func fx15Closure(c *Ctx, roots []*ssa.Function, paramType string) []*ssa.Function {
	var out []*ssa.Function
	seen := map[*ssa.Function]bool{}
	var add func(f *ssa.Function)
	add = func(f *ssa.Function) {
		if f == nil || f.Blocks == nil || seen[f] {
			return
		}
		seen[f] = true
		out = append(out, f)
		for _, a := range f.AnonFuncs {
			add(a)
		}
		for _, ci := range core.Calls(f) {
			g := core.StaticCallee(ci)
			if g == nil || g.Blocks == nil || !c.P.InPkg(g, "lib/query", core.ControlPkg) || fxParamOfType(g, paramType) == nil {
				continue
			}
			add(g)
		}
	}
	for _, r := range roots {
		add(r)
	}
	return out
}

// fx15FreshBase: the struct a FieldAddr addresses is one this function allocated itself
// (a local copy / a new FileInfo), not the one it was handed.
func fx15FreshBase(fa *ssa.FieldAddr) bool {
	for _, o := range core.Origins(fa.X, false) {
		if _, isAlloc := o.(*ssa.Alloc); !isAlloc {
			return false
		}
	}
	return true
}

// fx15Stores: names of the fields of the named struct type stored in the given instructions.
func fx15StoresIn(instrs []ssa.Instruction, structType string, into map[string]string, c *Ctx) {
	for _, in := range instrs {
		st, ok := in.(*ssa.Store)
		if !ok {
			continue
		}
		fa, ok := st.Addr.(*ssa.FieldAddr)
		if !ok || core.NamedOf(fa.X.Type()) != structType || fx15FreshBase(fa) {
			continue
		}
		if n := core.FieldName(fa); n != "" {
			if _, has := into[n]; !has {
				into[n] = c.Pos(in)
			}
		}
	}
}

func fx15Instrs(fns []*ssa.Function) []ssa.Instruction {
	var out []ssa.Instruction
	for _, f := range fns {
		for _, b := range f.Blocks {
			out = append(out, b.Instrs...)
		}
	}
	return out
}

// fx15Reads: names of the fields of the named struct type read in fns (Field of a value,
// or a FieldAddr that is used otherwise than as the target of a store).
func fx15Reads(fns []*ssa.Function, structType string) map[string]bool {
	out := map[string]bool{}
	for _, in := range fx15Instrs(fns) {
		switch x := in.(type) {
		case *ssa.Field:
			if core.NamedOf(x.X.Type()) == structType {
				out[core.FieldName(x)] = true
			}
		case *ssa.FieldAddr:
			if core.NamedOf(x.X.Type()) != structType || x.Referrers() == nil {
				continue
			}
			for _, r := range *x.Referrers() {
				if st, isStore := r.(*ssa.Store); isStore && st.Addr == ssa.Value(x) {
					continue
				}
				out[core.FieldName(x)] = true
			}
		}
	}
	return out
}

type fx15Side struct {
	fns    map[string][]*ssa.Function // format name -> selected functions
	blocks map[string]map[*ssa.BasicBlock]bool
}

func fx15Dispatch(c *Ctx, fn *ssa.Function, consts []*types.Const, paramType string) *fx15Side {
	key := fxFormatKeyOf(fn)
	if key == nil {
		return nil
	}
	s := &fx15Side{fns: map[string][]*ssa.Function{}, blocks: map[string]map[*ssa.BasicBlock]bool{}}
	for _, k := range consts {
		bl := fxBlocksFor(fn, key, k.Val())
		s.blocks[k.Name()] = bl
		s.fns[k.Name()] = fx15Callees(c, fn, bl, paramType)
	}
	return s
}

func ruleFmt15(c *Ctx) {
	ft := c.P.Type("lib/option", "Format")
	if ft == nil {
		c.Unknown("anchor:lib/option.Format", "-", "cannot-analyse: type lib/option.Format not found")
		return
	}
	var consts []*types.Const
	for _, k := range core.EnumConsts(ft) {
		if constant.Sign(k.Val()) >= 0 {
			consts = append(consts, k)
		}
	}
	const fileInfoT, optionsT = "lib/query.FileInfo", "lib/option.ExportOptions"
	names := func(fns []*ssa.Function) string {
		var s []string
		for _, f := range fns {
			s = append(s, c.P.Name(f))
		}
		sort.Strings(s)
		return strings.Join(s, " + ")
	}

	check := func(load, encode *ssa.Function, formats map[string]bool) {
		c.Touch(load)
		c.Touch(encode)
		L := fx15Dispatch(c, load, consts, fileInfoT)
		E := fx15Dispatch(c, encode, consts, optionsT)
		if L == nil || E == nil {
			c.Unknown(c.KeyAt(load, "loader / encoder dispatch on option.Format"), c.FnPos(load), "cannot-analyse: "+c.P.Name(load)+" or "+c.P.Name(encode)+" compares no option.Format value with the format constants")
			return
		}
		// what the loader of K records: its own stores (closures, helpers handed the
		// FileInfo) and the stores of the dispatcher on the blocks executable for K
		stored := map[string]map[string]string{}
		detected := map[string]bool{}
		for _, k := range consts {
			if formats != nil && !formats[k.Name()] {
				continue
			}
			m := map[string]string{}
			cl := fx15Closure(c, L.fns[k.Name()], fileInfoT)
			for _, f := range cl {
				c.Touch(f)
			}
			fx15StoresIn(fx15Instrs(cl), fileInfoT, m, c)
			var own []ssa.Instruction
			for _, b := range load.Blocks {
				if L.blocks[k.Name()][b] {
					own = append(own, b.Instrs...)
				}
			}
			fx15StoresIn(own, fileInfoT, m, c)
			stored[k.Name()] = m
			if len(L.fns[k.Name()]) == 0 {
				continue
			}
			for f := range m {
				detected[f] = true
			}
		}
		type obKey struct{ loaders, field, encoders string }
		type ob struct {
			formats []string
			ok      bool
			pos     string
			where   string
		}
		obs := map[obKey]*ob{}
		var order []obKey
		for _, k := range consts {
			if formats != nil && !formats[k.Name()] {
				continue
			}
			lf, ef := L.fns[k.Name()], E.fns[k.Name()]
			if len(lf) == 0 || len(ef) == 0 {
				if formats != nil {
					c.Unknown(c.KeyAt(load, "format "+k.Name()+": loader and encoder selected"), c.FnPos(load), fmt.Sprintf("cannot-analyse: for Format == %s the dispatch of %s selects %d lib/query function(s) taking a *FileInfo and that of %s %d taking ExportOptions", k.Name(), c.P.Name(load), len(lf), c.P.Name(encode), len(ef)))
				}
				continue
			}
			ecl := fx15Closure(c, ef, optionsT)
			for _, f := range ecl {
				c.Touch(f)
			}
			reads := fx15Reads(ecl, optionsT)
			for _, d := range fxDialect {
				if !detected[d.In] || !reads[d.Out] {
					continue
				}
				ok := obKey{names(lf), d.In, names(ef)}
				o := obs[ok]
				if o == nil {
					o = &ob{ok: true, pos: c.FnPos(lf[0])}
					obs[ok] = o
					order = append(order, ok)
				}
				o.formats = append(o.formats, k.Name())
				if pos, has := stored[k.Name()][d.In]; has {
					o.where = pos
				} else {
					o.ok = false
				}
			}
		}
		sort.Slice(order, func(i, j int) bool {
			a, b := order[i], order[j]
			if a.loaders != b.loaders {
				return a.loaders < b.loaders
			}
			return a.field < b.field
		})
		var det []string
		for f := range detected {
			det = append(det, f)
		}
		sort.Strings(det)
		for _, k := range order {
			o := obs[k]
			key := fmt.Sprintf("%s: records FileInfo.%s, which %s writes the file back with", k.loaders, k.field, k.encoders)
			fm := strings.Join(o.formats, ", ")
			if o.ok {
				c.OkN(key, o.where, fmt.Sprintf("format %s: the loader stores FileInfo.%s (the encoder reads the corresponding option)", fm, k.field), len(o.formats))
			} else {
				c.Bad(key, o.pos, fmt.Sprintf("format %s: %s reads the %s of its options, which FileInfo.ExportOptions fills from FileInfo.%s, and the loaders of other formats record that field (%s are recorded at load) — but neither %s, nor a closure, helper or FileInfo method it hands the FileInfo to, nor the dispatcher's arm stores FileInfo.%s: the field keeps the session default, and a %s file whose %s differs from it is rewritten with the default on UPDATE / COMMIT (the updated file does not keep its dialect)", fm, k.encoders, fxOutName(k.field), k.field, strings.Join(det, ", "), k.loaders, k.field, fm, k.field))
			}
		}
	}

	load, encode := c.Fn(fxLoadFromFile), c.Fn(fxEncodeView)
	if load != nil && encode != nil {
		formats := map[string]bool{}
		for _, f := range fxImportFormats {
			formats[f] = true
		}
		check(load, encode, formats)
	}
	// control pairs of the overlay package: ctlDialectLoad<X> / ctlDialectEncode<X>
	var ctlLoads []*ssa.Function
	byName := map[string]*ssa.Function{}
	for _, f := range fxCtlFuncs(c) {
		byName[f.Name()] = f
		if strings.HasPrefix(f.Name(), "ctlDialectLoad") {
			ctlLoads = append(ctlLoads, f)
		}
	}
	sortFuncs(c.P, ctlLoads)
	for _, l := range ctlLoads {
		if e := byName["ctlDialectEncode"+strings.TrimPrefix(l.Name(), "ctlDialectLoad")]; e != nil {
			check(l, e, nil)
		}
	}
}

func fxOutName(in string) string {
	for _, d := range fxDialect {
		if d.In == in {
			return d.Out
		}
	}
	return in
}

var _ = token.NoPos
