package rules

import (
	"fmt"
	"go/types"
	"sort"
	"strings"

	"golang.org/x/tools/go/ssa"

	"verif/checker/core"
)

// R-LOCK-12 — a busy table is waited for, never failed.
//
// The wait loop of lib/file goes round again only for one kind of error: the
// dynamic type it tests the creator's error against (`err.(*LockError)`).
// Whether the exclusive create of a control file failed because somebody else
// holds the table cannot be found out afterwards — the holder of a transient
// lock file removes it within microseconds, so a probe of the file system after
// the failed create races with it. The only sound answer to a failed create is
// therefore the retryable kind, whatever a later probe would say.

func init() {
	Register(&Rule{ID: "R-LOCK-12", Props: []string{"C09"}, Floor: 4,
		Doc:      "a failed create is answered with the retryable error kind: for every retry site of lib/file (a call inside a loop that can create a control file and yields a *ControlFile, whose error is tested by a comma-ok type assertion / type switch — directly or in a lib/file helper that receives it — the asserted type T being the kind the loop retries on), in every lib/file function reachable from that call, for every call that can create / open a file into an *os.File: on every path from the failure edge of that call to a return, the set of dynamic types of the returned error (type-set engine, through constructors and helpers, before deferred wrappers) is exactly {T} — or the value is T merged with the error of a release: the result of a lib/file error combiner (a function that hands on its parameter #i unchanged whenever its other error parameters are nil, e.g. NewCompositeError) whose argument #i satisfies the clause and whose other error arguments are nil or results of calls that reach ControlFile.Close / CloseWithErrors / go-file Close — not nil, not the raw error of the create, not a second kind chosen by a later probe of the file system",
		Controls: []string{"ctlTryCreateClassifiedByProbe", "ctlTryCreateMergedWithProbe"},
		Run:      ruleLock12})
}

type retrySite struct {
	fn   *ssa.Function
	call ssa.CallInstruction
	typ  types.Type
}

// retryKinds: the comma-ok type assertions applied to value ev in fn, or — one
// level of helper extraction — in a lib/file function that receives ev.
func retryKinds(p *core.Prog, fn *ssa.Function, ev ssa.Value, depth int) []types.Type {
	var out []types.Type
	for _, b := range fn.Blocks {
		for _, in := range b.Instrs {
			switch x := in.(type) {
			case *ssa.TypeAssert:
				if x.CommaOk && !types.IsInterface(x.AssertedType) && (x.X == ev || hasOrigin(x.X, ev)) {
					out = append(out, x.AssertedType)
				}
			case *ssa.Call:
				f := core.StaticCallee(x)
				if f == nil || f.Blocks == nil || depth >= 1 || !(p.InPkg(f, "lib/file") || p.IsControl(f)) {
					continue
				}
				for i, a := range x.Call.Args {
					if i < len(f.Params) && (a == ev || hasOrigin(a, ev)) {
						out = append(out, retryKinds(p, f, f.Params[i], depth+1)...)
					}
				}
			}
		}
	}
	return out
}

func findRetrySites(c *Ctx) []retrySite {
	p := c.P
	var out []retrySite
	fns := p.FuncsIn(true, "lib/file")
	sortFuncs(p, fns)
	for _, fn := range fns {
		if fn.Blocks == nil {
			continue
		}
		loops := core.NaturalLoops(fn)
		if len(loops) == 0 {
			continue
		}
		for _, k := range core.Calls(fn) {
			if _, ok := k.(*ssa.Call); !ok || core.InnermostLoop(loops, k.Block()) == nil || !acquires(p, k) {
				continue
			}
			r := resultOf(k, 0)
			ev := errValueOf(k)
			if r == nil || ev == nil || core.NamedOf(r.Type()) != "lib/file.ControlFile" {
				continue
			}
			seen := map[string]bool{}
			for _, t := range retryKinds(p, fn, ev, 0) {
				if !seen[core.TypeKey(t)] {
					seen[core.TypeKey(t)] = true
					out = append(out, retrySite{fn, k, t})
				}
			}
		}
	}
	return out
}

// creatorsBelow: the lib/file (and control) functions reachable from the call
// through static calls inside those packages.
func creatorsBelow(p *core.Prog, k ssa.CallInstruction) []*ssa.Function {
	seen := map[*ssa.Function]bool{}
	var out []*ssa.Function
	var work []*ssa.Function
	push := func(f *ssa.Function) {
		if f != nil && f.Blocks != nil && !seen[f] && (p.InPkg(f, "lib/file") || p.IsControl(f)) {
			seen[f] = true
			out = append(out, f)
			work = append(work, f)
		}
	}
	for _, f := range p.Callees(k) {
		push(f)
	}
	for len(work) > 0 {
		f := work[len(work)-1]
		work = work[:len(work)-1]
		for _, kk := range core.Calls(f) {
			for _, g := range p.Callees(kk) {
				push(g)
			}
		}
	}
	sortFuncs(p, out)
	return out
}

func ruleLock12(c *Ctx) {
	p := c.P
	sites := findRetrySites(c)
	real := 0
	for _, s := range sites {
		if !p.IsControl(s.fn) {
			real++
		}
	}
	if real == 0 {
		c.Unknown("anchor:retry site", "-", "cannot-analyse: no loop of lib/file tests the error of a control-file creator against a concrete error type: the kind of error the wait loop retries on cannot be identified")
		return
	}
	ts := core.NewTypeSets(p)
	done := map[string]bool{}
	mergers := map[*ssa.Function]map[int]bool{}
	for _, s := range sites {
		c.Touch(s.fn)
		want := core.TypeKey(s.typ)
		short := want[strings.LastIndex(want, "/")+1:]
		if strings.HasPrefix(want, "*") {
			short = "*" + short
		}
		kc12 := &kindCheck{c: c, ts: ts, want: want, mergers: mergers}
		for _, g := range creatorsBelow(p, s.call) {
			if core.ErrorResultIndex(g) < 0 {
				continue
			}
			cnt := map[string]int{}
			for _, kc := range core.Calls(g) {
				if _, ok := kc.(*ssa.Call); !ok || !acquires(p, kc) {
					continue
				}
				r := resultOf(kc, 0)
				if r == nil || !isOsFilePtr(r.Type()) || errValueOf(kc) == nil {
					continue
				}
				lbl := acqLabel(c, kc)
				cnt[lbl]++
				if cnt[lbl] > 1 {
					lbl += " " + ordinal(cnt[lbl])
				}
				key := c.KeyAt(g, fmt.Sprintf("a failure of %s is answered with the retryable kind %s", lbl, short))
				if done[key] {
					continue
				}
				done[key] = true
				c.Sites++
				c.Touch(g)
				idx := core.ErrorResultIndex(g)
				var bad []string
				n := 0
				for _, ret := range returnsWithout(g, kc, nil, successEdgeOf(kc)) {
					if g.Recover != nil && ret.Block() == g.Recover {
						continue
					}
					n++
					vals := returnOperandDeep(ret, idx)
					if len(vals) == 0 {
						bad = append(bad, fmt.Sprintf("%s: the returned error cannot be read", c.Pos(ret)))
						continue
					}
					for _, v := range vals {
						if v == nil {
							bad = append(bad, fmt.Sprintf("%s: the returned error cannot be read", c.Pos(ret)))
							continue
						}
						if ok, desc := kc12.ok(v, 0); !ok {
							bad = append(bad, fmt.Sprintf("%s returns %s", c.Pos(ret), desc))
						}
					}
				}
				sort.Strings(bad)
				switch {
				case n == 0:
					c.Unknown(key, c.Pos(kc), "no return is reachable from the failure edge of the creating call")
				case len(bad) > 0:
					c.Bad(key, c.Pos(kc), fmt.Sprintf("after %s has failed, %s — the wait loop in %s goes round again only for %s: a table that is merely busy (the file that made the exclusive create fail may be gone a microsecond later, so no probe after the failure can tell) is reported as an error at once instead of being waited for until the lock timeout", lbl, strings.Join(bad, "; "), p.Name(s.fn), short))
				default:
					c.Ok(key, c.Pos(kc), fmt.Sprintf("%d return(s) on the failure paths, each with an error of dynamic type exactly %s (the kind %s retries on)", n, short, p.Name(s.fn)))
				}
			}
		}
	}
}

// kindCheck decides whether a returned error is of the retryable kind.
type kindCheck struct {
	c       *Ctx
	ts      *core.TypeSets
	want    string
	mergers map[*ssa.Function]map[int]bool
}

// errMerger: f hands on its error parameter #i unchanged whenever its other
// error parameters are nil: every return either yields parameter #i itself or
// sits where parameter #i is known nil or another error parameter is known
// non-nil (NewCompositeError: err2 == nil → err1).
func (kc *kindCheck) errMerger(f *ssa.Function, i int) bool {
	if f == nil || f.Blocks == nil || i >= len(f.Params) || !core.IsErrorType(f.Params[i].Type()) {
		return false
	}
	if m, ok := kc.mergers[f]; ok {
		if v, ok := m[i]; ok {
			return v
		}
	} else {
		kc.mergers[f] = map[int]bool{}
	}
	idx := core.ErrorResultIndex(f)
	res := idx >= 0 && (kc.c.P.InPkg(f, "lib/file") || kc.c.P.IsControl(f))
	par := f.Params[i]
	if res {
		for _, r := range realReturns(f) {
			if core.NilAt(par, r) {
				continue
			}
			otherSet := false
			for j, q := range f.Params {
				if j != i && core.IsErrorType(q.Type()) && core.NonNilAt(q, r) {
					otherSet = true
				}
			}
			if otherSet {
				continue
			}
			vals := core.ReturnOperand(r, idx)
			if len(vals) == 0 {
				res = false
			}
			for _, v := range vals {
				if v == nil || !stripsTo(v, par) {
					res = false
				}
			}
		}
	}
	kc.mergers[f][i] = res
	return res
}

// releaseError: a is nil or the error of a call that releases a resource.
func (kc *kindCheck) releaseError(a ssa.Value) bool {
	os := core.Origins(a, false)
	if len(os) == 0 {
		return false
	}
	for _, o := range os {
		if core.IsNilConst(o) {
			continue
		}
		call, ok := o.(*ssa.Call)
		if !ok || !callReachesNamed(kc.c.P, call, releaseFns...) {
			return false
		}
	}
	return true
}

func (kc *kindCheck) ok(v ssa.Value, depth int) (bool, string) {
	set := kc.ts.Final(v, nil)
	keys := set.Keys()
	if !set.Top && len(keys) == 1 && keys[0] == kc.want {
		return true, ""
	}
	desc := "an error of dynamic type {" + strings.Join(keys, ", ")
	if set.Top {
		desc += " or an unknown type (" + set.TopWhy + ")"
	}
	desc += "}"
	if depth > 4 {
		return false, desc
	}
	if os := core.Origins(v, false); len(os) > 1 || (len(os) == 1 && os[0] != v) {
		for _, o := range os {
			if ok, d := kc.ok(o, depth+1); !ok {
				return false, d
			}
		}
		return true, ""
	}
	call, isCall := v.(*ssa.Call)
	if !isCall {
		return false, desc
	}
	f := core.StaticCallee(call)
	if f == nil || call.Call.IsInvoke() {
		return false, desc
	}
	for i, a := range call.Call.Args {
		if !core.IsErrorType(a.Type()) || !kc.errMerger(f, i) {
			continue
		}
		if ok, _ := kc.ok(a, depth+1); !ok {
			continue
		}
		others := true
		for j, b := range call.Call.Args {
			if j != i && core.IsErrorType(b.Type()) && !kc.releaseError(b) {
				others = false
			}
		}
		if others {
			return true, ""
		}
	}
	return false, desc
}
