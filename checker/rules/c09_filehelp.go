package rules

import (
	"fmt"
	"go/constant"
	"go/token"
	"go/types"
	"sort"
	"strings"

	"golang.org/x/tools/go/ssa"

	"verif/checker/core"
)

// Helpers shared by the lock-file / handler protocol rules (C09, C10, C11).
// Everything is resolved through types, SSA and the call graph: functions by
// package+receiver+name, struct fields by owner type + field name, constants
// by their declared name.

const (
	goFile = "github.com/mithrandie/go-file/v2"

	fnGoCreate   = goFile + ".Create"
	fnGoClose    = goFile + ".Close"
	fnOsRemove   = "os.Remove"
	fnOsRemoveAl = "os.RemoveAll"
	fnOsRename   = "os.Rename"

	fldHPath   = "lib/file.Handler.path"
	fldHFp     = "lib/file.Handler.fp"
	fldHType   = "lib/file.Handler.openType"
	fldHRLock  = "lib/file.Handler.rlockFile"
	fldHLock   = "lib/file.Handler.lockFile"
	fldHTemp   = "lib/file.Handler.tempFile"
	fldHClosed = "lib/file.Handler.closed"
	fldCPath   = "lib/file.ControlFile.path"
	fldCFp     = "lib/file.ControlFile.fp"
)

// ---------------------------------------------------------------------------
// constants, fields

// enumConst resolves a declared integer constant such as ("lib/file","ForUpdate").
func enumConst(c *Ctx, short, name string) (int64, bool) {
	pk := c.P.ByPath[short]
	if pk == nil {
		return 0, false
	}
	o, ok := pk.Types.Scope().Lookup(name).(*types.Const)
	if !ok || o.Val().Kind() != constant.Int {
		return 0, false
	}
	v, exact := constant.Int64Val(o.Val())
	return v, exact
}

// mustEnum is enumConst that records an unresolved anchor.
func mustEnum(c *Ctx, short, name string) (int64, bool) {
	v, ok := enumConst(c, short, name)
	if !ok {
		c.Unknown("anchor:"+short+"."+name, "-", "cannot-analyse: constant "+short+"."+name+" is not declared in the current tree")
	}
	return v, ok
}

// fieldChain describes a value loaded through a chain of struct fields, from
// the root outwards: h.tempFile.path → [Handler.tempFile, ControlFile.path].
// The root (parameter, allocation, call …) is returned too. Empty when v is not
// a field load.
func fieldChain(v ssa.Value) (chain []string, root ssa.Value) {
	for {
		u, ok := v.(*ssa.UnOp)
		if !ok || u.Op != token.MUL {
			return chain, v
		}
		fa, ok := u.X.(*ssa.FieldAddr)
		if !ok {
			return chain, v
		}
		chain = append([]string{core.FieldOwner(fa)}, chain...)
		v = fa.X
	}
}

func lastField(v ssa.Value) string {
	ch, _ := fieldChain(v)
	if len(ch) == 0 {
		return ""
	}
	return ch[len(ch)-1]
}

func chainIs(v ssa.Value, want ...string) bool {
	ch, _ := fieldChain(v)
	if len(ch) != len(want) {
		return false
	}
	for i := range ch {
		if ch[i] != want[i] {
			return false
		}
	}
	return true
}

// chainEndsWith: the last len(want) steps of the chain are want.
func chainEndsWith(v ssa.Value, want ...string) bool {
	ch, _ := fieldChain(v)
	if len(ch) < len(want) {
		return false
	}
	ch = ch[len(ch)-len(want):]
	for i := range ch {
		if ch[i] != want[i] {
			return false
		}
	}
	return true
}

// pathRole classifies a path string by the field it was loaded from.
type pathRole int

const (
	roleUnknown pathRole = iota
	roleData             // Handler.path: the table file
	roleControl          // ControlFile.path: .lock / .rlock / .temp
)

func (r pathRole) String() string {
	switch r {
	case roleData:
		return "the handler's data path"
	case roleControl:
		return "a control-file path"
	}
	return "a path of unknown role"
}

func roleOfPath(v ssa.Value) pathRole {
	switch lastField(v) {
	case fldHPath:
		return roleData
	case fldCPath:
		return roleControl
	}
	return roleUnknown
}

// ---------------------------------------------------------------------------
// calls

func calleeIn(p *core.Prog, c ssa.CallInstruction, names ...string) bool {
	n := p.CalleeName(c)
	if n == "" {
		return false
	}
	for _, x := range names {
		if n == x {
			return true
		}
	}
	return false
}

func callReachesNamed(p *core.Prog, c ssa.CallInstruction, names ...string) bool {
	if calleeIn(p, c, names...) {
		return true
	}
	return callReachesSet(p, c, reachers(p, strings.Join(names, "|"), p.NameIs(names...)))
}

var reachersMemo = map[string]map[*ssa.Function]bool{}
var reachersProg = map[string]*core.Prog{}

// reachers computes (once per key) the set of functions from which a function
// satisfying pred is reachable in the call graph — the same relation as
// Prog.ReachSet (closures count as callable from the function that creates
// them), evaluated backwards so that it costs one traversal per target set.
func reachers(p *core.Prog, key string, pred func(*ssa.Function) bool) map[*ssa.Function]bool {
	key = p.Repo + "|" + p.GOOS + "|" + key
	if m, ok := reachersMemo[key]; ok && reachersProg[key] == p {
		return m
	}
	reachersProg[key] = p
	cg := p.CG()
	set := map[*ssa.Function]bool{}
	var work []*ssa.Function
	push := func(f *ssa.Function) {
		if f != nil && !set[f] {
			set[f] = true
			work = append(work, f)
		}
	}
	for f := range cg.Nodes {
		if f != nil && pred(f) {
			push(f)
		}
	}
	for len(work) > 0 {
		f := work[len(work)-1]
		work = work[:len(work)-1]
		if n := cg.Nodes[f]; n != nil {
			for _, e := range n.In {
				push(e.Caller.Func)
			}
		}
		push(f.Parent())
	}
	reachersMemo[key] = set
	return set
}

// callReachesSet mirrors Prog.CallReaches for a precomputed reacher set.
func callReachesSet(p *core.Prog, c ssa.CallInstruction, set map[*ssa.Function]bool) bool {
	for _, f := range p.Callees(c) {
		if set[f] {
			return true
		}
	}
	for _, a := range c.Common().Args {
		if mc, ok := a.(*ssa.MakeClosure); ok {
			if f, ok := mc.Fn.(*ssa.Function); ok && set[f] {
				return true
			}
		}
	}
	return false
}

// callArgs returns receiver + arguments of a call.
func callArgs(c ssa.CallInstruction) []ssa.Value {
	com := c.Common()
	if com.IsInvoke() {
		return append([]ssa.Value{com.Value}, com.Args...)
	}
	return com.Args
}

// errValueOf returns the SSA value that carries the error result of a call
// (the call itself for single-result calls, else the Extract of the last
// result), or nil.
func errValueOf(call ssa.CallInstruction) ssa.Value {
	v := call.Value()
	if v == nil {
		return nil
	}
	sig := call.Common().Signature()
	n := sig.Results().Len()
	if n == 0 || !core.IsErrorType(sig.Results().At(n-1).Type()) {
		return nil
	}
	if n == 1 {
		return v
	}
	return extractOf(v, n-1)
}

func extractOf(tuple *ssa.Call, idx int) ssa.Value {
	for _, r := range *tuple.Referrers() {
		if e, ok := r.(*ssa.Extract); ok && e.Index == idx {
			return e
		}
	}
	return nil
}

// resultOf returns result #idx of a call as an SSA value.
func resultOf(call ssa.CallInstruction, idx int) ssa.Value {
	v := call.Value()
	if v == nil {
		return nil
	}
	if call.Common().Signature().Results().Len() == 1 {
		if idx == 0 {
			return v
		}
		return nil
	}
	return extractOf(v, idx)
}

// isValueOf: x is `want` or a load of a local cell whose only reaching store
// at the load is `want` (named results, captured variables).
func isValueOf(x, want ssa.Value) bool {
	if want == nil || x == nil {
		return false
	}
	if x == want {
		return true
	}
	if u, ok := x.(*ssa.UnOp); ok && u.Op == token.MUL {
		if al, ok := u.X.(*ssa.Alloc); ok {
			st := core.ReachingStores(al, u)
			return len(st) == 1 && st[0] == want
		}
	}
	return false
}

// errKnown reports whether a fact says the error result of call is nil
// (wantNil) / non-nil (!wantNil).
func errKnown(facts []core.Fact, call ssa.CallInstruction, wantNil bool) bool {
	ev := errValueOf(call)
	if ev == nil {
		return false
	}
	for _, f := range facts {
		x, neq, ok := core.NilCmp(f.Cond)
		if !ok || !isValueOf(x, ev) {
			continue
		}
		isNil := neq == f.Neg // (x != nil) refuted, or (x == nil) holds
		if isNil == wantNil {
			return true
		}
	}
	return false
}

// succeededAt: call dominates `at` and a dominating branch shows its error nil.
func succeededAt(call ssa.CallInstruction, at ssa.Instruction) bool {
	if call.Parent() != at.Parent() || !core.Dominates(call, at) {
		return false
	}
	return errKnown(core.FactsAt(at.Block()), call, true)
}

type edgePrune func(from, to *ssa.BasicBlock) bool

// failureEdgeOf prunes the edges on which the call is known to have failed.
func failureEdgeOf(call ssa.CallInstruction) edgePrune {
	return func(from, to *ssa.BasicBlock) bool {
		return errKnown(edgeFactOnly(from, to), call, false)
	}
}

// successEdgeOf prunes the edges on which the call is known to have succeeded.
func successEdgeOf(call ssa.CallInstruction) edgePrune {
	return func(from, to *ssa.BasicBlock) bool {
		return errKnown(edgeFactOnly(from, to), call, true)
	}
}

// edgeFactOnly: the single fact established by the edge from→to.
func edgeFactOnly(from, to *ssa.BasicBlock) []core.Fact {
	if len(from.Instrs) == 0 {
		return nil
	}
	iff, ok := from.Instrs[len(from.Instrs)-1].(*ssa.If)
	if !ok || len(from.Succs) != 2 || from.Succs[0] == from.Succs[1] {
		return nil
	}
	if from.Succs[0] == to {
		return []core.Fact{{Cond: iff.Cond, Neg: false, If: iff}}
	}
	if from.Succs[1] == to {
		return []core.Fact{{Cond: iff.Cond, Neg: true, If: iff}}
	}
	return nil
}

func orPrune(ps ...edgePrune) edgePrune {
	return func(from, to *ssa.BasicBlock) bool {
		for _, p := range ps {
			if p != nil && p(from, to) {
				return true
			}
		}
		return false
	}
}

// ---------------------------------------------------------------------------
// CFG walks with edge pruning

// walkCFG visits the instructions reachable from block b at index start. visit
// returns false to cut the path at that instruction. Each block is entered once.
func walkCFG(b *ssa.BasicBlock, start int, prune edgePrune, visit func(ssa.Instruction) bool) {
	seen := map[*ssa.BasicBlock]bool{}
	var walk func(b *ssa.BasicBlock, start int)
	walk = func(b *ssa.BasicBlock, start int) {
		for i := start; i < len(b.Instrs); i++ {
			if !visit(b.Instrs[i]) {
				return
			}
		}
		for _, s := range b.Succs {
			if prune != nil && prune(b, s) {
				continue
			}
			if !seen[s] {
				seen[s] = true
				walk(s, 0)
			}
		}
	}
	walk(b, start)
}

func walkAfter(from ssa.Instruction, prune edgePrune, visit func(ssa.Instruction) bool) {
	walkCFG(from.Block(), core.InstrIndex(from)+1, prune, visit)
}

func walkEntry(fn *ssa.Function, prune edgePrune, visit func(ssa.Instruction) bool) {
	if len(fn.Blocks) > 0 {
		walkCFG(fn.Blocks[0], 0, prune, visit)
	}
}

// reachAfter: can `to` execute after `from` without crossing a stop instruction?
func reachAfter(from, to ssa.Instruction, stop func(ssa.Instruction) bool, prune edgePrune) bool {
	found := false
	walkAfter(from, prune, func(in ssa.Instruction) bool {
		if in == to {
			found = true
			return false
		}
		return !(stop != nil && stop(in)) && !found
	})
	return found
}

// reachFromEntry: can `to` execute without a stop instruction before it?
func reachFromEntry(fn *ssa.Function, to ssa.Instruction, stop func(ssa.Instruction) bool, prune edgePrune) bool {
	found := false
	walkEntry(fn, prune, func(in ssa.Instruction) bool {
		if in == to {
			found = true
			return false
		}
		return !(stop != nil && stop(in)) && !found
	})
	return found
}

// reachFromBlock: can `to` execute on a path that starts at the head of b?
func reachFromBlock(b *ssa.BasicBlock, to ssa.Instruction, stop func(ssa.Instruction) bool, prune edgePrune) bool {
	found := false
	walkCFG(b, 0, prune, func(in ssa.Instruction) bool {
		if in == to {
			found = true
			return false
		}
		return !(stop != nil && stop(in)) && !found
	})
	return found
}

// returnsWithout lists the Return instructions reachable after `from` (or from
// the entry when from is nil) on paths that cross no target instruction.
func returnsWithout(fn *ssa.Function, from ssa.Instruction, isTarget func(ssa.Instruction) bool, prune edgePrune) []*ssa.Return {
	var out []*ssa.Return
	visit := func(in ssa.Instruction) bool {
		if isTarget != nil && isTarget(in) {
			return false
		}
		if r, ok := in.(*ssa.Return); ok {
			out = append(out, r)
		}
		return true
	}
	if from == nil {
		walkEntry(fn, prune, visit)
	} else {
		walkAfter(from, prune, visit)
	}
	return out
}

// returnOperandDeep is core.ReturnOperand that also looks through the
// `tmp = *cell; *cell = tmp` copies go/ssa emits for `return h, err` with named
// results: loads of local cells are replaced by the stores that reach them.
func returnOperandDeep(r *ssa.Return, idx int) []ssa.Value {
	var out []ssa.Value
	seen := map[ssa.Value]bool{}
	var expand func(v ssa.Value)
	expand = func(v ssa.Value) {
		if v == nil {
			out = append(out, nil)
			return
		}
		if seen[v] {
			return
		}
		seen[v] = true
		if u, ok := v.(*ssa.UnOp); ok && u.Op == token.MUL {
			if al, ok := u.X.(*ssa.Alloc); ok && !cellWrittenElsewhere(al) {
				for _, s := range core.ReachingStores(al, u) {
					expand(s)
				}
				return
			}
		}
		out = append(out, v)
	}
	for _, v := range core.ReturnOperand(r, idx) {
		expand(v)
	}
	return out
}

// cellWrittenElsewhere: the address of the cell is passed to a call or stored
// (closures that capture it are fine: they run at calls / rundefers, and the
// only writers of result cells in this code base are deferred error wrappers,
// which map nil to nil and non-nil to non-nil).
func cellWrittenElsewhere(al *ssa.Alloc) bool {
	for _, r := range *al.Referrers() {
		switch x := r.(type) {
		case *ssa.Store:
			if x.Val == al {
				return true
			}
		case *ssa.UnOp, *ssa.DebugRef, *ssa.MakeClosure:
		default:
			return true
		}
	}
	return false
}

// errOperandKinds classifies the error result of a return: are all possible
// values provably nil (allNil), provably non-nil (allNonNil)?
func errOperandKinds(c *Ctx, r *ssa.Return) (allNil, allNonNil bool) {
	idx := core.ErrorResultIndex(r.Parent())
	if idx < 0 {
		return true, false
	}
	vals := returnOperandDeep(r, idx)
	if len(vals) == 0 {
		return false, false
	}
	allNil, allNonNil = true, true
	for _, v := range vals {
		if v == nil {
			allNonNil = false
			continue
		}
		at := ssa.Instruction(r)
		// a value defined in another block keeps the facts of the return's block
		switch {
		case core.ClassifyNil(v, at) == core.IsNil:
			allNonNil = false
		case errNonNil(c, v, at):
			allNil = false
		default:
			allNil, allNonNil = false, false
		}
	}
	return
}

// ---------------------------------------------------------------------------
// non-nil errors through combinators

var nonNilParamMemo = map[*ssa.Function]map[int]int{}

// nonNilWhenParam: result (the last one) of fn is non-nil on every return that
// is feasible when parameter #i is non-nil (ParseError, NewCompositeError,
// closeIsolatedHandler, appendCompositeError …).
func nonNilWhenParam(c *Ctx, fn *ssa.Function, i int) bool {
	if fn == nil || fn.Blocks == nil || i >= len(fn.Params) {
		return false
	}
	m := nonNilParamMemo[fn]
	if m == nil {
		m = map[int]int{}
		nonNilParamMemo[fn] = m
	}
	switch m[i] {
	case 1, 2:
		return true
	case 3:
		return false
	}
	m[i] = 1
	par := fn.Params[i]
	idx := core.ErrorResultIndex(fn)
	ok := idx >= 0
	if ok {
		for _, r := range core.Returns(fn) {
			// infeasible under the hypothesis: the block is reached only when par == nil
			if core.NilAt(par, r) {
				continue
			}
			for _, v := range core.ReturnOperand(r, idx) {
				if v == nil || !(stripsTo(v, par) || errNonNilHyp(c, v, r, par)) {
					ok = false
				}
			}
		}
	}
	if ok {
		m[i] = 2
	} else {
		m[i] = 3
	}
	return ok
}

func stripsTo(v, want ssa.Value) bool {
	for _, o := range core.Origins(v, false) {
		if o != want {
			return false
		}
	}
	return true
}

// errNonNil: v is provably a non-nil error at `at`.
func errNonNil(c *Ctx, v ssa.Value, at ssa.Instruction) bool {
	return errNonNilHyp(c, v, at, nil)
}

// errNonNilHyp is errNonNil under the hypothesis that `hyp` is non-nil.
func errNonNilHyp(c *Ctx, v ssa.Value, at ssa.Instruction, hyp ssa.Value) bool {
	if v == nil {
		return false
	}
	if hyp != nil && v == hyp {
		return true
	}
	if core.ClassifyNil(v, at) == core.NonNil || factSaysNonNil(v, at) {
		return true
	}
	call, ok := v.(*ssa.Call)
	if !ok {
		// a local cell / phi all of whose values are non-nil
		os := core.Origins(v, false)
		if len(os) == 1 && os[0] == v {
			return false
		}
		for _, o := range os {
			if !errNonNilHyp(c, o, at, hyp) {
				return false
			}
		}
		return len(os) > 0
	}
	f := core.StaticCallee(call)
	if f == nil {
		return false
	}
	for i, a := range call.Call.Args {
		if !core.IsErrorType(a.Type()) {
			continue
		}
		if errNonNilHyp(c, a, call, hyp) && nonNilWhenParam(c, f, i) {
			return true
		}
	}
	return false
}

// factSaysNonNil: a dominating branch tested a load of the cell that held
// exactly v at that point (`if err = f(); err != nil { return h, err }` with a
// named result) and found it non-nil.
func factSaysNonNil(v ssa.Value, at ssa.Instruction) bool {
	if at == nil || at.Block() == nil {
		return false
	}
	for _, f := range core.FactsAt(at.Block()) {
		x, neq, ok := core.NilCmp(f.Cond)
		if !ok || neq == f.Neg {
			continue
		}
		if x != v && isValueOf(x, v) {
			return true
		}
	}
	return false
}

// ---------------------------------------------------------------------------
// what a call removes

var removesMemo = map[*ssa.Function]map[pathRole][]ssa.CallInstruction{}

func isRemoveCall(p *core.Prog, c ssa.CallInstruction) bool {
	return calleeIn(p, c, fnOsRemove, fnOsRemoveAl)
}

// removalsIn lists, by role of the removed path, the direct os.Remove sites of
// fn and of every csvq function it can reach.
func removalsIn(p *core.Prog, fn *ssa.Function) map[pathRole][]ssa.CallInstruction {
	if m, ok := removesMemo[fn]; ok {
		return m
	}
	m := map[pathRole][]ssa.CallInstruction{}
	removesMemo[fn] = m
	var fs []*ssa.Function
	for f := range p.ReachSet(fn) {
		if f.Blocks != nil && p.Name(f) != f.String() { // csvq functions only
			fs = append(fs, f)
		}
	}
	sort.Slice(fs, func(i, j int) bool { return p.Name(fs[i]) < p.Name(fs[j]) })
	for _, f := range fs {
		for _, call := range core.Calls(f) {
			if isRemoveCall(p, call) && len(call.Common().Args) > 0 {
				r := roleOfPath(call.Common().Args[0])
				m[r] = append(m[r], call)
			}
		}
	}
	return m
}

// removalsAt: the os.Remove sites a call instruction may execute.
func removalsAt(p *core.Prog, c ssa.CallInstruction) map[pathRole][]ssa.CallInstruction {
	out := map[pathRole][]ssa.CallInstruction{}
	if isRemoveCall(p, c) && len(c.Common().Args) > 0 {
		r := roleOfPath(c.Common().Args[0])
		out[r] = append(out[r], c)
		return out
	}
	add := func(f *ssa.Function) {
		for r, l := range removalsIn(p, f) {
			out[r] = append(out[r], l...)
		}
	}
	for _, f := range p.Callees(c) {
		add(f)
	}
	for _, a := range c.Common().Args {
		if mc, ok := a.(*ssa.MakeClosure); ok {
			if f, ok := mc.Fn.(*ssa.Function); ok {
				add(f)
			}
		}
	}
	if mc, ok := c.Common().Value.(*ssa.MakeClosure); ok {
		if f, ok := mc.Fn.(*ssa.Function); ok {
			add(f)
		}
	}
	return out
}

// releasesControl: the call removes the control file held in Handler field fld
// (receiver or argument loaded from that field, callee reaches os.Remove).
func releasesControl(p *core.Prog, c ssa.CallInstruction, fld string) bool {
	hit := false
	for _, a := range callArgs(c) {
		if chainEndsWith(a, fld) {
			hit = true
		}
	}
	if !hit {
		// … or the ADDRESS of that field is handed to a helper / local closure that
		// releases what the pointer refers to (`release := func(cf **ControlFile) {…};
		// release(&h.tempFile)`)
		return throughFieldAddr(p, c, 0, func(k ssa.CallInstruction) bool {
			return len(removalsAt(p, k)[roleControl]) > 0
		}, fld)
	}
	return len(removalsAt(p, c)[roleControl]) > 0
}

// addrChainEndsWith: v is the address of a field, &x.….f, whose chain ends with want.
func addrChainEndsWith(v ssa.Value, want ...string) bool {
	fa, ok := v.(*ssa.FieldAddr)
	if !ok || len(want) == 0 || core.FieldOwner(fa) != want[len(want)-1] {
		return false
	}
	return len(want) == 1 || chainEndsWith(fa.X, want[:len(want)-1]...)
}

// throughFieldAddr: call c passes the address of the field (chain suffix) to a
// callee with a body — a function, a method or a local closure — in which every
// path from the entry to a return applies a call satisfying rel to the value loaded
// through that pointer parameter (receiver or argument), or hands the pointer on to
// a callee that does (2 levels); paths on which the loaded value is known nil have
// nothing to release.
func throughFieldAddr(p *core.Prog, c ssa.CallInstruction, depth int, rel func(k ssa.CallInstruction) bool, suffix ...string) bool {
	g := core.StaticCallee(c)
	if g == nil {
		if l := p.Callees(c); len(l) == 1 {
			g = l[0]
		}
	}
	if g == nil || g.Blocks == nil {
		return false
	}
	args := c.Common().Args
	for i, a := range args {
		if i < len(g.Params) && len(args) == len(g.Params) && addrChainEndsWith(a, suffix...) && paramPointeeReleased(p, g, g.Params[i], depth, rel) {
			return true
		}
	}
	return false
}

func paramPointeeReleased(p *core.Prog, g *ssa.Function, prm *ssa.Parameter, depth int, rel func(k ssa.CallInstruction) bool) bool {
	isLoad := func(v ssa.Value) bool {
		u, ok := v.(*ssa.UnOp)
		return ok && u.Op == token.MUL && u.X == ssa.Value(prm)
	}
	saw := false
	rets := returnsWithout(g, nil, func(in ssa.Instruction) bool {
		k, ok := in.(ssa.CallInstruction)
		if !ok {
			return false
		}
		if _, isDefer := in.(*ssa.Defer); isDefer {
			return false
		}
		for i, a := range callArgs(k) {
			if isLoad(a) && rel(k) {
				saw = true
				return true
			}
			if a == ssa.Value(prm) && depth < 2 && !k.Common().IsInvoke() {
				if f := core.StaticCallee(k); f != nil && f != g && f.Blocks != nil && i < len(f.Params) && len(k.Common().Args) == len(f.Params) &&
					paramPointeeReleased(p, f, f.Params[i], depth+1, rel) {
					saw = true
					return true
				}
			}
		}
		return false
	}, func(from, to *ssa.BasicBlock) bool {
		for _, f := range edgeFactOnly(from, to) {
			x, neq, ok := core.NilCmp(f.Cond)
			if ok && isLoad(x) && neq == f.Neg {
				return true
			}
		}
		return false
	})
	return saw && len(rets) == 0
}

// closesDescriptor: the call closes the descriptor loaded through the given
// field chain suffix (go-file Close / (*os.File).Close reached, argument or
// receiver is such a load).
func closesDescriptor(p *core.Prog, c ssa.CallInstruction, suffix ...string) bool {
	hit := false
	for _, a := range callArgs(c) {
		if chainEndsWith(a, suffix...) {
			hit = true
		}
	}
	if !hit {
		return throughFieldAddr(p, c, 0, func(k ssa.CallInstruction) bool {
			return callReachesNamed(p, k, fnGoClose, "(*os.File).Close")
		}, suffix...)
	}
	return callReachesNamed(p, c, fnGoClose, "(*os.File).Close")
}

// nilEdgeOf prunes the edges on which a value loaded through the given field
// chain suffix is known to be nil ("nothing to release").
func nilEdgeOf(suffix ...string) edgePrune {
	return func(from, to *ssa.BasicBlock) bool {
		for _, f := range edgeFactOnly(from, to) {
			x, neq, ok := core.NilCmp(f.Cond)
			if ok && chainEndsWith(x, suffix...) && neq == f.Neg {
				return true
			}
		}
		return false
	}
}

// boolFieldEdge prunes edges on which the bool field fld is known to be `val`.
func boolFieldEdge(fld string, val bool) edgePrune {
	return func(from, to *ssa.BasicBlock) bool {
		for _, f := range edgeFactOnly(from, to) {
			cond, neg := f.Cond, f.Neg
			if u, ok := cond.(*ssa.UnOp); ok && u.Op == token.NOT {
				cond, neg = u.X, !neg
			}
			if lastField(cond) == fld && (!neg) == val {
				return true
			}
		}
		return false
	}
}

// enumEdge prunes the edges that contradict `field == val` for an integer enum
// field compared against constants.
func enumEdge(fld string, val int64) edgePrune {
	return func(from, to *ssa.BasicBlock) bool {
		for _, f := range edgeFactOnly(from, to) {
			b, ok := f.Cond.(*ssa.BinOp)
			if !ok || (b.Op != token.EQL && b.Op != token.NEQ) {
				continue
			}
			x, k := b.X, b.Y
			if _, isC := x.(*ssa.Const); isC {
				x, k = k, x
			}
			kv, ok := core.ConstInt(k)
			if !ok || lastField(x) != fld {
				continue
			}
			holdsEq := (b.Op == token.EQL) != f.Neg // this edge asserts x == kv
			if holdsEq && kv != val {
				return true
			}
			if !holdsEq && kv == val {
				return true
			}
		}
		return false
	}
}

// enumFactAt: does a dominating branch show `field == val` at instruction at?
func enumFactAt(at ssa.Instruction, fld string, val int64) bool {
	for _, f := range core.FactsAt(at.Block()) {
		b, ok := f.Cond.(*ssa.BinOp)
		if !ok || (b.Op != token.EQL && b.Op != token.NEQ) {
			continue
		}
		x, k := b.X, b.Y
		if _, isC := x.(*ssa.Const); isC {
			x, k = k, x
		}
		kv, ok := core.ConstInt(k)
		if !ok || lastField(x) != fld {
			continue
		}
		if (b.Op == token.EQL) != f.Neg && kv == val {
			return true
		}
	}
	return false
}

// ---------------------------------------------------------------------------
// misc

// topLevel strips the "$n" closure suffixes of a function name.
func topLevel(name string) string {
	if i := strings.Index(name, "$"); i >= 0 {
		return name[:i]
	}
	return name
}

// calledOnlyFrom reports whether fn lies inside a function accepted by
// `allowed` (by the name of its top-level function), or every call-graph caller
// of its top-level function does — recursively. Helper extraction therefore
// keeps a who-may-call verdict; a function without callers (entry point, dead
// code, control) is not accepted. why names the caller that breaks the chain.
func calledOnlyFrom(p *core.Prog, fn *ssa.Function, allowed func(top string) bool) (ok bool, why string) {
	seen := map[*ssa.Function]bool{}
	var visit func(f *ssa.Function, depth int) (bool, string)
	visit = func(f *ssa.Function, depth int) (bool, string) {
		root := f
		for root.Parent() != nil {
			root = root.Parent()
		}
		if allowed(p.Name(root)) {
			return true, ""
		}
		if seen[root] {
			return true, "" // a cycle adds no new caller
		}
		seen[root] = true
		if depth > 6 {
			return false, "call chain above " + p.Name(root) + " too deep to follow"
		}
		callers := p.RealCallers(root)
		if len(callers) == 0 {
			return false, p.Name(root) + " is not one of the permitted functions and has no caller that is"
		}
		for _, e := range callers {
			if ok, why := visit(e.Caller.Func, depth+1); !ok {
				return false, why
			}
		}
		return true, ""
	}
	return visit(fn, 0)
}

// funcAndClosures returns fn followed by its (nested) anonymous functions.
func funcAndClosures(fn *ssa.Function) []*ssa.Function {
	out := []*ssa.Function{fn}
	for _, a := range fn.AnonFuncs {
		out = append(out, funcAndClosures(a)...)
	}
	return out
}

func describeCall(p *core.Prog, c ssa.CallInstruction) string {
	n := p.CalleeName(c)
	if n == "" {
		return "dynamic call " + c.Common().Value.Name()
	}
	return n
}

// handlerCtors: the package-level functions of lib/file (and of the control
// package) that build a Handler: they allocate one and return it.
func handlerCtors(c *Ctx) []*ssa.Function {
	var out []*ssa.Function
	for _, fn := range c.P.FuncsIn(true, "lib/file") {
		if fn.Parent() != nil || fn.Signature.Recv() != nil {
			continue
		}
		if handlerAlloc(fn) != nil {
			out = append(out, fn)
		}
	}
	return out
}

// handlerAlloc returns the allocation of a lib/file.Handler in fn that is
// returned as result #0, or nil.
func handlerAlloc(fn *ssa.Function) *ssa.Alloc {
	res := fn.Signature.Results()
	if res.Len() == 0 || core.NamedOf(res.At(0).Type()) != "lib/file.Handler" {
		return nil
	}
	for _, b := range fn.Blocks {
		for _, in := range b.Instrs {
			if al, ok := in.(*ssa.Alloc); ok && al.Heap && core.NamedOf(al.Type()) == "lib/file.Handler" {
				if _, isPtrPtr := al.Type().(*types.Pointer).Elem().(*types.Pointer); !isPtrPtr {
					return al
				}
			}
		}
	}
	return nil
}

// realReturns lists the returns of fn except the one of the synthetic recover
// block (unreachable in the CFG; it re-reads the result cells after a panic).
func realReturns(fn *ssa.Function) []*ssa.Return {
	var out []*ssa.Return
	for _, r := range core.Returns(fn) {
		if fn.Recover != nil && r.Block() == fn.Recover {
			continue
		}
		out = append(out, r)
	}
	return out
}

func ordinal(n int) string { return fmt.Sprintf("#%d", n) }
