package rules

import (
	"fmt"
	"go/token"
	"go/types"
	"sort"

	"golang.org/x/tools/go/ssa"

	"verif/checker/core"
)

// R-RECT-1 — a function that hands out a header together with rows hands out a
// rectangular table.
//
// The loaders that build a table from self-describing data (a JSON array of
// objects) learn the columns while they read: the header grows whenever an
// element brings a new key. A row that was made BEFORE the header got its last
// column is shorter than the header unless it is padded afterwards. Everything
// downstream (NewView, field references, SELECT *) indexes a record with the
// positions of the header: a short row is an index out of range → internal
// Fatal Error.
//
// Decided per hand-written function F whose results contain one slice of
// strings H (the header) and one slice of slices R (the rows), from the value
// flow into the returned H and R:
//   growth  = an append whose result flows into the returned H
//   row op  = an instruction that makes or extends a value that is stored into
//             the returned R (make, append on the row, a helper's result)
// If no growth is reachable in the CFG from a row op, every row is built when
// the header is final: discharged. Otherwise F needs a PAD that every path
// from that growth to a successful return (R not nil) passes: a loop that runs
// over the returned rows (its exit test compares with len of them), reads
// len(H) and stores the grown row back into the rows — or a call that hands
// rows and header (or its length) to a csvq helper that stores into the
// elements of its parameter. A pad that sits under a condition (a path from
// the growth to the return goes round it) does not count: whether that
// condition is implied by "some row is short" is a value-level question, and
// the cheap spellings of it (comparing the header with the member count of
// the first object, with the capacity …) are wrong for duplicate keys.
// NOT decided: that the pad's inner condition is `len(row) < len(header)`.

func init() {
	Register(&Rule{ID: "R-RECT-1", Props: []string{"C19"}, Floor: 1,
		Doc: "every hand-written csvq function that returns a header (slice of strings) together with rows (slice of slices) returns rows of the header's FINAL length: no instruction that makes or extends a row which is stored into the returned rows is followed, on any path, by an append that flows into the returned header — or every path from such an append to a successful return passes an unconditional pad (a loop over the returned rows that reads len(header) and stores the extended row back, or a call handing rows and header/its length to a helper that stores into the rows). " +
			"A pad under a guard that some path from the growth to the return avoids is not accepted (`initialLen < len(header)` with the member count of the first object is false for duplicate keys). The pad's per-row condition itself is not decided",
		Controls: []string{"CtlRectGuardedPad", "CtlRectRowBeforeKey"},
		Run:      ruleRect1})
}

// rectFlow: the values that flow into v, looking through Phi, append (its base),
// slicing, conversions and local cells; `appends` collects the append calls met.
func rectFlow(roots []ssa.Value) (set map[ssa.Value]bool, order []ssa.Value) {
	set = map[ssa.Value]bool{}
	var walk func(v ssa.Value)
	walk = func(v ssa.Value) {
		if v == nil || set[v] {
			return
		}
		set[v] = true
		order = append(order, v)
		switch x := v.(type) {
		case *ssa.Phi:
			for _, e := range x.Edges {
				walk(e)
			}
		case *ssa.Slice:
			walk(x.X)
		case *ssa.ChangeType:
			walk(x.X)
		case *ssa.Call:
			if b, ok := x.Common().Value.(*ssa.Builtin); ok && b.Name() == "append" {
				walk(x.Common().Args[0])
			}
		case *ssa.UnOp:
			if x.Op == token.MUL {
				switch c := x.X.(type) {
				case *ssa.Alloc, *ssa.FreeVar:
					if vals, complete := core.StoresTo(c); complete {
						for _, s := range vals {
							walk(s)
						}
					}
				}
			}
		}
	}
	for _, r := range roots {
		walk(r)
	}
	return set, order
}

func rectIsAppend(v ssa.Value) (*ssa.Call, bool) {
	c, ok := v.(*ssa.Call)
	if !ok {
		return nil, false
	}
	b, ok := c.Common().Value.(*ssa.Builtin)
	return c, ok && b.Name() == "append" && len(c.Common().Args) == 2
}

// rectAppended: the element values of append(s, e1, e2 …) (the variadic slice is
// a freshly allocated array the elements are stored into).
func rectAppended(call *ssa.Call) []ssa.Value {
	sl, ok := call.Common().Args[1].(*ssa.Slice)
	if !ok {
		return nil
	}
	al, ok := sl.X.(*ssa.Alloc)
	if !ok || al.Referrers() == nil {
		return nil
	}
	var out []ssa.Value
	for _, r := range *al.Referrers() {
		ia, ok := r.(*ssa.IndexAddr)
		if !ok || ia.Referrers() == nil {
			continue
		}
		for _, u := range *ia.Referrers() {
			if st, ok := u.(*ssa.Store); ok && st.Addr == ia {
				out = append(out, st.Val)
			}
		}
	}
	return out
}

func rectLenOf(v ssa.Value, set map[ssa.Value]bool) bool {
	b, _ := core.LinearIndex(v)
	call, ok := b.(*ssa.Call)
	if !ok {
		return false
	}
	bi, ok := call.Common().Value.(*ssa.Builtin)
	return ok && bi.Name() == "len" && set[call.Common().Args[0]]
}

// rectStoresIntoElems: fn stores into an element of a value derived from its parameter idx.
func rectStoresIntoElems(fn *ssa.Function, idx int) bool {
	if fn == nil || fn.Blocks == nil || idx >= len(fn.Params) {
		return false
	}
	for _, b := range fn.Blocks {
		for _, in := range b.Instrs {
			st, ok := in.(*ssa.Store)
			if !ok {
				continue
			}
			ia, ok := st.Addr.(*ssa.IndexAddr)
			if !ok {
				continue
			}
			set, _ := rectFlow([]ssa.Value{ia.X})
			if set[fn.Params[idx]] {
				return true
			}
		}
	}
	return false
}

func ruleRect1(c *Ctx) {
	for _, fn := range e19HandWritten(c, nil) {
		res := fn.Signature.Results()
		hi, ri, nh, nr := -1, -1, 0, 0
		for i := 0; i < res.Len(); i++ {
			sl, ok := res.At(i).Type().Underlying().(*types.Slice)
			if !ok {
				continue
			}
			if bt, ok := sl.Elem().Underlying().(*types.Basic); ok && bt.Info()&types.IsString != 0 {
				hi, nh = i, nh+1
			}
			if _, ok := sl.Elem().Underlying().(*types.Slice); ok {
				ri, nr = i, nr+1
			}
		}
		if nh != 1 || nr != 1 {
			continue
		}
		var hRoots, rRoots []ssa.Value
		success := map[*ssa.Return]bool{}
		for _, ret := range core.Returns(fn) {
			if ri >= len(ret.Results) {
				continue
			}
			nilRows := true
			for _, rv := range core.ReturnOperand(ret, ri) {
				if rv != nil && !core.IsNilConst(rv) {
					nilRows = false
					rRoots = append(rRoots, rv)
				}
			}
			if nilRows {
				continue
			}
			success[ret] = true
			for _, hv := range core.ReturnOperand(ret, hi) {
				if hv != nil {
					hRoots = append(hRoots, hv)
				}
			}
		}
		hSet, hOrder := rectFlow(hRoots)
		rSet, rOrder := rectFlow(rRoots)
		// growth of the header
		var growth []ssa.Instruction
		for _, v := range hOrder {
			if call, ok := rectIsAppend(v); ok {
				growth = append(growth, call)
			} else if call, idx, ok := rectHelperCall(c, v); ok && rectResultGrows(c, call.Common().StaticCallee(), idx, 0) {
				growth = append(growth, call) // the header is collected by a helper: it grows at the call
			}
		}
		// the rows put into the returned rows
		var rowVals []ssa.Value
		var rowOps []ssa.Instruction
		for _, v := range rOrder {
			if call, ok := rectIsAppend(v); ok {
				rowVals = append(rowVals, rectAppended(call)...)
			} else if call, _, ok := rectHelperCall(c, v); ok {
				rowOps = append(rowOps, call) // the rows are built by a helper: they are made at the call
			}
		}
		for _, b := range fn.Blocks {
			for _, in := range b.Instrs {
				if st, ok := in.(*ssa.Store); ok {
					if ia, ok := st.Addr.(*ssa.IndexAddr); ok && rSet[ia.X] {
						rowVals = append(rowVals, st.Val)
					}
				}
			}
		}
		rowSet, rowOrder := rectFlow(rowVals)
		_ = rowSet
		for _, v := range rowOrder {
			switch x := v.(type) {
			case *ssa.MakeSlice:
				rowOps = append(rowOps, x)
			case *ssa.Call:
				rowOps = append(rowOps, x)
			}
		}
		if len(growth) == 0 || len(rowOps) == 0 {
			continue // header or rows come whole from elsewhere (a callee's results are handed on)
		}
		sort.Slice(growth, func(i, j int) bool { return growth[i].Pos() < growth[j].Pos() })
		sort.Slice(rowOps, func(i, j int) bool { return rowOps[i].Pos() < rowOps[j].Pos() })
		c.Sites++
		c.Touch(fn)
		key := c.KeyAt(fn, "rows have the length of the final header")

		// pads
		loops := core.NaturalLoops(fn)
		padHeaders := map[*ssa.BasicBlock]bool{}
		for _, l := range loops {
			overRows, readsHeaderLen, storesRow := false, false, false
			for b := range l.Blocks {
				for _, in := range b.Instrs {
					switch x := in.(type) {
					case *ssa.If:
						if len(b.Succs) == 2 && (!l.Blocks[b.Succs[0]] || !l.Blocks[b.Succs[1]]) {
							if cmp, ok := x.Cond.(*ssa.BinOp); ok && (rectLenOf(cmp.X, rSet) || rectLenOf(cmp.Y, rSet)) {
								overRows = true
							}
						}
					case *ssa.Call:
						if bi, ok := x.Common().Value.(*ssa.Builtin); ok && bi.Name() == "len" && hSet[x.Common().Args[0]] {
							readsHeaderLen = true
						}
					case *ssa.Store:
						if ia, ok := x.Addr.(*ssa.IndexAddr); ok && rSet[ia.X] {
							storesRow = true
						}
					}
				}
			}
			// `for i := range rows`: len(rows) is taken before the loop, the header test compares with it
			if overRows && storesRow && (readsHeaderLen || rectLoopUsesLenBefore(l, hSet)) {
				padHeaders[l.Header] = true
			}
		}
		isPad := func(in ssa.Instruction) bool {
			if padHeaders[in.Block()] && in == in.Block().Instrs[0] {
				return true
			}
			call, ok := in.(*ssa.Call)
			if !ok {
				return false
			}
			f := call.Common().StaticCallee()
			if f == nil || f.Blocks == nil || c.P.Name(f) == f.String() { // a csvq function with a body
				return false
			}
			rowsArg, hdr := -1, false
			for i, a := range call.Common().Args {
				if rSet[a] {
					rowsArg = i
				}
				if hSet[a] || rectLenOf(a, hSet) {
					hdr = true
				}
			}
			return rowsArg >= 0 && hdr && rectStoresIntoElems(f, rowsArg)
		}
		isEnd := func(in ssa.Instruction) bool {
			if isPad(in) {
				return true
			}
			if ret, ok := in.(*ssa.Return); ok && !success[ret] {
				return true // failure return: no table is handed out
			}
			return false
		}

		bad := ""
		badPos := ""
		for _, op := range rowOps {
			for _, g := range growth {
				if op == g || !core.Reachable(op, g, nil) {
					continue // one call hands out both: the callee has its own obligation
				}
				if esc := core.EscapeWithout(g, isEnd, nil); esc != nil {
					bad = fmt.Sprintf("a row that is stored into the returned rows is made/extended at %s and the header can still grow afterwards (append at %s); a path from that append reaches the return at %s without passing an unconditional pad of the rows (a loop over the rows that reads len(header) and stores the extended row back): rows made before a key first appeared stay shorter than the header — the table is not rectangular, the first access to the missing cell is an index out of range → internal Fatal Error",
						c.Pos(op), c.Pos(g), c.Pos(esc))
					badPos = c.Pos(g)
					break
				}
			}
			if bad != "" {
				break
			}
		}
		if bad != "" {
			c.Bad(key, badPos, bad)
			continue
		}
		c.Ok(key, c.FnPos(fn), fmt.Sprintf("%d header append(s), %d row-building instruction(s): the header is final before the first row is made, or every path from a later growth to a successful return passes an unconditional pad of the rows", len(growth), len(rowOps)))
	}
}

// rectHelperCall: v is (a result of) a static call of a csvq function with a body.
func rectHelperCall(c *Ctx, v ssa.Value) (*ssa.Call, int, bool) {
	call, idx, ok := core.ExtractOf(v)
	if !ok {
		return nil, 0, false
	}
	if _, isB := call.Common().Value.(*ssa.Builtin); isB {
		return nil, 0, false
	}
	f := call.Common().StaticCallee()
	if f == nil || f.Blocks == nil || c.P.Name(f) == f.String() {
		return nil, 0, false
	}
	return call, idx, true
}

// rectResultGrows: result idx of f is built with append (directly or by a helper, ≤ 3 levels).
func rectResultGrows(c *Ctx, f *ssa.Function, idx int, d int) bool {
	if f == nil || d > 3 {
		return false
	}
	var roots []ssa.Value
	for _, ret := range core.Returns(f) {
		if idx < len(ret.Results) {
			for _, v := range core.ReturnOperand(ret, idx) {
				if v != nil {
					roots = append(roots, v)
				}
			}
		}
	}
	_, order := rectFlow(roots)
	for _, v := range order {
		if _, ok := rectIsAppend(v); ok {
			return true
		}
		if call, i, ok := rectHelperCall(c, v); ok && rectResultGrows(c, call.Common().StaticCallee(), i, d+1) {
			return true
		}
	}
	return false
}

// rectLoopUsesLenBefore: the loop compares with / reads a len(header) value computed outside it.
func rectLoopUsesLenBefore(l *core.Loop, hSet map[ssa.Value]bool) bool {
	for b := range l.Blocks {
		for _, in := range b.Instrs {
			var ops []*ssa.Value
			for _, o := range in.Operands(ops) {
				if o != nil && *o != nil && rectLenOf(*o, hSet) {
					return true
				}
			}
		}
	}
	return false
}
