package rules

import (
	"fmt"
	"go/token"
	"go/types"
	"sort"
	"strings"

	"golang.org/x/tools/go/ssa"

	"verif/checker/core"
)

// R-SCP-12 — resolution order of a table name: the temporary tables of the
// visible blocks (innermost first, R-SCP-1 / R-CUR-7) are asked before the
// name is taken for a file, and nothing but their answer sends the name on to
// the file system. Added after seeded change C15-17 (DESIGN §8): a guard in
// front of the temporary-table lookup of loadObject read the per-query path
// cache, which CreateChild shares with the local scope of every user-defined
// function called from the query — the function's own temporary table was
// hidden by a file of the calling query.

const (
	resSearchFilePath = "lib/query.SearchFilePath"
	resNewFileInfo    = "lib/query.NewFileInfo"
	resInlineLoader   = "lib/query.loadInlineObjectFromFile"
)

func init() {
	Register(&Rule{ID: "R-SCP-12", Props: []string{"C15"}, Floor: 2,
		Doc: "resolution order of a table name: every place of lib/query that turns a table name into the path of an existing file " +
			"(a call of SearchFilePath / NewFileInfo in a function that works on a *ReferenceScope; when the name is a parameter of that function the question " +
			"is decided at its callers, closures at the function that creates them, up to five levels) is reached from the entry of the deciding function only " +
			"through a temporary-table lookup of the same name (a *ReferenceScope method that only reads BlockScope.TemporaryTables, or a helper handing its " +
			"name parameter to one), and stands under a branch decided by that lookup's result alone, taken on 'not declared': no other state — the path cache, " +
			"the table cache, a flag of the transaction — can send a name to the file system past a temporary table of the running block or function. " +
			"Exception: loadInlineObjectFromFile under a true branch on parameters / constants only (INLINE() and inline-object syntax ask for the file itself)",
		Controls: []string{"CtlResolveFileWhenPathCached", "CtlResolveFileBeforeTemp"},
		Run:      ruleScp12})
}

// resIsNameType: string or lib/parser.Identifier.
func resIsNameType(t types.Type) bool {
	if b, ok := t.Underlying().(*types.Basic); ok && b.Kind() == types.String {
		return true
	}
	return core.NamedOf(t) == "lib/parser.Identifier"
}

func resIsScopeType(t types.Type) bool {
	if _, ok := t.(*types.Pointer); !ok {
		return false
	}
	return core.NamedOf(t) == "lib/query.ReferenceScope"
}

// resMakeClosure finds the instruction of the parent that creates closure fn.
func resMakeClosure(fn *ssa.Function) *ssa.MakeClosure {
	par := fn.Parent()
	if par == nil {
		return nil
	}
	for _, b := range par.Blocks {
		for _, in := range b.Instrs {
			if mc, ok := in.(*ssa.MakeClosure); ok && mc.Fn == fn {
				return mc
			}
		}
	}
	return nil
}

// resNameKeys: the values a name value is made of — the struct it is a field of, the cell it was loaded from and
// what was stored there, the argument of strings.ToUpper, the captured variable behind a free variable.
func resNameKeys(v ssa.Value) map[ssa.Value]bool {
	out := map[ssa.Value]bool{}
	var visit func(v ssa.Value, d int)
	visit = func(v ssa.Value, d int) {
		if v == nil || out[v] || d > 10 {
			return
		}
		if _, isConst := v.(*ssa.Const); isConst {
			return
		}
		out[v] = true
		switch x := v.(type) {
		case *ssa.Field:
			visit(x.X, d+1)
		case *ssa.FieldAddr:
			visit(x.X, d+1)
		case *ssa.UnOp:
			if x.Op == token.MUL {
				visit(x.X, d+1)
			}
		case *ssa.Alloc:
			if x.Referrers() == nil {
				return
			}
			for _, r := range *x.Referrers() {
				switch y := r.(type) {
				case *ssa.Store:
					if y.Addr == x {
						visit(y.Val, d+1)
					}
				case *ssa.FieldAddr:
					if y.Referrers() == nil {
						continue
					}
					for _, rr := range *y.Referrers() {
						if st, ok := rr.(*ssa.Store); ok && st.Addr == y {
							visit(st.Val, d+1)
						}
					}
				}
			}
		case *ssa.MakeInterface:
			visit(x.X, d+1)
		case *ssa.ChangeType:
			visit(x.X, d+1)
		case *ssa.ChangeInterface:
			visit(x.X, d+1)
		case *ssa.TypeAssert:
			visit(x.X, d+1)
		case *ssa.Extract:
			visit(x.Tuple, d+1)
		case *ssa.Phi:
			for _, e := range x.Edges {
				visit(e, d+1)
			}
		case *ssa.Call:
			if callee := x.Call.StaticCallee(); callee != nil && callee.Pkg != nil && callee.Pkg.Pkg.Path() == "strings" &&
				(callee.Name() == "ToUpper" || callee.Name() == "ToLower") && len(x.Call.Args) == 1 {
				visit(x.Call.Args[0], d+1)
			}
		case *ssa.FreeVar:
			fn := x.Parent()
			mc := resMakeClosure(fn)
			if mc == nil {
				return
			}
			for i, fv := range fn.FreeVars {
				if fv == x && i < len(mc.Bindings) {
					visit(mc.Bindings[i], d+1)
				}
			}
		}
	}
	visit(v, 0)
	return out
}

func resIntersect(a, b map[ssa.Value]bool) bool {
	for k := range a {
		if b[k] {
			return true
		}
	}
	return false
}

// resTempLookups: by role. A lookup reads BlockScope.TemporaryTables through the read methods of ViewMap and
// through nothing else; a wrapper (one level) hands one of its own name parameters to a lookup.
func resTempLookups(c *Ctx) (lookups map[*ssa.Function]bool) {
	p := c.P
	lookups = map[*ssa.Function]bool{}
	readers := map[string]bool{"Exists": true, "Get": true, "GetWithInternalId": true, "Load": true, "LoadDirect": true}
	onTemp := func(recv ssa.Value) bool {
		for _, o := range core.Origins(recv, false) {
			var fa ssa.Value
			switch x := o.(type) {
			case *ssa.UnOp:
				fa = x.X
			case *ssa.Field:
				fa = x
			}
			if fa != nil && strings.HasSuffix(core.FieldOwner(fa), "BlockScope.TemporaryTables") {
				return true
			}
		}
		return false
	}
	for _, fn := range p.FuncsIn(false, "lib/query") {
		if fn.Signature.Recv() == nil || !resIsScopeType(fn.Signature.Recv().Type()) {
			continue
		}
		reads, other := 0, 0
		for _, call := range core.Calls(fn) {
			callee := call.Common().StaticCallee()
			if callee == nil || callee.Signature.Recv() == nil || core.NamedOf(callee.Signature.Recv().Type()) != "lib/query.ViewMap" {
				continue
			}
			if len(call.Common().Args) == 0 || !onTemp(call.Common().Args[0]) {
				continue
			}
			if readers[callee.Name()] {
				reads++
			} else {
				other++
			}
		}
		hasName := false
		for _, pa := range fn.Params[1:] {
			if resIsNameType(pa.Type()) {
				hasName = true
			}
		}
		if reads > 0 && other == 0 && hasName {
			lookups[fn] = true
		}
	}
	return lookups
}

// resLookupName returns the name argument of call when it is a temporary-table lookup (or a one-level wrapper).
func resLookupName(p *core.Prog, lookups map[*ssa.Function]bool, call ssa.CallInstruction, depth int) ssa.Value {
	callee := call.Common().StaticCallee()
	if callee == nil || callee.Blocks == nil {
		return nil
	}
	args := call.Common().Args
	if lookups[callee] {
		for i, pa := range callee.Params {
			if i > 0 && i < len(args) && resIsNameType(pa.Type()) {
				return args[i]
			}
		}
		return nil
	}
	if depth > 0 || !(p.InPkg(callee, "lib/query") || p.IsControl(callee)) {
		return nil
	}
	// wrapper: hands its own name parameter to a lookup
	for _, inner := range core.Calls(callee) {
		n := resLookupName(p, lookups, inner, depth+1)
		if n == nil {
			continue
		}
		keys := resNameKeys(n)
		for i, pa := range callee.Params {
			if keys[pa] && resIsNameType(pa.Type()) && i < len(args) {
				return args[i]
			}
		}
	}
	return nil
}

type resSite struct {
	fn     *ssa.Function
	at     ssa.Instruction
	name   ssa.Value
	what   string
	callee *ssa.Function
}

func ruleScp12(c *Ctx) {
	p := c.P
	lookups := resTempLookups(c)
	if len(lookups) < 2 {
		c.Unknown("anchor:temporary-table lookups", "-", fmt.Sprintf("cannot-analyse: %d methods of *ReferenceScope that only read BlockScope.TemporaryTables by name were found (TemporaryTableExists, GetTemporaryTable … expected)", len(lookups)))
		return
	}
	anchors := map[*ssa.Function]bool{}
	for _, n := range []string{resSearchFilePath, resNewFileInfo} {
		if f := c.Fn(n); f != nil {
			anchors[f] = true
		}
	}
	if len(anchors) == 0 {
		return
	}

	worksOnScope := func(fn *ssa.Function) bool {
		for f := fn; f != nil; f = f.Parent() {
			for _, pa := range f.Params {
				if resIsScopeType(pa.Type()) {
					return true
				}
			}
		}
		return false
	}

	// initial sites: calls of the path anchors with a name, in functions that work on a scope
	var work []resSite
	for _, fn := range p.FuncsIn(true, "lib/query") {
		if !worksOnScope(fn) {
			continue
		}
		for _, call := range core.Calls(fn) {
			callee := call.Common().StaticCallee()
			if callee == nil || !anchors[callee] || len(call.Common().Args) == 0 {
				continue
			}
			c.Sites++
			work = append(work, resSite{fn, call.(ssa.Instruction), call.Common().Args[0], callee.Name(), callee})
		}
	}

	type decided struct {
		fn *ssa.Function
		at ssa.Instruction
	}
	done := map[decided]bool{}
	keyCount := map[string]int{}

	var eval func(s resSite, depth int)
	eval = func(s resSite, depth int) {
		if done[decided{s.fn, s.at}] {
			return
		}
		done[decided{s.fn, s.at}] = true
		c.Touch(s.fn)
		keys := resNameKeys(s.name)
		var same []ssa.CallInstruction
		isLookup := map[ssa.Instruction]bool{}
		for _, call := range core.Calls(s.fn) {
			n := resLookupName(p, lookups, call, 0)
			if n != nil && resIntersect(resNameKeys(n), keys) {
				same = append(same, call)
				isLookup[call.(ssa.Instruction)] = true
			}
		}
		mkKey := func() string {
			k := c.KeyAt(s.fn, "file arm "+s.what)
			keyCount[k]++
			if keyCount[k] > 1 {
				k = fmt.Sprintf("%s #%d", k, keyCount[k])
			}
			return k
		}
		explicit := func() bool {
			if s.callee == nil || p.Name(s.callee) != resInlineLoader {
				return false
			}
			ok, d := resFlagOnlyFact(s.at.Block())
			if ok {
				c.Ok(mkKey(), c.Pos(s.at), "accepted: INLINE() / inline-object syntax asks for the file itself — the arm is taken on "+d+", which is computed from parameters and constants only")
			}
			return ok
		}
		passes := len(same) > 0 && !core.ReachesAvoiding(s.fn, s.at, func(in ssa.Instruction) bool { return isLookup[in] })
		if !passes {
			// the decision may lie further out: closure → creator, name parameter → callers
			if depth < 5 {
				if mc := resMakeClosure(s.fn); mc != nil {
					eval(resSite{s.fn.Parent(), mc, s.name, s.what, s.callee}, depth+1)
					return
				}
				for i, pa := range s.fn.Params {
					if !keys[pa] || !resIsNameType(pa.Type()) {
						continue
					}
					callers := p.RealCallers(s.fn)
					n := 0
					for _, e := range callers {
						if e.Site == nil || i >= len(e.Site.Common().Args) || e.Site.Common().StaticCallee() != s.fn {
							continue
						}
						n++
						eval(resSite{e.Caller.Func, e.Site.(ssa.Instruction), e.Site.Common().Args[i], s.fn.Name(), s.fn}, depth+1)
					}
					if n > 0 {
						return
					}
				}
			}
			if explicit() {
				return
			}
			why := "no temporary-table lookup of the same name is called in this function"
			if len(same) > 0 {
				why = fmt.Sprintf("a path from the entry reaches it without the temporary-table lookup at %s", c.Pos(same[0].(ssa.Instruction)))
			}
			c.Bad(mkKey(), c.Pos(s.at), fmt.Sprintf("the table name goes on to the file system (%s) although %s: a temporary table of the running block or function with that name is not seen — the file hides the local object", s.what, why))
			return
		}
		// (2) the branch that leads here is the lookup's alone, on "not declared"
		verdict, detail := resNotDeclaredFact(p, s.at.Block(), isLookup)
		switch verdict {
		case "ok":
			c.Ok(mkKey(), c.Pos(s.at), "every path from the entry passes the temporary-table lookup of the same name and the file arm stands under its 'not declared' branch ("+detail+")")
		default:
			if explicit() {
				return
			}
			c.Bad(mkKey(), c.Pos(s.at), "the temporary-table lookup of the same name is called, but the file arm ("+s.what+") does not stand under a branch decided by its result alone ("+detail+"): something else can send the name to the file system past a temporary table of the running block or function")
		}
	}

	sort.SliceStable(work, func(i, j int) bool { return c.Pos(work[i].at) < c.Pos(work[j].at) })
	for _, s := range work {
		eval(s, 0)
	}
}

// resNotDeclaredFact looks among the branch facts that hold at block b for one whose condition is the result of a
// same-name lookup, with the polarity "not declared".
func resNotDeclaredFact(p *core.Prog, b *ssa.BasicBlock, isLookup map[ssa.Instruction]bool) (string, string) {
	lookupOf := func(v ssa.Value) (*ssa.Call, bool) {
		switch x := v.(type) {
		case *ssa.Call:
			if isLookup[x] {
				return x, true
			}
		case *ssa.Extract:
			if call, ok := x.Tuple.(*ssa.Call); ok && isLookup[call] {
				return call, true
			}
		}
		return nil, false
	}
	derived := ""
	for _, f := range core.FactsAt(b) {
		cond, neg := core.UnNot(f.Cond)
		holds := f.Neg == neg // cond itself is true here
		if call, ok := lookupOf(cond); ok && core.NamedOf(cond.Type()) == "" {
			if bt, isB := cond.Type().Underlying().(*types.Basic); isB && bt.Kind() == types.Bool {
				if !holds {
					return "ok", p.CalleeName(call) + " answered false"
				}
				derived = p.CalleeName(call) + " answered true"
				continue
			}
		}
		if x, isNeq, ok := core.NilCmp(cond); ok {
			// read through a cell (named result / spilled variable)
			vals := []ssa.Value{x}
			if u, isLoad := x.(*ssa.UnOp); isLoad && u.Op == token.MUL {
				if st, complete := core.StoresTo(u.X); complete {
					vals = st
				}
			}
			all := len(vals) > 0
			var call *ssa.Call
			for _, v := range vals {
				cc, ok := lookupOf(v)
				if !ok {
					all = false
					break
				}
				call = cc
			}
			if all && call != nil {
				nonNil := holds == isNeq
				if core.IsErrorType(x.Type()) {
					if nonNil {
						return "ok", p.CalleeName(call) + " reported an error"
					}
					derived = p.CalleeName(call) + " reported no error"
				} else {
					if !nonNil {
						return "ok", p.CalleeName(call) + " returned nil"
					}
					derived = p.CalleeName(call) + " returned a view"
				}
			}
		}
	}
	if derived != "" {
		return "bad", "it stands under the branch where " + derived
	}
	return "bad", "no branch on the lookup's result dominates it with a single way in"
}

// resFlagOnlyFact: a true-branch fact at b whose condition is made of parameters and constants only.
func resFlagOnlyFact(b *ssa.BasicBlock) (bool, string) {
	for _, f := range core.FactsAt(b) {
		cond, neg := core.UnNot(f.Cond)
		if f.Neg != neg {
			continue
		}
		os := core.Origins(cond, false)
		if len(os) == 0 {
			continue
		}
		ok := true
		name := ""
		for _, o := range os {
			switch x := o.(type) {
			case *ssa.Parameter:
				name = x.Name()
			case *ssa.Const:
			default:
				ok = false
			}
		}
		if ok && name != "" {
			return true, "the flag " + name
		}
	}
	return false, ""
}
