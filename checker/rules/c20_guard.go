package rules

import (
	"fmt"
	"go/types"
	"sort"
	"strings"

	"golang.org/x/tools/go/ssa"

	"verif/checker/core"
)

// R-CACHE-4 — the reload guard's memory is written on every load path.
//
// R-CACHE-1 decides WHEN a table is (re)read: ¬isCached ∨ (forUpdate ∧
// ¬cachedForUpdate). cachedForUpdate is the field FileInfo.ForUpdate of the view
// that sits in the view container; the guard is only a fixpoint ("the documented
// reload happens at most once per table and transaction, and it does happen when
// a read-only cached table is first accessed for update") if every (re)load
// leaves that field equal to the forUpdate it was made with, in the object that
// is filed in the container. This rule decides exactly that, by role:
//
//	subject      every lib/query function with one bool parameter (forUpdate) in which
//	             a call that reads the file (reaches loadViewFromFile / file.NewReader)
//	             can be followed by a publication (ViewMap).Set / Store
//	memory       the FileInfo fields loaded in the branch conditions (cachedForUpdate atom)
//	post-state   for each of the 8 assignments of {isCached, forUpdate, cachedForUpdate}
//	             under which the publication is reachable, and each path consistent with
//	             it: the value last stored into that field of the FileInfo of the
//	             published view (directly, or by a static callee up to two levels deep),
//	             evaluated under the assignment; no store = the field keeps its value
//	             (cached FileInfo reused) or is false (new FileInfo)
//	fixpoint     a second call with the same forUpdate does not reach the (re)load, and a
//	             later call with forUpdate=true after a read-only load still does

func init() {
	Register(&Rule{ID: "R-CACHE-4", Props: []string{"C20", "C09", "C01", "C05"}, Floor: 1,
		Doc:      "in every lib/query function with a forUpdate parameter that (re)reads a table file and files the view in a view container (cacheViewFromFile is the frozen anchor; any other loader whose reload guard reads FileInfo.ForUpdate of the cached view, such as the stdin loader, is a subject too), for each of the 8 assignments of {isCached, forUpdate, cachedForUpdate} that reach the publication and every path consistent with it, the value last stored into FileInfo.ForUpdate of the published view's FileInfo (a direct store or one made by a static callee ≤ 2 levels deep; no store = the reused cached value / false for a new FileInfo) makes the guard a fixpoint: re-evaluating the function's own branch conditions with isCached=true and that post-state, the same forUpdate does not reload again (else the view holding the transaction's uncommitted changes is dropped and re-read), and forUpdate=true after a read-only load still reloads (else the table is changed without its update lock)",
		Controls: []string{"CtlGuardMemoryOnlyOnNewFileInfo", "CtlGuardMemoryAlwaysTrue", "CtlGuardMemoryNeverWritten"},
		Run:      ruleCache4})
}

const gmField = "lib/query.FileInfo.ForUpdate"

// gmEvent: an instruction that writes the guard field of some FileInfo.
type gmEvent struct {
	in   ssa.Instruction
	base ssa.Value // *FileInfo written (nil if view != nil)
	view ssa.Value // *View whose FileInfo is written (helper taking the view)
	val  ssa.Value // stored value (nil when konst is used)
	kon  *bool
	how  string
}

// gmSummary: a function that, on every path to its exits, writes the guard field
// of the FileInfo of parameter obj (a *View or *FileInfo) with parameter val / a constant.
type gmSummary struct {
	obj    int
	isView bool
	val    int // -1: constant
	kon    bool
}

func gmIsGuardFieldStore(in ssa.Instruction) (*ssa.Store, *ssa.FieldAddr) {
	st, ok := in.(*ssa.Store)
	if !ok {
		return nil, nil
	}
	fa, ok := st.Addr.(*ssa.FieldAddr)
	if !ok || core.FieldOwner(fa) != gmField {
		return nil, nil
	}
	return st, fa
}

// gmViewOfFileInfo: b is `v.FileInfo` for some *View v.
func gmViewOfFileInfo(b ssa.Value) ssa.Value {
	if fa := fxFieldLoad(b); fa != nil && isViewFileInfoField(fa.X, fa.Field) {
		return fa.X
	}
	return nil
}

func gmParamIndex(fn *ssa.Function, v ssa.Value) int {
	for _, o := range core.Origins(v, false) {
		if p, ok := o.(*ssa.Parameter); ok {
			for i, x := range fn.Params {
				if x == p {
					return i
				}
			}
		}
	}
	return -1
}

var gmSumMemo = map[*ssa.Function]map[int]*gmSummary{}

// gmSummarise computes the helper summary of f, following static callees
// `depth` further levels.
func gmSummarise(p *core.Prog, f *ssa.Function, depth int) *gmSummary {
	if f == nil || f.Blocks == nil || !inModule(f) {
		return nil
	}
	if m, ok := gmSumMemo[f]; ok {
		if s, ok := m[depth]; ok {
			return s
		}
	} else {
		gmSumMemo[f] = map[int]*gmSummary{}
	}
	gmSumMemo[f][depth] = nil
	var sum *gmSummary
	consistent := true
	events := map[ssa.Instruction]bool{}
	note := func(in ssa.Instruction, s gmSummary) {
		if sum == nil {
			c := s
			sum = &c
		} else if *sum != s {
			consistent = false
		}
		events[in] = true
	}
	for _, b := range f.Blocks {
		for _, in := range b.Instrs {
			if st, fa := gmIsGuardFieldStore(in); st != nil {
				s := gmSummary{obj: -1, val: -1}
				if v := gmViewOfFileInfo(fa.X); v != nil {
					s.obj, s.isView = gmParamIndex(f, v), true
				} else {
					s.obj = gmParamIndex(f, fa.X)
				}
				if k, ok := core.ConstBool(st.Val); ok {
					s.kon = k
				} else if s.val = gmParamIndex(f, st.Val); s.val < 0 {
					consistent = false
				}
				if s.obj < 0 {
					continue // writes some other FileInfo
				}
				note(in, s)
				continue
			}
			call, ok := in.(*ssa.Call)
			if !ok || depth == 0 {
				continue
			}
			cs := gmSummarise(p, core.StaticCallee(call), depth-1)
			if cs == nil || cs.obj >= len(call.Common().Args) {
				continue
			}
			s := gmSummary{obj: gmParamIndex(f, call.Common().Args[cs.obj]), isView: cs.isView, val: -1, kon: cs.kon}
			if !cs.isView {
				if v := gmViewOfFileInfo(call.Common().Args[cs.obj]); v != nil {
					s.obj, s.isView = gmParamIndex(f, v), true
				}
			}
			if cs.val >= 0 {
				if cs.val >= len(call.Common().Args) {
					continue
				}
				arg := call.Common().Args[cs.val]
				if k, ok := core.ConstBool(arg); ok {
					s.kon = k
				} else if s.val = gmParamIndex(f, arg); s.val < 0 {
					consistent = false
				}
			}
			if s.obj < 0 {
				continue
			}
			note(in, s)
		}
	}
	if sum == nil || !consistent {
		return nil
	}
	// on every path from the entry to an exit
	if esc := core.EscapeFromEntry(f, func(in ssa.Instruction) bool { return events[in] }, nil); esc != nil {
		return nil
	}
	gmSumMemo[f][depth] = sum
	return sum
}

type gmSubject struct {
	fn      *ssa.Function
	at      *fxAtoms
	reloads []ssa.CallInstruction
	pubs    []ssa.CallInstruction
}

// gmCondMentions: the branch condition is built from value p (through ! and ==).
func gmCondMentions(v ssa.Value, p ssa.Value) bool {
	switch x := v.(type) {
	case *ssa.UnOp:
		return gmCondMentions(x.X, p)
	case *ssa.BinOp:
		return gmCondMentions(x.X, p) || gmCondMentions(x.Y, p)
	}
	return v == p
}

// gmAtoms recognises the guard inputs; forUpdate is the bool parameter tested in a
// branch from which a (re)load is still reachable (the only bool parameter, or the
// only one tested before the load).
func gmAtoms(c *Ctx, fn *ssa.Function, reloads []ssa.CallInstruction) *fxAtoms {
	var bools []*ssa.Parameter
	for _, p := range fn.Params {
		if b, ok := p.Type().Underlying().(*types.Basic); ok && b.Kind() == types.Bool {
			bools = append(bools, p)
		}
	}
	var fu *ssa.Parameter
	if len(bools) == 1 {
		fu = bools[0]
	} else {
		var cands []*ssa.Parameter
		for _, p := range bools {
			tested := false
			for _, b := range fn.Blocks {
				iff, ok := blockTerm(b).(*ssa.If)
				if !ok || !gmCondMentions(iff.Cond, p) {
					continue
				}
				for _, r := range reloads {
					if core.Reachable(iff, r.(ssa.Instruction), nil) {
						tested = true
					}
				}
			}
			if tested {
				cands = append(cands, p)
			}
		}
		if len(cands) > 1 {
			// tie-break by role: the parameter the memory field is written with
			var stored []*ssa.Parameter
			for _, p := range cands {
				hit := false
				for _, b := range fn.Blocks {
					for _, in := range b.Instrs {
						if st, _ := gmIsGuardFieldStore(in); st != nil && st.Val == ssa.Value(p) {
							hit = true
						}
						if call, ok := in.(*ssa.Call); ok {
							if cs := gmSummarise(c.P, core.StaticCallee(call), 1); cs != nil && cs.val >= 0 && cs.val < len(call.Common().Args) && call.Common().Args[cs.val] == ssa.Value(p) {
								hit = true
							}
						}
					}
				}
				if hit {
					stored = append(stored, p)
				}
			}
			cands = stored
		}
		if len(cands) == 1 {
			fu = cands[0]
		}
	}
	if fu == nil {
		return nil
	}
	isLoad := func(f *ssa.Function) bool {
		return f.Name() == "Load" && f.Signature.Recv() != nil && core.NamedOf(f.Signature.Recv().Type()) == "lib/query.ViewMap"
	}
	loaders := c.P.Reachers(isLoad)
	return &fxAtoms{forUpdate: fu,
		isCached: func(v ssa.Value) bool {
			if b, ok := v.Type().Underlying().(*types.Basic); !ok || b.Kind() != types.Bool {
				return false
			}
			call, _ := fxCallOf(v)
			return call != nil && c.P.CallMayReach(call, loaders)
		},
		cachedFU: func(v ssa.Value) bool {
			fa := fxFieldLoad(v)
			return fa != nil && core.FieldOwner(fa) == gmField
		},
	}
}

func gmPublishedView(p *core.Prog, call ssa.CallInstruction) ssa.Value {
	args := call.Common().Args
	switch p.CalleeName(call) {
	case "lib/query.(ViewMap).Set":
		if len(args) == 2 {
			return args[1]
		}
	case "lib/query.(ViewMap).Store":
		if len(args) == 3 {
			return args[2]
		}
	}
	return nil
}

// gmSubjectOf recognises a (re)load-and-publish function.
func gmSubjectOf(c *Ctx, fn *ssa.Function) *gmSubject {
	if fn.Blocks == nil {
		return nil
	}
	readers := c.P.ReachersOfNames("lib/query.loadViewFromFile", "lib/file.NewReader")
	s := &gmSubject{fn: fn}
	s.reloads = core.CallsWhere(fn, func(ci ssa.CallInstruction) bool {
		if _, isDefer := ci.(*ssa.Defer); isDefer {
			return false
		}
		return c.P.CallMayReach(ci, readers)
	})
	if len(s.reloads) == 0 {
		return nil
	}
	if s.at = gmAtoms(c, fn, s.reloads); s.at == nil {
		return nil
	}
	for _, call := range core.Calls(fn) {
		if gmPublishedView(c.P, call) == nil || isFreshViewMap(c.P, call.Common().Args[0]) {
			continue
		}
		// the publication follows a (re)load, and is not itself part of one
		after := false
		for _, r := range s.reloads {
			if r != call && core.Reachable(r.(ssa.Instruction), call.(ssa.Instruction), nil) {
				after = true
			}
		}
		isReload := false
		for _, r := range s.reloads {
			if r == call {
				isReload = true
			}
		}
		if after && !isReload {
			s.pubs = append(s.pubs, call)
		}
	}
	if len(s.pubs) == 0 {
		return nil
	}
	return s
}

// gmEventsFor lists the instructions of fn that write the guard field of the
// FileInfo of the view published by pub.
func gmEventsFor(c *Ctx, fn *ssa.Function, pub ssa.CallInstruction) map[ssa.Instruction]*gmEvent {
	p := c.P
	V := gmPublishedView(p, pub)
	pin := pub.(ssa.Instruction)
	fe := fiEngineFor(p)
	sameView := func(v ssa.Value, at ssa.Instruction) bool {
		if v == V {
			return true
		}
		return sameObjectAt(v, at, V, pin)
	}
	// FileInfo values that become the FileInfo of V: arguments of the loader V comes from
	loaderFI := map[ssa.Value]bool{}
	for _, o := range core.Origins(V, false) {
		call, idx, ok := core.ExtractOf(o)
		if !ok || idx != 0 {
			continue
		}
		if f := core.StaticCallee(call); f != nil {
			if j, ok := fe.viewFI[f]; ok && j >= 0 && j < len(call.Common().Args) {
				arg := call.Common().Args[j]
				loaderFI[arg] = true
				for _, ao := range core.Origins(arg, false) {
					loaderFI[ao] = true
				}
			}
		}
	}
	// … and FileInfo values this function assigns to field FileInfo of V
	for _, st := range fileInfoFieldStores(fn) {
		if sameView(st.Addr.(*ssa.FieldAddr).X, st) {
			loaderFI[st.Val] = true
			for _, ao := range core.Origins(st.Val, false) {
				loaderFI[ao] = true
			}
		}
	}
	isPublishedFI := func(b ssa.Value, at ssa.Instruction) bool {
		if v := gmViewOfFileInfo(b); v != nil && sameView(v, at) {
			return true
		}
		if loaderFI[b] {
			return true
		}
		for _, o := range core.Origins(b, false) {
			if loaderFI[o] {
				return true
			}
		}
		return false
	}
	out := map[ssa.Instruction]*gmEvent{}
	for _, b := range fn.Blocks {
		for _, in := range b.Instrs {
			if st, fa := gmIsGuardFieldStore(in); st != nil {
				if isPublishedFI(fa.X, in) {
					out[in] = &gmEvent{in: in, base: fa.X, val: st.Val, how: "store"}
				}
				continue
			}
			call, ok := in.(*ssa.Call)
			if !ok {
				continue
			}
			f := core.StaticCallee(call)
			cs := gmSummarise(p, f, 1)
			if cs == nil || cs.obj >= len(call.Common().Args) {
				continue
			}
			obj := call.Common().Args[cs.obj]
			if cs.isView && !sameView(obj, in) {
				continue
			}
			if !cs.isView && !isPublishedFI(obj, in) {
				continue
			}
			ev := &gmEvent{in: in, how: "call of " + p.FnRef(f)}
			if cs.val >= 0 && cs.val < len(call.Common().Args) {
				ev.val = call.Common().Args[cs.val]
			} else {
				k := cs.kon
				ev.kon = &k
			}
			out[in] = ev
		}
	}
	return out
}

// post-state tags
const (
	gmNone = iota
	gmTrue
	gmFalse
	gmOpaque
)

func ruleCache4(c *Ctx) {
	p := c.P
	anchor := c.Fn("lib/query.cacheViewFromFile")
	subjects := map[*ssa.Function]*gmSubject{}
	var order []*ssa.Function
	for _, fn := range p.FuncsIn(true, "lib/query") {
		if s := gmSubjectOf(c, fn); s != nil {
			subjects[fn] = s
			order = append(order, fn)
		}
	}
	sortFuncs(p, order)
	// static callees of the anchor, up to two levels down: a (re)load + publication
	// moved into a helper is judged there, against the guard's specification
	helperOf := map[*ssa.Function]bool{}
	if anchor != nil {
		level := []*ssa.Function{anchor}
		for d := 0; d < 2; d++ {
			var next []*ssa.Function
			for _, f := range level {
				for _, call := range core.Calls(f) {
					if g := core.StaticCallee(call); g != nil && inModule(g) && !helperOf[g] {
						helperOf[g] = true
						next = append(next, g)
					}
				}
			}
			level = next
		}
	}
	anchorJudged := false
	tf := func(b bool) string {
		if b {
			return "T"
		}
		return "F"
	}
	for _, fn := range order {
		s := subjects[fn]
		c.Touch(fn)
		events := map[ssa.CallInstruction]map[ssa.Instruction]*gmEvent{}
		isPub := map[ssa.Instruction]ssa.CallInstruction{}
		for _, pub := range s.pubs {
			events[pub] = gmEventsFor(c, fn, pub)
			isPub[pub.(ssa.Instruction)] = pub
		}
		var used [3]bool
		// walk: all paths consistent with asg from the entry; returns the post-state
		// tags with which each publication is reached
		type res struct {
			pub ssa.CallInstruction
			tag int
			ev  *gmEvent
		}
		// per publication: its events in a fixed order; the walk state holds, per
		// publication, the id (index+1) of the last event crossed, 0 = none
		evList := map[ssa.CallInstruction][]*gmEvent{}
		evID := map[ssa.CallInstruction]map[ssa.Instruction]int{}
		for _, pub := range s.pubs {
			var ins []ssa.Instruction
			for in := range events[pub] {
				ins = append(ins, in)
			}
			sort.Slice(ins, func(i, j int) bool { return ins[i].Pos() < ins[j].Pos() })
			evID[pub] = map[ssa.Instruction]int{}
			for i, in := range ins {
				evList[pub] = append(evList[pub], events[pub][in])
				evID[pub][in] = i + 1
			}
		}
		evalEvent := func(ev *gmEvent, asg [3]bool) int {
			if ev.kon != nil {
				if *ev.kon {
					return gmTrue
				}
				return gmFalse
			}
			if v, known := fxEvalCond(ev.val, s.at, asg, &used); known {
				if v {
					return gmTrue
				}
				return gmFalse
			}
			return gmOpaque
		}
		walk := func(asg [3]bool) []res {
			var out []res
			type st struct {
				b   *ssa.BasicBlock
				ids [4]int
			}
			seen := map[st]bool{}
			var rec func(b *ssa.BasicBlock, ids [4]int)
			rec = func(b *ssa.BasicBlock, ids [4]int) {
				k := st{b, ids}
				if seen[k] {
					return
				}
				seen[k] = true
				for _, in := range b.Instrs {
					for i, pub := range s.pubs {
						if i >= 4 {
							break
						}
						if id := evID[pub][in]; id != 0 {
							ids[i] = id
						}
						if in == pub.(ssa.Instruction) {
							r := res{pub: pub, tag: gmNone}
							if ids[i] != 0 {
								r.ev = evList[pub][ids[i]-1]
								r.tag = evalEvent(r.ev, asg)
							}
							out = append(out, r)
						}
					}
				}
				if iff, ok := blockTerm(b).(*ssa.If); ok && len(b.Succs) == 2 {
					if v, known := fxEvalCond(iff.Cond, s.at, asg, &used); known {
						if v {
							rec(b.Succs[0], ids)
						} else {
							rec(b.Succs[1], ids)
						}
						return
					}
				}
				for _, sc := range b.Succs {
					rec(sc, ids)
				}
			}
			rec(fn.Blocks[0], [4]int{})
			return out
		}
		reachesPub := func(asg [3]bool) bool { return len(walk(asg)) > 0 }
		type cell struct {
			asg [3]bool
			rs  []res
		}
		var cells []cell
		for i := 0; i < 8; i++ {
			asg := [3]bool{i&4 != 0, i&2 != 0, i&1 != 0}
			if rs := walk(asg); len(rs) > 0 {
				cells = append(cells, cell{asg, rs})
			}
		}
		guardKnown := used[0] && used[1]
		// in scope: the function's own guard reads the memory field (full subject), or
		// it is a helper of the anchor; a loader whose guard remembers its state
		// elsewhere (not in FileInfo.ForUpdate) is outside this rule
		if !(guardKnown && used[2]) && !(helperOf[fn] && !guardKnown) && !c.P.IsControl(fn) {
			continue
		}
		if fn == anchor || helperOf[fn] {
			anchorJudged = true
		}
		key := c.KeyAt(fn, "guard memory (FileInfo.ForUpdate of the published view) after every (re)load")
		var bad, good []string
		seenMsg := map[string]bool{}
		nres := 0
		for _, cl := range cells {
			if !guardKnown && !(!cl.asg[0] || (cl.asg[1] && !cl.asg[2])) {
				continue // the guard lives in the caller: only the assignments its specification lets through
			}
			world := fmt.Sprintf("[isCached=%s forUpdate=%s cachedForUpdate=%s] ", tf(cl.asg[0]), tf(cl.asg[1]), tf(cl.asg[2]))
			for _, r := range cl.rs {
				nres++
				var post bool
				src := ""
				switch r.tag {
				case gmTrue, gmFalse:
					post = r.tag == gmTrue
					src = fmt.Sprintf("%s at %s sets it to %v", r.ev.how, c.Pos(r.ev.in), post)
				case gmNone:
					if cl.asg[0] {
						post = cl.asg[2]
						src = fmt.Sprintf("no write on the path to the publication at %s: the reused FileInfo keeps %v", c.Pos(r.pub.(ssa.Instruction)), post)
					} else {
						post = false
						src = fmt.Sprintf("no write on the path to the publication at %s: a new FileInfo starts with false", c.Pos(r.pub.(ssa.Instruction)))
					}
				case gmOpaque:
					msg := fmt.Sprintf("%s at %s stores %s, which is not a function of forUpdate", r.ev.how, c.Pos(r.ev.in), valueLabel(r.ev.val))
					if !seenMsg[msg] {
						seenMsg[msg] = true
						bad = append(bad, msg)
					}
					continue
				}
				fu := cl.asg[1]
				var again, upgrade bool
				if guardKnown {
					again = reachesPub([3]bool{true, fu, post})
					upgrade = fu || reachesPub([3]bool{true, true, post})
				} else {
					// the guard lives elsewhere: its specification is ¬isCached ∨ (forUpdate ∧ ¬cachedForUpdate)
					again = fu && !post
					upgrade = fu || !post
				}
				msg := ""
				switch {
				case again:
					msg = world + src + fmt.Sprintf("; the next access with forUpdate=%v takes the (re)load branch again: it acquires the lock a second time, re-reads the source and replaces the view that holds this transaction's uncommitted changes (earlier changes vanish, COMMIT writes only the last statement)", fu)
				case !upgrade:
					msg = world + src + " although the table was loaded read-only; a later data-changing access finds cachedForUpdate=true, does not reload and changes the table without holding its update lock"
				default:
					good = append(good, src)
					continue
				}
				if !seenMsg[msg] {
					seenMsg[msg] = true
					bad = append(bad, msg)
				}
			}
		}
		if len(cells) > 0 {
			pos := c.Pos(s.pubs[0].(ssa.Instruction))
			if len(bad) > 0 {
				sort.Strings(bad)
				c.Bad(key, pos, "the reload guard is not a fixpoint of the state this function leaves behind: "+strings.Join(bad, " | "))
			} else {
				c.OkN(key, pos, fmt.Sprintf("%d of 8 assignments of {isCached, forUpdate, cachedForUpdate} reach the publication (%d path classes); post-state: %s; re-evaluating the guard with isCached=T and that value, the same access never reloads again and a first access for update after a read-only load still does", len(cells), nres, strings.Join(dedup(good), " / ")), nres)
			}
		}
		if len(cells) == 0 {
			c.Unknown(c.KeyAt(fn, "guard memory"), c.FnPos(fn), "the publication is not reachable under any assignment of the guard inputs")
		}
	}
	if anchor != nil && !anchorJudged {
		c.Unknown(c.KeyAt(anchor, "guard memory"), c.FnPos(anchor), "cannot-analyse: neither cacheViewFromFile (with a guard that reads FileInfo.ForUpdate of the cached view) nor a static callee (2 levels) contains a file (re)load followed by a publication into a view container next to a forUpdate parameter")
	}
}
