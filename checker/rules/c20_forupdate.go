package rules

import (
	"fmt"
	"go/token"
	"sort"

	"golang.org/x/tools/go/ssa"

	"verif/checker/core"
)

// R-LOCK-8 — forUpdate is propagated, not re-invented (C20: what a transaction
// loaded FOR UPDATE stays locked and is not reloaded behind its back; C09).
//
// Every table loader and everything between query.Select and the loaders carries
// a bool parameter forUpdate. A function on that chain that hands a constant
// false (or an unrelated value) down loads part of a FOR UPDATE query unlocked.

func init() {
	Register(&Rule{ID: "R-LOCK-8", Props: []string{"C20", "C09"}, Floor: 20,
		Doc:      "forUpdate is propagated: (A) in every lib/query function that has a bool parameter forUpdate, each call of a function with such a parameter passes a value that is true whenever the caller's own forUpdate is true — the parameter itself (also through a captured or local cell that only it is stored into), constant true, or a phi whose other edges are taken only when the parameter is false; the one exception is loadView's reset to false for inline data objects (CSV_INLINE/JSON_INLINE/JSON_TABLE: the data is in the statement, there is no file to lock), accepted only while the false value is reachable solely through the comparison of the format token with those constants; (B) a function without the parameter that calls one with it is an origin of the flag: it may pass constant true (the data-changing statements), a value computed from (parser.SelectQuery).IsForUpdate() (query.Select decides from the statement's own FOR UPDATE context — sub-queries do not inherit the flag today, in FROM, in set-operator operands and in expressions alike), or something else (constant false: read-only loads such as SHOW FIELDS, CREATE TABLE IF NOT EXISTS) only if it is not on the way, i.e. not called — directly or through two levels of parameter-less helpers — by a function that has the parameter; a helper on the way that drops the flag is reported at the value it passes",
		Controls: []string{"ctlLock8Operand", "CtlLock8PassesFalse"},
		Run:      ruleLock8})
}

// lock8Implied: value v is true whenever param is true.
func lock8Implied(v ssa.Value, param *ssa.Parameter, seen map[ssa.Value]bool) bool {
	if v == nil || seen[v] {
		return v != nil
	}
	seen[v] = true
	if v == ssa.Value(param) {
		return true
	}
	if b, ok := core.ConstBool(v); ok {
		return b
	}
	switch x := v.(type) {
	case *ssa.Phi:
		for i, e := range x.Edges {
			if lock8Implied(e, param, seen) {
				continue
			}
			// the edge is taken only when the parameter is false
			pred := x.Block().Preds[i]
			onlyFalse := false
			for _, f := range core.EdgeFacts(pred, x.Block()) {
				if lock8IsParam(f.Cond, param) && f.Neg {
					onlyFalse = true
				}
			}
			if !onlyFalse {
				return false
			}
		}
		return true
	case *ssa.UnOp:
		if x.Op == token.MUL {
			switch cell := x.X.(type) {
			case *ssa.Alloc, *ssa.FreeVar:
				vals, complete := core.StoresTo(cell)
				if !complete || len(vals) == 0 {
					return false
				}
				for _, s := range vals {
					if !lock8StoredImplied(s, param, seen) {
						return false
					}
				}
				return true
			}
		}
	case *ssa.BinOp:
		if x.Op == token.OR || x.Op == token.LOR {
			return lock8Implied(x.X, param, seen) || lock8Implied(x.Y, param, seen)
		}
	}
	return false
}

// lock8IsParam: v is the parameter, or a load of a local/captured cell into
// which only the parameter is stored.
func lock8IsParam(v ssa.Value, param *ssa.Parameter) bool {
	if v == ssa.Value(param) {
		return true
	}
	u, ok := v.(*ssa.UnOp)
	if !ok || u.Op != token.MUL {
		return false
	}
	switch cell := u.X.(type) {
	case *ssa.Alloc, *ssa.FreeVar:
		vals, complete := core.StoresTo(cell)
		if !complete || len(vals) == 0 {
			return false
		}
		for _, s := range vals {
			if pa, isParam := s.(*ssa.Parameter); !isParam || pa.Name() != "forUpdate" {
				return false
			}
		}
		return true
	}
	return false
}

// lock8StoredImplied: a value stored into the cell of the parameter: the
// parameter of the function owning the cell (also when we are in a closure).
func lock8StoredImplied(s ssa.Value, param *ssa.Parameter, seen map[ssa.Value]bool) bool {
	if pa, ok := s.(*ssa.Parameter); ok && pa.Name() == "forUpdate" {
		return true
	}
	return lock8Implied(s, param, seen)
}

// lock8OwnParam returns fn's (or, for a closure, its outermost parent's)
// forUpdate parameter.
func lock8OwnParam(fn *ssa.Function) *ssa.Parameter {
	for f := fn; f != nil; f = f.Parent() {
		if i := lock7ForUpdateParam(f); i >= 0 {
			return f.Params[i]
		}
	}
	return nil
}

func ruleLock8(c *Ctx) {
	p := c.P
	loadView := c.Fn(lock7Prim)
	if loadView == nil {
		return
	}
	var fns []*ssa.Function
	fns = append(fns, p.FuncsIn(false, "lib/query")...)
	fns = append(fns, txnCtl(c, "Lock8")...)

	hasParam := func(f *ssa.Function) bool { return f != nil && lock8OwnParam(f) != nil }
	inlineTokens := []int64{}
	for _, n := range []string{"CSV_INLINE", "JSON_INLINE", "JSON_TABLE"} {
		if v, ok := txnConst(p, "lib/parser", n); ok {
			inlineTokens = append(inlineTokens, v)
		}
	}
	isTokenField := func(v ssa.Value) bool {
		switch x := v.(type) {
		case *ssa.Field:
			return core.FieldOwner(x) == "lib/parser.Token.Token"
		case *ssa.UnOp:
			if fa, ok := x.X.(*ssa.FieldAddr); ok && x.Op == token.MUL {
				return core.FieldOwner(fa) == "lib/parser.Token.Token"
			}
		}
		return false
	}
	// loadView's documented reset: every false edge of the phi is reachable only
	// through `Type.Token == CSV_INLINE|JSON_INLINE|JSON_TABLE`
	inlineReset := func(fn *ssa.Function, v ssa.Value, param *ssa.Parameter) bool {
		if fn != loadView || len(inlineTokens) != 3 {
			return false
		}
		cut := func(from, to *ssa.BasicBlock) bool {
			for _, k := range inlineTokens {
				if txnEqEdge(from, to, isTokenField, k) {
					return true
				}
			}
			return false
		}
		ok := true
		seen := map[ssa.Value]bool{}
		var walk func(v ssa.Value)
		walk = func(v ssa.Value) {
			if seen[v] || !ok {
				return
			}
			seen[v] = true
			ph, isPhi := v.(*ssa.Phi)
			if !isPhi {
				if !lock8Implied(v, param, map[ssa.Value]bool{}) {
					ok = false
				}
				return
			}
			for i, e := range ph.Edges {
				if b, isConst := core.ConstBool(e); isConst && !b {
					pred := ph.Block().Preds[i]
					if in := core.BlockInstr(pred); in == nil || core.ReachesFromEntry(fn, in, nil, cut) {
						ok = false
					}
					continue
				}
				walk(e)
			}
		}
		walk(v)
		return ok
	}

	type origin struct {
		fn   *ssa.Function
		call *ssa.Call
		arg  ssa.Value
		k    *ssa.Function
	}
	var origins []origin
	nA := 0
	for _, fn := range fns {
		own := lock8OwnParam(fn)
		ord := map[string]int{}
		for _, call := range core.Calls(fn) {
			cc, ok := call.(*ssa.Call)
			if !ok {
				continue
			}
			k := core.StaticCallee(cc)
			if k == nil || !txnIsSrc(p, k) {
				continue
			}
			j := lock7ForUpdateParam(k)
			if j < 0 || j >= len(cc.Call.Args) {
				continue
			}
			arg := cc.Call.Args[j]
			if own == nil {
				origins = append(origins, origin{fn, cc, arg, k})
				continue
			}
			// (A) propagation
			nA++
			c.Sites++
			c.Touch(fn)
			key := txnOrd(ord, c.KeyAt(fn, "forUpdate handed to "+p.FnRef(k)))
			switch {
			case lock8Implied(arg, own, map[ssa.Value]bool{}):
				c.Ok(key, c.Pos(cc), "passes its own forUpdate (or a value that is true whenever it is)")
			case inlineReset(fn, arg, own):
				c.Ok(key, c.Pos(cc), "exception: reset to false only for inline data objects (CSV_INLINE/JSON_INLINE/JSON_TABLE have no file to lock); every false edge lies behind the comparison of the format token with these constants")
			default:
				c.Bad(key, c.Pos(cc), fmt.Sprintf("the function is called with forUpdate but hands %s to %s: when its own forUpdate is true this value can be false, so part of a FOR UPDATE query / data-changing statement is loaded without a lock and with FileInfo.ForUpdate=false; a later update takes the reload branch and the transaction sees another process's data", lock8ValueLabel(arg), p.FnRef(k)))
			}
		}
	}
	if nA == 0 {
		c.Unknown("forUpdate chain", "-", "cannot-analyse: no lib/query function with a forUpdate parameter calls another one any more")
		return
	}

	// (B) origins
	// onTheWay: f is called (statically, directly or through ≤2 parameter-less
	// non-deciding helpers) by a function that has the parameter
	var onTheWay func(f *ssa.Function, depth int, seen map[*ssa.Function]bool) *ssa.Function
	onTheWay = func(f *ssa.Function, depth int, seen map[*ssa.Function]bool) *ssa.Function {
		if seen[f] {
			return nil
		}
		seen[f] = true
		target := f
		for target.Parent() != nil {
			target = target.Parent()
		}
		for _, e := range p.Callers(target) {
			g := e.Caller.Func
			if e.Site == nil || core.StaticCallee(e.Site) != target || !txnIsSrc(p, g) {
				continue
			}
			if hasParam(g) {
				return g
			}
			if depth < 2 && !lock8Decides(p, g) {
				if w := onTheWay(g, depth+1, seen); w != nil {
					return w
				}
			}
		}
		return nil
	}
	sort.SliceStable(origins, func(i, j int) bool { return p.Name(origins[i].fn) < p.Name(origins[j].fn) })
	ord := map[string]int{}
	for _, o := range origins {
		c.Sites++
		c.Touch(o.fn)
		key := txnOrd(ord, c.KeyAt(o.fn, "decides forUpdate for "+p.FnRef(o.k)))
		if b, isConst := core.ConstBool(o.arg); isConst && b {
			c.Ok(key, c.Pos(o.call), "origin: data-changing statement, always opens for update")
			continue
		}
		if lock8FromIsForUpdate(p, o.arg) {
			c.Ok(key, c.Pos(o.call), "origin: decided from the statement's own FOR UPDATE context (SelectQuery.IsForUpdate)")
			continue
		}
		if b, isConst := core.ConstBool(o.arg); isConst && !b && lock8TextBody(p, o.k) {
			c.Ok(key, c.Pos(o.call), "origin: nothing is asked by the caller, and "+p.FnRef(o.k)+" itself decides from the statement's own FOR UPDATE context (it makes its flag true under IsForUpdate of the query it is given before any use)")
			continue
		}
		if w := onTheWay(o.fn, 0, map[*ssa.Function]bool{}); w != nil {
			c.Bad(key, c.Pos(o.call), fmt.Sprintf("this function has no forUpdate parameter and passes %s, yet it is called on behalf of %s, which has one: the caller's FOR UPDATE is dropped here, the tables below are loaded without a lock and with FileInfo.ForUpdate=false (a later update reloads them and the transaction sees foreign data)", lock8ValueLabel(o.arg), p.FnRef(w)))
			continue
		}
		c.Ok(key, c.Pos(o.call), "origin: read-only load that is not part of a FOR UPDATE evaluation (no caller chain from a function with a forUpdate parameter)")
	}
}

// lock8FromIsForUpdate: v is computed from a call of (parser.SelectQuery).IsForUpdate.
func lock8FromIsForUpdate(p *core.Prog, v ssa.Value) bool {
	for _, o := range core.Origins(v, false) {
		if call, ok := o.(*ssa.Call); ok && p.CalleeName(call) == "lib/parser.(SelectQuery).IsForUpdate" {
			return true
		}
	}
	return false
}

// lock8Decides: g itself is an origin that decides the flag from the statement
// (calls IsForUpdate and passes it on): what it calls does not inherit its
// callers' flag by design.
func lock8Decides(p *core.Prog, g *ssa.Function) bool {
	return len(p.CallsNamed(g, "lib/parser.(SelectQuery).IsForUpdate")) > 0
}

func lock8ValueLabel(v ssa.Value) string {
	if b, ok := core.ConstBool(v); ok {
		return fmt.Sprintf("the constant %v", b)
	}
	return "the value " + v.Name()
}

// lock8TextBody: k has a forUpdate parameter that it uses only through `if query.IsForUpdate() { forUpdate = true }`:
// every use of the raw parameter is an edge of a φ that is the parameter or the constant true under the true
// branch of IsForUpdate of a query value the function does not write to (lock9OwnOrText).
func lock8TextBody(p *core.Prog, k *ssa.Function) bool {
	own := lock8OwnParam(k)
	if own == nil || own.Referrers() == nil {
		return false
	}
	n := 0
	for _, r := range *own.Referrers() {
		switch x := r.(type) {
		case *ssa.DebugRef:
		case *ssa.Phi:
			if !lock9OwnOrText(p, x, own) {
				return false
			}
			n++
		default:
			return false
		}
	}
	return n > 0
}
