package rules

import (
	"fmt"
	"go/token"
	"go/types"
	"sort"
	"strings"

	"golang.org/x/tools/go/ssa"

	"verif/checker/core"
)

// C11 — no leftovers; reads modify nothing.

const (
	fnHClose      = "lib/file.(*Handler).close"
	fnHCloseErrs  = "lib/file.(*Handler).closeWithErrors"
	fnHCommit     = "lib/file.(*Handler).commit"
	fnCreateHdl   = "lib/file.(*Container).createHandler"
	fnCClose      = "lib/file.(*Container).Close"
	fnCCommit     = "lib/file.(*Container).Commit"
	fnCCloseErrs  = "lib/file.(*Container).CloseWithErrors"
	fnCCloseAll   = "lib/file.(*Container).CloseAll"
	fnCCloseAllE  = "lib/file.(*Container).CloseAllWithErrors"
	fnCtlClose    = "lib/file.(*ControlFile).Close"
	fnCtlCloseErr = "lib/file.(*ControlFile).CloseWithErrors"
)

func init() {
	Register(&Rule{ID: "R-CLEAN-1", Props: []string{"C11", "C09"}, Floor: 9,
		Doc:      "in every function of lib/file that builds a Handler, and in Container.createHandler: after each call that can create a control file / the data file or open a descriptor (reaches go-file Create/Open*) has succeeded, every return whose error is not provably nil is preceded on every path by a call that passes the handler to Handler.close/closeWithErrors (closeIsolatedHandler): a failed acquisition leaves nothing behind",
		Controls: []string{"CtlAcquireNoCleanup"},
		Run:      ruleClean1})
	Register(&Rule{ID: "R-CLEAN-2", Props: []string{"C11"}, Floor: 22,
		Doc: "terminal-method resource table: on every path of Handler.close / closeWithErrors / commit to a return that is not provably an error (idempotence guard `closed` and `resource == nil` / `!Exists` edges pruned) the descriptor is closed and the temp, lock and read-lock control files are released (commit: temp renamed for ForUpdate); close/closeWithErrors remove the created file for ForCreate, commit keeps it; ControlFile.Close / CloseWithErrors close the descriptor and remove the path",
		Run: ruleClean2})
	Register(&Rule{ID: "R-CLEAN-6", Props: []string{"C11", "C09"}, Floor: 5,
		Doc: "only the creator removes a data file: every os.Remove of Handler.path in lib/file is guarded by openType == ForCreate (or an ownership flag set only after a successful create); while a ForCreate handler is under construction, a closer that can execute such a removal is called only where the go-file Create of the data path is known to have succeeded, and the constructor returns success only in that state",
		Run: ruleClean6})
	Register(&Rule{ID: "R-CLEAN-7", Props: []string{"C11", "C09"}, Floor: 5,
		Doc:      "ownership hand-over: in every function of lib/file that builds a Handler and in every method of *Handler, a *ControlFile or *os.File obtained from a call that can create / open a file is, on every path from the successful call, stored into one of the handler fields the terminal methods release (fp, lockFile, tempFile, rlockFile — directly or by a lib/file helper that always stores it), released itself (its Close / go-file Close), or returned to the caller, before any direct clean-up call on the handler (closeIsolatedHandler, close …) and before any return: a clean-up can only release what the handler already owns, so a resource that is still a local when a later step fails survives the process",
		Controls: []string{"CtlLocalLockNotHandedOver"},
		Run:      ruleClean7})
}

// ---------------------------------------------------------------------------
// R-CLEAN-1

func isGoFileOpener(f *ssa.Function) bool {
	if f.Pkg == nil || f.Pkg.Pkg.Path() != goFile {
		return false
	}
	res := f.Signature.Results()
	return res.Len() >= 1 && types.TypeString(res.At(0).Type(), nil) == "*os.File"
}

// acquires: the call can create a file or open a descriptor.
func acquires(p *core.Prog, k ssa.CallInstruction) bool {
	if _, isDefer := k.(*ssa.Defer); isDefer {
		return false
	}
	if f := core.StaticCallee(k); f != nil && isGoFileOpener(f) {
		return true
	}
	return callReachesSet(p, k, reachers(p, "go-file openers", isGoFileOpener))
}

func isHandlerCleanup(p *core.Prog, k ssa.CallInstruction) bool {
	hasH := false
	for _, a := range callArgs(k) {
		if core.NamedOf(a.Type()) == "lib/file.Handler" {
			hasH = true
		}
	}
	return hasH && callReachesNamed(p, k, fnHClose, fnHCloseErrs)
}

// isCleanupDefer: `defer func() { … closeIsolatedHandler(h, …) … }()` (or a
// deferred direct call of a clean-up).
func isCleanupDefer(p *core.Prog, d *ssa.Defer) bool {
	if isHandlerCleanup(p, d) {
		return true
	}
	mc, ok := d.Call.Value.(*ssa.MakeClosure)
	if !ok {
		return false
	}
	clo, _ := mc.Fn.(*ssa.Function)
	if clo == nil {
		return false
	}
	for _, k := range core.Calls(clo) {
		if isHandlerCleanup(p, k) {
			return true
		}
	}
	return false
}

// acqLabel names an acquisition call by callee and constant control-file type.
func acqLabel(c *Ctx, k ssa.CallInstruction) string {
	n := describeCall(c.P, k)
	n = n[strings.LastIndex(n, "/")+1:]
	if strings.HasPrefix(n, "v2.") {
		n = "go-file." + n[3:]
	}
	for _, a := range k.Common().Args {
		if core.NamedOf(a.Type()) == "lib/file.ControlFileType" {
			if v, ok := core.ConstInt(a); ok {
				for _, nm := range []string{"RLock", "Lock", "Temporary"} {
					if cv, ok := enumConst(c, "lib/file", nm); ok && cv == v {
						n += "(" + nm + ")"
					}
				}
			}
		}
	}
	return n
}

func ruleClean1(c *Ctx) {
	c.Fn(fnHCloseErrs)
	fns := handlerCtors(c)
	if ch := c.Fn(fnCreateHdl); ch != nil {
		fns = append(fns, ch)
	}
	for _, fn := range fns {
		c.Touch(fn)
		seen := map[string]int{}
		for _, k := range core.Calls(fn) {
			if !acquires(c.P, k) {
				continue
			}
			c.Sites++
			lbl := acqLabel(c, k)
			seen[lbl]++
			if seen[lbl] > 1 {
				lbl += " " + ordinal(seen[lbl])
			}
			key := c.KeyAt(fn, "error returns after "+lbl+" succeeded")
			if errValueOf(k) == nil {
				c.Unknown(key, c.Pos(k), "the acquiring call has no error result: its success edge cannot be identified")
				continue
			}
			// a clean-up deferred before the acquisition runs at every exit after it
			deferred := false
			for _, d := range core.Calls(fn) {
				if df, ok := d.(*ssa.Defer); ok && isCleanupDefer(c.P, df) && core.Dominates(df, k) {
					deferred = true
				}
			}
			if deferred {
				c.Ok(key, c.Pos(k), "a deferred closure that passes the handler to close/closeWithErrors is registered before the acquisition")
				continue
			}
			rets := returnsWithout(fn, k, func(in ssa.Instruction) bool {
				if df, ok := in.(*ssa.Defer); ok {
					return isCleanupDefer(c.P, df)
				}
				ci, ok := in.(ssa.CallInstruction)
				return ok && isHandlerCleanup(c.P, ci)
			}, failureEdgeOf(k))
			var bad []string
			for _, r := range rets {
				if allNil, _ := errOperandKinds(c, r); !allNil {
					bad = append(bad, c.Pos(r))
				}
			}
			if len(bad) > 0 {
				c.Bad(key, c.Pos(k), fmt.Sprintf("after %s has succeeded, the error return(s) at %s are reachable without passing the handler to close/closeWithErrors: the control file / descriptor acquired here stays behind (a stale lock blocks every later writer until it is removed by hand)", lbl, strings.Join(bad, ", ")))
			} else {
				c.Ok(key, c.Pos(k), fmt.Sprintf("%d return(s) reachable without a clean-up, all of them success returns", len(rets)))
			}
		}
	}
}

// ---------------------------------------------------------------------------
// R-CLEAN-2

// notExistsEdge prunes the false edge of `Exists(path)` for a path of the role.
func notExistsEdge(p *core.Prog, role pathRole) edgePrune {
	return func(from, to *ssa.BasicBlock) bool {
		for _, f := range edgeFactOnly(from, to) {
			call, ok := f.Cond.(*ssa.Call)
			if !ok || !f.Neg || len(call.Call.Args) != 1 {
				continue
			}
			if roleOfPath(call.Call.Args[0]) == role && callReachesNamed(p, call, "os.Stat", "os.Lstat") {
				return true
			}
		}
		return false
	}
}

// recvNilEdge prunes the edges on which the receiver is known nil.
func recvNilEdge(fn *ssa.Function) edgePrune {
	return func(from, to *ssa.BasicBlock) bool {
		if len(fn.Params) == 0 {
			return false
		}
		for _, f := range edgeFactOnly(from, to) {
			x, neq, ok := core.NilCmp(f.Cond)
			if ok && x == fn.Params[0] && neq == f.Neg {
				return true
			}
		}
		return false
	}
}

type resourceRow struct {
	name     string
	released func(k ssa.CallInstruction) bool
	absent   edgePrune
	why      string
}

func ruleClean2(c *Ctx) {
	p := c.P
	forCreate, ok1 := mustEnum(c, "lib/file", "ForCreate")
	forUpdate, ok2 := mustEnum(c, "lib/file", "ForUpdate")
	forRead, ok3 := mustEnum(c, "lib/file", "ForRead")
	if !ok1 || !ok2 || !ok3 {
		return
	}
	closedGuard := boolFieldEdge(fldHClosed, true)

	// unreleased lists the non-error returns of fn reachable without a release.
	// A call of a lib/file helper that itself releases the resource on all of
	// its non-error paths counts as a release (helper extraction).
	var unreleased func(fn *ssa.Function, row resourceRow, base edgePrune, depth int) (bad []string, sawRelease bool)
	unreleased = func(fn *ssa.Function, row resourceRow, base edgePrune, depth int) (bad []string, sawRelease bool) {
		rets := returnsWithout(fn, nil, func(in ssa.Instruction) bool {
			k, ok := in.(ssa.CallInstruction)
			if !ok {
				return false
			}
			if _, isDefer := in.(*ssa.Defer); isDefer {
				return false
			}
			if row.released(k) {
				sawRelease = true
				return true
			}
			if f := core.StaticCallee(k); f != nil && depth < 2 && f != fn && f.Blocks != nil && p.InPkg(f, "lib/file") && f.Signature.Recv() != nil {
				hb, hs := unreleased(f, row, base, depth+1)
				if hs && len(hb) == 0 {
					sawRelease = true
					return true
				}
			}
			return false
		}, orPrune(base, row.absent))
		for _, r := range rets {
			if _, allNonNil := errOperandKinds(c, r); !allNonNil {
				bad = append(bad, c.Pos(r))
			}
		}
		return
	}
	check := func(fn *ssa.Function, row resourceRow, base edgePrune, label string) {
		key := c.KeyAt(fn, label)
		bad, _ := unreleased(fn, row, base, 0)
		if len(bad) > 0 {
			c.Bad(key, c.FnPos(fn), fmt.Sprintf("the return at %s is reachable on a path that never releases the %s: %s", strings.Join(bad, ", "), row.name, row.why))
		} else {
			c.Ok(key, c.FnPos(fn), fmt.Sprintf("every path to a non-error return releases the %s (or has found it absent)", row.name))
		}
	}

	ctlRow := func(fld, name, why string) resourceRow {
		return resourceRow{name: name, why: why,
			released: func(k ssa.CallInstruction) bool { return releasesControl(p, k, fld) },
			absent:   nilEdgeOf(fld)}
	}
	fpRow := resourceRow{name: "descriptor Handler.fp", why: "the flock on the table file is kept until the process ends",
		released: func(k ssa.CallInstruction) bool { return closesDescriptor(p, k, fldHFp) },
		absent:   nilEdgeOf(fldHFp)}
	lockRow := ctlRow(fldHLock, "lock file", "a stale .lock file blocks every later reader and writer")
	rlockRow := ctlRow(fldHRLock, "read-lock file", "a stale .rlock file blocks every later writer")
	tempRow := ctlRow(fldHTemp, "temp file", "a stale .temp file makes every later update of the table fail")

	for _, name := range []string{fnHClose, fnHCloseErrs} {
		fn := c.Fn(name)
		if fn == nil {
			continue
		}
		for _, row := range []resourceRow{fpRow, tempRow, lockRow, rlockRow} {
			check(fn, row, closedGuard, "releases the "+row.name)
		}
		// the file created by this handler is removed (rollback of CREATE TABLE)
		created := resourceRow{name: "file created by the handler", why: "a rolled-back CREATE TABLE leaves an empty table file behind",
			released: func(k ssa.CallInstruction) bool {
				return isRemoveCall(p, k) && roleOfPath(k.Common().Args[0]) == roleData
			},
			absent: orPrune(notExistsEdge(p, roleData), ownerFlagFalseEdge)}
		check(fn, created, orPrune(closedGuard, enumEdge(fldHType, forCreate)), "removes the created file when openType == ForCreate")
	}

	if fn := c.Fn(fnHCommit); fn != nil {
		for _, row := range []resourceRow{fpRow, lockRow, rlockRow} {
			check(fn, row, closedGuard, "releases the "+row.name)
		}
		// temp: renamed over the table (update) or released
		tempCommit := resourceRow{name: "temp file", why: tempRow.why,
			released: func(k ssa.CallInstruction) bool {
				if calleeIn(p, k, fnOsRename) && len(k.Common().Args) == 2 && chainEndsWith(k.Common().Args[0], fldHTemp, fldCPath) {
					return true
				}
				return releasesControl(p, k, fldHTemp)
			},
			absent: nilEdgeOf(fldHTemp)}
		check(fn, tempCommit, closedGuard, "renames or releases the temp file")
		tempFp := resourceRow{name: "temp descriptor", why: "the temp file's descriptor (and its flock) leaks",
			released: func(k ssa.CallInstruction) bool {
				return closesDescriptor(p, k, fldHTemp, fldCFp) || releasesControl(p, k, fldHTemp)
			},
			absent: orPrune(nilEdgeOf(fldHTemp), nilEdgeOf(fldHTemp, fldCFp))}
		check(fn, tempFp, closedGuard, "closes the temp descriptor")
		// created / original file kept: no removal of the data path that is not replaced by the rename
		for _, ot := range []struct {
			n string
			v int64
		}{{"ForCreate", forCreate}, {"ForRead", forRead}, {"ForUpdate", forUpdate}} {
			key := c.KeyAt(fn, "keeps the data file when openType == "+ot.n)
			var bad []string
			walkEntry(fn, orPrune(closedGuard, enumEdge(fldHType, ot.v)), func(in ssa.Instruction) bool {
				k, ok := in.(ssa.CallInstruction)
				if !ok {
					return true
				}
				for _, rm := range removalsAt(p, k)[roleData] {
					if !replacedByRename(p, rm) {
						bad = append(bad, c.Pos(rm))
					}
				}
				return true
			})
			if len(bad) > 0 {
				c.Bad(key, c.FnPos(fn), "commit can remove the handler's data path at "+strings.Join(bad, ", ")+" without renaming a new file over it: the committed table disappears")
			} else {
				c.Ok(key, c.FnPos(fn), "no unreplaced removal of Handler.path is reachable under this open type")
			}
		}
	}

	for _, name := range []string{fnCtlClose, fnCtlCloseErr} {
		fn := c.Fn(name)
		if fn == nil {
			continue
		}
		base := recvNilEdge(fn)
		check(fn, resourceRow{name: "descriptor ControlFile.fp", why: "the control file's descriptor leaks",
			released: func(k ssa.CallInstruction) bool { return closesDescriptor(p, k, fldCFp) },
			absent:   nilEdgeOf(fldCFp)}, base, "closes the descriptor")
		check(fn, resourceRow{name: "control file path", why: "the control file stays on disk and blocks later access to the table",
			released: func(k ssa.CallInstruction) bool {
				return isRemoveCall(p, k) && roleOfPath(k.Common().Args[0]) == roleControl
			},
			absent: notExistsEdge(p, roleControl)}, base, "removes the path")
	}
}

// ownerFlagFalseEdge prunes the edges on which a bool field of Handler other
// than `closed` is known false (an ownership flag such as `created`: the handler
// has not created the file, so there is nothing of its own to remove). That the
// flag is set exactly when the file was created is R-CLEAN-6's obligation.
func ownerFlagFalseEdge(from, to *ssa.BasicBlock) bool {
	for _, f := range edgeFactOnly(from, to) {
		cond, neg := f.Cond, f.Neg
		if u, ok := cond.(*ssa.UnOp); ok && u.Op == token.NOT {
			cond, neg = u.X, !neg
		}
		fld := lastField(cond)
		if !neg || fld == "" || fld == fldHClosed || !strings.HasPrefix(fld, "lib/file.Handler.") {
			continue
		}
		if b, ok := cond.Type().Underlying().(*types.Basic); ok && b.Kind() == types.Bool {
			return true
		}
	}
	return false
}

// replacedByRename: the removal of a path is followed, on every path on which
// the removal succeeded and the function does not return an error, by an
// os.Rename onto a path of the same role (the replace idiom judged by R-SWAP-1).
func replacedByRename(p *core.Prog, rm ssa.CallInstruction) bool {
	fn := rm.Parent()
	role := roleOfPath(rm.Common().Args[0])
	has := false
	for _, k := range core.Calls(fn) {
		if calleeIn(p, k, fnOsRename) && len(k.Common().Args) == 2 && roleOfPath(k.Common().Args[1]) == role && reachAfter(rm, k, nil, nil) {
			has = true
		}
	}
	if !has {
		return false
	}
	esc := core.EscapeWithout(rm, func(in ssa.Instruction) bool {
		k, ok := in.(ssa.CallInstruction)
		return ok && calleeIn(p, k, fnOsRename) && roleOfPath(k.Common().Args[1]) == role
	}, failureEdgeOf(rm))
	return esc == nil
}

// ---------------------------------------------------------------------------
// R-CLEAN-6

// ownerGuard returns the bool Handler field (other than `closed`) whose truth
// dominates the instruction, or "".
func ownerGuard(at ssa.Instruction) string {
	for _, f := range core.FactsAt(at.Block()) {
		cond, neg := f.Cond, f.Neg
		if u, ok := cond.(*ssa.UnOp); ok && u.Op == token.NOT {
			cond, neg = u.X, !neg
		}
		fld := lastField(cond)
		if neg || fld == "" || fld == fldHClosed || !strings.HasPrefix(fld, "lib/file.Handler.") {
			continue
		}
		if b, ok := cond.Type().Underlying().(*types.Basic); ok && b.Kind() == types.Bool {
			return fld
		}
	}
	return ""
}

// dataCreateCalls lists the go-file Create calls of fn whose path is the data
// path of the handler (loaded from Handler.path, or the value stored into it).
func dataCreateCalls(p *core.Prog, fn *ssa.Function) []ssa.CallInstruction {
	stored := map[ssa.Value]bool{}
	for _, b := range fn.Blocks {
		for _, in := range b.Instrs {
			if st, ok := in.(*ssa.Store); ok {
				if fa, ok := st.Addr.(*ssa.FieldAddr); ok && core.FieldOwner(fa) == fldHPath {
					stored[st.Val] = true
				}
			}
		}
	}
	var out []ssa.CallInstruction
	for _, k := range core.Calls(fn) {
		if calleeIn(p, k, fnGoCreate) && len(k.Common().Args) == 1 {
			a := k.Common().Args[0]
			if roleOfPath(a) == roleData || stored[a] {
				out = append(out, k)
			}
		}
	}
	return out
}

// ownerFlagSound: every store of a non-false value into the bool field happens
// where a create of the data path is known to have succeeded.
func ownerFlagSound(c *Ctx, fld string) (bool, string) {
	n := 0
	for _, fn := range c.P.FuncsIn(false, "lib/file") {
		for _, b := range fn.Blocks {
			for _, in := range b.Instrs {
				st, ok := in.(*ssa.Store)
				if !ok {
					continue
				}
				fa, ok := st.Addr.(*ssa.FieldAddr)
				if !ok || core.FieldOwner(fa) != fld {
					continue
				}
				if v, isC := core.ConstBool(st.Val); isC && !v {
					continue
				}
				n++
				okHere := false
				for _, cr := range dataCreateCalls(c.P, fn) {
					if succeededAt(cr, st) {
						okHere = true
					}
				}
				if !okHere {
					return false, fmt.Sprintf("%s is set at %s where no successful create of the data path is known", fld, c.Pos(st))
				}
			}
		}
	}
	if n == 0 {
		return false, fld + " is never set"
	}
	return true, ""
}

func ruleClean6(c *Ctx) {
	p := c.P
	forCreate, ok := mustEnum(c, "lib/file", "ForCreate")
	if !ok {
		return
	}
	// Part A: every removal of a data path, and the guard it runs under
	stateDependent := map[ssa.CallInstruction]bool{} // removals whose guard does not prove ownership
	nRem := 0
	for _, fn := range p.FuncsIn(false, "lib/file") {
		for _, k := range core.Calls(fn) {
			if !isRemoveCall(p, k) || len(k.Common().Args) == 0 {
				continue
			}
			role := roleOfPath(k.Common().Args[0])
			if role == roleControl {
				continue
			}
			c.Sites++
			c.Touch(fn)
			key := c.KeyAt(fn, "os.Remove of the data path only by its creator")
			if role == roleUnknown {
				c.Unknown(key, c.Pos(k), "os.Remove of a path that is neither Handler.path nor ControlFile.path: its owner cannot be established")
				continue
			}
			nRem++
			if replacedByRename(p, k) {
				c.Ok(key, c.Pos(k), "replace idiom (removal followed by os.Rename onto the same path on every path): judged by R-SWAP-1")
				continue
			}
			if g := ownerGuard(k); g != "" {
				if sound, why := ownerFlagSound(c, g); sound {
					c.Ok(key, c.Pos(k), "guarded by ownership flag "+g+", which is set only after a successful create of the data path")
					continue
				} else {
					c.Bad(key, c.Pos(k), "guarded by "+g+", but "+why)
					stateDependent[k] = true
					continue
				}
			}
			stateDependent[k] = true
			c.Check(enumFactAt(k, fldHType, forCreate), key, c.Pos(k),
				"dominated by openType == ForCreate (whether the file was created by this handler is decided at the call sites, below)",
				"Handler.path is removed without a dominating openType == ForCreate test: handlers opened for read/update delete the table they only opened")
		}
	}
	if nRem == 0 {
		c.Unknown("anchor:os.Remove(Handler.path)", "-", "cannot-analyse: lib/file no longer removes a handler's data path anywhere; the rollback of CREATE TABLE the rule is about is gone")
	}
	// Part B: constructors of ForCreate handlers
	nCtor := 0
	for _, fn := range handlerCtors(c) {
		if p.IsControl(fn) {
			continue
		}
		h := handlerAlloc(fn)
		isCreate := false
		for _, b := range fn.Blocks {
			for _, in := range b.Instrs {
				if st, ok := in.(*ssa.Store); ok {
					if fa, ok := st.Addr.(*ssa.FieldAddr); ok && core.FieldOwner(fa) == fldHType && fa.X == h {
						if v, ok := core.ConstInt(st.Val); ok && v == forCreate {
							isCreate = true
						}
					}
				}
			}
		}
		if !isCreate {
			continue
		}
		nCtor++
		c.Touch(fn)
		creates := dataCreateCalls(p, fn)
		if len(creates) == 0 {
			c.Unknown(c.KeyAt(fn, "creation of the data file"), c.FnPos(fn), "a ForCreate handler is built but no go-file Create of its data path is found in the constructor")
			continue
		}
		createdAt := func(at ssa.Instruction) bool {
			for _, cr := range creates {
				if succeededAt(cr, at) {
					return true
				}
			}
			return false
		}
		// closers applied to the handler under construction
		seen := map[string]int{}
		for _, k := range core.Calls(fn) {
			onH := false
			for _, a := range callArgs(k) {
				if a == h {
					onH = true
				}
			}
			if !onH {
				continue
			}
			var risky []ssa.CallInstruction
			all := removalsAt(p, k)[roleData]
			for _, rm := range all {
				if stateDependent[rm] {
					risky = append(risky, rm)
				}
			}
			if len(all) == 0 {
				continue
			}
			c.Sites++
			what := "before the data file was created"
			for _, a := range core.Calls(fn) {
				if a != k && errValueOf(a) != nil && errKnown(core.FactsAt(k.Block()), a, false) {
					what = "after " + acqLabel(c, a) + " failed"
				}
			}
			seen[what]++
			if seen[what] > 1 {
				what += " " + ordinal(seen[what])
			}
			callee := describeCall(p, k)
			callee = callee[strings.LastIndex(callee, ".")+1:]
			key := c.KeyAt(fn, "closer "+callee+" "+what)
			if len(risky) == 0 {
				c.Ok(key, c.Pos(k), "every removal of the data path it can reach is guarded by an ownership flag: harmless in any state")
				continue
			}
			c.Check(createdAt(k), key, c.Pos(k),
				"called only where the create of the data path has succeeded: the file it may remove is this handler's own",
				fmt.Sprintf("%s can run the removal of Handler.path at %s, whose guard (openType == ForCreate and the path exists) does not show that this handler created the file; here the create of the data path has not succeeded, so a file found at the path belongs to someone else — e.g. the process that won the race for the lock file and has just created its table — and is deleted", callee, c.Pos(risky[0])))
		}
		// success returns are in state file-created
		for _, r := range realReturns(fn) {
			if _, nonNil := errOperandKinds(c, r); nonNil {
				continue
			}
			viaErr := false
			for _, cr := range creates {
				if returnsErrOf(r, cr) {
					viaErr = true
				}
			}
			c.Check(createdAt(r) || viaErr, c.KeyAt(fn, "success return only after the data file was created"), c.Pos(r),
				"dominated by a successful go-file Create (O_CREATE|O_EXCL) of the data path",
				"a success return is reachable without a successful exclusive create of the data path: later closers treat a file they do not own as theirs")
		}
	}
	if nCtor == 0 {
		c.Unknown("anchor:ForCreate constructor", "-", "cannot-analyse: no function of lib/file builds a Handler with openType ForCreate")
	}
}

var _ = sort.Strings

// ---------------------------------------------------------------------------
// R-CLEAN-7: a created resource is handed to the handler before anything can fail

var handlerResourceFields = map[string]bool{fldHFp: true, fldHLock: true, fldHTemp: true, fldHRLock: true}

func hasOrigin(v, want ssa.Value) bool {
	if v == want {
		return true
	}
	for _, o := range core.Origins(v, false) {
		if o == want {
			return true
		}
	}
	return false
}

// storesIntoHandler: the instruction stores r into a released field of a Handler.
func storesIntoHandler(in ssa.Instruction, r ssa.Value) bool {
	st, ok := in.(*ssa.Store)
	if !ok || !hasOrigin(st.Val, r) {
		return false
	}
	return addrIsHandlerSlot(st.Addr, 0)
}

// addrIsHandlerSlot: the address is one of the released Handler fields —
// directly, as a phi of such addresses, or as the result of a lib/file helper
// every return of which yields such an address (`slot := h.controlFileSlot(t);
// *slot = f`).
func addrIsHandlerSlot(addr ssa.Value, depth int) bool {
	os := core.Origins(addr, false)
	if len(os) == 0 || depth > 2 {
		return false
	}
	for _, o := range os {
		switch x := o.(type) {
		case *ssa.FieldAddr:
			if !handlerResourceFields[core.FieldOwner(x)] {
				return false
			}
		case *ssa.Call, *ssa.Extract:
			call, idx, ok := core.ExtractOf(x)
			if !ok {
				return false
			}
			f := core.StaticCallee(call)
			if f == nil || f.Blocks == nil || core.Short(core.FnPkg(f).Pkg.Path()) != "lib/file" {
				return false
			}
			rets := realReturns(f)
			if len(rets) == 0 {
				return false
			}
			for _, r := range rets {
				vals := returnOperandDeep(r, idx)
				if len(vals) == 0 {
					return false
				}
				for _, v := range vals {
					if v == nil || !addrIsHandlerSlot(v, depth+1) {
						return false
					}
				}
			}
		default:
			return false
		}
	}
	return true
}

// handsOverByHelper: a lib/file function that receives r and stores that
// parameter into a released Handler field on every path.
func handsOverByHelper(p *core.Prog, k ssa.CallInstruction, r ssa.Value) bool {
	f := core.StaticCallee(k)
	if f == nil || f.Blocks == nil || !p.InPkg(f, "lib/file") {
		return false
	}
	for i, a := range k.Common().Args {
		if !hasOrigin(a, r) || i >= len(f.Params) {
			continue
		}
		par := f.Params[i]
		stores := false
		for _, b := range f.Blocks {
			for _, in := range b.Instrs {
				if storesIntoHandler(in, par) {
					stores = true
				}
			}
		}
		if stores && len(returnsWithout(f, nil, func(in ssa.Instruction) bool { return storesIntoHandler(in, par) }, nil)) == 0 {
			return true
		}
	}
	return false
}

// releasesValue: the call closes / removes the resource r itself.
func releasesValue(p *core.Prog, k ssa.CallInstruction, r ssa.Value) bool {
	if _, isDefer := k.(*ssa.Defer); isDefer {
		return false
	}
	mine := false
	for _, a := range callArgs(k) {
		if hasOrigin(a, r) {
			mine = true
		}
	}
	if !mine {
		return false
	}
	return calleeIn(p, k, fnCtlClose, fnCtlCloseErr, fnGoClose, "(*os.File).Close")
}

func ruleClean7(c *Ctx) {
	p := c.P
	var fns []*ssa.Function
	seen := map[*ssa.Function]bool{}
	for _, fn := range handlerCtors(c) {
		if !seen[fn] {
			seen[fn] = true
			fns = append(fns, fn)
		}
	}
	for _, fn := range p.FuncsIn(false, "lib/file") {
		if recv := fn.Signature.Recv(); recv != nil && fn.Parent() == nil && core.NamedOf(recv.Type()) == "lib/file.Handler" && !seen[fn] {
			seen[fn] = true
			fns = append(fns, fn)
		}
	}
	sortFuncs(p, fns)
	for _, fn := range fns {
		cnt := map[string]int{}
		for _, k := range core.Calls(fn) {
			if _, isCall := k.(*ssa.Call); !isCall || !acquires(p, k) {
				continue
			}
			r := resultOf(k, 0)
			if r == nil || !(core.NamedOf(r.Type()) == "lib/file.ControlFile" || isOsFilePtr(r.Type())) {
				continue
			}
			c.Sites++
			c.Touch(fn)
			lbl := acqLabel(c, k)
			cnt[lbl]++
			if cnt[lbl] > 1 {
				lbl += " " + ordinal(cnt[lbl])
			}
			what := "descriptor"
			if !isOsFilePtr(r.Type()) {
				what = "control file"
			}
			key := c.KeyAt(fn, what+" of "+lbl+" handed to the handler before any clean-up or exit")
			if errValueOf(k) == nil {
				c.Unknown(key, c.Pos(k), "the acquiring call has no error result: its success edge cannot be identified")
				continue
			}
			bad := ""
			walkAfter(k, failureEdgeOf(k), func(in ssa.Instruction) bool {
				if storesIntoHandler(in, r) {
					return false
				}
				switch x := in.(type) {
				case *ssa.Defer:
					return true // runs at exit: the state at the returns below decides
				case ssa.CallInstruction:
					if releasesValue(p, x, r) || handsOverByHelper(p, x, r) {
						return false
					}
					if isHandlerCleanup(p, x) && bad == "" {
						bad = fmt.Sprintf("the clean-up %s at %s runs while the %s created at %s is still only a local variable: the handler does not own it, so the clean-up cannot release it and nothing else ever will (the %s survives the process)", describeCall(p, x), c.Pos(x), what, c.Pos(k), map[string]string{"descriptor": "flock / descriptor", "control file": "control file on disk"}[what])
					}
				case *ssa.Return:
					returned := false
					for _, res := range x.Results {
						if hasOrigin(res, r) {
							returned = true
						}
					}
					if !returned && bad == "" {
						bad = fmt.Sprintf("the return at %s is reachable after the %s was created at %s without it having been stored into the handler, released or returned", c.Pos(x), what, c.Pos(k))
					}
				}
				return true
			})
			c.Check(bad == "", key, c.Pos(k), "on every path from the success edge the "+what+" is stored into a released handler field (or released / returned) before any clean-up call or return", bad)
		}
	}
}
