package rules

import (
	"fmt"
	"go/constant"
	"go/token"
	"go/types"
	"strings"
	"unicode"
	"unicode/utf8"

	"golang.org/x/tools/go/ssa"

	"verif/checker/core"
)

// R-CONV-1 — pre-checks of the string → number conversions do not reject what
// strconv accepts.
//
// ToInteger / ToIntegerStrictly / ToFloat of lib/value turn a string into a
// number by asking strconv.ParseInt / ParseFloat. A cheap pre-check in front of
// strconv ("cannot be a number: return NULL") is a shortcut of the same family as
// the fast path of the escapers (R-ESC-4): it is correct only if it is never
// taken for a string the slow path would have converted. The rule finds every
// return of NULL that can be reached from the point where the parsed string is
// known without passing a strconv.Parse* call, and evaluates the conditions
// leading to it exactly, on each spelling of a frozen witness table taken from
// strconv's documented grammar (ParseInt base 10: optional sign and digits;
// ParseFloat: decimal, exponent and hexadecimal forms, a missing integer or
// fraction part, and the case-insensitive specials inf, infinity, nan with an
// optional sign). The evaluation is a concrete interpretation of the SSA of the
// guard (and of the csvq helpers it calls) on the one witness string.

func init() {
	Register(&Rule{ID: "R-CONV-1", Props: []string{"C06"}, Floor: 3,
		Doc:      "in lib/value.ToInteger, ToIntegerStrictly and ToFloat (or the lib/value helper that holds their strconv calls) every return of NULL reachable from the definition of the parsed string without passing strconv.ParseInt / ParseFloat — a pre-check shortcut — is not taken for any witness spelling that the strconv functions consulted by the slow path accept (table frozen from strconv's documented grammar: 1 +1 -1 for ParseInt; additionally .5 5. 1e3 1E-3 0x1p-2 and, unless the slow path discards non-finite results, Inf +Inf -inf Infinity NaN nan for ParseFloat); the guard is evaluated exactly on each witness by interpreting its SSA (byte/rune loops, comparisons, slicing, len, strings.* and unicode.* predicates, csvq helpers); a function without such a return yields one discharged obligation, a guard that cannot be interpreted is cannot-analyse",
		Controls: []string{"CtlStrconvPrecheckForgetsInf"},
		Run:      ruleConv1})
}

var fxIntWitnesses = []string{"1", "+1", "-1"}
var fxFloatWitnesses = []string{".5", "5.", "1e3", "1E-3", "0x1p-2"}
var fxSpecialWitnesses = []string{"Inf", "+Inf", "-inf", "Infinity", "NaN", "nan"}

func ruleConv1(c *Ctx) {
	for _, n := range []string{"lib/value.ToInteger", "lib/value.ToIntegerStrictly", "lib/value.ToFloat"} {
		if fn := c.Fn(n); fn != nil {
			fxCheckConvShortcuts(c, fn, fn, 2)
		}
	}
	for _, fn := range fxCtlFuncs(c) {
		if strings.HasPrefix(fn.Name(), "CtlStrconvPrecheck") || strings.HasPrefix(fn.Name(), "okStrconvPrecheck") {
			c.Touch(fn)
			fxCheckConvShortcuts(c, fn, fn, 1)
		}
	}
}

func fxStrconvParse(c *Ctx, in ssa.Instruction) (string, *ssa.Call) {
	call, ok := in.(*ssa.Call)
	if !ok {
		return "", nil
	}
	switch c.P.CalleeName(call) {
	case "strconv.ParseInt":
		return "ParseInt", call
	case "strconv.ParseFloat":
		return "ParseFloat", call
	}
	return "", nil
}

func fxCheckConvShortcuts(c *Ctx, top, fn *ssa.Function, depth int) {
	// the parsed string: first argument of the strconv calls
	var S ssa.Value
	parses := map[string]bool{}
	for _, b := range fn.Blocks {
		for _, in := range b.Instrs {
			if name, call := fxStrconvParse(c, in); call != nil {
				parses[name] = true
				if S == nil {
					S = call.Common().Args[0]
				} else if S != call.Common().Args[0] {
					c.Unknown(c.KeyAt(top, "parsed string"), c.Pos(call), "cannot-analyse: the strconv calls of "+c.P.Name(fn)+" parse different strings")
					return
				}
			}
		}
	}
	if S == nil {
		// the parsing is delegated: follow the lib/value helpers that receive a string
		if depth > 0 {
			for _, ci := range core.Calls(fn) {
				h := core.StaticCallee(ci)
				if h == nil || h == fn || h.Blocks == nil || core.FnPkg(h) != core.FnPkg(fn) || fxStringParam(h) == nil {
					continue
				}
				has := false
				for _, b := range h.Blocks {
					for _, in := range b.Instrs {
						if _, call := fxStrconvParse(c, in); call != nil {
							has = true
						}
					}
				}
				if has {
					c.Touch(h)
					fxCheckConvShortcuts(c, top, h, depth-1)
					return
				}
			}
		}
		c.Unknown(c.KeyAt(top, "parsed string"), c.FnPos(top), "cannot-analyse: no strconv.ParseInt / ParseFloat call found in the function or a lib/value helper it hands a string to")
		return
	}
	// witnesses the slow path accepts
	var wit []string
	wit = append(wit, fxIntWitnesses...)
	if parses["ParseFloat"] {
		wit = append(wit, fxFloatWitnesses...)
		discards := false // ToInteger: NaN / Inf results are turned into NULL anyway
		for _, ci := range core.Calls(fn) {
			switch c.P.CalleeName(ci) {
			case "math.IsNaN", "math.IsInf":
				for _, a := range ci.Common().Args {
					for _, o := range core.Origins(a, false) {
						if pc, _ := fxCallOf(o); pc != nil && c.P.CalleeName(pc) == "strconv.ParseFloat" {
							discards = true
						}
					}
				}
			}
		}
		if !discards {
			wit = append(wit, fxSpecialWitnesses...)
		}
	}
	// NULL returns reachable from the definition of S without consulting strconv
	var start ssa.Instruction
	if in, ok := S.(ssa.Instruction); ok {
		start = in
	}
	isNullReturn := func(r *ssa.Return) bool {
		if len(r.Results) == 0 {
			return false
		}
		for _, o := range core.Origins(r.Results[0], false) {
			if oc, _ := fxCallOf(o); oc != nil && c.P.CalleeName(oc) == "lib/value.NewNull" {
				return true
			}
		}
		return false
	}
	var shortcuts []*ssa.Return
	visit := func(in ssa.Instruction) bool {
		if _, call := fxStrconvParse(c, in); call != nil {
			return false
		}
		if r, ok := in.(*ssa.Return); ok && isNullReturn(r) {
			shortcuts = append(shortcuts, r)
		}
		return true
	}
	if start != nil {
		core.WalkFrom(start, visit)
	} else {
		core.WalkFromEntry(fn, visit)
	}
	if len(shortcuts) == 0 {
		c.Ok(c.KeyAt(top, "no NULL before strconv is consulted"), c.FnPos(top), fmt.Sprintf("from the definition of the parsed string every path to a NULL return passes %s (%d witness spellings apply)", strings.Join(fxParseNames(parses), " / "), len(wit)))
		return
	}
	for i, sc := range shortcuts {
		for _, w := range wit {
			key := c.KeyAt(top, fmt.Sprintf("NULL shortcut #%d not taken for %q", i+1, w))
			res, why := fxRunGuard(c, fn, S, start, sc, w)
			switch res {
			case "parse", "other":
				c.OkN(key, c.Pos(sc), fmt.Sprintf("%q goes on to strconv", w), 1)
			case "shortcut":
				c.Bad(key, c.Pos(sc), fmt.Sprintf("the string %q reaches `return NULL` at %s before strconv is consulted, with every condition of the pre-check decided; strconv.%s accepts %q, so the conversion of a value the documentation lists as numeric now yields NULL", w, c.Pos(sc), map[bool]string{true: "ParseFloat", false: "ParseInt"}[parses["ParseFloat"]], w))
			default:
				c.Unknown(key, c.Pos(sc), "cannot-analyse: the pre-check in front of strconv cannot be interpreted for "+fmt.Sprintf("%q", w)+" ("+why+")")
			}
		}
	}
}

func fxParseNames(m map[string]bool) []string {
	var out []string
	for k := range m {
		out = append(out, "strconv."+k)
	}
	if len(out) == 2 && out[0] > out[1] {
		out[0], out[1] = out[1], out[0]
	}
	return out
}

// fxRunGuard follows the one path string w takes from the definition of S:
// "shortcut" when it ends in the given NULL return, "parse" when it reaches a
// strconv call, "other" for another exit, "" with a reason when a condition
// cannot be interpreted.
func fxRunGuard(c *Ctx, fn *ssa.Function, S ssa.Value, start ssa.Instruction, sc *ssa.Return, w string) (string, string) {
	it := &fxInterp{c: c, steps: 0}
	env := map[ssa.Value]interface{}{S: w}
	var b *ssa.BasicBlock
	idx := 0
	if start != nil {
		b, idx = start.Block(), core.InstrIndex(start)+1
	} else {
		b = fn.Blocks[0]
	}
	seen := map[*ssa.BasicBlock]bool{}
	for {
		if seen[b] {
			return "", "the path loops in " + c.P.Name(fn)
		}
		seen[b] = true
		for i := idx; i < len(b.Instrs); i++ {
			in := b.Instrs[i]
			if _, call := fxStrconvParse(c, in); call != nil {
				return "parse", ""
			}
			switch t := in.(type) {
			case *ssa.Return:
				if t == sc {
					return "shortcut", ""
				}
				return "other", ""
			case *ssa.Panic:
				return "other", ""
			case *ssa.If:
				v, err := it.value(t.Cond, env, 0)
				if err != "" {
					return "", err + " at " + c.Pos(t)
				}
				bv, ok := v.(bool)
				if !ok {
					return "", "condition is not a boolean at " + c.Pos(t)
				}
				if bv {
					b = b.Succs[0]
				} else {
					b = b.Succs[1]
				}
			case *ssa.Jump:
				b = b.Succs[0]
			}
		}
		idx = 0
	}
}

// ---------------------------------------------------------------------------
// a small concrete interpreter for pure string/integer/boolean SSA

type fxInterp struct {
	c     *Ctx
	steps int
}

const fxMaxSteps = 20000

type fxStrIter struct {
	s   string
	pos int
}

// value evaluates v on demand inside one function (operands recursively); env
// holds the values already known. Used for guard conditions of the conversion
// function itself, where the surrounding code (type switch, receivers) is not
// interpretable but the condition depends on the parsed string only.
func (it *fxInterp) value(v ssa.Value, env map[ssa.Value]interface{}, depth int) (interface{}, string) {
	if x, ok := env[v]; ok {
		return x, ""
	}
	if depth > 40 {
		return nil, "expression too deep"
	}
	switch x := v.(type) {
	case *ssa.Const:
		return fxConstVal(x)
	case *ssa.BinOp:
		a, e := it.value(x.X, env, depth+1)
		if e != "" {
			return nil, e
		}
		b, e := it.value(x.Y, env, depth+1)
		if e != "" {
			return nil, e
		}
		return fxBinOp(x.Op, a, b)
	case *ssa.UnOp:
		a, e := it.value(x.X, env, depth+1)
		if e != "" {
			return nil, e
		}
		return fxUnOp(x.Op, a)
	case *ssa.Convert:
		a, e := it.value(x.X, env, depth+1)
		if e != "" {
			return nil, e
		}
		return fxConvert(a, x.Type())
	case *ssa.ChangeType:
		return it.value(x.X, env, depth+1)
	case *ssa.Index:
		a, e := it.value(x.X, env, depth+1)
		if e != "" {
			return nil, e
		}
		i, e := it.value(x.Index, env, depth+1)
		if e != "" {
			return nil, e
		}
		return fxIndex(a, i)
	case *ssa.Slice:
		return it.slice(x, func(o ssa.Value) (interface{}, string) { return it.value(o, env, depth+1) })
	case *ssa.Call:
		var args []interface{}
		for _, a := range x.Common().Args {
			av, e := it.value(a, env, depth+1)
			if e != "" {
				return nil, e
			}
			args = append(args, av)
		}
		return it.call(x, args)
	case *ssa.Phi:
		return nil, "value depends on the path taken (" + valueLabel(v) + ")"
	}
	return nil, "cannot interpret " + valueLabel(v)
}

func (it *fxInterp) slice(x *ssa.Slice, ev func(ssa.Value) (interface{}, string)) (interface{}, string) {
	a, e := ev(x.X)
	if e != "" {
		return nil, e
	}
	s, ok := a.(string)
	if !ok {
		return nil, "slice of a non-string"
	}
	lo, hi := int64(0), int64(len(s))
	if x.Low != nil {
		v, e := ev(x.Low)
		if e != "" {
			return nil, e
		}
		lo, _ = v.(int64)
	}
	if x.High != nil {
		v, e := ev(x.High)
		if e != "" {
			return nil, e
		}
		hi, _ = v.(int64)
	}
	if lo < 0 || hi > int64(len(s)) || lo > hi {
		return nil, "slice bounds out of range for the witness"
	}
	return s[lo:hi], ""
}

func fxConstVal(k *ssa.Const) (interface{}, string) {
	if k.Value == nil {
		return nil, "nil constant"
	}
	switch k.Value.Kind() {
	case constant.Bool:
		return constant.BoolVal(k.Value), ""
	case constant.String:
		return constant.StringVal(k.Value), ""
	case constant.Int:
		return k.Int64(), ""
	}
	return nil, "unsupported constant"
}

func fxBinOp(op token.Token, a, b interface{}) (interface{}, string) {
	switch x := a.(type) {
	case int64:
		y, ok := b.(int64)
		if !ok {
			return nil, "mixed operand types"
		}
		switch op {
		case token.ADD:
			return x + y, ""
		case token.SUB:
			return x - y, ""
		case token.MUL:
			return x * y, ""
		case token.EQL:
			return x == y, ""
		case token.NEQ:
			return x != y, ""
		case token.LSS:
			return x < y, ""
		case token.LEQ:
			return x <= y, ""
		case token.GTR:
			return x > y, ""
		case token.GEQ:
			return x >= y, ""
		case token.AND:
			return x & y, ""
		case token.OR:
			return x | y, ""
		}
	case string:
		y, ok := b.(string)
		if !ok {
			return nil, "mixed operand types"
		}
		switch op {
		case token.ADD:
			return x + y, ""
		case token.EQL:
			return x == y, ""
		case token.NEQ:
			return x != y, ""
		case token.LSS:
			return x < y, ""
		case token.GTR:
			return x > y, ""
		}
	case bool:
		y, ok := b.(bool)
		if !ok {
			return nil, "mixed operand types"
		}
		switch op {
		case token.EQL:
			return x == y, ""
		case token.NEQ:
			return x != y, ""
		}
	}
	return nil, "unsupported operator " + op.String()
}

func fxUnOp(op token.Token, a interface{}) (interface{}, string) {
	switch op {
	case token.NOT:
		if b, ok := a.(bool); ok {
			return !b, ""
		}
	case token.SUB:
		if i, ok := a.(int64); ok {
			return -i, ""
		}
	}
	return nil, "unsupported unary operator " + op.String()
}

func fxConvert(a interface{}, to types.Type) (interface{}, string) {
	b, ok := to.Underlying().(*types.Basic)
	if !ok {
		if sl, isSl := to.Underlying().(*types.Slice); isSl {
			if s, isS := a.(string); isS {
				if eb, ok := sl.Elem().Underlying().(*types.Basic); ok && eb.Kind() == types.Int32 {
					return []rune(s), ""
				}
				return []byte(s), ""
			}
		}
		return nil, "unsupported conversion"
	}
	switch x := a.(type) {
	case int64:
		if b.Info()&types.IsInteger != 0 {
			switch b.Kind() {
			case types.Uint8:
				return int64(uint8(x)), ""
			case types.Int32:
				return int64(int32(x)), ""
			}
			return x, ""
		}
		if b.Info()&types.IsString != 0 {
			return string(rune(x)), ""
		}
	case string:
		if b.Info()&types.IsString != 0 {
			return x, ""
		}
	case []rune:
		if b.Info()&types.IsString != 0 {
			return string(x), ""
		}
	case []byte:
		if b.Info()&types.IsString != 0 {
			return string(x), ""
		}
	}
	return nil, "unsupported conversion"
}

func fxIndex(a, i interface{}) (interface{}, string) {
	idx, ok := i.(int64)
	if !ok {
		return nil, "non-integer index"
	}
	switch s := a.(type) {
	case string:
		if idx < 0 || idx >= int64(len(s)) {
			return nil, "index out of range for the witness"
		}
		return int64(s[idx]), ""
	case []rune:
		if idx < 0 || idx >= int64(len(s)) {
			return nil, "index out of range for the witness"
		}
		return int64(s[idx]), ""
	case []byte:
		if idx < 0 || idx >= int64(len(s)) {
			return nil, "index out of range for the witness"
		}
		return int64(s[idx]), ""
	}
	return nil, "index of an unsupported value"
}

// call: modelled library predicates, or a csvq function interpreted block by block.
func (it *fxInterp) call(x *ssa.Call, args []interface{}) (interface{}, string) {
	name := it.c.P.CalleeName(x)
	str := func(i int) (string, bool) {
		if i < len(args) {
			s, ok := args[i].(string)
			return s, ok
		}
		return "", false
	}
	num := func(i int) (int64, bool) {
		if i < len(args) {
			n, ok := args[i].(int64)
			return n, ok
		}
		return 0, false
	}
	switch name {
	case "builtin:len":
		switch s := args[0].(type) {
		case string:
			return int64(len(s)), ""
		case []rune:
			return int64(len(s)), ""
		case []byte:
			return int64(len(s)), ""
		}
	case "strings.HasPrefix", "strings.HasSuffix", "strings.Contains", "strings.EqualFold", "strings.ContainsAny":
		a, oka := str(0)
		b, okb := str(1)
		if oka && okb {
			switch name {
			case "strings.HasPrefix":
				return strings.HasPrefix(a, b), ""
			case "strings.HasSuffix":
				return strings.HasSuffix(a, b), ""
			case "strings.Contains":
				return strings.Contains(a, b), ""
			case "strings.EqualFold":
				return strings.EqualFold(a, b), ""
			default:
				return strings.ContainsAny(a, b), ""
			}
		}
	case "strings.ContainsRune", "strings.IndexByte", "strings.IndexRune":
		a, oka := str(0)
		r, okr := num(1)
		if oka && okr {
			switch name {
			case "strings.ContainsRune":
				return strings.ContainsRune(a, rune(r)), ""
			case "strings.IndexByte":
				return int64(strings.IndexByte(a, byte(r))), ""
			default:
				return int64(strings.IndexRune(a, rune(r))), ""
			}
		}
	case "strings.IndexAny", "strings.Index":
		a, oka := str(0)
		b, okb := str(1)
		if oka && okb {
			if name == "strings.IndexAny" {
				return int64(strings.IndexAny(a, b)), ""
			}
			return int64(strings.Index(a, b)), ""
		}
	case "strings.ToUpper", "strings.ToLower", "strings.TrimSpace":
		if a, ok := str(0); ok {
			switch name {
			case "strings.ToUpper":
				return strings.ToUpper(a), ""
			case "strings.ToLower":
				return strings.ToLower(a), ""
			default:
				return strings.TrimSpace(a), ""
			}
		}
	case "strings.TrimLeft", "strings.TrimRight", "strings.Trim", "strings.TrimPrefix", "strings.TrimSuffix":
		a, oka := str(0)
		b, okb := str(1)
		if oka && okb {
			switch name {
			case "strings.TrimLeft":
				return strings.TrimLeft(a, b), ""
			case "strings.TrimRight":
				return strings.TrimRight(a, b), ""
			case "strings.Trim":
				return strings.Trim(a, b), ""
			case "strings.TrimPrefix":
				return strings.TrimPrefix(a, b), ""
			default:
				return strings.TrimSuffix(a, b), ""
			}
		}
	case "unicode.IsDigit", "unicode.IsLetter", "unicode.IsSpace", "unicode.IsNumber", "unicode.IsUpper", "unicode.IsLower":
		if r, ok := num(0); ok {
			switch name {
			case "unicode.IsDigit":
				return unicode.IsDigit(rune(r)), ""
			case "unicode.IsLetter":
				return unicode.IsLetter(rune(r)), ""
			case "unicode.IsSpace":
				return unicode.IsSpace(rune(r)), ""
			case "unicode.IsNumber":
				return unicode.IsNumber(rune(r)), ""
			case "unicode.IsUpper":
				return unicode.IsUpper(rune(r)), ""
			default:
				return unicode.IsLower(rune(r)), ""
			}
		}
	case "unicode.ToUpper", "unicode.ToLower":
		if r, ok := num(0); ok {
			if name == "unicode.ToUpper" {
				return int64(unicode.ToUpper(rune(r))), ""
			}
			return int64(unicode.ToLower(rune(r))), ""
		}
	}
	f := core.StaticCallee(x)
	if f == nil || f.Blocks == nil || it.c.P.FnRef(f) == f.String() {
		return nil, "call of " + calleeLabel(x) + " is not modelled"
	}
	return it.run(f, args, 0)
}

// run interprets a csvq function whose values are strings, integers, booleans.
func (it *fxInterp) run(f *ssa.Function, args []interface{}, depth int) (interface{}, string) {
	if depth > 4 || len(args) != len(f.Params) {
		return nil, "call of " + f.Name() + " too deep"
	}
	it.c.Touch(f)
	env := map[ssa.Value]interface{}{}
	for i, p := range f.Params {
		env[p] = args[i]
	}
	get := func(v ssa.Value) (interface{}, string) {
		if x, ok := env[v]; ok {
			return x, ""
		}
		if k, ok := v.(*ssa.Const); ok {
			return fxConstVal(k)
		}
		return nil, "cannot interpret " + valueLabel(v) + " in " + f.Name()
	}
	b := f.Blocks[0]
	var prev *ssa.BasicBlock
	for {
		// phis first, simultaneously
		phiVals := map[ssa.Value]interface{}{}
		for _, in := range b.Instrs {
			phi, ok := in.(*ssa.Phi)
			if !ok {
				break
			}
			for i, p := range b.Preds {
				if p == prev {
					v, e := get(phi.Edges[i])
					if e != "" {
						return nil, e
					}
					phiVals[phi] = v
				}
			}
		}
		for k, v := range phiVals {
			env[k] = v
		}
		for _, in := range b.Instrs {
			it.steps++
			if it.steps > fxMaxSteps {
				return nil, "interpretation does not terminate"
			}
			var val interface{}
			var e string
			switch x := in.(type) {
			case *ssa.Phi, *ssa.DebugRef:
				continue
			case *ssa.BinOp:
				var a, bb interface{}
				if a, e = get(x.X); e == "" {
					if bb, e = get(x.Y); e == "" {
						val, e = fxBinOp(x.Op, a, bb)
					}
				}
			case *ssa.UnOp:
				var a interface{}
				if a, e = get(x.X); e == "" {
					if pair, isPair := a.([2]interface{}); isPair && x.Op == token.MUL {
						val, e = fxIndex(pair[0], pair[1]) // load through &slice[i]
					} else {
						val, e = fxUnOp(x.Op, a)
					}
				}
			case *ssa.Convert:
				var a interface{}
				if a, e = get(x.X); e == "" {
					val, e = fxConvert(a, x.Type())
				}
			case *ssa.ChangeType:
				val, e = get(x.X)
			case *ssa.Index:
				var a, i interface{}
				if a, e = get(x.X); e == "" {
					if i, e = get(x.Index); e == "" {
						val, e = fxIndex(a, i)
					}
				}
			case *ssa.IndexAddr: // &runes[i]: keep (slice, index)
				var a, i interface{}
				if a, e = get(x.X); e == "" {
					if i, e = get(x.Index); e == "" {
						val = [2]interface{}{a, i}
					}
				}
			case *ssa.Slice:
				val, e = it.slice(x, get)
			case *ssa.Range:
				var a interface{}
				if a, e = get(x.X); e == "" {
					if s, ok := a.(string); ok {
						val = &fxStrIter{s: s}
					} else {
						e = "range over a non-string"
					}
				}
			case *ssa.Next:
				var a interface{}
				if a, e = get(x.Iter); e == "" {
					iter, ok := a.(*fxStrIter)
					if !ok {
						e = "unsupported iterator"
						break
					}
					if iter.pos >= len(iter.s) {
						val = [3]interface{}{false, int64(0), int64(0)}
					} else {
						r, size := utf8.DecodeRuneInString(iter.s[iter.pos:])
						val = [3]interface{}{true, int64(iter.pos), int64(r)}
						iter.pos += size
					}
				}
			case *ssa.Extract:
				var a interface{}
				if a, e = get(x.Tuple); e == "" {
					if t, ok := a.([3]interface{}); ok && x.Index < 3 {
						val = t[x.Index]
					} else {
						e = "unsupported tuple"
					}
				}
			case *ssa.Call:
				var cargs []interface{}
				for _, a := range x.Common().Args {
					var av interface{}
					if av, e = get(a); e != "" {
						break
					}
					cargs = append(cargs, av)
				}
				if e == "" {
					if g := core.StaticCallee(x); g != nil && g.Blocks != nil && it.c.P.FnRef(g) != g.String() {
						val, e = it.run(g, cargs, depth+1)
					} else {
						val, e = it.call(x, cargs)
					}
				}
			case *ssa.If:
				c, e2 := get(x.Cond)
				if e2 != "" {
					return nil, e2
				}
				cb, ok := c.(bool)
				if !ok {
					return nil, "non-boolean condition in " + f.Name()
				}
				prev = b
				if cb {
					b = b.Succs[0]
				} else {
					b = b.Succs[1]
				}
				goto next
			case *ssa.Jump:
				prev = b
				b = b.Succs[0]
				goto next
			case *ssa.Return:
				if len(x.Results) != 1 {
					return nil, f.Name() + " does not return one value"
				}
				return get(x.Results[0])
			default:
				e = "cannot interpret " + fmt.Sprintf("%T", in) + " in " + f.Name()
			}
			if e != "" {
				return nil, e
			}
			if v, ok := in.(ssa.Value); ok {
				env[v] = val
			}
		}
		return nil, "block without terminator in " + f.Name()
	next:
	}
}
