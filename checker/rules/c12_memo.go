package rules

import (
	"fmt"
	"go/token"
	"go/types"
	"sort"
	"strings"

	"golang.org/x/tools/go/ssa"

	"verif/checker/core"
)

// R-MEMO-1: a process-lifetime memo is keyed by everything its value depends on.
//
// csvq keeps a few memo tables in package-level variables (parsed JSON paths
// and queries, converted datetime formats, loaded time zones). They are
// shared by every statement, table and goroutine of the process, so they are
// result-neutral only if an entry is a function of its key: a memo that files
// ParsePath(name) under ToUpper(name) hands the first spelling's path to every
// later column whose name differs in case — what a JSON file looks like then
// depends on which table was written first.

func init() {
	Register(&Rule{ID: "R-MEMO-1", Props: []string{"C02", "C12", "C14"}, Floor: 3,
		Doc:      "memo soundness: for every function that both looks a key up in and stores a value into a container held by a package-level variable of csvq (a map or sync.Map reached from the variable or from the receiver of a method of its type; store / load wrappers are followed), (a) the key stored under is the key looked up, and (b) the stored value is a function of that key — walking back from the value through the operands and call arguments it was computed from, every path ends at the key (or a constant) before it reaches a parameter, a receiver field or a variable; an input that bypasses the key (ParsePath(name) filed under ToUpper(name); a value that also depends on a flag) makes an entry depend on which caller filled it first. Decides the dependence structure of the memo, not that the memoised function is itself deterministic",
		Controls: []string{"CtlMemoKeyCoarserThanValue"},
		Run:      ruleMemo1})
}

type memoAccess struct {
	in        ssa.Instruction
	key, val  ssa.Value
	container string
}

func ruleMemo1(c *Ctx) {
	// types of package-level variables (process-lifetime containers)
	lifetime := map[string]bool{}
	lifetimeRoot := map[string]bool{}
	for _, pp := range c.P.Pkgs {
		pk := c.P.SSA.Package(pp.Types)
		if pk == nil {
			continue
		}
		for _, m := range pk.Members {
			g, ok := m.(*ssa.Global)
			if !ok {
				continue
			}
			t := g.Type().(*types.Pointer).Elem()
			if p, ok := t.(*types.Pointer); ok {
				t = p.Elem()
			}
			if n, ok := t.(*types.Named); ok && n.Obj().Pkg() != nil && strings.HasPrefix(n.Obj().Pkg().Path(), core.ModPath) {
				lifetime[n.String()] = true
				lifetimeRoot[n.String()] = true
			}
		}
	}
	// the csvq struct types such an object is made of (embedded / field containers: RegExpMap embeds *SyncMap) — their
	// methods get summaries too, but only containers that hang off a package-level object are judged
	for changed := true; changed; {
		changed = false
		for _, pp := range c.P.Pkgs {
			for _, name := range pp.Types.Scope().Names() {
				tn, ok := pp.Types.Scope().Lookup(name).(*types.TypeName)
				if !ok || !lifetime[tn.Type().String()] {
					continue
				}
				st, ok := tn.Type().Underlying().(*types.Struct)
				if !ok {
					continue
				}
				for i := 0; i < st.NumFields(); i++ {
					ft := st.Field(i).Type()
					if p, ok := ft.(*types.Pointer); ok {
						ft = p.Elem()
					}
					if n, ok := ft.(*types.Named); ok && n.Obj().Pkg() != nil && strings.HasPrefix(n.Obj().Pkg().Path(), core.ModPath) && !lifetime[n.String()] {
						if _, isStruct := n.Underlying().(*types.Struct); isStruct {
							lifetime[n.String()] = true
							changed = true
						}
					}
				}
			}
		}
	}
	// rootOf: the container an address / map value hangs off — "recv:<type>" for the receiver of a method of a
	// lifetime type, "global:<name>" for a package-level variable
	var rootOf func(v ssa.Value, depth int) string
	rootOf = func(v ssa.Value, depth int) string {
		if depth > 8 || v == nil {
			return ""
		}
		switch x := v.(type) {
		case *ssa.Global:
			if inModuleGlobal(x) {
				return "global:" + det2GlobalName(x)
			}
		case *ssa.Parameter:
			fn := x.Parent()
			if fn.Signature.Recv() != nil && len(fn.Params) > 0 && fn.Params[0] == x {
				t := x.Type()
				if p, ok := t.(*types.Pointer); ok {
					t = p.Elem()
				}
				if n, ok := t.(*types.Named); ok && lifetime[n.String()] {
					return "recv:" + n.String()
				}
			}
		case *ssa.FieldAddr:
			if r := rootOf(x.X, depth+1); r != "" {
				return r + "." + core.FieldName(x)
			}
		case *ssa.Field:
			if r := rootOf(x.X, depth+1); r != "" {
				if st, ok := x.X.Type().Underlying().(*types.Struct); ok {
					return r + "." + st.Field(x.Field).Name()
				}
			}
		case *ssa.UnOp:
			if x.Op == token.MUL {
				return rootOf(x.X, depth+1)
			}
		case *ssa.Alloc:
			// a value receiver spilled to memory: the one whole-value store into the cell
			var whole []ssa.Value
			for _, r := range *x.Referrers() {
				if st, ok := r.(*ssa.Store); ok && st.Addr == ssa.Value(x) {
					whole = append(whole, st.Val)
				}
			}
			if len(whole) == 1 {
				return rootOf(whole[0], depth+1)
			}
		}
		return ""
	}
	paramIndex := func(fn *ssa.Function, v ssa.Value) int {
		for i, p := range fn.Params {
			if ssa.Value(p) == v {
				return i
			}
		}
		return -1
	}
	// direct accesses of a function
	type summary struct {
		stores []memoAccess // key / val as values of the function
		loads  []memoAccess
	}
	memoOf := map[*ssa.Function]*summary{}
	var accessOf func(fn *ssa.Function, depth int) *summary
	accessOf = func(fn *ssa.Function, depth int) *summary {
		if s, ok := memoOf[fn]; ok {
			return s
		}
		s := &summary{}
		memoOf[fn] = s
		if fn.Blocks == nil {
			return s
		}
		for _, b := range fn.Blocks {
			for _, in := range b.Instrs {
				switch x := in.(type) {
				case *ssa.MapUpdate:
					if r := rootOf(x.Map, 0); r != "" {
						s.stores = append(s.stores, memoAccess{in, core.Strip(x.Key), core.Strip(x.Value), r})
					}
				case *ssa.Lookup:
					if _, isMap := x.X.Type().Underlying().(*types.Map); isMap {
						if r := rootOf(x.X, 0); r != "" {
							s.loads = append(s.loads, memoAccess{in, core.Strip(x.Index), nil, r})
						}
					}
				case ssa.CallInstruction:
					com := x.Common()
					name := c.P.CalleeName(x)
					switch name {
					case "(*sync.Map).Store", "(*sync.Map).LoadOrStore":
						if r := rootOf(com.Args[0], 0); r != "" {
							s.stores = append(s.stores, memoAccess{in, core.Strip(com.Args[1]), core.Strip(com.Args[2]), r})
						}
						continue
					case "(*sync.Map).Load":
						if r := rootOf(com.Args[0], 0); r != "" {
							s.loads = append(s.loads, memoAccess{in, core.Strip(com.Args[1]), nil, r})
						}
						continue
					}
					g := com.StaticCallee()
					if g == nil || g == fn || !inModule(g) {
						continue
					}
					// wrappers: the callee stores / loads under keys and values that are its own parameters
					gs := accessOf(g, depth+1)
					for _, a := range gs.stores {
						ki, vi := paramIndex(g, a.key), paramIndex(g, a.val)
						if ki >= 0 && vi >= 0 && ki < len(com.Args) && vi < len(com.Args) {
							cont := memoRebase(a.container, g, com.Args, rootOf)
							s.stores = append(s.stores, memoAccess{in, core.Strip(com.Args[ki]), core.Strip(com.Args[vi]), cont})
						}
					}
					for _, a := range gs.loads {
						ki := paramIndex(g, a.key)
						if ki >= 0 && ki < len(com.Args) {
							cont := memoRebase(a.container, g, com.Args, rootOf)
							s.loads = append(s.loads, memoAccess{in, core.Strip(com.Args[ki]), nil, cont})
						}
					}
				}
			}
		}
		return s
	}
	n := 0
	for _, fn := range c.P.SrcFuncs() {
		s := accessOf(fn, 0)
		if len(s.stores) == 0 || len(s.loads) == 0 {
			continue
		}
		for i, st := range s.stores {
			// a pure wrapper (key and value are parameters) is judged at its callers
			if paramIndex(fn, st.key) >= 0 && paramIndex(fn, st.val) >= 0 {
				continue
			}
			var sameCont []memoAccess
			for _, ld := range s.loads {
				if ld.container == st.container {
					sameCont = append(sameCont, ld)
				}
			}
			if len(sameCont) == 0 {
				continue
			}
			if !memoOnLifetimeRoot(st.container, lifetimeRoot) {
				continue // a container of a per-scope object (variables, cursors …): declarations, not memos
			}
			n++
			c.Touch(fn)
			okey := c.KeyAt(fn, fmt.Sprintf("memo %s #%d: the entry is a function of its key", memoLabel(st.container), i+1))
			var bad []string
			for _, ld := range sameCont {
				if ld.key != st.key {
					bad = append(bad, fmt.Sprintf("looked up under %s at %s but stored under %s at %s", describeValue(c.P, ld.key), c.Pos(ld.in), describeValue(c.P, st.key), c.Pos(st.in)))
				}
			}
			if leak := memoBypass(st.val, st.key, map[ssa.Value]bool{}); leak != nil {
				bad = append(bad, fmt.Sprintf("the value stored at %s is computed from %s, which does not pass through the key %s: two callers whose keys coincide but whose %s differ share one entry — whoever fills it first decides what the others get", c.Pos(st.in), describeValue(c.P, leak), describeValue(c.P, st.key), describeValue(c.P, leak)))
			}
			if len(bad) > 0 {
				sort.Strings(bad)
				c.Bad(okey, c.Pos(st.in), strings.Join(dedup(bad), "; "))
			} else {
				c.Ok(okey, c.Pos(st.in), "looked up and stored under the same key; every input of the stored value passes through the key")
			}
		}
	}
	c.Sites += n
}

func memoLabel(container string) string {
	container = strings.TrimPrefix(container, "recv:")
	container = strings.TrimPrefix(container, "global:")
	return core.Short(container)
}

// memoBypass: an input of v (parameter, free variable, field or global load) reached without passing through key
func memoBypass(v, key ssa.Value, seen map[ssa.Value]bool) ssa.Value {
	if v == nil || v == key || seen[v] {
		return nil
	}
	seen[v] = true
	switch x := v.(type) {
	case *ssa.Const, *ssa.Function, *ssa.Builtin:
		return nil
	case *ssa.Parameter, *ssa.FreeVar, *ssa.Global:
		return v
	case *ssa.Call:
		for _, a := range x.Common().Args {
			if l := memoBypass(a, key, seen); l != nil {
				return l
			}
		}
		if !x.Common().IsInvoke() {
			if _, isFn := x.Common().Value.(*ssa.Function); !isFn {
				if _, isB := x.Common().Value.(*ssa.Builtin); !isB {
					return memoBypass(x.Common().Value, key, seen)
				}
			}
		} else {
			return memoBypass(x.Common().Value, key, seen)
		}
		return nil
	case *ssa.Alloc:
		vals, _ := core.StoresTo(x)
		for _, s := range vals {
			if l := memoBypass(s, key, seen); l != nil {
				return l
			}
		}
		return nil
	}
	if in, ok := v.(ssa.Instruction); ok {
		for _, op := range in.Operands(nil) {
			if op == nil || *op == nil {
				continue
			}
			if l := memoBypass(*op, key, seen); l != nil {
				return l
			}
		}
	}
	return nil
}

// memoRebase: a container named relative to the callee's receiver ("recv:<T>.m") is renamed relative to what the
// caller passes as that receiver
func memoRebase(container string, g *ssa.Function, args []ssa.Value, rootOf func(ssa.Value, int) string) string {
	if !strings.HasPrefix(container, "recv:") || len(args) == 0 || g.Signature.Recv() == nil {
		return container
	}
	t := g.Signature.Recv().Type()
	if p, ok := t.(*types.Pointer); ok {
		t = p.Elem()
	}
	prefix := "recv:" + t.String()
	if !strings.HasPrefix(container, prefix) {
		return container
	}
	if r := rootOf(args[0], 0); r != "" {
		return r + strings.TrimPrefix(container, prefix)
	}
	return container
}

// memoOnLifetimeRoot: the container hangs off a package-level variable or off the receiver of a method of a
// package-level variable's type
func memoOnLifetimeRoot(container string, roots map[string]bool) bool {
	if strings.HasPrefix(container, "global:") {
		return true
	}
	c := strings.TrimPrefix(container, "recv:")
	for t := range roots {
		if strings.HasPrefix(c, t+".") || c == t {
			return true
		}
	}
	return false
}

// R-MEMO-2: a per-scope memo is inherited only together with what its entries were computed from.

func init() {
	Register(&Rule{ID: "R-MEMO-2", Props: []string{"C15", "C03"}, Floor: 3,
		Doc:      "a memo kept in a field of lib/query.ReferenceScope is shared only between scopes that agree on its inputs: for every map / sync.Map field F of ReferenceScope that some function fills with a computed value (directly, or through a store wrapper judged at its call sites), the other fields G of the same scope object that the stored value is computed from are collected (the resolved file path is computed from scope.Tx; a looked-up function would be computed from scope.Blocks); every function that builds a new scope and lets it inherit F from a parent on some path (N.F = P.F, also when the parent's value is first read into a local that is defaulted when the parent has none — the stored value is a φ one of whose origins is P.F — or is handed out by a csvq helper that returns the F of the scope it is given) must let it inherit each such G from the same parent unchanged: every store into N.G stores P.G and nothing else on every path. A derived scope with its own block chain (CreateChild: a function invocation, an IF / WHILE body) that shares a memo computed from the parent's chain resolves names as the caller does — local declarations stop shadowing outer ones. Decides the agreement of memo and inputs across scope constructors, not the contents",
		Controls: []string{"CtlMemoInheritedWithoutInputs", "CtlMemoDefaultedLocalSharedWithoutInputs", "CtlMemoInputReplacedOnOnePath", "CtlMemoFromHelperWithoutInputs"},
		Run:      ruleMemo2})
}

func ruleMemo2(c *Ctx) {
	check := func(structT types.Type, fns []*ssa.Function, label string) int {
		st, ok := structT.Underlying().(*types.Struct)
		if !ok {
			return 0
		}
		ptrT := types.NewPointer(structT)
		fieldIdx := func(name string) int {
			for i := 0; i < st.NumFields(); i++ {
				if st.Field(i).Name() == name {
					return i
				}
			}
			return -1
		}
		isMemoField := func(i int) bool {
			t := st.Field(i).Type()
			if p, ok := t.(*types.Pointer); ok {
				t = p.Elem()
			}
			if _, ok := t.Underlying().(*types.Map); ok {
				return true
			}
			return strings.HasSuffix(t.String(), "sync.Map")
		}
		// scopeField: v is (a load of) field i of scope object X; returns X, i
		scopeField := func(v ssa.Value) (ssa.Value, int) {
			switch x := v.(type) {
			case *ssa.UnOp:
				if fa, ok := x.X.(*ssa.FieldAddr); ok && x.Op == token.MUL && types.Identical(fa.X.Type(), ptrT) {
					return fa.X, fa.Field
				}
			case *ssa.FieldAddr:
				if types.Identical(x.X.Type(), ptrT) {
					return x.X, x.Field
				}
			}
			return nil, -1
		}
		// inputsOf: the fields of X that v is computed from
		var inputsOf func(v ssa.Value, X ssa.Value, skipField int, seen map[ssa.Value]bool, out map[int]bool)
		inputsOf = func(v ssa.Value, X ssa.Value, skipField int, seen map[ssa.Value]bool, out map[int]bool) {
			if v == nil || seen[v] {
				return
			}
			seen[v] = true
			if obj, f := scopeField(v); obj != nil && obj == X {
				if f != skipField {
					out[f] = true
				}
				return
			}
			switch x := v.(type) {
			case *ssa.Const, *ssa.Function, *ssa.Builtin, *ssa.Parameter, *ssa.FreeVar, *ssa.Global:
				return
			case *ssa.Alloc:
				vals, _ := core.StoresTo(x)
				for _, s := range vals {
					inputsOf(s, X, skipField, seen, out)
				}
				return
			}
			if call, ok := v.(*ssa.Call); ok {
				// an immediately invoked closure, or a csvq helper that is handed the scope: the fields of a scope
				// object it reads are inputs (by type: inside the callee the object is a captured variable / parameter)
				var bodies []*ssa.Function
				for _, o := range core.Origins(call.Common().Value, false) {
					if mc, ok := o.(*ssa.MakeClosure); ok {
						if f, ok := mc.Fn.(*ssa.Function); ok {
							bodies = append(bodies, f)
						}
					}
				}
				if g := call.Common().StaticCallee(); g != nil && inModule(g) && g.Blocks != nil {
					for _, a := range call.Common().Args {
						if a == X {
							bodies = append(bodies, g)
						}
					}
				}
				for _, body := range bodies {
					for _, b := range body.Blocks {
						for _, in := range b.Instrs {
							if fa, ok := in.(*ssa.FieldAddr); ok && types.Identical(fa.X.Type(), ptrT) && fa.Field != skipField {
								out[fa.Field] = true
							}
						}
					}
				}
			}
			if in, ok := v.(ssa.Instruction); ok {
				for _, op := range in.Operands(nil) {
					if op != nil && *op != nil {
						inputsOf(*op, X, skipField, seen, out)
					}
				}
			}
		}
		// memo stores: field → input fields (names), with one example site
		type memoInfo struct {
			inputs map[int]bool
			site   string
		}
		memos := map[int]*memoInfo{}
		note := func(f int, in map[int]bool, site string) {
			m := memos[f]
			if m == nil {
				m = &memoInfo{inputs: map[int]bool{}, site: site}
				memos[f] = m
			}
			for k := range in {
				m.inputs[k] = true
			}
		}
		// wrappers: function stores params (key, val) into field f of its scope parameter
		type wrapper struct{ f, scopeIdx, valIdx int }
		wrappers := map[*ssa.Function]wrapper{}
		paramIdx := func(fn *ssa.Function, v ssa.Value) int {
			for i, p := range fn.Params {
				if ssa.Value(p) == core.Strip(v) {
					return i
				}
			}
			return -1
		}
		storeSites := func(fn *ssa.Function, visit func(in ssa.Instruction, X ssa.Value, f int, val ssa.Value)) {
			for _, b := range fn.Blocks {
				for _, in := range b.Instrs {
					switch x := in.(type) {
					case *ssa.MapUpdate:
						if X, f := scopeField(x.Map); X != nil && isMemoField(f) {
							visit(in, X, f, x.Value)
						}
					case ssa.CallInstruction:
						name := c.P.CalleeName(x)
						if name == "(*sync.Map).Store" || name == "(*sync.Map).LoadOrStore" {
							if X, f := scopeField(x.Common().Args[0]); X != nil && isMemoField(f) {
								visit(in, X, f, x.Common().Args[2])
							}
						}
					}
				}
			}
		}
		for _, fn := range fns {
			storeSites(fn, func(in ssa.Instruction, X ssa.Value, f int, val ssa.Value) {
				if si, vi := paramIdx(fn, X), paramIdx(fn, val); si >= 0 && vi >= 0 {
					wrappers[fn] = wrapper{f, si, vi}
					return
				}
				ins := map[int]bool{}
				inputsOf(val, X, f, map[ssa.Value]bool{}, ins)
				note(f, ins, c.Pos(in))
			})
		}
		for _, fn := range fns {
			for _, call := range core.Calls(fn) {
				g := call.Common().StaticCallee()
				w, ok := wrappers[g]
				if !ok || w.scopeIdx >= len(call.Common().Args) || w.valIdx >= len(call.Common().Args) {
					continue
				}
				X := call.Common().Args[w.scopeIdx]
				ins := map[int]bool{}
				inputsOf(call.Common().Args[w.valIdx], X, w.f, map[ssa.Value]bool{}, ins)
				note(w.f, ins, c.Pos(call))
			}
		}
		// constructors: stores N.F = P.F
		n := 0
		var memoFields []int
		for f := range memos {
			memoFields = append(memoFields, f)
		}
		sort.Ints(memoFields)
		// inheritedFrom: the scope objects whose field f the value may be — looked at through what the value may be on
		// any path (φ of a defaulted local: `m := p.F; if m == nil { m = make(…) }`, a local cell, a conversion) and
		// through a csvq helper that returns the field of the scope it is handed. all=true when the value can be
		// nothing else than the field f of one and the same object
		var inheritedFrom func(v ssa.Value, f int, N ssa.Value, depth int) (parents []ssa.Value, all bool)
		inheritedFrom = func(v ssa.Value, f int, N ssa.Value, depth int) (parents []ssa.Value, all bool) {
			all = true
			add := func(P ssa.Value) {
				for _, q := range parents {
					if q == P {
						return
					}
				}
				parents = append(parents, P)
			}
			for _, o := range core.Origins(v, false) {
				if P, pf := scopeField(o); P != nil && pf == f && P != N {
					add(P)
					continue
				}
				if call, ok := o.(*ssa.Call); ok && depth < 3 {
					if g := call.Common().StaticCallee(); g != nil && inModule(g) && g.Blocks != nil && g.Signature.Results().Len() == 1 {
						rets := core.ReturnedValues(g, 0)
						okAll := len(rets) > 0
						for _, r := range rets {
							ps, a := inheritedFrom(r, f, nil, depth+1)
							if !a {
								okAll = false
							}
							for _, p := range ps {
								if i := paramIdx(g, p); i >= 0 && i < len(call.Common().Args) && call.Common().Args[i] != N {
									add(call.Common().Args[i])
								} else {
									okAll = false
								}
							}
						}
						if okAll {
							continue
						}
					}
				}
				all = false
			}
			if len(parents) != 1 {
				all = false
			}
			return
		}
		for _, fn := range fns {
			// per new object N and field: the parent it may inherit the field from on some path (may: what makes a memo
			// shared) and the parent it inherits the field from on every path and in every store (must: what an input
			// of the memo has to satisfy)
			type inh struct {
				may, must ssa.Value
				st        *ssa.Store
				n         int
			}
			stores := map[ssa.Value]map[int]*inh{}
			var order []ssa.Value
			for _, b := range fn.Blocks {
				for _, in := range b.Instrs {
					s, ok := in.(*ssa.Store)
					if !ok {
						continue
					}
					fa, ok := s.Addr.(*ssa.FieldAddr)
					if !ok || !types.Identical(fa.X.Type(), ptrT) {
						continue
					}
					N := fa.X
					if stores[N] == nil {
						stores[N] = map[int]*inh{}
						order = append(order, N)
					}
					parents, all := inheritedFrom(s.Val, fa.Field, N, 0)
					var may, must ssa.Value
					if len(parents) > 0 {
						may = parents[0]
					}
					if all {
						must = parents[0]
					}
					e := stores[N][fa.Field]
					if e == nil {
						stores[N][fa.Field] = &inh{may, must, s, 1}
						continue
					}
					e.n++
					if e.may == nil && may != nil {
						e.may, e.st = may, s
					}
					if e.must != must {
						e.must = nil
					}
				}
			}
			for _, N := range order {
				for _, f := range memoFields {
					e, ok := stores[N][f]
					if !ok || e.may == nil {
						continue
					}
					n++
					c.Touch(fn)
					key := c.KeyAt(fn, fmt.Sprintf("%s.%s is inherited together with its inputs", label, st.Field(f).Name()))
					var missing []string
					var ins []int
					for g := range memos[f].inputs {
						ins = append(ins, g)
					}
					sort.Ints(ins)
					var names []string
					for _, g := range ins {
						names = append(names, st.Field(g).Name())
						ge, has := stores[N][g]
						if !has || ge.must != e.may {
							missing = append(missing, st.Field(g).Name())
						}
					}
					if len(missing) > 0 {
						c.Bad(key, c.Pos(e.st), fmt.Sprintf("the new scope shares the memo %s of its parent, whose entries are computed from the parent's %s (filled at %s), but it does not inherit %s unchanged: entries computed for the parent's %s are used where the new scope's own would give another answer (a declaration in the new block no longer shadows the outer one)", st.Field(f).Name(), strings.Join(names, ", "), memos[f].site, strings.Join(missing, ", "), strings.Join(missing, ", ")))
					} else {
						c.Ok(key, c.Pos(e.st), "inputs of the memo ("+strings.Join(names, ", ")+") are inherited from the same parent")
					}
				}
			}
		}
		_ = fieldIdx
		return n
	}
	rsT := c.P.Type("lib/query", "ReferenceScope")
	if rsT == nil {
		c.Unknown("anchor: lib/query.ReferenceScope", "-", "cannot-analyse: type not found")
		return
	}
	sites := check(rsT, c.P.FuncsIn(false, "lib/query"), "ReferenceScope")
	if ctlT := c.P.Type(core.ControlPkg, "ctlMemoScope"); ctlT != nil {
		var ctlFns []*ssa.Function
		for _, fn := range c.P.SrcFuncs() {
			if c.P.IsControl(fn) {
				ctlFns = append(ctlFns, fn)
			}
		}
		check(ctlT, ctlFns, "ctlMemoScope")
	}
	c.Sites += sites
}
