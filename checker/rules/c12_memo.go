package rules

import (
	"fmt"
	"go/token"
	"go/types"
	"sort"
	"strings"

	"golang.org/x/tools/go/ssa"

	"verif/checker/core"
)

// R-MEMO-1: a process-lifetime memo is keyed by everything its value depends on.
//
// csvq keeps a few memo tables in package-level variables (parsed JSON paths
// and queries, converted datetime formats, loaded time zones). They are
// shared by every statement, table and goroutine of the process, so they are
// result-neutral only if an entry is a function of its key: a memo that files
// ParsePath(name) under ToUpper(name) hands the first spelling's path to every
// later column whose name differs in case — what a JSON file looks like then
// depends on which table was written first.

func init() {
	Register(&Rule{ID: "R-MEMO-1", Props: []string{"C02", "C12", "C14"}, Floor: 3,
		Doc:      "memo soundness: for every function that both looks a key up in and stores a value into a container held by a package-level variable of csvq (a map or sync.Map reached from the variable or from the receiver of a method of its type; store / load wrappers are followed), (a) the key stored under is the key looked up, and (b) the stored value is a function of that key — walking back from the value through the operands and call arguments it was computed from, every path ends at the key (or a constant) before it reaches a parameter, a receiver field or a variable; an input that bypasses the key (ParsePath(name) filed under ToUpper(name); a value that also depends on a flag) makes an entry depend on which caller filled it first. Decides the dependence structure of the memo, not that the memoised function is itself deterministic",
		Controls: []string{"CtlMemoKeyCoarserThanValue"},
		Run:      ruleMemo1})
}

type memoAccess struct {
	in        ssa.Instruction
	key, val  ssa.Value
	container string
}

func ruleMemo1(c *Ctx) {
	// types of package-level variables (process-lifetime containers)
	lifetime := map[string]bool{}
	for _, pp := range c.P.Pkgs {
		pk := c.P.SSA.Package(pp.Types)
		if pk == nil {
			continue
		}
		for _, m := range pk.Members {
			g, ok := m.(*ssa.Global)
			if !ok {
				continue
			}
			t := g.Type().(*types.Pointer).Elem()
			if p, ok := t.(*types.Pointer); ok {
				t = p.Elem()
			}
			if n, ok := t.(*types.Named); ok && n.Obj().Pkg() != nil && strings.HasPrefix(n.Obj().Pkg().Path(), core.ModPath) {
				lifetime[n.String()] = true
			}
		}
	}
	// rootOf: the container an address / map value hangs off — "recv:<type>" for the receiver of a method of a
	// lifetime type, "global:<name>" for a package-level variable
	var rootOf func(v ssa.Value, depth int) string
	rootOf = func(v ssa.Value, depth int) string {
		if depth > 8 || v == nil {
			return ""
		}
		switch x := v.(type) {
		case *ssa.Global:
			if inModuleGlobal(x) {
				return "global:" + det2GlobalName(x)
			}
		case *ssa.Parameter:
			fn := x.Parent()
			if fn.Signature.Recv() != nil && len(fn.Params) > 0 && fn.Params[0] == x {
				t := x.Type()
				if p, ok := t.(*types.Pointer); ok {
					t = p.Elem()
				}
				if n, ok := t.(*types.Named); ok && lifetime[n.String()] {
					return "recv:" + n.String()
				}
			}
		case *ssa.FieldAddr:
			if r := rootOf(x.X, depth+1); r != "" {
				return r + "." + core.FieldName(x)
			}
		case *ssa.Field:
			if r := rootOf(x.X, depth+1); r != "" {
				if st, ok := x.X.Type().Underlying().(*types.Struct); ok {
					return r + "." + st.Field(x.Field).Name()
				}
			}
		case *ssa.UnOp:
			if x.Op == token.MUL {
				return rootOf(x.X, depth+1)
			}
		case *ssa.Alloc:
			// a value receiver spilled to memory: the one whole-value store into the cell
			var whole []ssa.Value
			for _, r := range *x.Referrers() {
				if st, ok := r.(*ssa.Store); ok && st.Addr == ssa.Value(x) {
					whole = append(whole, st.Val)
				}
			}
			if len(whole) == 1 {
				return rootOf(whole[0], depth+1)
			}
		}
		return ""
	}
	paramIndex := func(fn *ssa.Function, v ssa.Value) int {
		for i, p := range fn.Params {
			if ssa.Value(p) == v {
				return i
			}
		}
		return -1
	}
	// direct accesses of a function
	type summary struct {
		stores []memoAccess // key / val as values of the function
		loads  []memoAccess
	}
	memoOf := map[*ssa.Function]*summary{}
	var accessOf func(fn *ssa.Function, depth int) *summary
	accessOf = func(fn *ssa.Function, depth int) *summary {
		if s, ok := memoOf[fn]; ok {
			return s
		}
		s := &summary{}
		memoOf[fn] = s
		if fn.Blocks == nil {
			return s
		}
		for _, b := range fn.Blocks {
			for _, in := range b.Instrs {
				switch x := in.(type) {
				case *ssa.MapUpdate:
					if r := rootOf(x.Map, 0); r != "" {
						s.stores = append(s.stores, memoAccess{in, core.Strip(x.Key), core.Strip(x.Value), r})
					}
				case *ssa.Lookup:
					if _, isMap := x.X.Type().Underlying().(*types.Map); isMap {
						if r := rootOf(x.X, 0); r != "" {
							s.loads = append(s.loads, memoAccess{in, core.Strip(x.Index), nil, r})
						}
					}
				case ssa.CallInstruction:
					com := x.Common()
					name := c.P.CalleeName(x)
					switch name {
					case "(*sync.Map).Store", "(*sync.Map).LoadOrStore":
						if r := rootOf(com.Args[0], 0); r != "" {
							s.stores = append(s.stores, memoAccess{in, core.Strip(com.Args[1]), core.Strip(com.Args[2]), r})
						}
						continue
					case "(*sync.Map).Load":
						if r := rootOf(com.Args[0], 0); r != "" {
							s.loads = append(s.loads, memoAccess{in, core.Strip(com.Args[1]), nil, r})
						}
						continue
					}
					g := com.StaticCallee()
					if g == nil || g == fn || !inModule(g) {
						continue
					}
					// wrappers: the callee stores / loads under keys and values that are its own parameters
					gs := accessOf(g, depth+1)
					for _, a := range gs.stores {
						ki, vi := paramIndex(g, a.key), paramIndex(g, a.val)
						if ki >= 0 && vi >= 0 && ki < len(com.Args) && vi < len(com.Args) {
							cont := memoRebase(a.container, g, com.Args, rootOf)
							s.stores = append(s.stores, memoAccess{in, core.Strip(com.Args[ki]), core.Strip(com.Args[vi]), cont})
						}
					}
					for _, a := range gs.loads {
						ki := paramIndex(g, a.key)
						if ki >= 0 && ki < len(com.Args) {
							cont := memoRebase(a.container, g, com.Args, rootOf)
							s.loads = append(s.loads, memoAccess{in, core.Strip(com.Args[ki]), nil, cont})
						}
					}
				}
			}
		}
		return s
	}
	n := 0
	for _, fn := range c.P.SrcFuncs() {
		s := accessOf(fn, 0)
		if len(s.stores) == 0 || len(s.loads) == 0 {
			continue
		}
		for i, st := range s.stores {
			// a pure wrapper (key and value are parameters) is judged at its callers
			if paramIndex(fn, st.key) >= 0 && paramIndex(fn, st.val) >= 0 {
				continue
			}
			var sameCont []memoAccess
			for _, ld := range s.loads {
				if ld.container == st.container {
					sameCont = append(sameCont, ld)
				}
			}
			if len(sameCont) == 0 {
				continue
			}
			n++
			c.Touch(fn)
			okey := c.KeyAt(fn, fmt.Sprintf("memo %s #%d: the entry is a function of its key", memoLabel(st.container), i+1))
			var bad []string
			for _, ld := range sameCont {
				if ld.key != st.key {
					bad = append(bad, fmt.Sprintf("looked up under %s at %s but stored under %s at %s", describeValue(c.P, ld.key), c.Pos(ld.in), describeValue(c.P, st.key), c.Pos(st.in)))
				}
			}
			if leak := memoBypass(st.val, st.key, map[ssa.Value]bool{}); leak != nil {
				bad = append(bad, fmt.Sprintf("the value stored at %s is computed from %s, which does not pass through the key %s: two callers whose keys coincide but whose %s differ share one entry — whoever fills it first decides what the others get", c.Pos(st.in), describeValue(c.P, leak), describeValue(c.P, st.key), describeValue(c.P, leak)))
			}
			if len(bad) > 0 {
				sort.Strings(bad)
				c.Bad(okey, c.Pos(st.in), strings.Join(dedup(bad), "; "))
			} else {
				c.Ok(okey, c.Pos(st.in), "looked up and stored under the same key; every input of the stored value passes through the key")
			}
		}
	}
	c.Sites += n
}

func memoLabel(container string) string {
	container = strings.TrimPrefix(container, "recv:")
	container = strings.TrimPrefix(container, "global:")
	return core.Short(container)
}

// memoBypass: an input of v (parameter, free variable, field or global load) reached without passing through key
func memoBypass(v, key ssa.Value, seen map[ssa.Value]bool) ssa.Value {
	if v == nil || v == key || seen[v] {
		return nil
	}
	seen[v] = true
	switch x := v.(type) {
	case *ssa.Const, *ssa.Function, *ssa.Builtin:
		return nil
	case *ssa.Parameter, *ssa.FreeVar, *ssa.Global:
		return v
	case *ssa.Call:
		for _, a := range x.Common().Args {
			if l := memoBypass(a, key, seen); l != nil {
				return l
			}
		}
		if !x.Common().IsInvoke() {
			if _, isFn := x.Common().Value.(*ssa.Function); !isFn {
				if _, isB := x.Common().Value.(*ssa.Builtin); !isB {
					return memoBypass(x.Common().Value, key, seen)
				}
			}
		} else {
			return memoBypass(x.Common().Value, key, seen)
		}
		return nil
	case *ssa.Alloc:
		vals, _ := core.StoresTo(x)
		for _, s := range vals {
			if l := memoBypass(s, key, seen); l != nil {
				return l
			}
		}
		return nil
	}
	if in, ok := v.(ssa.Instruction); ok {
		for _, op := range in.Operands(nil) {
			if op == nil || *op == nil {
				continue
			}
			if l := memoBypass(*op, key, seen); l != nil {
				return l
			}
		}
	}
	return nil
}

// memoRebase: a container named relative to the callee's receiver ("recv:<T>.m") is renamed relative to what the
// caller passes as that receiver
func memoRebase(container string, g *ssa.Function, args []ssa.Value, rootOf func(ssa.Value, int) string) string {
	if !strings.HasPrefix(container, "recv:") || len(args) == 0 || g.Signature.Recv() == nil {
		return container
	}
	t := g.Signature.Recv().Type()
	if p, ok := t.(*types.Pointer); ok {
		t = p.Elem()
	}
	prefix := "recv:" + t.String()
	if !strings.HasPrefix(container, prefix) {
		return container
	}
	if r := rootOf(args[0], 0); r != "" {
		return r + strings.TrimPrefix(container, prefix)
	}
	return container
}
