package rules

import (
	"fmt"

	"golang.org/x/tools/go/ssa"

	"verif/checker/core"
)

// R-TXN-11 — the point of no return of COMMIT: the restore points of temporary
// tables and stdin views advance only after the file phase (C01: after a failed
// COMMIT every temporary table is as at the most recent successful COMMIT; the
// ROLLBACK that follows a failed COMMIT restores to the restore points).

const (
	txn11RestorePoint = "lib/query.(*View).CreateRestorePoint"
	txn11UpdateStdin  = "lib/query.(*Session).updateStdinView"
)

func init() {
	Register(&Rule{ID: "R-TXN-11", Props: []string{"C01", "C08"}, Floor: 2,
		Doc:      "point of no return: in (*Transaction).Commit and the lib/query functions it statically calls, after a call that advances restore points (StoreTemporaryTable, View.CreateRestorePoint, Session.updateStdinView, or a lib/query function calling one of them directly — the transitive call graph is not used for these callback-reached steps) no call of the file phase is reachable (nothing that reaches EncodeView or (*file.Container).Commit, no (*os.File) Write/Truncate/Seek), and every return reachable from it yields a nil error except behind the failure edge of the call that reaches ReleaseResources (the files are already swapped then; the result of such a call may also be returned as it is when the callee is ReleaseResources or a lib/query helper that, from its entry, has no file phase and no other failing return): a failing COMMIT leaves every temporary table with the restore point of the last successful COMMIT. Mirror: every exit of (*Transaction).Rollback, failing or not, has passed RestoreTemporaryTable when scope != nil",
		Controls: []string{"CtlTxn11RestorePointsFirst", "CtlTxn11TailHelperFails"},
		Run:      ruleTxn11})
}

func ruleTxn11(c *Ctx) {
	p := c.P
	start := len(c.Obs)
	defer c.negControls(start, "okTxn11RestorePointsLast", "okTxn11TailHelper")
	commit := c.Fn(txnTxCommit)
	rollback := c.Fn(txnTxRollback)
	if commit == nil || rollback == nil || c.Fn(txnStoreTemp) == nil || c.Fn(txn11RestorePoint) == nil {
		return
	}
	steps := map[string]bool{txnStoreTemp: true, txn11RestorePoint: true, txn11UpdateStdin: true}
	// advances: a call of a step, or of a lib/query function that calls one directly
	advances := func(in ssa.Instruction) bool {
		call, ok := in.(*ssa.Call)
		if !ok {
			return false
		}
		k := core.StaticCallee(call)
		if k == nil {
			return false
		}
		if steps[p.FnRef(k)] {
			return true
		}
		if !txnIsSrc(p, k) || k.Parent() != nil || !p.InPkg(k, "lib/query") {
			return false
		}
		for _, kc := range core.Calls(k) {
			if kk := core.StaticCallee(kc); kk != nil && steps[p.FnRef(kk)] {
				return true
			}
		}
		return false
	}
	fileSet := txnSet(p, txnEncodeView, txnContCommit)
	isFilePhase := func(in ssa.Instruction) bool {
		call, ok := in.(ssa.CallInstruction)
		if !ok {
			return false
		}
		switch p.CalleeName(call) {
		case "(*os.File).Write", "(*os.File).WriteString", "(*os.File).WriteAt", "(*os.File).Truncate", "(*os.File).Seek", "(*os.File).ReadFrom":
			return true
		}
		return txnCallIn(p, call, fileSet)
	}
	releaseSet := txnSet(p, txnTxRelease)

	// Commit and the lib/query functions it statically calls (not below the steps themselves)
	fns := []*ssa.Function{commit}
	seen := map[*ssa.Function]bool{commit: true}
	for i := 0; i < len(fns); i++ {
		for _, call := range core.Calls(fns[i]) {
			k := core.StaticCallee(call)
			if k == nil || seen[k] || k.Blocks == nil || !p.InPkg(k, "lib/query") || steps[p.FnRef(k)] || p.FnRef(k) == txnEncodeView {
				continue
			}
			seen[k] = true
			fns = append(fns, k)
		}
	}
	sortFuncs(p, fns[1:])
	fns = append(fns, txnCtl(c, "Txn11")...)

	// release-failure edges: behind them the files are already swapped
	relCut := func(from, to *ssa.BasicBlock) bool {
		return txnNilEdge(from, to, func(v ssa.Value) bool {
			rc, ok := txnThroughCell(v).(*ssa.Call)
			return ok && txnCallIn(p, rc, releaseSet)
		}, false)
	}
	// scan: what is reachable from b.Instrs[start:] of fn — a file-phase call, or a return that can report a
	// failure other than the failure of the release. A return whose error operand is the very result of a
	// call that reaches ReleaseResources (`return tx.ReleaseResources()`, `return tx.finish(expr, NewXError)`)
	// is the failure edge of that call handed to the caller unchanged; it is accepted when the callee is
	// ReleaseResources itself or a lib/query function that, scanned from its entry in the same way, has
	// no file phase and no other failing return (the closing calls extracted into a helper).
	tailMemo := map[*ssa.Function]string{}
	var scan func(fn *ssa.Function, b *ssa.BasicBlock, start int, depth int) string
	tailWhy := func(rc *ssa.Call, depth int) (string, bool) {
		if !txnCallIn(p, rc, releaseSet) {
			return "", false
		}
		h := core.StaticCallee(rc)
		if h == nil {
			return "", false
		}
		if p.FnRef(h) == txnTxRelease {
			return "", true
		}
		if h.Blocks == nil || depth >= 3 || !(p.InPkg(h, "lib/query") || p.IsControl(h)) {
			return "", false
		}
		if w, ok := tailMemo[h]; ok {
			return w, true
		}
		tailMemo[h] = "" // a recursive helper adds nothing to its own verdict
		w := scan(h, h.Blocks[0], 0, depth+1)
		tailMemo[h] = w
		return w, true
	}
	scan = func(fn *ssa.Function, b *ssa.BasicBlock, start int, depth int) string {
		errIdx := core.ErrorResultIndex(fn)
		why := ""
		core.WalkPruned(b, start, func(x ssa.Instruction) bool {
			if why != "" {
				return false
			}
			if isFilePhase(x) {
				why = fmt.Sprintf("the file phase (%s at %s) still runs after the restore points of temporary tables / stdin views have advanced", txnCallLabel(p, x.(ssa.CallInstruction)), c.Pos(x))
				return false
			}
			if r, ok := x.(*ssa.Return); ok && errIdx >= 0 {
				for _, v := range core.ReturnOperand(r, errIdx) {
					if v == nil || core.ClassifyNil(v, r) == core.IsNil {
						continue
					}
					if rc, isCall := txnThroughCell(v).(*ssa.Call); isCall {
						if w, isTail := tailWhy(rc, depth); isTail {
							if w != "" && why == "" {
								why = w + " (in " + txnCallLabel(p, rc) + ", whose result the return at " + c.Pos(r) + " hands on)"
							}
							continue
						}
					}
					why = fmt.Sprintf("the return at %s can report a failure after the restore points have advanced", c.Pos(r))
				}
				return false
			}
			return true
		}, relCut)
		return why
	}

	nFile, nAdv := 0, 0
	for _, fn := range fns {
		ord := map[string]int{}
		for _, b := range fn.Blocks {
			for _, in := range b.Instrs {
				if isFilePhase(in) && !p.IsControl(fn) {
					nFile++
				}
				if !advances(in) {
					continue
				}
				if !p.IsControl(fn) {
					nAdv++
				}
				c.Sites++
				c.Touch(fn)
				call := in.(*ssa.Call)
				key := txnOrd(ord, c.KeyAt(fn, "no failing exit after "+txnCallLabel(p, call)))
				why := scan(fn, in.Block(), core.InstrIndex(in)+1, 0)
				if why != "" {
					c.Bad(key, c.Pos(in), why+": if COMMIT fails there, the ROLLBACK that follows restores the temporary tables to the uncommitted state while the files go back to the last commit")
				} else {
					c.Ok(key, c.Pos(in), "no file-phase call and no failing return (other than a failed ReleaseResources, after the swap) is reachable after it")
				}
			}
		}
	}
	if nAdv == 0 || nFile == 0 {
		c.Unknown(c.KeyAt(commit, "restore points and file phase"), c.FnPos(commit), fmt.Sprintf("cannot-analyse: %d restore-point call(s) and %d file-phase call(s) found in Commit and the functions it calls; the rule no longer sees both", nAdv, nFile))
	}

	// mirror: every exit of Rollback has restored the temporary tables (scope != nil)
	key := c.KeyAt(rollback, "every exit has passed RestoreTemporaryTable")
	isRestore := func(in ssa.Instruction) bool {
		call, ok := in.(*ssa.Call)
		if !ok {
			return false
		}
		k := core.StaticCallee(call)
		return k != nil && p.FnRef(k) == txnRestoreTemp
	}
	recv := map[ssa.Value]bool{}
	for _, call := range p.CallsNamed(rollback, txnRestoreTemp) {
		if args := call.Common().Args; len(args) > 0 {
			if pa, ok := args[0].(*ssa.Parameter); ok {
				recv[pa] = true
			}
		}
	}
	cut := func(from, to *ssa.BasicBlock) bool {
		return txnNilEdge(from, to, func(v ssa.Value) bool { return recv[v] }, true)
	}
	if len(recv) == 0 {
		c.Bad(key, c.FnPos(rollback), "Rollback does not call RestoreTemporaryTable on its scope parameter")
	} else if exits := core.ExitsFromEntry(rollback, isRestore, cut); len(exits) > 0 {
		c.Bad(key, c.Pos(exits[0]), fmt.Sprintf("the exit at %s is reachable with scope != nil without RestoreTemporaryTable: a rollback that fails early would leave temporary tables in their uncommitted state", c.Pos(exits[0])))
	} else {
		c.Ok(key, c.FnPos(rollback), "also the failing exit (ReleaseResources error) comes after RestoreTemporaryTable")
	}
}
