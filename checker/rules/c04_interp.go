package rules

// Seventh round (DESIGN §8): three "one interpreter" rules.
//
//	R-CONV-4  texts are read as numbers / booleans / datetimes only by the lib/value
//	          conversions (who-may-call on strconv.Parse* / time.Parse* in lib/query)
//	R-LIM-5   LIMIT / OFFSET are interpreted only by View.Limit / View.Offset
//	          (who-may-read on LimitClause.Value / OffsetClause.Value)
//	R-KEY-7   a byte buffer whose content becomes a map key is written only by the
//	          framed key serialisers

import (
	"fmt"
	"go/token"
	"go/types"
	"sort"
	"strings"

	"golang.org/x/tools/go/ssa"

	"verif/checker/core"
)

func init() {
	Register(&Rule{ID: "R-CONV-4", Props: []string{"C04", "C06", "C17"}, Floor: 3,
		Doc:      "one reading of a text as a value: in lib/query a call of strconv.ParseFloat / ParseInt / ParseUint / Atoi / ParseBool or time.Parse / ParseInLocation occurs only in the listed functions (and their private helpers), each of which implements a documented conversion of its own (BIN_TO_DEC …, ENOTATION_TO_DEC, the digits of a FORMAT placeholder); everything else goes through the lib/value conversions (ToFloat, ToInteger, ToDatetime, ToBoolean), which define what counts as a number — trimmed, no NaN from text where the ladder says so — for comparison, bucketing and aggregation alike. An aggregate with its own parser sums other rows than the ones its bucket holds",
		Controls: []string{"ctlConvOwnParser"},
		Run:      ruleConv4})
	Register(&Rule{ID: "R-LIM-5", Props: []string{"C07"}, Floor: 4,
		Doc:      "LIMIT and OFFSET have one interpreter: the Value of a parser.LimitClause / parser.OffsetClause is read in lib/query only by View.Limit, View.Offset (and their private helpers) and by the constructors of the three error messages that print it. The clamping rules (negative → 0, beyond the rows → all, PERCENT of the pre-offset count) live there; a second reader — an early cut before the select clause, a pushed-down row budget — has to repeat them and is reported",
		Controls: []string{"ctlLimitSecondReader"},
		Run:      ruleLim5})
	Register(&Rule{ID: "R-KEY-7", Props: []string{"C04", "C17", "C03"}, Floor: 2,
		Doc:      "what becomes a map key is framed: in lib/query, when the key of a map lookup or update is the String() (or string(Bytes())) of a byte buffer, every write into that buffer in the function and its closures is made by the comparison-key serialisers (functions reachable from SerializeComparisonKeys, SerializeKey, SerializeIdenticalKey, SortValues.Serialize — R-KEY-1 decides that they frame free text) or is a constant; a buffer filled by joining raw texts with a separator maps different tuples to one key (('a:b','c') and ('a','b:c')), whatever it is used for — a bucket, or a memo that hands out buckets",
		Controls: []string{"ctlKeyJoinedTexts"},
		Run:      ruleKey7})
}

// ---------------------------------------------------------------------------
// R-CONV-4

var conv4Parsers = map[string]bool{
	"strconv.ParseFloat": true, "strconv.ParseInt": true, "strconv.ParseUint": true, "strconv.Atoi": true,
	"strconv.ParseBool": true, "strconv.ParseComplex": true,
	"time.Parse": true, "time.ParseInLocation": true,
	"fmt.Sscan": true, "fmt.Sscanf": true, "fmt.Sscanln": true,
	"(*math/big.Float).SetString": true, "(*math/big.Int).SetString": true, "(*math/big.Rat).SetString": true,
}

var conv4Allowed = map[string]string{
	"lib/query.execParseInt":               "BIN_TO_DEC / OCT_TO_DEC / HEX_TO_DEC: the documented reading of a text in another base",
	"lib/query.EnotationToDec":             "ENOTATION_TO_DEC: the documented reading of an exponential notation",
	"lib/query.(*StringFormatter).integer": "the width / precision digits of a FORMAT placeholder, not a value",
}

func ruleConv4(c *Ctx) {
	var names []string
	for n := range conv4Allowed {
		names = append(names, n)
	}
	sort.Strings(names)
	n := 0
	for _, fn := range c.P.FuncsIn(true, "lib/query") {
		for _, call := range core.Calls(fn) {
			callee := c.P.CalleeName(call)
			if !conv4Parsers[callee] {
				continue
			}
			c.Sites++
			c.Touch(fn)
			outer := fn
			for outer.Parent() != nil {
				outer = outer.Parent()
			}
			key := c.KeyAt(outer, "calls "+callee)
			in := call.(ssa.Instruction)
			if c.P.IsControl(fn) {
				c.Bad(key, c.Pos(in), "a function outside the listed conversions parses a text with "+callee)
				continue
			}
			n++
			if owner := exceptionOwner(c.P, outer, names); owner != "" {
				c.Ok(key, c.Pos(in), "listed: "+conv4Allowed[owner])
			} else {
				c.Bad(key, c.Pos(in), "lib/query reads a text with "+callee+" outside the listed conversions: the lib/value conversions (ToFloat / ToInteger / ToDatetime / ToBoolean) decide what counts as a number for comparison and bucketing — surrounding blanks are trimmed, the ladder is fixed — so a function with its own parser treats the same cell differently (an aggregate skips rows its bucket contains)")
			}
		}
	}
	if n < 3 {
		c.Unknown("anchor:strconv users of lib/query", "-", fmt.Sprintf("cannot-analyse: expected the three listed parse sites in lib/query, found %d", n))
	}
}

// ---------------------------------------------------------------------------
// R-LIM-5

var lim5Allowed = map[string]string{
	"lib/query.(*View).Limit":                  "the interpreter of LIMIT",
	"lib/query.(*View).Offset":                 "the interpreter of OFFSET",
	"lib/query.NewInvalidLimitPercentageError": "prints the expression in the error message",
	"lib/query.NewInvalidLimitNumberError":     "prints the expression in the error message",
	"lib/query.NewInvalidOffsetNumberError":    "prints the expression in the error message",
}

func ruleLim5(c *Ctx) {
	var names []string
	for n := range lim5Allowed {
		names = append(names, n)
	}
	sort.Strings(names)
	isClauseValue := func(t types.Type, idx int) (string, bool) {
		if p, ok := t.Underlying().(*types.Pointer); ok {
			t = p.Elem()
		}
		nm := core.NamedOf(t)
		if nm != "lib/parser.LimitClause" && nm != "lib/parser.OffsetClause" {
			return "", false
		}
		st, ok := t.Underlying().(*types.Struct)
		if !ok || idx >= st.NumFields() || st.Field(idx).Name() != "Value" {
			return "", false
		}
		return strings.TrimPrefix(nm, "lib/parser.") + ".Value", true
	}
	n := 0
	for _, fn := range c.P.FuncsIn(true, "lib/query") {
		seen := map[string]bool{}
		for _, b := range fn.Blocks {
			for _, in := range b.Instrs {
				what, ok := "", false
				switch x := in.(type) {
				case *ssa.Field:
					what, ok = isClauseValue(x.X.Type(), x.Field)
				case *ssa.FieldAddr:
					what, ok = isClauseValue(x.X.Type(), x.Field)
					if ok {
						// only loads count as reads
						isRead := false
						for _, r := range *x.Referrers() {
							if u, isU := r.(*ssa.UnOp); isU && u.Op == token.MUL {
								isRead = true
							}
						}
						ok = isRead
					}
				}
				if !ok || seen[what] {
					continue
				}
				seen[what] = true
				c.Touch(fn)
				outer := fn
				for outer.Parent() != nil {
					outer = outer.Parent()
				}
				key := c.KeyAt(outer, "reads "+what)
				if c.P.IsControl(fn) {
					c.Bad(key, c.Pos(in), "a second reader of "+what)
					continue
				}
				n++
				if owner := exceptionOwner(c.P, outer, names); owner != "" {
					c.Ok(key, c.Pos(in), "listed: "+lim5Allowed[owner])
				} else {
					c.Bad(key, c.Pos(in), what+" is evaluated outside View.Limit / View.Offset: the rules for negative values, values beyond the row count and PERCENT live in those two functions; a second interpreter (a row budget computed before the select clause, an early cut) that combines the raw numbers differently returns other rows for LIMIT n OFFSET m with a negative or huge operand")
				}
			}
		}
	}
	if n < 4 {
		c.Unknown("anchor:readers of LimitClause.Value", "-", fmt.Sprintf("cannot-analyse: expected at least 4 readers of LimitClause.Value / OffsetClause.Value in lib/query, found %d", n))
	}
}

// ---------------------------------------------------------------------------
// R-KEY-7

func key7Family(c *Ctx) map[*ssa.Function]bool {
	fam := map[*ssa.Function]bool{}
	var visit func(f *ssa.Function, d int)
	visit = func(f *ssa.Function, d int) {
		if f == nil || fam[f] || f.Blocks == nil || d > 6 || !(c.P.InPkg(f, "lib/query") || c.P.IsControl(f)) {
			return
		}
		fam[f] = true
		for _, call := range core.Calls(f) {
			visit(core.StaticCallee(call), d+1)
		}
	}
	for _, n := range []string{"lib/query.SerializeComparisonKeys", "lib/query.SerializeKey", "lib/query.SerializeIdenticalKey", "lib/query.(SortValues).Serialize"} {
		visit(c.Fn(n), 0)
	}
	return fam
}

// key7Buffer returns the buffer whose content v is: buf.String(), string(buf.Bytes()).
func key7Buffer(c *Ctx, v ssa.Value) ssa.Value {
	switch x := v.(type) {
	case *ssa.Call:
		switch c.P.CalleeName(x) {
		case "(*bytes.Buffer).String", "(*strings.Builder).String", "(*bytes.Buffer).Bytes":
			if len(x.Call.Args) > 0 {
				return x.Call.Args[0]
			}
		}
	case *ssa.Convert:
		return key7Buffer(c, x.X)
	case *ssa.Slice:
		return key7Buffer(c, x.X)
	}
	// the result of a lib/query helper that returns the text of a buffer it was handed
	if call, ok := v.(*ssa.Call); ok {
		if g := core.StaticCallee(call); g != nil && g.Blocks != nil && (c.P.InPkg(g, "lib/query") || c.P.IsControl(g)) && g.Signature.Results().Len() == 1 {
			var buf ssa.Value
			for _, rv := range core.ReturnedValues(g, 0) {
				b := key7Buffer(c, rv)
				prm, isParam := b.(*ssa.Parameter)
				if b == nil || !isParam {
					return nil
				}
				for i, q := range g.Params {
					if q == prm && i < len(call.Call.Args) {
						if buf != nil && buf != call.Call.Args[i] {
							return nil
						}
						buf = call.Call.Args[i]
					}
				}
			}
			return buf
		}
	}
	return nil
}

func ruleKey7(c *Ctx) {
	fam := key7Family(c)
	if len(fam) == 0 {
		return
	}
	writers := map[string]bool{
		"(*bytes.Buffer).Write": true, "(*bytes.Buffer).WriteString": true, "(*bytes.Buffer).WriteByte": true, "(*bytes.Buffer).WriteRune": true,
		"(*strings.Builder).Write": true, "(*strings.Builder).WriteString": true, "(*strings.Builder).WriteByte": true, "(*strings.Builder).WriteRune": true,
		"fmt.Fprintf": true, "fmt.Fprint": true, "fmt.Fprintln": true, "io.WriteString": true,
	}
	n := 0
	for _, fn := range c.P.FuncsIn(true, "lib/query") {
		if fam[fn] {
			continue
		}
		bufs := map[ssa.Value]ssa.Instruction{}
		var order []ssa.Value
		for _, b := range fn.Blocks {
			for _, in := range b.Instrs {
				var key ssa.Value
				switch x := in.(type) {
				case *ssa.Lookup:
					if _, isMap := x.X.Type().Underlying().(*types.Map); isMap {
						key = x.Index
					}
				case *ssa.MapUpdate:
					key = x.Key
				}
				if key == nil {
					continue
				}
				for _, o := range core.Origins(key, false) {
					if buf := key7Buffer(c, o); buf != nil {
						root := scpResolveCell(buf)
						if _, dup := bufs[root]; !dup {
							bufs[root] = in
							order = append(order, root)
						}
					}
				}
			}
		}
		for _, buf := range order {
			c.Touch(fn)
			outer := fn
			for outer.Parent() != nil {
				outer = outer.Parent()
			}
			key := c.KeyAt(fn, "map key taken from "+valueLabel(buf))
			bad := ""
			var at ssa.Instruction = bufs[buf]
			// every use of the buffer in the outermost function and all its closures
			var scan func(g *ssa.Function)
			sameBuf := func(v ssa.Value) bool {
				return v == buf || scpResolveCell(v) == buf || core.SameVal(v, buf)
			}
			scan = func(g *ssa.Function) {
				for _, call := range core.Calls(g) {
					uses := false
					for _, a := range call.Common().Args {
						if sameBuf(a) {
							uses = true
						}
					}
					if !uses {
						continue
					}
					callee := c.P.CalleeName(call)
					f := core.StaticCallee(call)
					switch {
					case writers[callee]:
						// a constant byte / string is harmless
						constant := true
						for _, a := range call.Common().Args[1:] {
							if _, isConst := a.(*ssa.Const); !isConst {
								constant = false
							}
						}
						if !constant && bad == "" {
							bad, at = "the buffer is written directly with "+callee+" (free text, no framing)", call.(ssa.Instruction)
						}
					case f != nil && fam[f]:
					case f != nil && f.Blocks != nil && (c.P.InPkg(f, "lib/query") || c.P.IsControl(f)):
						// a csvq function outside the serialiser family: may it write?
						if key7Writes(c, f, writers, fam, 0) && bad == "" {
							bad, at = "the buffer is filled by "+c.P.Name(f)+", which is not one of the framed key serialisers and writes texts into it", call.(ssa.Instruction)
						}
					}
				}
				for _, af := range g.AnonFuncs {
					scan(af)
				}
			}
			scan(outer)
			if !c.P.IsControl(fn) {
				n++
			}
			if bad != "" {
				c.Bad(key, c.Pos(at), bad+": two different tuples of values can produce the same bytes, so they share the map entry (one bucket for two keys, or one memoised bucket key for two tuples)")
			} else {
				c.Ok(key, c.Pos(at), "the buffer is written only by the framed key serialisers (or with constants)")
			}
		}
	}
	if n < 2 {
		c.Unknown("anchor:buffer-keyed maps of lib/query", "-", fmt.Sprintf("cannot-analyse: expected at least 2 map keys taken from a byte buffer in lib/query, found %d", n))
	}
}

// key7Writes: f (or a csvq callee outside the family, two levels down) writes
// non-constant data into a buffer.
func key7Writes(c *Ctx, f *ssa.Function, writers map[string]bool, fam map[*ssa.Function]bool, depth int) bool {
	if depth > 2 {
		return false
	}
	for _, call := range core.Calls(f) {
		callee := c.P.CalleeName(call)
		if writers[callee] {
			for _, a := range call.Common().Args[1:] {
				if _, isConst := a.(*ssa.Const); !isConst {
					return true
				}
			}
			continue
		}
		g := core.StaticCallee(call)
		if g != nil && !fam[g] && g.Blocks != nil && c.P.InPkg(g, "lib/query") && key7Writes(c, g, writers, fam, depth+1) {
			return true
		}
	}
	return false
}
