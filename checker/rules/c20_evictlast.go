package rules

import (
	"fmt"
	"go/token"
	"go/types"
	"sort"
	"strings"

	"golang.org/x/tools/go/ssa"

	"verif/checker/core"
)

// C08 / C20 — "evict last".
//
//	R-CACHE-6  after a table was removed from a table container of the transaction
//	           (Transaction.CachedViews, BlockScope.TemporaryTables) the removing function
//	           can no longer fail — unless it has put a table back under way.
//
// The defect it was written for (round 7): the lock-upgrade arm of cacheViewFromFile
// disposed the cached read-only copy and only then tried to lock and re-read the file; a
// lock timeout / parse error / cancellation left the transaction without the table it had
// loaded, so a FAILED data-changing statement changed what later SELECTs of the same
// transaction see (they re-read the file: another process's commit becomes visible).
// R-CACHE-2 is the who-may-evict table and explicitly tolerated that shape; this rule is
// the ordering clause for everybody who evicts.

func init() {
	Register(&Rule{ID: "R-CACHE-6", Props: []string{"C20", "C08"}, Floor: 3,
		Doc: "for every call that removes entries from Transaction.CachedViews or from a BlockScope.TemporaryTables map (sync.Map Delete/LoadAndDelete/CompareAndDelete/Clear reached through a map value derived from such a field, directly or via callees that delete from their map parameter; the end-of-transaction releasers ReleaseResources/ReleaseResourcesWithErrors excepted): " +
			"every return of the same function that is reachable from the call without passing a re-publication into the same container (ViewMap.Set/Store on it, Replace/SetTemporaryTable for temporary tables) returns a nil error (edge-sensitive, through Phi and result cells). " +
			"The removal's own failure is not a failure after it: the edge on which the removing call's own error result is non-nil (own bool result false) is not followed, under the checked side condition that in every callee no return after a delete yields a non-nil error (anything but constant true). " +
			"Functions without an error result cannot fail; a removal inside a function literal whose enclosing function has an error result is undecided",
		Controls: []string{"CtlEvictThenFailReload", "CtlEvictTempThenFail", "CtlEvictViaCleanThenFail"},
		Run:      ruleCache6})
}

var cache6Containers = map[string]string{
	"lib/query.Transaction.CachedViews":    "Transaction.CachedViews",
	"lib/query.BlockScope.TemporaryTables": "BlockScope.TemporaryTables",
}

// re-publication primitives that are not map methods (they file into TemporaryTables)
var cache6TempPublishers = map[string]bool{
	"lib/query.(*ReferenceScope).ReplaceTemporaryTable": true,
	"lib/query.(*ReferenceScope).SetTemporaryTable":     true,
}

// containerOwners: the table containers (field owners listed in cache6Containers) a
// map-carrying value is derived from.
func containerOwners(v ssa.Value) []string {
	found := map[string]bool{}
	seen := map[ssa.Value]bool{}
	var walk func(v ssa.Value)
	walk = func(v ssa.Value) {
		if v == nil || seen[v] {
			return
		}
		seen[v] = true
		switch x := v.(type) {
		case *ssa.FieldAddr:
			if _, ok := cache6Containers[core.FieldOwner(x)]; ok {
				found[core.FieldOwner(x)] = true
				return
			}
			walk(x.X)
		case *ssa.Field:
			if _, ok := cache6Containers[core.FieldOwner(x)]; ok {
				found[core.FieldOwner(x)] = true
				return
			}
			walk(x.X)
		case *ssa.IndexAddr:
			walk(x.X)
		case *ssa.UnOp:
			if x.Op != token.MUL {
				return
			}
			switch c := x.X.(type) {
			case *ssa.Alloc, *ssa.FreeVar:
				root := rootCellOf(c)
				vals, _ := core.StoresTo(root)
				for _, s := range vals {
					walk(s)
				}
			default:
				walk(x.X)
			}
		case *ssa.Alloc, *ssa.FreeVar:
			vals, _ := core.StoresTo(rootCellOf(x))
			for _, s := range vals {
				walk(s)
			}
		case *ssa.Phi:
			for _, e := range x.Edges {
				walk(e)
			}
		case *ssa.ChangeType:
			walk(x.X)
		case *ssa.MakeInterface:
			walk(x.X)
		}
	}
	walk(v)
	var out []string
	for o := range found {
		out = append(out, o)
	}
	sort.Strings(out)
	return out
}

type cache6 struct {
	c  *Ctx
	ei *evictInfo
	// side conditions per callee
	errClean  map[*ssa.Function]int // 0 unknown, 1 yes, 2 no
	boolClean map[*ssa.Function]int
}

// evictingCalls: the calls of f that remove entries from some map.
func (k *cache6) evictingCalls(f *ssa.Function) []ssa.CallInstruction {
	var out []ssa.CallInstruction
	for _, call := range core.Calls(f) {
		if len(k.ei.evictingArgs(k.c.P, call)) > 0 {
			out = append(out, call)
		}
	}
	return out
}

// calleeFailsOnlyBeforeDeleting: in f, no return reachable after a delete yields a
// possibly non-nil error — so "f returned an error" implies "f deleted nothing".
func (k *cache6) calleeFailsOnlyBeforeDeleting(f *ssa.Function) bool {
	if f == nil || f.Blocks == nil {
		return false
	}
	if st := k.errClean[f]; st != 0 {
		return st == 1
	}
	k.errClean[f] = 2
	eidx := core.ErrorResultIndex(f)
	if eidx < 0 {
		return false
	}
	for _, d := range k.evictingCalls(f) {
		in := d.(ssa.Instruction)
		actx := newAfterCtx(in)
		for _, r := range core.Returns(f) {
			if !actx.after(r) {
				continue
			}
			for _, l := range actx.leaves(r.Results[eidx], r) {
				if classifyLeaf(l) != core.IsNil {
					return false
				}
			}
		}
	}
	k.errClean[f] = 1
	return true
}

// calleeReportsDeletion: f's first result is a bool and every return reachable after a
// delete returns constant true — so "f returned false" implies "f deleted nothing".
func (k *cache6) calleeReportsDeletion(f *ssa.Function) bool {
	if f == nil || f.Blocks == nil {
		return false
	}
	if st := k.boolClean[f]; st != 0 {
		return st == 1
	}
	k.boolClean[f] = 2
	res := f.Signature.Results()
	if res.Len() != 1 || !isBoolType(res.At(0).Type()) {
		return false
	}
	for _, d := range k.evictingCalls(f) {
		in := d.(ssa.Instruction)
		actx := newAfterCtx(in)
		for _, r := range core.Returns(f) {
			if !actx.after(r) {
				continue
			}
			if b, ok := core.ConstBool(r.Results[0]); !ok || !b {
				return false
			}
		}
	}
	k.boolClean[f] = 1
	return true
}

func isBoolType(t types.Type) bool {
	b, ok := t.Underlying().(*types.Basic)
	return ok && b.Kind() == types.Bool
}

// onlyDeferredCapture: every closure that captures the cell runs at function exit only,
// so loads in the body see the body's own stores.
func onlyDeferredCapture(al *ssa.Alloc) bool {
	for _, r := range *al.Referrers() {
		switch x := r.(type) {
		case *ssa.Store:
			if x.Val == al {
				return false
			}
		case *ssa.UnOp, *ssa.DebugRef:
		case *ssa.MakeClosure:
			for _, rr := range *x.Referrers() {
				if _, ok := rr.(*ssa.Defer); !ok {
					if _, ok := rr.(*ssa.DebugRef); !ok {
						return false
					}
				}
			}
		default:
			return false
		}
	}
	return true
}

// isOwnResult: v, used at `at`, is (a result of) the call e itself on every execution in
// which e ran before.
func isOwnResult(actx *afterCtx, e ssa.CallInstruction, v ssa.Value, at ssa.Instruction) bool {
	ev := e.Value()
	if ev == nil || v == nil {
		return false
	}
	switch x := v.(type) {
	case *ssa.Call:
		return x == ev
	case *ssa.Extract:
		return x.Tuple == ssa.Value(ev)
	case *ssa.ChangeInterface:
		return isOwnResult(actx, e, x.X, at)
	case *ssa.UnOp:
		if x.Op == token.NOT {
			return isOwnResult(actx, e, x.X, at)
		}
		if x.Op != token.MUL {
			return false
		}
		al, ok := x.X.(*ssa.Alloc)
		if !ok || !onlyDeferredCapture(al) || !actx.after(x) {
			return false
		}
		sts := actx.reachingStores(al, x)
		if len(sts) == 0 {
			return false
		}
		for _, s := range sts {
			if s == nil || !isOwnResult(actx, e, s.Val, s) {
				return false
			}
		}
		return true
	}
	return false
}

func ruleCache6(c *Ctx) {
	p := c.P
	k := &cache6{c: c, ei: evictSummaries(p), errClean: map[*ssa.Function]int{}, boolClean: map[*ssa.Function]int{}}
	for n := range cache2Allowed {
		c.Fn(n)
	}
	fns := append([]*ssa.Function(nil), p.SrcFuncs()...)
	sortFuncs(p, fns)
	seenKey := map[string]int{}
	for _, fn := range fns {
		if _, ok := cache2Allowed[p.Name(fn)]; ok {
			continue
		}
		for _, call := range core.Calls(fn) {
			owners := map[string]bool{}
			for _, ev := range k.ei.evictingArgs(p, call) {
				for _, o := range containerOwners(ev.arg) {
					owners[o] = true
				}
			}
			if len(owners) == 0 {
				continue
			}
			var ol []string
			for o := range owners {
				ol = append(ol, o)
			}
			sort.Strings(ol)
			for _, owner := range ol {
				c.Touch(fn)
				c.Sites++
				key := c.KeyAt(fn, "nothing fails after the removal from "+cache6Containers[owner]+" via "+callDesc(p, call))
				seenKey[key]++
				if seenKey[key] > 1 {
					key = fmt.Sprintf("%s #%d", key, seenKey[key])
				}
				k.site(fn, call, owner, key)
			}
		}
	}
}

func (k *cache6) site(fn *ssa.Function, call ssa.CallInstruction, owner, key string) {
	c, p := k.c, k.c.P
	in := call.(ssa.Instruction)
	eidx := core.ErrorResultIndex(fn)
	if eidx < 0 {
		if par := fn.Parent(); par != nil {
			for q := par; q != nil; q = q.Parent() {
				if core.ErrorResultIndex(q) >= 0 {
					c.Unknown(key, c.Pos(in), "the removal happens inside a function literal; its place in the control flow of "+p.Name(q)+", which can fail, is not modelled")
					return
				}
			}
		}
		c.Ok(key, c.Pos(in), "the function has no error result: it cannot fail after the removal")
		return
	}
	actx := newAfterCtx(in)

	isRepublish := func(x ssa.Instruction) bool {
		cl, ok := x.(ssa.CallInstruction)
		if !ok {
			return false
		}
		n := p.CalleeName(cl)
		if n == "lib/query.(ViewMap).Set" || n == "lib/query.(ViewMap).Store" {
			for _, o := range containerOwners(cl.Common().Args[0]) {
				if o == owner {
					return true
				}
			}
			return false
		}
		return owner == "lib/query.BlockScope.TemporaryTables" && cache6TempPublishers[n]
	}

	// side conditions of the own-result exemptions
	callees := p.Callees(call)
	ownErr, ownBool := len(callees) > 0, len(callees) > 0
	for _, f := range callees {
		if !k.calleeFailsOnlyBeforeDeleting(f) {
			ownErr = false
		}
		if !k.calleeReportsDeletion(f) {
			ownBool = false
		}
	}

	// prunedSucc: successors of b that mean "the removal itself did not happen"
	pruned := func(b *ssa.BasicBlock) map[*ssa.BasicBlock]bool {
		iff, ok := blockTerm(b).(*ssa.If)
		if !ok || len(b.Succs) != 2 || b.Succs[0] == b.Succs[1] {
			return nil
		}
		if ownErr {
			if x, neq, ok := core.NilCmp(iff.Cond); ok && core.IsErrorType(x.Type()) && isOwnResult(actx, call, x, iff) {
				if neq {
					return map[*ssa.BasicBlock]bool{b.Succs[0]: true}
				}
				return map[*ssa.BasicBlock]bool{b.Succs[1]: true}
			}
		}
		if ownBool && isOwnResult(actx, call, iff.Cond, iff) {
			neg := false
			for v := iff.Cond; ; {
				u, ok := v.(*ssa.UnOp)
				if !ok || u.Op != token.NOT {
					break
				}
				neg = !neg
				v = u.X
			}
			if neg {
				return map[*ssa.BasicBlock]bool{b.Succs[0]: true}
			}
			return map[*ssa.BasicBlock]bool{b.Succs[1]: true}
		}
		return nil
	}

	var bad []string
	nret := 0
	checkReturn := func(r *ssa.Return) {
		nret++
		for _, l := range actx.leaves(r.Results[eidx], r) {
			if ownErr && l.all(func(v ssa.Value) bool { return isOwnResult(actx, call, v, r) }) {
				continue
			}
			kind := classifyLeaf(l)
			if kind == core.IsNil {
				continue
			}
			what := "a non-nil error"
			if kind == core.MaybeNil {
				what = "a possibly non-nil error"
			}
			bad = append(bad, fmt.Sprintf("return at %s yields %s (%s)", c.Pos(r), what, valueLabel(l.v)))
		}
	}
	seen := map[*ssa.BasicBlock]bool{}
	var walk func(b *ssa.BasicBlock, start int)
	walk = func(b *ssa.BasicBlock, start int) {
		for i := start; i < len(b.Instrs); i++ {
			x := b.Instrs[i]
			if isRepublish(x) {
				return
			}
			if r, ok := x.(*ssa.Return); ok {
				checkReturn(r)
				return
			}
		}
		skip := pruned(b)
		for _, s := range b.Succs {
			if skip[s] || seen[s] {
				continue
			}
			seen[s] = true
			walk(s, 0)
		}
	}
	walk(in.Block(), core.InstrIndex(in)+1)

	if len(bad) > 0 {
		bad = dedup(bad)
		sort.Strings(bad)
		c.Bad(key, c.Pos(in), "the table is removed before the steps that can still fail: "+strings.Join(bad, "; ")+
			" — the statement reports an error, yet the transaction has lost the table it had loaded: the next read fetches the file again (another process's commit becomes visible; uncommitted changes of a table opened for update vanish)")
		return
	}
	notes := ""
	if ownErr {
		notes += "; the call's own failure means nothing was removed (checked in its callees)"
	}
	if ownBool {
		notes += "; the call's own result false means nothing was removed (checked in its callees)"
	}
	c.Ok(key, c.Pos(in), fmt.Sprintf("%d return(s) reachable after the removal without a re-publication; each returns nil%s", nret, notes))
}
