package rules

import (
	"fmt"
	"go/token"
	"go/types"
	"sort"
	"strings"

	"golang.org/x/tools/go/ssa"

	"verif/checker/core"
)

// R-LOCK-11 — "no reader" is a universally quantified answer.
//
// A writer is admitted when RLockExists answers false. The read lock files of
// a table share their prefix with the writer's own lock and temp files and
// carry a random middle part, so there is no position in the directory listing
// at which "the" read lock file would have to be: the answer false is only
// right after every entry has been compared. The rule decides that on the loop
// structure: a false (or computed) answer is returned only on paths that cross
// the exhaustion edge of a loop that visits index 0, 1, … len-1 of the whole
// listing (or on the path on which the listing itself failed).

func init() {
	Register(&Rule{ID: "R-LOCK-11", Props: []string{"C09"}, Floor: 1,
		Doc:      "the reader check is universally quantified: in every function of lib/file with a single bool result that lists a directory (a call that reaches os.ReadDir / (*os.File).Readdir* / filepath.Glob and yields a slice with an error) — RLockExists must be among them — every path from the entry to a return whose value on that path is not the constant true either takes the failure edge of the listing call or crosses the exhaustion edge of a loop over the whole listing (the exit edge of `i < len(listing)` for an induction variable that starts at 0 and advances by 1, the form go/ssa gives `for … range listing`), or returns the answer of a lib/file helper that receives the listing and satisfies the same clause (slices.ContainsFunc / IndexFunc over the listing and an emptiness test of the whole listing — `m != nil`, `len(m) > 0` — count as such): no early exit on a non-matching entry, no answer from one indexed entry, no range over a part of the listing",
		Controls: []string{"CtlReaderCheckFirstPrefixEntry", "CtlReaderCheckStopsAtNonMatching"},
		Run:      ruleLock11})
}

var dirListers = []string{"os.ReadDir", "io/ioutil.ReadDir", "io/fs.ReadDir", "(*os.File).Readdir", "(*os.File).ReadDir", "(*os.File).Readdirnames", "path/filepath.Glob"}

func isSliceType(t types.Type) bool {
	_, ok := t.Underlying().(*types.Slice)
	return ok
}

func isBoolResult(fn *ssa.Function) bool {
	res := fn.Signature.Results()
	if res.Len() != 1 {
		return false
	}
	b, ok := res.At(0).Type().Underlying().(*types.Basic)
	return ok && b.Kind() == types.Bool
}

// listingCalls: the calls of fn that list a directory into a slice.
func listingCalls(p *core.Prog, fn *ssa.Function) []ssa.CallInstruction {
	var out []ssa.CallInstruction
	for _, k := range core.Calls(fn) {
		if _, ok := k.(*ssa.Call); !ok {
			continue
		}
		r := resultOf(k, 0)
		if r == nil || !isSliceType(r.Type()) || errValueOf(k) == nil {
			continue
		}
		if callReachesNamed(p, k, dirListers...) {
			out = append(out, k)
		}
	}
	return out
}

// exhaustionEdge: the edge from→to is the exit of `i < len(coll)` (in any of its
// spellings) for an induction variable i that starts at 0 and advances by 1.
func exhaustionEdge(from, to *ssa.BasicBlock, coll ssa.Value) bool {
	for _, f := range edgeFactOnly(from, to) {
		b, ok := f.Cond.(*ssa.BinOp)
		if !ok {
			continue
		}
		idx, ln, op := b.X, b.Y, b.Op
		switch op {
		case token.GTR: // len > i
			idx, ln, op = b.Y, b.X, token.LSS
		case token.LEQ: // len <= i
			idx, ln, op = b.Y, b.X, token.GEQ
		}
		// the edge must establish !(i < len): the false edge of <, the true edge of >=
		switch {
		case op == token.LSS && f.Neg:
		case op == token.GEQ && !f.Neg:
		case op == token.NEQ && f.Neg: // i != len  (exit when equal)
		case op == token.EQL && !f.Neg:
		default:
			continue
		}
		if (op == token.NEQ || op == token.EQL) && !isLenOf(ln, coll) {
			idx, ln = ln, idx
		}
		if !isLenOf(ln, coll) {
			continue
		}
		base, off := core.LinearIndex(idx)
		ph, ok := base.(*ssa.Phi)
		if !ok {
			continue
		}
		_, init, isConst, step, ok := core.Induction(ph)
		if ok && isConst && init+off == 0 && step == 1 {
			return true
		}
	}
	return false
}

func isLenOf(v, coll ssa.Value) bool {
	call, ok := v.(*ssa.Call)
	if !ok {
		return false
	}
	b, ok := call.Call.Value.(*ssa.Builtin)
	if !ok || b.Name() != "len" || len(call.Call.Args) != 1 {
		return false
	}
	a := call.Call.Args[0]
	if a == coll {
		return true
	}
	os := core.Origins(a, false)
	if len(os) == 0 {
		return false
	}
	for _, o := range os {
		if o != coll {
			return false
		}
	}
	return true
}

// tri-state of a bool value on one path
const (
	bvUnknown = iota
	bvTrue
	bvFalse
	bvQuantified // the answer of a helper / library function that quantifies over the listing
)

type forallScan struct {
	c     *Ctx
	depth int
}

// quantifiedAnswer: v is the result of a call that receives the listing and
// answers for all of it.
func (fs *forallScan) quantifiedAnswer(v ssa.Value, coll ssa.Value) bool {
	call, ok := v.(*ssa.Call)
	if !ok {
		return false
	}
	argIdx := -1
	for i, a := range call.Call.Args {
		if a == coll || hasOrigin(a, coll) {
			argIdx = i
		}
	}
	if argIdx < 0 {
		return false
	}
	switch fs.c.P.CalleeName(call) {
	case "slices.ContainsFunc":
		return true
	}
	f := core.StaticCallee(call)
	if f == nil || f.Blocks == nil || fs.depth >= 2 || !isBoolResult(f) || argIdx >= len(f.Params) {
		return false
	}
	if !(fs.c.P.InPkg(f, "lib/file") || fs.c.P.IsControl(f)) {
		return false
	}
	sub := &forallScan{c: fs.c, depth: fs.depth + 1}
	bad, _ := sub.scan(f, f.Params[argIdx], nil)
	return bad == ""
}

// scan walks every path of fn from the entry. listing is the call that
// produced coll in fn (nil when coll is a parameter).
func (fs *forallScan) scan(fn *ssa.Function, coll ssa.Value, listing ssa.CallInstruction) (bad string, ends int) {
	c := fs.c
	type env map[*ssa.Phi]int
	keyOf := func(b *ssa.BasicBlock, crossed bool, e env) string {
		var ks []string
		for ph, v := range e {
			ks = append(ks, fmt.Sprintf("%s=%d", ph.Name(), v))
		}
		sort.Strings(ks)
		return fmt.Sprintf("%d|%v|%s", b.Index, crossed, strings.Join(ks, ","))
	}
	var eval func(v ssa.Value, e env) int
	eval = func(v ssa.Value, e env) int {
		if bv, ok := core.ConstBool(v); ok {
			if bv {
				return bvTrue
			}
			return bvFalse
		}
		if ph, ok := v.(*ssa.Phi); ok {
			if x, ok := e[ph]; ok {
				return x
			}
			return bvUnknown
		}
		if u, ok := v.(*ssa.UnOp); ok && u.Op == token.NOT {
			switch eval(u.X, e) {
			case bvTrue:
				return bvFalse
			case bvFalse:
				return bvTrue
			}
			return bvUnknown
		}
		if fs.quantifiedAnswer(v, coll) {
			return bvQuantified
		}
		if bo, ok := v.(*ssa.BinOp); ok {
			// an emptiness test of the whole listing (`m != nil`, `len(m) > 0` for
			// a listing that a pattern has already filtered) looks at all of it
			for _, pair := range [][2]ssa.Value{{bo.X, bo.Y}, {bo.Y, bo.X}} {
				if core.IsNilConst(pair[1]) && (pair[0] == coll || hasOrigin(pair[0], coll)) {
					return bvQuantified
				}
				if n, ok := core.ConstInt(pair[1]); ok && n == 0 && isLenOf(pair[0], coll) {
					return bvQuantified
				}
			}
		}
		if bo, ok := v.(*ssa.BinOp); ok && (bo.Op == token.GEQ || bo.Op == token.NEQ || bo.Op == token.GTR) {
			// slices.IndexFunc(listing, …) >= 0  /  != -1  /  > -1
			if call, ok := bo.X.(*ssa.Call); ok && c.P.CalleeName(call) == "slices.IndexFunc" && len(call.Call.Args) > 0 && hasOrigin(call.Call.Args[0], coll) {
				return bvQuantified
			}
		}
		return bvUnknown
	}
	var failed edgePrune
	if listing != nil {
		failed = failureEdgeOf(listing)
	}
	seen := map[string]bool{}
	var walk func(b *ssa.BasicBlock, crossed bool, e env)
	walk = func(b *ssa.BasicBlock, crossed bool, e env) {
		for _, in := range b.Instrs {
			r, ok := in.(*ssa.Return)
			if !ok {
				continue
			}
			ends++
			if crossed || len(r.Results) != 1 {
				return
			}
			switch eval(r.Results[0], e) {
			case bvTrue, bvQuantified:
			case bvFalse:
				if bad == "" {
					bad = fmt.Sprintf("the return of false at %s is reachable on a path that has not been through the whole listing: it does not cross the exit edge of a loop `i < len(listing)` that starts at index 0 and advances by 1 (an early exit on an entry that does not match, or no loop at all); a read lock file that the scan did not reach is not seen, and the writer is admitted while the table is being read", c.Pos(r))
				}
			default:
				if bad == "" {
					bad = fmt.Sprintf("the return at %s answers with a value computed from a part of the listing on a path that has not been through the whole listing (no exit edge of a loop `i < len(listing)` from index 0 by 1 is crossed): the answer false is given after looking at some entries only; the read lock files of a table have no fixed place among the entries that share their prefix (.NAME.lock, .NAME.temp)", c.Pos(r))
				}
			}
			return
		}
		// a condition whose value is known on this path has one feasible edge
		var dead *ssa.BasicBlock
		if iff, ok := b.Instrs[len(b.Instrs)-1].(*ssa.If); ok && len(b.Succs) == 2 {
			switch eval(iff.Cond, e) {
			case bvTrue:
				dead = b.Succs[1]
			case bvFalse:
				dead = b.Succs[0]
			}
		}
		for _, s := range b.Succs {
			if s == dead && b.Succs[0] != b.Succs[1] {
				continue
			}
			cr := crossed
			if failed != nil && failed(b, s) {
				cr = true
			}
			if exhaustionEdge(b, s, coll) {
				cr = true
			}
			ne := env{}
			for k, v := range e {
				ne[k] = v
			}
			pi := -1
			for j, pr := range s.Preds {
				if pr == b {
					pi = j
				}
			}
			for _, in := range s.Instrs {
				ph, ok := in.(*ssa.Phi)
				if !ok {
					break
				}
				if bt, ok := ph.Type().Underlying().(*types.Basic); !ok || bt.Kind() != types.Bool || pi < 0 {
					continue
				}
				ne[ph] = eval(ph.Edges[pi], e)
			}
			id := keyOf(s, cr, ne)
			if seen[id] {
				continue
			}
			seen[id] = true
			walk(s, cr, ne)
		}
	}
	if len(fn.Blocks) > 0 {
		walk(fn.Blocks[0], false, env{})
	}
	return bad, ends
}

func ruleLock11(c *Ctx) {
	p := c.P
	anchor := c.Fn("lib/file.RLockExists")
	var fns []*ssa.Function
	for _, fn := range p.FuncsIn(true, "lib/file") {
		if fn.Blocks == nil || fn.Parent() != nil || !isBoolResult(fn) {
			continue
		}
		fns = append(fns, fn)
	}
	sortFuncs(p, fns)
	sawAnchor := false
	for _, fn := range fns {
		ls := listingCalls(p, fn)
		if len(ls) == 0 {
			continue
		}
		if fn == anchor {
			sawAnchor = true
		}
		c.Touch(fn)
		key := c.KeyAt(fn, "false is answered only after every entry of the directory listing was examined")
		if len(ls) > 1 {
			c.Unknown(key, c.FnPos(fn), fmt.Sprintf("%d directory listings in one bool function: which one is quantified over cannot be told", len(ls)))
			continue
		}
		c.Sites++
		k := ls[0]
		fs := &forallScan{c: c}
		bad, ends := fs.scan(fn, resultOf(k, 0), k)
		c.Check(bad == "", key, c.Pos(k), fmt.Sprintf("every path to a return that does not answer the constant true crosses the exhaustion edge of a loop over the whole listing of %s, or its failure edge (%d path end(s) examined)", describeCall(p, k), ends), bad)
	}
	if anchor != nil && !sawAnchor {
		c.Bad(c.KeyAt(anchor, "false is answered only after every entry of the directory listing was examined"), c.FnPos(anchor),
			"RLockExists lists no directory into a slice with an error result: the reader check is not a scan over the entries of the table's directory (a single probe cannot find a read lock file, whose name has a random part)")
	}
}
