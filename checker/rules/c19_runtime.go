package rules

import (
	"fmt"
	"go/ast"
	"go/token"
	"go/types"

	"golang.org/x/tools/go/ssa"

	"verif/checker/core"
)

// R-ERR-17 — integer lists parsed from user JSON are tested for emptiness.
// R-ERR-18 — statement lists obtained at run time are executed behind a depth guard.

func init() {
	Register(&Rule{ID: "R-ERR-17", Props: []string{"C19"}, Floor: 2,
		Doc: "every []int that lib/option / lib/query fills with encoding/json.Unmarshal from user text (the delimiter positions of fixed-length input: --delimiter-positions, SET @@DELIMITER_POSITIONS, FIXED('…', file)) passes a test of its length on every path from the Unmarshal call to a successful exit of the parsing function (paths on which Unmarshal's error is non-nil are exempt). " +
			"An empty list reaches go-text/fixedlen as a record layout with no fields: zero-width records (count(*) indexes field 0 → Fatal Error) and, in single-line mode, a reader that never consumes input (hang)",
		Controls: []string{"CtlPositionsNotTestedForEmpty"},
		Run:      ruleErr17})
	Register(&Rule{ID: "R-ERR-18", Props: []string{"C19"}, Floor: 1,
		Doc: "every call of (*Processor).execute / Execute in lib/query whose statement list is obtained at run time — the result of a lib/query function returning []parser.Statement that reaches parser.Parse (Source, ParseExecuteStatements), directly or through the parameter of an unexported helper — is dominated by a comparison of a Processor/Transaction integer field (the nesting depth) that the same function also increments. " +
			"Without it a script that SOURCEs itself (or EXECUTEs its own text) recurses until the Go stack overflows, which is fatal and not recoverable",
		Controls: []string{"CtlRunsSourcedStatementsUnguarded"},
		Run:      ruleErr18})
}

// ---------------------------------------------------------------------------
// R-ERR-17

func ruleErr17(c *Ctx) {
	seq := e19SeqKey{}
	for _, fn := range c.P.FuncsIn(true, "lib/option", "lib/query") {
		if c.P.IsControl(fn) && !containsAny(fn.Name(), "Positions") {
			continue
		}
		for _, ci := range core.Calls(fn) {
			call, ok := ci.(*ssa.Call)
			if !ok || c.P.CalleeName(call) != "encoding/json.Unmarshal" || len(call.Common().Args) != 2 {
				continue
			}
			// destination: &cell of type []int
			dst := call.Common().Args[1]
			var cell ssa.Value
			for _, o := range core.Origins(dst, false) {
				if al, ok := o.(*ssa.Alloc); ok {
					cell = al
				}
			}
			if mi, ok := dst.(*ssa.MakeInterface); ok {
				if al, ok := mi.X.(*ssa.Alloc); ok {
					cell = al
				}
			}
			if cell == nil {
				continue
			}
			sl, ok := cell.Type().Underlying().(*types.Pointer).Elem().Underlying().(*types.Slice)
			if !ok {
				continue
			}
			if b, ok := sl.Elem().Underlying().(*types.Basic); !ok || b.Info()&types.IsInteger == 0 {
				continue
			}
			c.Sites++
			c.Touch(fn)
			key := seq.key(c, fn, "json.Unmarshal into "+e19CellName(cell)+": emptiness tested")
			isLenTest := func(in ssa.Instruction) bool {
				iff, ok := in.(*ssa.If)
				if !ok {
					return false
				}
				b, ok := iff.Cond.(*ssa.BinOp)
				if !ok {
					return false
				}
				for _, side := range []ssa.Value{b.X, b.Y} {
					lc, ok := side.(*ssa.Call)
					if !ok {
						continue
					}
					if bi, ok := lc.Common().Value.(*ssa.Builtin); ok && bi.Name() == "len" {
						if ld, ok := lc.Common().Args[0].(*ssa.UnOp); ok && ld.Op == token.MUL && ld.X == cell {
							return true
						}
					}
				}
				return false
			}
			// exempt: edges on which the Unmarshal error is non-nil
			var errV ssa.Value = call
			prune := func(from, to *ssa.BasicBlock) bool {
				for _, f := range core.EdgeFacts(from, to) {
					x, neq, ok := core.NilCmp(f.Cond)
					if !ok {
						continue
					}
					isErr := x == errV
					if ld, isLd := x.(*ssa.UnOp); isLd && !isErr {
						for _, r := range *errV.Referrers() {
							if st, ok := r.(*ssa.Store); ok && st.Val == errV && st.Addr == ld.X {
								isErr = true
							}
						}
					}
					if isErr && neq != f.Neg { // err != nil holds on this edge
						return true
					}
					// the list itself is nil on this edge: "no list given" (automatic detection), not an empty list
					if ld, isLd := x.(*ssa.UnOp); isLd && ld.Op == token.MUL && ld.X == cell && neq == f.Neg {
						return true
					}
				}
				return false
			}
			esc := core.EscapeWithout(call, isLenTest, prune)
			if esc == nil {
				c.Ok(key, c.Pos(call), "every successful path from the Unmarshal call to an exit tests the length of the list")
			} else {
				c.Bad(key, c.Pos(call), fmt.Sprintf("the list parsed from user text can leave %s at %s without its length having been tested: `[]` is accepted as a layout with no fields — zero-width records (index out of range [0] in count(*) …) and, with S[], a fixed-length reader that never advances (hang)", c.P.Name(fn), c.Pos(esc)))
			}
		}
	}
}

func containsAny(s string, subs ...string) bool {
	for _, x := range subs {
		if len(x) > 0 && len(s) >= len(x) {
			for i := 0; i+len(x) <= len(s); i++ {
				if s[i:i+len(x)] == x {
					return true
				}
			}
		}
	}
	return false
}

func e19CellName(v ssa.Value) string {
	if al, ok := v.(*ssa.Alloc); ok && al.Comment != "" {
		return al.Comment
	}
	return v.Name()
}

// ---------------------------------------------------------------------------
// R-ERR-18

// e19RuntimeStatementSources: functions of lib/query returning []parser.Statement (+error) that reach parser.Parse.
func e19RuntimeStatementSources(c *Ctx) map[*ssa.Function]bool {
	out := map[*ssa.Function]bool{}
	isParse := func(f *ssa.Function) bool { return c.P.FnRef(f) == "lib/parser.Parse" }
	for _, fn := range c.P.FuncsIn(false, "lib/query") {
		res := fn.Signature.Results()
		if res.Len() < 1 || fn.Parent() != nil {
			continue
		}
		sl, ok := res.At(0).Type().Underlying().(*types.Slice)
		if !ok || core.NamedOf(sl.Elem()) != "lib/parser.Statement" {
			continue
		}
		if c.P.FnReaches(fn, isParse) {
			out[fn] = true
		}
	}
	return out
}

func ruleErr18(c *Ctx) {
	if c.Fn("lib/parser.Parse") == nil {
		return
	}
	sources := e19RuntimeStatementSources(c)
	for f := range sources {
		c.Anchors[c.P.Name(f)] = true
	}
	// fromRuntime: the run-time producers a statement-list value comes from (through helper parameters)
	var fromRuntime func(v ssa.Value, d int, out map[*ssa.Function]bool)
	fromRuntime = func(v ssa.Value, d int, out map[*ssa.Function]bool) {
		for _, o := range core.Origins(v, true) {
			if call, _, ok := core.ExtractOf(o); ok {
				if f := call.Common().StaticCallee(); f != nil && (sources[f] || (c.P.IsControl(f) && f.Name() == "ctlParseAtRunTime")) {
					out[f] = true
				}
			}
			if p, idx := e19ParamIndex(o); p != nil && d < 2 && p.Parent().Parent() == nil && !ast.IsExported(p.Parent().Name()) {
				for _, ed := range c.P.Callers(p.Parent()) {
					site, ok := ed.Site.(*ssa.Call)
					if !ok || site.Common().StaticCallee() != p.Parent() || idx >= len(site.Common().Args) {
						continue
					}
					fromRuntime(site.Common().Args[idx], d+1, out)
				}
			}
		}
	}
	for _, fn := range c.P.FuncsIn(true, "lib/query") {
		if c.P.IsControl(fn) && !containsAny(fn.Name(), "Sourced") {
			continue
		}
		for _, ci := range core.Calls(fn) {
			call, ok := ci.(*ssa.Call)
			if !ok {
				continue
			}
			callee := call.Common().StaticCallee()
			if callee == nil || callee.Signature.Recv() == nil || core.NamedOf(callee.Signature.Recv().Type()) != "lib/query.Processor" || (callee.Name() != "execute" && callee.Name() != "Execute") {
				continue
			}
			args := call.Common().Args
			producers := map[*ssa.Function]bool{}
			fromRuntime(args[len(args)-1], 0, producers)
			if len(producers) == 0 {
				continue
			}
			var srcs []*ssa.Function
			for f := range producers {
				srcs = append(srcs, f)
			}
			sortFuncs(c.P, srcs)
			c.Sites++
			c.Touch(fn)
			// guard: a dominating comparison of an int field of Processor/Transaction that this function also stores
			guard := ""
			for _, f := range core.FactsAt(call.Block()) {
				b, ok := f.Cond.(*ssa.BinOp)
				if !ok {
					continue
				}
				for _, side := range []ssa.Value{b.X, b.Y} {
					ld, ok := side.(*ssa.UnOp)
					if !ok || ld.Op != token.MUL {
						continue
					}
					fa, ok := ld.X.(*ssa.FieldAddr)
					if !ok || !e19IsIntType(ld.Type()) {
						continue
					}
					owner := core.FieldOwner(fa)
					if !containsAny(owner, "lib/query.Processor.", "lib/query.Transaction.", "lib/query.ReferenceScope.") {
						continue
					}
					// the same function changes the field (depth++ / depth--)
					for _, b2 := range fn.Blocks {
						for _, in2 := range b2.Instrs {
							if st, ok := in2.(*ssa.Store); ok {
								if sfa, ok := st.Addr.(*ssa.FieldAddr); ok && sfa.Field == fa.Field && core.FieldOwner(sfa) == owner {
									guard = owner
								}
							}
						}
					}
				}
			}
			for _, src := range srcs {
				// the producer/consumer pair identifies the defect; the hosting function is
				// named in the position and the message only, so moving the arm into a helper
				// does not rename a recorded finding
				key := "statements of " + e19ShortFn(c.P.Name(src)) + " run by (*Processor)." + callee.Name()
				if c.P.IsControl(fn) {
					key = c.KeyAt(fn, key)
				}
				if guard != "" {
					c.Ok(key, c.Pos(call), "in "+c.P.Name(fn)+": dominated by a test of the nesting counter "+guard+", which this function maintains")
				} else {
					c.Bad(key, c.Pos(call), fmt.Sprintf("in %s: the statements returned by %s at run time are executed without a nesting-depth guard: a script that SOURCEs itself (or EXECUTEs its own text) recurses through ExecuteStatement → execute until the Go stack overflows — `fatal error: stack overflow` cannot be recovered, the process dies with exit status 2 and held locks/temp files stay", c.P.Name(fn), c.P.Name(src)))
				}
			}
		}
	}
}
