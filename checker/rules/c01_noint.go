package rules

import (
	"fmt"
	"go/token"

	"golang.org/x/tools/go/ssa"

	"verif/checker/core"
)

// R-TXN-15 — the swap phase of COMMIT is not interruptible.
//
// The encode phase of (*Transaction).Commit honours the context: it can be
// abandoned without any effect. The swap phase (one rename per file) is the
// point of no return; an interrupt that is honoured between two renames leaves
// some tables new and the others old — neither the state of the last COMMIT nor
// the state the procedure saw (C01). The structural necessary condition: between
// two calls that reach a file swap nothing consults a context.

func init() {
	Register(&Rule{ID: "R-TXN-15", Props: []string{"C01"}, Floor: 1,
		Doc:      "the swap phase of COMMIT is not interruptible: in (*Transaction).Commit and every lib/query function it statically calls (transitively, not below EncodeView), for every call S that reaches (*file.Container).Commit, no instruction that is reachable from S and from which a call reaching a swap is reachable (S itself in the next iteration, or a later swap: the region between the first and the last swap) (a) has an operand of type context.Context — except as the argument of a csvq function whose corresponding parameter is consulted nowhere (followed through parameters and closure bindings for four levels; ctx.Value is not a consultation; Err / Done / Deadline, a hand-over to a function without source, a store, a phi or a conversion are) — or (b) receives from / selects on a channel obtained from Done() of a context, wherever that channel was taken. A cancellation is looked at before the first swap or not at all",
		Controls: []string{"CtlTxn15CancelBetweenSwaps", "CtlTxn15DoneTakenBefore", "CtlTxn15HelperConsults"},
		Run:      ruleTxn15})
}

// nointConsults: the context held in v (a parameter or a free variable) is consulted by
// its function: returns a description of the first consultation, "" if there is none.
func nointConsults(p *core.Prog, v ssa.Value, depth int, seen map[ssa.Value]bool) string {
	if seen[v] {
		return ""
	}
	seen[v] = true
	refs := v.Referrers()
	if refs == nil {
		return ""
	}
	for _, r := range *refs {
		switch x := r.(type) {
		case *ssa.DebugRef:
			continue
		case *ssa.MakeClosure:
			fn, ok := x.Fn.(*ssa.Function)
			if !ok || depth >= 4 {
				return "it is bound into a closure at " + p.InstrPos(x)
			}
			for j, b := range x.Bindings {
				if b == v && j < len(fn.FreeVars) {
					if w := nointConsults(p, fn.FreeVars[j], depth+1, seen); w != "" {
						return w
					}
				}
			}
			continue
		case ssa.CallInstruction:
			if w := nointCallUse(p, x, v, depth, seen); w != "" {
				return w
			}
			continue
		}
		return fmt.Sprintf("it is used by %T at %s", r, p.InstrPos(r))
	}
	return ""
}

// nointCallUse: what the call x does with the context v it has as an operand.
func nointCallUse(p *core.Prog, x ssa.CallInstruction, v ssa.Value, depth int, seen map[ssa.Value]bool) string {
	com := x.Common()
	if com.IsInvoke() && com.Value == v {
		if com.Method.Name() == "Value" {
			// a look-up of a request-scoped value: not a cancellation
			for _, a := range com.Args {
				if a == v {
					return "it is passed to its own Value method at " + p.InstrPos(x)
				}
			}
			return ""
		}
		return fmt.Sprintf("%s() is called on it at %s", com.Method.Name(), p.InstrPos(x))
	}
	if !com.IsInvoke() && com.Value == v {
		return "it is called at " + p.InstrPos(x)
	}
	k := core.StaticCallee(x)
	if k == nil || k.Blocks == nil || !(txnIsSrc(p, k) || k.Parent() != nil && txnIsSrc(p, nointOutermost(k)) || p.IsControl(k)) || depth >= 4 {
		return fmt.Sprintf("it is handed to %s at %s", txnCallLabel(p, x), p.InstrPos(x))
	}
	for i, a := range com.Args {
		if a != v {
			continue
		}
		if i >= len(k.Params) {
			return fmt.Sprintf("it is handed to %s at %s", txnCallLabel(p, x), p.InstrPos(x))
		}
		if w := nointConsults(p, k.Params[i], depth+1, seen); w != "" {
			return w
		}
	}
	return ""
}

func nointOutermost(f *ssa.Function) *ssa.Function {
	for f.Parent() != nil {
		f = f.Parent()
	}
	return f
}

// nointDoneChannel: the channel value ch was obtained from Done() of a context
// (through phis, single-store local cells and type changes).
func nointDoneChannel(ch ssa.Value, seen map[ssa.Value]bool) ssa.Instruction {
	if ch == nil || seen[ch] {
		return nil
	}
	seen[ch] = true
	switch x := ch.(type) {
	case *ssa.Call:
		com := x.Common()
		if com.IsInvoke() && com.Method.Name() == "Done" && isContextType(com.Value.Type()) {
			return x
		}
	case *ssa.Phi:
		for _, e := range x.Edges {
			if d := nointDoneChannel(e, seen); d != nil {
				return d
			}
		}
	case *ssa.ChangeType:
		return nointDoneChannel(x.X, seen)
	case *ssa.UnOp:
		if x.Op != token.MUL {
			return nil
		}
		switch cell := x.X.(type) {
		case *ssa.Alloc, *ssa.FreeVar:
			vals, _ := core.StoresTo(cell)
			for _, s := range vals {
				if d := nointDoneChannel(s, seen); d != nil {
					return d
				}
			}
		}
	}
	return nil
}

func ruleTxn15(c *Ctx) {
	p := c.P
	start := len(c.Obs)
	defer c.negControls(start, "okTxn15CheckedBeforeFirstSwap", "okTxn15HelperIgnoresContext")
	commit := c.Fn(txnTxCommit)
	if commit == nil || c.Fn(txnContCommit) == nil {
		return
	}
	swapSet := txnSet(p, txnContCommit)

	// Commit and the lib/query functions it statically calls (not below the encoder)
	fns := []*ssa.Function{commit}
	seenFn := map[*ssa.Function]bool{commit: true}
	for i := 0; i < len(fns); i++ {
		for _, call := range core.Calls(fns[i]) {
			k := core.StaticCallee(call)
			if k == nil || seenFn[k] || k.Blocks == nil || !p.InPkg(k, "lib/query") || p.FnRef(k) == txnEncodeView {
				continue
			}
			seenFn[k] = true
			fns = append(fns, k)
		}
	}
	sortFuncs(p, fns[1:])
	fns = append(fns, txnCtl(c, "Txn15")...)

	nSwaps := 0
	for _, fn := range fns {
		var swaps []ssa.CallInstruction
		for _, call := range core.Calls(fn) {
			if _, isDefer := call.(*ssa.Defer); isDefer {
				continue
			}
			if txnCallIn(p, call, swapSet) {
				swaps = append(swaps, call)
			}
		}
		if len(swaps) == 0 {
			continue
		}
		if !p.IsControl(fn) {
			nSwaps += len(swaps)
		}
		c.Touch(fn)
		// blocks from which a swap is (still) reachable: the swap's own block counts up to the swap
		swapAt := map[*ssa.BasicBlock]int{} // block -> index of its last swap
		for _, s := range swaps {
			if i := core.InstrIndex(s); i >= swapAt[s.Block()] {
				swapAt[s.Block()] = i
			}
		}
		canReach := map[*ssa.BasicBlock]bool{} // a swap is reachable from the END of the block
		for changed := true; changed; {
			changed = false
			for _, b := range fn.Blocks {
				if canReach[b] {
					continue
				}
				for _, s := range b.Succs {
					if _, has := swapAt[s]; has || canReach[s] {
						canReach[b] = true
						changed = true
						break
					}
				}
			}
		}
		before := func(in ssa.Instruction) bool { // a swap is reachable from in (in itself included)
			b := in.Block()
			if canReach[b] {
				return true
			}
			last, has := swapAt[b]
			return has && core.InstrIndex(in) <= last
		}
		ord := map[string]int{}
		for _, s := range swaps {
			c.Sites++
			key := txnOrd(ord, c.KeyAt(fn, "no context is consulted between "+txnCallLabel(p, s)+" and the next swap"))
			why := ""
			n := 0
			core.WalkFrom(s, func(in ssa.Instruction) bool {
				if why != "" {
					return false
				}
				if !before(in) {
					return true // behind the last swap on this path; other paths may come back
				}
				n++
				// (b) a receive from / select on the Done channel of a context
				var chans []ssa.Value
				switch x := in.(type) {
				case *ssa.Select:
					for _, st := range x.States {
						chans = append(chans, st.Chan)
					}
				case *ssa.UnOp:
					if x.Op == token.ARROW {
						chans = append(chans, x.X)
					}
				}
				for _, ch := range chans {
					if d := nointDoneChannel(ch, map[ssa.Value]bool{}); d != nil {
						why = fmt.Sprintf("%s waits on the Done channel of a context (taken at %s)", c.Pos(in), c.Pos(d))
						return false
					}
				}
				// (a) an operand of type context.Context
				for _, op := range in.Operands(nil) {
					if op == nil || *op == nil || !isContextType((*op).Type()) {
						continue
					}
					v := *op
					if _, isDbg := in.(*ssa.DebugRef); isDbg {
						continue
					}
					use := ""
					switch x := in.(type) {
					case ssa.CallInstruction:
						use = nointCallUse(p, x, v, 0, map[ssa.Value]bool{})
					case *ssa.MakeClosure:
						if f, ok := x.Fn.(*ssa.Function); ok {
							for j, b := range x.Bindings {
								if b == v && j < len(f.FreeVars) && use == "" {
									use = nointConsults(p, f.FreeVars[j], 1, map[ssa.Value]bool{})
								}
							}
						} else {
							use = "it is bound into a closure at " + c.Pos(in)
						}
					default:
						use = fmt.Sprintf("it is used by %T at %s", in, c.Pos(in))
					}
					if use != "" {
						why = fmt.Sprintf("the context %s is consulted inside the swap phase: %s", v.Name(), use)
						return false
					}
				}
				return true
			})
			if why != "" {
				c.Bad(key, c.Pos(s), why+": an interrupt that arrives after this swap can end COMMIT before the remaining files are put in place (some tables new, the others old)")
			} else {
				c.Ok(key, c.Pos(s), fmt.Sprintf("%d instruction(s) lie between this swap and a later one; none of them has a context operand that is consulted, none waits on a Done channel", n))
			}
		}
	}
	if nSwaps == 0 {
		c.Unknown(c.KeyAt(commit, "swap phase"), c.FnPos(commit), "cannot-analyse: no call that reaches (*file.Container).Commit found in Commit and the lib/query functions it calls")
	}
}
