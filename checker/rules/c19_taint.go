package rules

import (
	"fmt"
	"go/token"
	"go/types"
	"math"
	"os"
	"strings"

	"golang.org/x/tools/go/ssa"

	"verif/checker/core"
)

// R-ERR-11 — user-controlled integers used as index / slice bounds.
//
// Sources (core.Bounds.Tainted): strconv.Atoi/ParseInt/ParseUint/ParseFloat,
// (value.Integer).Raw(), (value.Float).Raw(), through arithmetic, Phi,
// conversions, cells, fields, csvq callees and parameters.
// Obligation per tainted operand of x[i] / x[l:h]:
//   (a) i ≥ 0 — by the interval engine (refuses arithmetic that can wrap, so
//       `start + sublen` on two user values needs a guard or a prior clamp);
//   (b) i < len(x) (index) / i ≤ len(x) (bound) — by a small relational prover:
//       dominating comparisons of that very value (or of a value it was derived
//       from by ± constant, or by `a + b` against `len - a`) with len() of the
//       SAME base, Phi clamps (every incoming edge proven with the edge's facts;
//       loops by induction), transitivity through one more comparison, min();
//   (c) l ≤ h when both bounds are present.
// len(x) may be spelled through pure getters (view.RecordLen()).

func init() {
	Register(&Rule{ID: "R-ERR-11", Props: []string{"C19"}, Floor: 18,
		Doc: "every index or slice bound of hand-written csvq code that depends on a user-controlled integer (strconv.Atoi/ParseInt results, (value.Integer).Raw(), int conversions of (value.Float).Raw(), and arithmetic on them) is shown in range where it is used: ≥ 0 by the interval engine (arithmetic on two user values that can overflow proves nothing), " +
			"< len / ≤ len of the SAME base by dominating comparisons of that very value (or ±constant / `a+b` against `len-a`), Phi clamps, loop induction or min(); low ≤ high for two-sided slices. " +
			"Premises: View.sortValuesInEachRecord is parallel to View.RecordSet (R-SRT-3); struct fields are stable across calls that do not store them" + e19BoundsAssumption,
		Controls: []string{"CtlPrecisionCut", "CtlSubstrOverflow"},
		Run:      func(c *Ctx) { ruleErr11(c, nil) }})
	Register(&Rule{ID: "R-ERR-11", Props: []string{"C07"}, Floor: 4,
		Doc: "R-ERR-11 restricted to lib/query.(*View).Limit and (*View).Offset: the user-supplied LIMIT / OFFSET numbers (incl. PERCENT, negatives, values beyond the row count) are in range where they cut the record set",
		Run: func(c *Ctx) {
			ruleErr11(c, e19InFuncsOrHelpers(c, "lib/query.(*View).Limit", "lib/query.(*View).Offset"))
		}})
}

// fields whose length equals another field's of the same struct (frozen premise).
var e19ParallelFields = map[string]string{
	"lib/query.View.sortValuesInEachRecord": "lib/query.View.RecordSet",
}

type e19Term struct {
	val   ssa.Value // target value, or nil for "len(base)"
	base  ssa.Value
	minus ssa.Value // target is (val|len base) - minus
	// len of field fkey of the struct obj points to (a len term carried across a
	// call boundary, where no load of the field need exist); used when val and base are nil
	obj  ssa.Value
	fkey string
}

// e19ObjField: the (object, canonical field) a container value is loaded from.
func e19ObjField(base ssa.Value) (ssa.Value, string, bool) {
	ld, ok := base.(*ssa.UnOp)
	if !ok || ld.Op != token.MUL {
		return nil, "", false
	}
	fa, ok := ld.X.(*ssa.FieldAddr)
	if !ok {
		return nil, "", false
	}
	return fa.X, e19CanonField(e19FieldKey(fa)), true
}

// e19DenotesLenOf: x is len(obj.f) — builtin len of a load of that field of the
// same object, or a len getter on the object.
func e19DenotesLenOf(x ssa.Value, obj ssa.Value, fkey string) bool {
	call, ok := x.(*ssa.Call)
	if !ok {
		return false
	}
	if b, ok := call.Common().Value.(*ssa.Builtin); ok {
		if b.Name() != "len" {
			return false
		}
		o2, k2, ok := e19ObjField(call.Common().Args[0])
		return ok && k2 == fkey && core.SameVal(o2, obj)
	}
	key, ok := e19LenGetter(call.Common().StaticCallee(), 0)
	return ok && e19CanonField(key) == fkey && core.SameVal(call.Common().Args[0], obj)
}

// e19ParamIndex: index of parameter p in its function, or -1.
func e19ParamIndex(v ssa.Value) (*ssa.Parameter, int) {
	p, ok := v.(*ssa.Parameter)
	if !ok {
		return nil, -1
	}
	for i, q := range p.Parent().Params {
		if q == p {
			return p, i
		}
	}
	return nil, -1
}

type e19BusyKey struct {
	v      ssa.Value
	t      e19Term
	strict bool
}

type e19Prover struct {
	c    *Ctx
	e    *core.Bounds
	busy map[e19BusyKey]bool
}

func e19FieldKey(fa *ssa.FieldAddr) string { return core.FieldOwner(fa) }

func e19CanonField(k string) string {
	if a, ok := e19ParallelFields[k]; ok {
		return a
	}
	return k
}

// sameBase: two container values are the same object (same value, or loads of
// the same / a parallel field of the same struct value).
func e19SameBase(a, b ssa.Value) bool {
	if core.SameVal(a, b) {
		return true
	}
	la, ok1 := a.(*ssa.UnOp)
	lb, ok2 := b.(*ssa.UnOp)
	if !ok1 || !ok2 || la.Op != token.MUL || lb.Op != token.MUL {
		return false
	}
	fa, ok1 := la.X.(*ssa.FieldAddr)
	fb, ok2 := lb.X.(*ssa.FieldAddr)
	if !ok1 || !ok2 {
		return false
	}
	if e19CanonField(e19FieldKey(fa)) != e19CanonField(e19FieldKey(fb)) {
		return false
	}
	return core.SameVal(fa.X, fb.X)
}

// lenGetter: fn is a pure getter returning len(recv.f) (possibly through
// another such getter); returns the field key.
func e19LenGetter(fn *ssa.Function, d int) (string, bool) {
	if fn == nil || d > 3 || len(fn.Blocks) != 1 || len(fn.Params) != 1 {
		return "", false
	}
	rets := core.Returns(fn)
	if len(rets) != 1 || len(rets[0].Results) != 1 {
		return "", false
	}
	call, ok := rets[0].Results[0].(*ssa.Call)
	if !ok {
		return "", false
	}
	if b, ok := call.Common().Value.(*ssa.Builtin); ok && b.Name() == "len" {
		ld, ok := call.Common().Args[0].(*ssa.UnOp)
		if !ok || ld.Op != token.MUL {
			return "", false
		}
		fa, ok := ld.X.(*ssa.FieldAddr)
		if !ok || fa.X != fn.Params[0] {
			return "", false
		}
		return e19FieldKey(fa), true
	}
	if g := call.Common().StaticCallee(); g != nil && len(call.Common().Args) == 1 && call.Common().Args[0] == fn.Params[0] {
		return e19LenGetter(g, d+1)
	}
	return "", false
}

// denotesLen: x is len(base) — the builtin on the same base, or a len getter on
// the struct whose field base is loaded from.
func e19DenotesLen(x ssa.Value, base ssa.Value) bool {
	call, ok := x.(*ssa.Call)
	if !ok {
		return false
	}
	if b, ok := call.Common().Value.(*ssa.Builtin); ok {
		return b.Name() == "len" && e19SameBase(call.Common().Args[0], base)
	}
	g := call.Common().StaticCallee()
	key, ok := e19LenGetter(g, 0)
	if !ok {
		return false
	}
	ld, ok := base.(*ssa.UnOp)
	if !ok || ld.Op != token.MUL {
		return false
	}
	fa, ok := ld.X.(*ssa.FieldAddr)
	if !ok || e19CanonField(e19FieldKey(fa)) != e19CanonField(key) {
		return false
	}
	return core.SameVal(fa.X, call.Common().Args[0])
}

func (p *e19Prover) matches(x ssa.Value, t e19Term) bool {
	if t.minus != nil {
		b, ok := x.(*ssa.BinOp)
		if !ok || b.Op != token.SUB || !core.SameVal(b.Y, t.minus) {
			return false
		}
		return p.matches(b.X, e19Term{val: t.val, base: t.base, obj: t.obj, fkey: t.fkey})
	}
	if t.val != nil {
		return core.SameVal(x, t.val)
	}
	if t.base == nil {
		return e19DenotesLenOf(x, t.obj, t.fkey)
	}
	return e19DenotesLen(x, t.base)
}

// objTerm rewrites a len(base) term as "len of field of object" when base is a field load.
func (t e19Term) objTerm() (e19Term, bool) {
	if t.val != nil || t.minus != nil {
		return t, false
	}
	if t.base == nil {
		return t, t.obj != nil
	}
	o, k, ok := e19ObjField(t.base)
	if !ok {
		return t, false
	}
	return e19Term{obj: o, fkey: k}, true
}

func e19LastInstr(b *ssa.BasicBlock) ssa.Instruction { return b.Instrs[len(b.Instrs)-1] }

func (p *e19Prover) lo(v ssa.Value, at ssa.Instruction) float64 {
	a := p.e.Eval(v, at, core.KInt)
	if a.Bot {
		return math.Inf(1)
	}
	return a.Lo
}

// le proves v < t (strict) or v ≤ t at the given point.
func (p *e19Prover) le(v ssa.Value, t e19Term, strict bool, facts []core.Fact, at ssa.Instruction, d int) bool {
	r := p.le1(v, t, strict, facts, at, d)
	if os.Getenv("CSVQSA_TRACE_LE") != "" {
		tv := ""
		if t.base != nil {
			tv = "len(" + t.base.Name() + ")"
		} else if t.obj != nil {
			tv = "len(" + t.obj.Name() + "." + t.fkey + ")"
		}
		if t.val != nil {
			tv = t.val.Name() + "=" + t.val.String()
		}
		if t.minus != nil {
			tv += " - " + t.minus.Name()
		}
		fmt.Fprintf(os.Stderr, "%*sle %s=%s  <=(strict=%v) %s : %v  @%s\n", d*2, "", v.Name(), v.String(), strict, tv, r, p.c.P.InstrPos(at))
	}
	return r
}

func (p *e19Prover) le1(v ssa.Value, t e19Term, strict bool, facts []core.Fact, at ssa.Instruction, d int) bool {
	if d > 10 {
		return false
	}
	key := e19BusyKey{v, t, strict}
	if p.busy[key] {
		return true // loop induction: the claim is assumed for the value flowing round the loop
	}
	p.busy[key] = true
	defer delete(p.busy, key)

	// 1. v is the target itself
	if p.matches(v, t) {
		return !strict
	}
	// a target value that is itself a len(): switch to the len term
	if t.val != nil && t.minus == nil {
		if call, ok := t.val.(*ssa.Call); ok {
			if b, ok := call.Common().Value.(*ssa.Builtin); ok && b.Name() == "len" {
				if p.le(v, e19Term{base: call.Common().Args[0]}, strict, facts, at, d+1) {
					return true
				}
			}
		}
	}
	// 1b. io.Reader/io.Writer contract: n of r.Read(p) / w.Write(p) is ≤ len(p)
	if ex, ok := v.(*ssa.Extract); ok && ex.Index == 0 && !strict && t.minus == nil {
		if call, ok := ex.Tuple.(*ssa.Call); ok {
			name := ""
			var arg ssa.Value
			if call.Common().IsInvoke() {
				name = call.Common().Method.Name()
				if len(call.Common().Args) == 1 {
					arg = call.Common().Args[0]
				}
			} else if f := call.Common().StaticCallee(); f != nil && f.Signature.Recv() != nil && len(call.Common().Args) == 2 {
				name, arg = f.Name(), call.Common().Args[1]
			}
			if (name == "Read" || name == "Write") && arg != nil {
				if _, isSl := arg.Type().Underlying().(*types.Slice); isSl {
					if (t.val != nil && e19DenotesLen(t.val, arg)) || (t.val == nil && t.base != nil && e19SameBase(t.base, arg)) {
						return true
					}
				}
			}
		}
	}
	// 2. intervals
	if t.minus == nil && (t.val != nil || t.base != nil) {
		a := p.e.Eval(v, at, core.KInt)
		var tl core.AV
		if t.val != nil {
			tl = p.e.Eval(t.val, at, core.KInt)
		} else {
			tl = p.e.Eval(t.base, at, core.KLen)
		}
		if a.Bot || tl.Bot {
			return true
		}
		if !math.IsInf(a.Hi, 0) && ((strict && a.Hi < tl.Lo) || (!strict && a.Hi <= tl.Lo)) {
			return true
		}
	}
	// 3. dominating comparisons of v
	for _, f := range facts {
		b, ok := f.Cond.(*ssa.BinOp)
		if !ok {
			continue
		}
		op := b.Op
		var o ssa.Value
		switch {
		case core.SameVal(b.X, v):
			o = b.Y
		case core.SameVal(b.Y, v):
			o = b.X
			op = e19Flip(op)
		default:
			continue
		}
		if f.Neg {
			op = e19Neg(op)
		}
		need := strict
		switch op {
		case token.LSS:
			need = false
		case token.LEQ, token.EQL:
		default:
			continue
		}
		if p.matches(o, t) {
			if !need {
				return true
			}
			continue
		}
		if _, isC := o.(*ssa.Const); isC {
			continue // constants are covered by the interval step
		}
		if p.le(o, t, need, core.FactsAt(f.If.Block()), f.If, d+1) {
			return true
		}
	}
	// 3b. across a call boundary: a helper's parameter is bounded if every caller's
	// argument is (the term is re-expressed in the caller: len of the same field of
	// the object the caller passes); a helper's result is bounded if every return is.
	if ot, ok := t.objTerm(); ok && d < 8 {
		if pv, pi := e19ParamIndex(v); pv != nil {
			if _, oi := e19ParamIndex(ot.obj); oi >= 0 && ot.obj.Parent() == pv.Parent() {
				fn := pv.Parent()
				edges := p.c.P.RealCallers(fn)
				okAll := len(edges) > 0 && len(edges) <= 8 && fn.Parent() == nil
				for _, ed := range edges {
					if !okAll {
						break
					}
					if ed.Caller.Func != nil && ed.Caller.Func.Synthetic != "" {
						continue
					}
					site, isCall := ed.Site.(*ssa.Call)
					if !isCall || site.Common().StaticCallee() != fn || len(site.Common().Args) != len(fn.Params) {
						okAll = false
						break
					}
					ct := e19Term{obj: site.Common().Args[oi], fkey: ot.fkey}
					if !p.le(site.Common().Args[pi], ct, strict, core.FactsAt(site.Block()), site, d+1) {
						okAll = false
					}
				}
				if okAll {
					return true
				}
			}
		}
	}
	// 3c. a helper's result is bounded if every successful return of the helper is:
	// the term is re-expressed in the callee — len of a field of the object passed
	// (objTerm), or the int parameter that receives a value denoting the term
	// (strlen := len(runes); helper(pos, strlen)). Failure returns (non-nil error /
	// false) are skipped only where the caller is known to have seen success.
	if t.minus == nil && d < 8 {
		var call *ssa.Call
		idx := 0
		switch x := v.(type) {
		case *ssa.Call:
			call = x
		case *ssa.Extract:
			if c2, ok := x.Tuple.(*ssa.Call); ok {
				call, idx = c2, x.Index
			}
		}
		if call != nil {
			if f := call.Common().StaticCallee(); f != nil && f.Blocks != nil && p.c.P.Name(f) != f.String() && len(call.Common().Args) == len(f.Params) {
				var cts []e19Term
				if ot, ok := t.objTerm(); ok {
					for i, a := range call.Common().Args {
						if core.SameVal(a, ot.obj) {
							cts = append(cts, e19Term{obj: f.Params[i], fkey: ot.fkey})
						}
					}
				}
				for i, a := range call.Common().Args {
					if e19IsIntType(a.Type()) && p.matches(a, t) {
						cts = append(cts, e19Term{val: f.Params[i]})
					}
				}
				success := core.SuccessKnown(call, at)
				for _, ct := range cts {
					okAll, n := true, 0
					for _, ret := range core.Returns(f) {
						if idx >= len(ret.Results) {
							okAll = false
							break
						}
						if idx != len(ret.Results)-1 && core.FailureReturn(f, ret) && success {
							continue
						}
						for _, rv := range core.ReturnOperand(ret, idx) {
							n++
							if rv == nil {
								continue // zero
							}
							if !p.le(rv, ct, strict, core.FactsAt(ret.Block()), ret, d+1) {
								okAll = false
							}
						}
					}
					if okAll && n > 0 {
						return true
					}
				}
			}
		}
	}
	switch x := v.(type) {
	case *ssa.Phi:
		// 4. every incoming edge
		all := true
		for i, ev := range x.Edges {
			pred := x.Block().Preds[i]
			if !p.le(ev, t, strict, core.EdgeFacts(pred, x.Block()), e19LastInstr(pred), d+1) {
				all = false
				break
			}
		}
		if all {
			return true
		}
	case *ssa.Convert:
		if e19IsIntType(x.X.Type()) && e19IsIntType(x.Type()) && p.le(x.X, t, strict, facts, at, d+1) {
			return true
		}
	case *ssa.ChangeType:
		if p.le(x.X, t, strict, facts, at, d+1) {
			return true
		}
	case *ssa.Call:
		if b, ok := x.Common().Value.(*ssa.Builtin); ok && b.Name() == "min" {
			for _, a := range x.Common().Args {
				if p.le(a, t, strict, facts, at, d+1) {
					return true
				}
			}
		}
	case *ssa.BinOp:
		switch x.Op {
		case token.SUB:
			// 5. a - b with b ≥ 0 and a not near MinInt
			bl := p.lo(x.Y, x)
			if bl >= 0 && !math.IsInf(p.lo(x.X, x), -1) {
				if bl > 0 && p.le(x.X, t, false, facts, at, d+1) {
					return true
				}
				if p.le(x.X, t, strict, facts, at, d+1) {
					return true
				}
			}
		case token.ADD:
			if k, ok := core.ConstInt(x.Y); ok {
				if k == 1 && !strict && p.le(x.X, t, true, facts, at, d+1) { // a < T ⇒ a+1 ≤ T
					return true
				}
				break
			}
			// 6. a + b ≤ T  ⇐  b ≤ T - a with a ≥ 0 (or symmetrically)
			if t.minus == nil {
				if p.lo(x.X, x) >= 0 && p.le(x.Y, e19Term{val: t.val, base: t.base, minus: x.X}, strict, facts, at, d+1) {
					return true
				}
				if p.lo(x.Y, x) >= 0 && p.le(x.X, e19Term{val: t.val, base: t.base, minus: x.Y}, strict, facts, at, d+1) {
					return true
				}
			}
		}
	}
	// 8. target side: a Phi target, or target = v + nonneg
	if t.val != nil && t.minus == nil {
		switch tv := t.val.(type) {
		case *ssa.Phi:
			all := true
			for i, ev := range tv.Edges {
				pred := tv.Block().Preds[i]
				// facts of the use point stay valid for SSA values; add the edge's own
				fs := append(append([]core.Fact{}, facts...), core.EdgeFacts(pred, tv.Block())...)
				if !p.le(v, e19Term{val: ev}, strict, fs, e19LastInstr(pred), d+1) {
					all = false
					break
				}
			}
			if all {
				return true
			}
		case *ssa.BinOp:
			if tv.Op == token.ADD && !strict {
				sum := p.e.Eval(tv, tv, core.KInt)
				if !sum.IsTop() {
					if core.SameVal(tv.X, v) && p.lo(tv.Y, tv) >= 0 {
						return true
					}
					if core.SameVal(tv.Y, v) && p.lo(tv.X, tv) >= 0 {
						return true
					}
				}
			}
		}
	}
	return false
}

func e19Flip(op token.Token) token.Token {
	switch op {
	case token.LSS:
		return token.GTR
	case token.LEQ:
		return token.GEQ
	case token.GTR:
		return token.LSS
	case token.GEQ:
		return token.LEQ
	}
	return op
}

func e19Neg(op token.Token) token.Token {
	switch op {
	case token.LSS:
		return token.GEQ
	case token.LEQ:
		return token.GTR
	case token.GTR:
		return token.LEQ
	case token.GEQ:
		return token.LSS
	case token.EQL:
		return token.NEQ
	case token.NEQ:
		return token.EQL
	}
	return op
}

// frozen exceptions of R-ERR-11 (value-level facts), each with a re-checked side condition
type e19TaintException struct {
	fn, reason string
	side       func(c *Ctx, e *core.Bounds, in ssa.Instruction, base, operand ssa.Value) (bool, string)
}

var err11Exceptions = []e19TaintException{
	{"lib/json.Extract", "ArrayItem.Index is strconv.Atoi of a PATH_INDEX token, which the query scanner builds from decimal digits only ('-' is a syntax error; an overflowing literal yields MaxInt), so it is never negative; the upper bound is checked",
		func(c *Ctx, e *core.Bounds, in ssa.Instruction, base, operand ssa.Value) (bool, string) {
			src := e.Tainted(operand)
			call, ok := src.(*ssa.Call)
			if !ok || c.P.CalleeName(call) != "strconv.Atoi" || !c.P.InPkg(call.Parent(), "lib/json") {
				return false, "the index is not an Atoi result of the lib/json query parser"
			}
			pr := &e19Prover{c: c, e: e, busy: map[e19BusyKey]bool{}}
			if !pr.le(operand, e19Term{base: base}, true, core.FactsAt(in.Block()), in, 0) {
				return false, "the upper bound is no longer checked"
			}
			return true, "index is strconv.Atoi of the json path lexer's token and is tested against len"
		}},
	{"lib/query.execStringsPadding", "the padding is strings.Repeat(padstr, ceil(padLen/padstrLen)) with padstrLen the rune count of padstr, so it has at least padLen runes",
		func(c *Ctx, e *core.Bounds, in ssa.Instruction, base, operand ssa.Value) (bool, string) {
			// base = []rune(strings.Repeat(_, int(math.Ceil(float64(operand) / _)))); the string and
			// the bound may reach a helper as parameters: then every caller must have that shape
			cv, ok := base.(*ssa.Convert)
			if !ok {
				return false, "the sliced value is not a []rune conversion"
			}
			var shape func(str, bound ssa.Value, d int) (bool, string)
			shape = func(str, bound ssa.Value, d int) (bool, string) {
				for _, o := range core.Origins(str, false) {
					if sp, si := e19ParamIndex(o); sp != nil && d < 3 {
						bp, bi := e19ParamIndex(bound)
						if bp == nil || bp.Parent() != sp.Parent() {
							return false, "the string is a parameter but the bound is not"
						}
						edges := c.P.RealCallers(sp.Parent())
						if len(edges) == 0 || len(edges) > 4 {
							return false, "the helper has no or too many callers"
						}
						for _, ed := range edges {
							site, isCall := ed.Site.(*ssa.Call)
							if !isCall || site.Common().StaticCallee() != sp.Parent() || len(site.Common().Args) != len(sp.Parent().Params) {
								return false, "dynamic call of the helper"
							}
							if ok, why := shape(site.Common().Args[si], site.Common().Args[bi], d+1); !ok {
								return false, why
							}
						}
						continue
					}
					call, ok := o.(*ssa.Call)
					if !ok || c.P.CalleeName(call) != "strings.Repeat" {
						return false, "the converted string is not the result of strings.Repeat"
					}
					n, ok := call.Common().Args[1].(*ssa.Convert)
					if !ok {
						return false, "Repeat count is not int(...)"
					}
					ceil, ok := n.X.(*ssa.Call)
					if !ok || c.P.CalleeName(ceil) != "math.Ceil" {
						return false, "Repeat count is not int(math.Ceil(...))"
					}
					q, ok := ceil.Common().Args[0].(*ssa.BinOp)
					if !ok || q.Op != token.QUO {
						return false, "Repeat count is not a rounded-up quotient"
					}
					num, ok := q.X.(*ssa.Convert)
					if !ok || !core.SameVal(num.X, bound) {
						return false, "the quotient's numerator is not the slice bound"
					}
				}
				return true, ""
			}
			if ok, why := shape(cv.X, operand, 0); !ok {
				return false, why
			}
			return true, "sliced value is []rune(strings.Repeat(_, int(math.Ceil(float64(bound)/_))))"
		}},
	{"lib/query.Update", "the index is the internal record id, a column csvq generates itself when it loads the view with useInternalId (0..n-1); data cannot supply it (a user column of that name makes the reference ambiguous)",
		func(c *Ctx, e *core.Bounds, in ssa.Instruction, base, operand ssa.Value) (bool, string) {
			src := e.Tainted(operand)
			if src == nil || src.Parent() == nil || c.P.Name(src.Parent()) != "lib/query.(*View).InternalRecordId" {
				return false, "the index does not come from (*View).InternalRecordId"
			}
			return true, "the index is read by (*View).InternalRecordId"
		}},
}

func ruleErr11(c *Ctx, scope func(*ssa.Function) bool) {
	e := e19NewBounds(c)
	pr := &e19Prover{c: c, e: e, busy: map[e19BusyKey]bool{}}
	seq := e19SeqKey{}
	isContainer := func(t types.Type) bool {
		switch u := t.Underlying().(type) {
		case *types.Slice:
			return true
		case *types.Basic:
			return u.Info()&types.IsString != 0
		}
		return false
	}
	check := func(fn *ssa.Function, in ssa.Instruction, base, op ssa.Value, strict bool, role string, lowOf ssa.Value) {
		if op == nil || !isContainer(base.Type()) {
			return
		}
		src := e.Tainted(op)
		if src == nil && (lowOf == nil || e.Tainted(lowOf) == nil) {
			return
		}
		if _, isC := op.(*ssa.Const); isC && lowOf == nil {
			return
		}
		c.Sites++
		c.Touch(fn)
		kfn := e19KeyFn(c, fn)
		key := seq.key(c, kfn, fmt.Sprintf("%s[%s]%s", e19ExprLabel(base), e19ExprLabel(op), role))
		facts := core.FactsAt(in.Block())
		var bad []string
		if a := e.Eval(op, in, core.KInt); !a.Bot && a.Lo < 0 {
			bad = append(bad, fmt.Sprintf("not shown ≥ 0 (interval %s; a sum or difference of two unclamped user values may wrap)", e19FmtAV(a)))
		}
		if !pr.le(op, e19Term{base: base}, strict, facts, in, 0) {
			rel := "≤"
			if strict {
				rel = "<"
			}
			bad = append(bad, fmt.Sprintf("not shown %s len(%s): no dominating comparison of this value (or of a value it is derived from) with the length of the same container, no clamp", rel, e19ExprLabel(base)))
		}
		if lowOf != nil {
			if !pr.le(lowOf, e19Term{val: op}, false, facts, in, 0) {
				bad = append(bad, fmt.Sprintf("low bound %s not shown ≤ high bound", e19ExprLabel(lowOf)))
			}
		}
		if len(bad) == 0 {
			c.Ok(key, c.Pos(in), "in range at the use")
			return
		}
		srcTxt := ""
		if src != nil {
			srcTxt = " (user-controlled through " + valueLabel(src) + " at " + c.P.InstrPos(e19InstrOf(src)) + ")"
		}
		for _, ex := range err11Exceptions {
			if e19OnlyCalledFrom(c, fn, ex.fn) {
				if ok, why := ex.side(c, e, in, base, op); ok {
					c.Ok(key, c.Pos(in), "frozen exception: "+ex.reason+" — side condition checked: "+why)
				} else {
					c.Bad(key, c.Pos(in), "frozen exception ("+ex.reason+") no longer holds: "+why)
				}
				return
			}
		}
		c.Bad(key, c.Pos(in), fmt.Sprintf("%s%s is used as index/bound of %s but is %s — index / slice bounds out of range → internal Fatal Error", valueLabel(op), srcTxt, e19ExprLabel(base), strings.Join(bad, "; ")))
	}
	for _, fn := range e19HandWritten(c, scope) {
		for _, b := range fn.Blocks {
			for _, in := range b.Instrs {
				switch x := in.(type) {
				case *ssa.Index:
					check(fn, x, x.X, x.Index, true, "", nil)
				case *ssa.IndexAddr:
					check(fn, x, x.X, x.Index, true, "", nil)
				case *ssa.Slice:
					if x.Low != nil {
						check(fn, x, x.X, x.Low, false, " (low)", nil)
					}
					if x.High != nil {
						check(fn, x, x.X, x.High, false, " (high)", x.Low)
					}
					if x.Max != nil {
						check(fn, x, x.X, x.Max, false, " (max)", nil)
					}
				}
			}
		}
	}
}
