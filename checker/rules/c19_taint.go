package rules

import (
	"fmt"
	"go/token"
	"go/types"
	"math"
	"os"
	"strings"

	"golang.org/x/tools/go/callgraph"
	"golang.org/x/tools/go/ssa"

	"verif/checker/core"
)

// R-ERR-11 — user-controlled integers used as index / slice bounds.
//
// Sources (core.Bounds.Tainted): strconv.Atoi/ParseInt/ParseUint/ParseFloat,
// (value.Integer).Raw(), (value.Float).Raw(), through arithmetic, Phi,
// conversions, cells, fields, csvq callees and parameters.
// Obligation per tainted operand of x[i] / x[l:h]:
//   (a) i ≥ 0 — by the interval engine (refuses arithmetic that can wrap, so
//       `start + sublen` on two user values needs a guard or a prior clamp);
//   (b) i < len(x) (index) / i ≤ len(x) (bound) — by a small relational prover:
//       dominating comparisons of that very value (or of a value it was derived
//       from by ± constant, or by `a + b` against `len - a`) with len() of the
//       SAME base, Phi clamps (every incoming edge proven with the edge's facts;
//       loops by induction), transitivity through one more comparison, min();
//   (c) l ≤ h when both bounds are present.
// len(x) may be spelled through pure getters (view.RecordLen()).

func init() {
	Register(&Rule{ID: "R-ERR-11", Props: []string{"C19"}, Floor: 18,
		Doc: "every index or slice bound of hand-written csvq code that depends on a user-controlled integer (strconv.Atoi/ParseInt results, (value.Integer).Raw(), int conversions of (value.Float).Raw(), and arithmetic on them) is shown in range where it is used: ≥ 0 by the interval engine (arithmetic on two user values that can overflow proves nothing), " +
			"< len / ≤ len of the SAME base by dominating comparisons of that very value (or ±constant / `a+b` against `len-a`), Phi clamps, loop induction or min(); low ≤ high for two-sided slices. " +
			"Premises: View.sortValuesInEachRecord is parallel to View.RecordSet (R-SRT-3); struct fields are stable across calls that do not store them" + e19BoundsAssumption,
		Controls: []string{"CtlPrecisionCut", "CtlSubstrOverflow"},
		Run:      func(c *Ctx) { ruleErr11(c, nil) }})
	Register(&Rule{ID: "R-ERR-11", Props: []string{"C07"}, Floor: 4,
		Doc: "R-ERR-11 restricted to lib/query.(*View).Limit and (*View).Offset: the user-supplied LIMIT / OFFSET numbers (incl. PERCENT, negatives, values beyond the row count) are in range where they cut the record set",
		Run: func(c *Ctx) {
			ruleErr11(c, e19InFuncsOrHelpers(c, "lib/query.(*View).Limit", "lib/query.(*View).Offset"))
		}})
}

// fields whose length equals another field's of the same struct (frozen premise).
var e19ParallelFields = map[string]string{
	"lib/query.View.sortValuesInEachRecord":     "lib/query.View.RecordSet",
	"lib/query.View.comparisonKeysInEachRecord": "lib/query.View.RecordSet",
}

type e19Term struct {
	val   ssa.Value // target value, or nil for "len(base)"
	base  ssa.Value
	minus ssa.Value // target is (val|len base) - minus
	// len of field fkey of the struct obj points to (a len term carried across a
	// call boundary, where no load of the field need exist); used when val and base are nil
	obj  ssa.Value
	fkey string
}

// e19ObjField: the (object, canonical field) a container value is loaded from.
func e19ObjField(base ssa.Value) (ssa.Value, string, bool) {
	ld, ok := base.(*ssa.UnOp)
	if !ok || ld.Op != token.MUL {
		return nil, "", false
	}
	fa, ok := ld.X.(*ssa.FieldAddr)
	if !ok {
		return nil, "", false
	}
	return fa.X, e19CanonField(e19FieldKey(fa)), true
}

// e19DenotesLenOf: x is len(obj.f).
func e19DenotesLenOf(x ssa.Value, obj ssa.Value, fkey string) bool {
	return e19AnySymEq(e19LenSyms(x), []e19Sym{{obj: obj, fkey: fkey}})
}

// e19ParamIndex: index of parameter p in its function, or -1.
func e19ParamIndex(v ssa.Value) (*ssa.Parameter, int) {
	p, ok := v.(*ssa.Parameter)
	if !ok {
		return nil, -1
	}
	for i, q := range p.Parent().Params {
		if q == p {
			return p, i
		}
	}
	return nil, -1
}

type e19BusyKey struct {
	v      ssa.Value
	t      e19Term
	strict bool
}

type e19Prover struct {
	c    *Ctx
	e    *core.Bounds
	busy map[e19BusyKey]bool
}

func e19FieldKey(fa *ssa.FieldAddr) string { return core.FieldOwner(fa) }

func e19CanonField(k string) string {
	if a, ok := e19ParallelFields[k]; ok {
		return a
	}
	return k
}

// sameBase: two container values are the same object (same value, or loads of
// the same / a parallel field of the same struct value).
func e19SameBase(a, b ssa.Value) bool {
	if core.SameVal(a, b) {
		return true
	}
	la, ok1 := a.(*ssa.UnOp)
	lb, ok2 := b.(*ssa.UnOp)
	if !ok1 || !ok2 || la.Op != token.MUL || lb.Op != token.MUL {
		return false
	}
	fa, ok1 := la.X.(*ssa.FieldAddr)
	fb, ok2 := lb.X.(*ssa.FieldAddr)
	if !ok1 || !ok2 {
		return false
	}
	if e19CanonField(e19FieldKey(fa)) != e19CanonField(e19FieldKey(fb)) {
		return false
	}
	return core.SameVal(fa.X, fb.X)
}

// e19Sym is a symbolic length: len(slice) or len(obj.field).
type e19Sym struct {
	slice ssa.Value
	obj   ssa.Value
	fkey  string
}

func e19SymOfContainer(v ssa.Value) e19Sym {
	if o, k, ok := e19ObjField(v); ok {
		return e19Sym{obj: o, fkey: k}
	}
	return e19Sym{slice: v}
}

// e19SameAcross: the same value — also across a closure boundary: two loads of
// the same captured variable that is assigned exactly once.
func e19SameAcross(a, b ssa.Value) bool {
	if core.SameVal(a, b) {
		return true
	}
	la, ok1 := a.(*ssa.UnOp)
	lb, ok2 := b.(*ssa.UnOp)
	if !ok1 || !ok2 || la.Op != token.MUL || lb.Op != token.MUL {
		// a parameter of the enclosing function captured by the closure appears as the cell's only store
		return e19CellValueIs(a, b) || e19CellValueIs(b, a)
	}
	ca, cb := e19CellRoot(la.X), e19CellRoot(lb.X)
	if ca == nil || ca != cb {
		return false
	}
	vals, complete := core.StoresTo(ca)
	if complete && len(vals) == 1 {
		return true
	}
	// assigned several times: equal when one load is in the declaring function with no
	// later assignment there, and the other is in a closure that never assigns it
	if !complete {
		return false
	}
	al, ok := ca.(*ssa.Alloc)
	if !ok {
		return false
	}
	var parentLoad, closureLoad *ssa.UnOp
	switch {
	case la.Parent() == al.Parent() && lb.Parent() != al.Parent():
		parentLoad, closureLoad = la, lb
	case lb.Parent() == al.Parent() && la.Parent() != al.Parent():
		parentLoad, closureLoad = lb, la
	default:
		return false
	}
	for _, r := range *al.Referrers() {
		if st, ok := r.(*ssa.Store); ok && st.Addr == al && core.Reachable(parentLoad, st, nil) {
			return false
		}
	}
	// the closure (and closures inside it) must not assign the variable
	var assigns func(f *ssa.Function) bool
	assigns = func(f *ssa.Function) bool {
		for _, fv := range f.FreeVars {
			if e19RootCell(fv) == ca {
				for _, r := range *fv.Referrers() {
					if st, ok := r.(*ssa.Store); ok && st.Addr == fv {
						return true
					}
				}
			}
		}
		for _, af := range f.AnonFuncs {
			if assigns(af) {
				return true
			}
		}
		return false
	}
	for _, af := range al.Parent().AnonFuncs {
		if assigns(af) {
			return false
		}
	}
	_ = closureLoad
	return true
}

// e19CellValueIs: x is a load of a once-assigned captured variable whose value is v.
func e19CellValueIs(x, v ssa.Value) bool {
	ld, ok := x.(*ssa.UnOp)
	if !ok || ld.Op != token.MUL {
		return false
	}
	c := e19CellRoot(ld.X)
	if c == nil {
		return false
	}
	vals, complete := core.StoresTo(c)
	return complete && len(vals) == 1 && vals[0] == v
}

func e19CellRoot(addr ssa.Value) ssa.Value {
	switch a := addr.(type) {
	case *ssa.Alloc:
		return a
	case *ssa.FreeVar:
		return e19RootCell(a)
	}
	return nil
}

func e19SymEq(a, b e19Sym) bool {
	if a.slice != nil || b.slice != nil {
		if a.slice == nil || b.slice == nil {
			return false
		}
		return e19SameBase(a.slice, b.slice) || e19SameAcross(a.slice, b.slice)
	}
	return a.obj != nil && b.obj != nil && a.fkey == b.fkey && e19SameAcross(a.obj, b.obj)
}

// e19LenSym: the symbolic length an integer value denotes: builtin len, or a
// chain of pure single-block getters (view.RecordLen() → view.Len() →
// len(view.RecordSet); view.FieldLen() → view.Header.Len() → len(h)).
func e19LenSym(x ssa.Value) (e19Sym, bool) {
	call, ok := x.(*ssa.Call)
	if !ok {
		// a once-assigned variable holding a length (fieldLen := len(fields), captured by a closure)
		if ld, isLd := x.(*ssa.UnOp); isLd && ld.Op == token.MUL {
			if c := e19CellRoot(ld.X); c != nil {
				if vals, complete := core.StoresTo(c); complete && len(vals) == 1 {
					if _, again := vals[0].(*ssa.UnOp); !again {
						return e19LenSym(vals[0])
					}
				}
			}
		}
		return e19Sym{}, false
	}
	if b, ok := call.Common().Value.(*ssa.Builtin); ok {
		if b.Name() != "len" {
			return e19Sym{}, false
		}
		if v := e19RecordOfFixedView(call.Common().Args[0], call); v != nil {
			return e19Sym{obj: v, fkey: "lib/query.View.Header"}, true
		}
		return e19SymOfContainer(call.Common().Args[0]), true
	}
	g := call.Common().StaticCallee()
	if g == nil || len(call.Common().Args) != 1 {
		return e19Sym{}, false
	}
	return e19GetterSym(g, e19Sym{slice: call.Common().Args[0]}, 0)
}

// e19LenSyms: the symbolic lengths x denotes — e19LenSym, and for the length of a
// slice that a helper built with one element per element of an argument, also the
// length of that argument (e19LenAlias).
func e19LenSyms(x ssa.Value) []e19Sym {
	var out []e19Sym
	if s, ok := e19LenSym(x); ok {
		out = append(out, s)
	}
	v := x
	if ld, isLd := v.(*ssa.UnOp); isLd && ld.Op == token.MUL {
		if c := e19CellRoot(ld.X); c != nil {
			if vals, complete := core.StoresTo(c); complete && len(vals) == 1 {
				v = vals[0]
			}
		}
	}
	if call, ok := v.(*ssa.Call); ok {
		if b, ok := call.Common().Value.(*ssa.Builtin); ok && b.Name() == "len" {
			if arg := e19LenAlias(call.Common().Args[0], call); arg != nil {
				out = append(out, e19SymOfContainer(arg))
			}
		}
	}
	return out
}

func e19AnySymEq(as, bs []e19Sym) bool {
	for _, a := range as {
		for _, b := range bs {
			if e19SymEq(a, b) {
				return true
			}
		}
	}
	return false
}

// e19LenAlias: container is the (successful) result of a csvq helper every
// successful return of which is a slice made with len(p) of one parameter p —
// one element per element of the argument (keys := sortKeysOf(records)). Returns
// the argument, a value of the function that made the call. The container may
// be read directly or through a once-assigned variable (also from a closure made
// where the call is known to have succeeded).
func e19LenAlias(container ssa.Value, at ssa.Instruction) ssa.Value {
	v := container
	var okAt []ssa.Instruction // where success has to be known
	if ld, isLd := v.(*ssa.UnOp); isLd && ld.Op == token.MUL {
		cell := e19CellRoot(ld.X)
		if cell == nil {
			return nil
		}
		vals, complete := core.StoresTo(cell)
		if !complete || len(vals) != 1 {
			return nil
		}
		v = vals[0]
		al, isAl := cell.(*ssa.Alloc)
		if !isAl {
			return nil
		}
		if ld.Parent() == al.Parent() {
			okAt = append(okAt, at)
		} else {
			// the reading closure (or the closure chain that leads to it) is made in the declaring function
			f := ld.Parent()
			for f != nil && f.Parent() != al.Parent() {
				f = f.Parent()
			}
			if f == nil {
				return nil
			}
			for _, b := range al.Parent().Blocks {
				for _, in := range b.Instrs {
					if mc, ok := in.(*ssa.MakeClosure); ok && mc.Fn == f {
						okAt = append(okAt, mc)
					}
				}
			}
			if len(okAt) == 0 {
				return nil
			}
		}
	} else {
		okAt = append(okAt, at)
	}
	var call *ssa.Call
	idx := 0
	switch x := v.(type) {
	case *ssa.Call:
		call = x
	case *ssa.Extract:
		c, ok := x.Tuple.(*ssa.Call)
		if !ok {
			return nil
		}
		call, idx = c, x.Index
	default:
		return nil
	}
	f := call.Common().StaticCallee()
	if f == nil || f.Blocks == nil || f.Pkg == nil || !strings.HasPrefix(f.Pkg.Pkg.Path(), core.ModPath) || len(call.Common().Args) != len(f.Params) {
		return nil
	}
	pi := -1
	needSuccess := false
	for _, ret := range core.Returns(f) {
		if idx >= len(ret.Results) {
			return nil
		}
		if len(ret.Results) > 1 && idx != len(ret.Results)-1 && core.FailureReturn(f, ret) {
			needSuccess = true
			continue
		}
		for _, rv := range core.ReturnOperand(ret, idx) {
			if rv == nil {
				return nil
			}
			os := core.Origins(e19ThroughOnceCell(rv), false)
			if len(os) == 0 {
				return nil
			}
			for _, ro := range os {
				ms, ok := e19ThroughOnceCell(ro).(*ssa.MakeSlice)
				if !ok {
					return nil
				}
				lc, ok := ms.Len.(*ssa.Call)
				if !ok {
					return nil
				}
				if b, isB := lc.Common().Value.(*ssa.Builtin); !isB || b.Name() != "len" {
					return nil
				}
				_, i := e19ParamIndex(e19ThroughOnceCell(lc.Common().Args[0]))
				if i < 0 || (pi >= 0 && pi != i) {
					return nil
				}
				pi = i
			}
		}
	}
	if pi < 0 {
		return nil
	}
	if needSuccess {
		for _, a := range okAt {
			if a.Parent() != call.Parent() || !core.SuccessKnown(call, a) {
				return nil
			}
		}
	}
	return call.Common().Args[pi]
}

// e19ThroughOnceCell: a load of a local variable that is assigned exactly once (a
// variable captured by a closure lives in a cell) is the assigned value.
func e19ThroughOnceCell(v ssa.Value) ssa.Value {
	for d := 0; d < 3; d++ {
		ld, ok := v.(*ssa.UnOp)
		if !ok || ld.Op != token.MUL {
			return v
		}
		al, ok := ld.X.(*ssa.Alloc)
		if !ok {
			return v
		}
		vals, complete := core.StoresTo(al)
		if !complete || len(vals) != 1 {
			return v
		}
		v = vals[0]
	}
	return v
}

// e19RecordOfFixedView — premise "a fixed view is rectangular": rec is an
// element of V.RecordSet and V has been through (*View).Fix — it is the result
// of lib/query.Select / selectEntity (which end with Fix), or Fix was called on
// it in this function before `at`. Then len(rec) == len(V.Header). Returns V.
func e19RecordOfFixedView(rec ssa.Value, at ssa.Instruction) ssa.Value {
	if core.NamedOf(rec.Type()) != "lib/query.Record" {
		return nil
	}
	os := core.Origins(rec, false)
	if len(os) != 1 {
		return nil
	}
	ld, ok := os[0].(*ssa.UnOp)
	if !ok || ld.Op != token.MUL {
		return nil
	}
	ia, ok := ld.X.(*ssa.IndexAddr)
	if !ok {
		return nil
	}
	v, key, ok := e19ObjField(ia.X)
	if !ok || key != "lib/query.View.RecordSet" {
		return nil
	}
	if !e19FixedViewAt(v, at, 0) {
		return nil
	}
	return v
}

// e19FixedViewAt: the *View v has been through (*View).Fix where `at` executes:
// Fix was called on it in this function (and did not fail), it is the successful
// result of a function every successful return of which yields such a view
// (checked, e.g. lib/query.Select), or it is the parameter of an unexported
// helper and every call site passes such a view.
func e19FixedViewAt(v ssa.Value, at ssa.Instruction, d int) bool {
	if d > 6 {
		return false
	}
	os := core.Origins(v, false)
	if len(os) == 0 {
		return false
	}
	for _, o := range os {
		if call, idx, ok := core.ExtractOf(o); ok && idx == 0 {
			if f := call.Common().StaticCallee(); f != nil && e19ReturnsFixedView(f, d+1) && (core.SuccessKnown(call, at) || e19ErrHandedOn(call, at)) {
				continue
			}
		}
		if e19FixCalledBefore(v, at) {
			continue
		}
		if par, ok := o.(*ssa.Parameter); ok {
			fn := par.Parent()
			_, pi := e19ParamIndex(par)
			if fn.Object() != nil && !fn.Object().Exported() && pi >= 0 && fn.Parent() == nil {
				edges := fixedViewCallers(fn)
				good := len(edges) > 0
				for _, e := range edges {
					if e.Site == nil || e.Site.Common().StaticCallee() != fn || pi >= len(e.Site.Common().Args) || !e19FixedViewAt(e.Site.Common().Args[pi], e.Site, d+1) {
						good = false
						break
					}
				}
				if good {
					continue
				}
			}
		}
		return false
	}
	return true
}

// fixedViewCallers is set by the rules that use the prover (the call graph lives in the rule context).
var fixedViewCallers = func(fn *ssa.Function) []*callgraph.Edge { return nil }

func e19FixCalledBefore(v ssa.Value, at ssa.Instruction) bool {
	for _, b := range at.Parent().Blocks {
		for _, in := range b.Instrs {
			c2, ok := in.(*ssa.Call)
			if !ok {
				continue
			}
			f := c2.Common().StaticCallee()
			if f == nil || f.Name() != "Fix" || core.NamedOf(f.Signature.Recv().Type()) != "lib/query.View" {
				continue
			}
			if len(c2.Common().Args) > 0 && core.SameVal(c2.Common().Args[0], v) && core.Dominates(c2, at) && (at == ssa.Instruction(c2) || e19ErrNotKnownSet(c2, at)) {
				return true
			}
		}
	}
	return false
}

// e19ErrNotKnownSet: the error returned by the Fix call is known nil at `at`, or `at` is a return
// that hands the error on together with the view (the caller tests it).
func e19ErrNotKnownSet(fix *ssa.Call, at ssa.Instruction) bool {
	if core.ErrKnownNilAt(fix, at) {
		return true
	}
	if ret, ok := at.(*ssa.Return); ok && len(ret.Results) == 2 {
		for _, rv := range core.ReturnOperand(ret, 1) {
			if rv != ssa.Value(fix) {
				return false
			}
		}
		return true
	}
	return false
}

// e19ErrHandedOn: `at` is a return that hands the error of this call on as its own
// error result (return f(…) / v, err := f(…); return v, err): whoever relies on the
// result tests that error.
func e19ErrHandedOn(call *ssa.Call, at ssa.Instruction) bool {
	ret, ok := at.(*ssa.Return)
	if !ok || len(ret.Results) != 2 {
		return false
	}
	ops := core.ReturnOperand(ret, 1)
	if len(ops) == 0 {
		return false
	}
	for _, rv := range ops {
		if rv == nil {
			return false
		}
		c2, idx, ok := core.ExtractOf(rv)
		if !ok || c2 != call || idx != 1 {
			return false
		}
	}
	return true
}

var e19FixedProducers = map[*ssa.Function]int{}

// e19ReturnsFixedView: f returns (*View, error) and on every return that is not a
// failure the view has been through Fix (in f, or it is the result of such a function).
func e19ReturnsFixedView(f *ssa.Function, d int) bool {
	if st, ok := e19FixedProducers[f]; ok {
		return st == 1 // 2: being evaluated (a cycle proves nothing), 0: refuted
	}
	e19FixedProducers[f] = 2
	ok := func() bool {
		if d > 6 || f.Blocks == nil || f.Pkg == nil || f.Pkg.Pkg.Path() != core.ModPath+"/lib/query" {
			return false
		}
		res := f.Signature.Results()
		if res.Len() != 2 || core.NamedOf(res.At(0).Type()) != "lib/query.View" || !core.IsErrorType(res.At(1).Type()) {
			return false
		}
		n := 0
		for _, ret := range core.Returns(f) {
			if core.FailureReturn(f, ret) {
				continue
			}
			for _, rv := range core.ReturnOperand(ret, 0) {
				if rv == nil {
					return false
				}
				if core.IsNilConst(rv) {
					continue
				}
				if !e19FixedViewAt(rv, ret, d) {
					if os.Getenv("CSVQSA_TRACE_FIX") != "" {
						fmt.Fprintf(os.Stderr, "fixedview: %s: return operand %s (%T) not fixed, d=%d\n", f.Name(), rv.Name(), rv, d)
					}
					return false
				}
				n++
			}
		}
		return n > 0
	}()
	if ok {
		e19FixedProducers[f] = 1
	} else if d <= 1 {
		e19FixedProducers[f] = 0 // a verdict reached at the top is final
	} else {
		delete(e19FixedProducers, f) // reached inside another evaluation (cycle, depth): ask again
	}
	return ok
}

// e19GetterSym evaluates a pure one-parameter getter whose result is a length;
// arg describes the actual argument: a value (in .slice) or a field of an object.
func e19GetterSym(g *ssa.Function, arg e19Sym, d int) (e19Sym, bool) {
	if g == nil || d > 3 || len(g.Blocks) != 1 || len(g.Params) != 1 {
		return e19Sym{}, false
	}
	rets := core.Returns(g)
	if len(rets) != 1 || len(rets[0].Results) != 1 {
		return e19Sym{}, false
	}
	call, ok := rets[0].Results[0].(*ssa.Call)
	if !ok || len(call.Common().Args) != 1 {
		return e19Sym{}, false
	}
	// the callee-side argument expression: param0, or a field of param0
	var inner e19Sym
	switch a := call.Common().Args[0].(type) {
	case *ssa.Parameter:
		if a != g.Params[0] {
			return e19Sym{}, false
		}
		inner = arg
	case *ssa.UnOp:
		fa, ok := a.X.(*ssa.FieldAddr)
		if a.Op != token.MUL || !ok || fa.X != g.Params[0] || arg.slice == nil {
			// a load of the spilled value receiver: `*param-cell`
			if al, isAl := a.X.(*ssa.Alloc); isAl && a.Op == token.MUL {
				vals, complete := core.StoresTo(al)
				if complete && len(vals) == 1 && vals[0] == g.Params[0] {
					inner = arg
					break
				}
			}
			return e19Sym{}, false
		}
		inner = e19Sym{obj: arg.slice, fkey: e19CanonField(e19FieldKey(fa))}
	default:
		return e19Sym{}, false
	}
	if b, ok := call.Common().Value.(*ssa.Builtin); ok {
		if b.Name() != "len" {
			return e19Sym{}, false
		}
		if inner.slice != nil {
			return e19SymOfContainer(inner.slice), true
		}
		return inner, true
	}
	return e19GetterSym(call.Common().StaticCallee(), inner, d+1)
}

// e19ParamLenOperand: v is an integer parameter (isLen false) or len(p) of a slice
// parameter p (isLen true); returns the parameter and its index.
func e19ParamLenOperand(v ssa.Value) (par *ssa.Parameter, idx int, isLen bool) {
	if q, qi := e19ParamIndex(v); q != nil {
		if e19IsIntType(q.Type()) {
			return q, qi, false
		}
		return nil, -1, false
	}
	if a := e19LenArg(v); a != nil {
		if q, qi := e19ParamIndex(a); q != nil {
			if _, isSl := q.Type().Underlying().(*types.Slice); isSl {
				return q, qi, true
			}
		}
	}
	return nil, -1, false
}

// e19ContainerLenSyms: the symbolic lengths of container s where `at` executes: the
// container itself (or the field it is loaded from), the header of the fixed view it
// is a record of, the argument a helper built it from element by element.
func e19ContainerLenSyms(s ssa.Value, at ssa.Instruction) []e19Sym {
	out := []e19Sym{e19SymOfContainer(s)}
	if v := e19RecordOfFixedView(s, at); v != nil {
		out = append(out, e19Sym{obj: v, fkey: "lib/query.View.Header"})
	}
	if arg := e19LenAlias(s, at); arg != nil {
		out = append(out, e19SymOfContainer(arg))
	}
	return out
}

// denotesLen: x is len(base).
func e19DenotesLen(x ssa.Value, base ssa.Value) bool {
	bs := []e19Sym{e19SymOfContainer(base)}
	if bi, ok := base.(ssa.Instruction); ok {
		if arg := e19LenAlias(base, bi); arg != nil {
			bs = append(bs, e19SymOfContainer(arg))
		}
	}
	return e19AnySymEq(e19LenSyms(x), bs)
}

// e19LenGetter (kept for callers that only need the field key of a receiver getter).
func e19LenGetter(fn *ssa.Function, d int) (string, bool) {
	if fn == nil || len(fn.Params) != 1 {
		return "", false
	}
	s, ok := e19GetterSym(fn, e19Sym{slice: fn.Params[0]}, d)
	if !ok || s.obj != fn.Params[0] {
		return "", false
	}
	return s.fkey, true
}

func (p *e19Prover) matches(x ssa.Value, t e19Term) bool {
	if t.minus != nil {
		b, ok := x.(*ssa.BinOp)
		if !ok || b.Op != token.SUB || !core.SameVal(b.Y, t.minus) {
			return false
		}
		return p.matches(b.X, e19Term{val: t.val, base: t.base, obj: t.obj, fkey: t.fkey})
	}
	if t.val != nil {
		if core.SameVal(x, t.val) {
			return true
		}
		// two spellings of the same length: len(h) and h.Len(), fieldLen := len(fields) …
		return e19AnySymEq(e19LenSyms(x), e19LenSyms(t.val))
	}
	if t.base == nil {
		return e19DenotesLenOf(x, t.obj, t.fkey)
	}
	return e19DenotesLen(x, t.base)
}

// objTerm rewrites a len(base) term as "len of field of object" when base is a field load.
func (t e19Term) objTerm() (e19Term, bool) {
	if t.val != nil || t.minus != nil {
		return t, false
	}
	if t.base == nil {
		return t, t.obj != nil
	}
	o, k, ok := e19ObjField(t.base)
	if !ok {
		return t, false
	}
	return e19Term{obj: o, fkey: k}, true
}

// e19MadeLens: when every origin of the slice value is make(T, L) — in this
// function, in the enclosing function (captured variable), or in a csvq
// constructor returning make(T, param) — the SSA values L (in the current
// function's terms); nil otherwise.
func e19MadeLens(c *Ctx, base ssa.Value) []ssa.Value {
	var out []ssa.Value
	base = e19ThroughLocalStore(base)
	os := core.Origins(base, false)
	if len(os) == 0 {
		return nil
	}
	for _, o := range os {
		o = e19ThroughLocalStore(o)
		switch x := o.(type) {
		case *ssa.MakeSlice:
			if x.Parent() != e19ParentOf(base) {
				// made in the enclosing function: usable only when the length is a symbolic
				// length or a constant (compared across the closure boundary by e19SymEq)
				if _, isC := x.Len.(*ssa.Const); !isC {
					if _, ok := e19LenSym(x.Len); !ok {
						return nil
					}
				}
			}
			out = append(out, x.Len)
		case *ssa.Slice:
			// x[:h] has exactly h elements
			if x.Low != nil || x.High == nil {
				return nil
			}
			out = append(out, x.High)
		case *ssa.Call:
			f := x.Common().StaticCallee()
			if f == nil || f.Blocks == nil || len(x.Common().Args) != len(f.Params) {
				return nil
			}
			pi := -1
			for _, ret := range core.Returns(f) {
				if len(ret.Results) != 1 {
					return nil
				}
				for _, rv := range core.ReturnOperand(ret, 0) {
					if rv == nil {
						return nil
					}
					for _, ro := range core.Origins(rv, false) {
						ms, ok := ro.(*ssa.MakeSlice)
						if !ok {
							return nil
						}
						_, i := e19ParamIndex(ms.Len)
						if i < 0 || (pi >= 0 && pi != i) {
							return nil
						}
						pi = i
					}
				}
			}
			if pi < 0 {
				return nil
			}
			out = append(out, x.Common().Args[pi])
		default:
			return nil
		}
	}
	return out
}

// e19ThroughLocalStore: v is a load of a slot (field / element) that this
// function assigned just before on every path (a store to the same slot
// dominates the load and no other store to it lies in between): the stored value.
func e19ThroughLocalStore(v ssa.Value) ssa.Value {
	for d := 0; d < 3; d++ {
		ld, ok := v.(*ssa.UnOp)
		if !ok || ld.Op != token.MUL {
			return v
		}
		sameSlot := func(addr ssa.Value) bool {
			switch x := ld.X.(type) {
			case *ssa.FieldAddr:
				y, ok := addr.(*ssa.FieldAddr)
				return ok && x.Field == y.Field && core.SameVal(x.X, y.X)
			case *ssa.IndexAddr:
				y, ok := addr.(*ssa.IndexAddr)
				return ok && core.SameVal(x.Index, y.Index) && (core.SameVal(x.X, y.X) || e19SameBase(x.X, y.X))
			}
			return false
		}
		var best *ssa.Store
		var others []*ssa.Store
		for _, b := range ld.Parent().Blocks {
			for _, in := range b.Instrs {
				st, ok := in.(*ssa.Store)
				if !ok || !sameSlot(st.Addr) {
					continue
				}
				if core.Dominates(st, ld) {
					if best == nil || core.Dominates(best, st) {
						best = st
					}
				}
				others = append(others, st)
			}
		}
		if best == nil {
			return v
		}
		for _, o := range others {
			if o != best && core.Reachable(best, o, func(i ssa.Instruction) bool { return i == ld }) && core.Reachable(o, ld, nil) {
				return v
			}
		}
		v = best.Val
	}
	return v
}

func e19ParentOf(v ssa.Value) *ssa.Function {
	if in, ok := v.(ssa.Instruction); ok {
		return in.Parent()
	}
	return v.Parent()
}

func e19LastInstr(b *ssa.BasicBlock) ssa.Instruction { return b.Instrs[len(b.Instrs)-1] }

func (p *e19Prover) lo(v ssa.Value, at ssa.Instruction) float64 {
	a := p.e.Eval(v, at, core.KInt)
	if a.Bot {
		return math.Inf(1)
	}
	return a.Lo
}

// le proves v < t (strict) or v ≤ t at the given point.
func (p *e19Prover) le(v ssa.Value, t e19Term, strict bool, facts []core.Fact, at ssa.Instruction, d int) bool {
	r := p.le1(v, t, strict, facts, at, d)
	if os.Getenv("CSVQSA_TRACE_LE") != "" {
		tv := ""
		if t.base != nil {
			tv = "len(" + t.base.Name() + ")"
		} else if t.obj != nil {
			tv = "len(" + t.obj.Name() + "." + t.fkey + ")"
		}
		if t.val != nil {
			tv = t.val.Name() + "=" + t.val.String()
		}
		if t.minus != nil {
			tv += " - " + t.minus.Name()
		}
		fmt.Fprintf(os.Stderr, "%*sle %s=%s  <=(strict=%v) %s : %v  @%s\n", d*2, "", v.Name(), v.String(), strict, tv, r, p.c.P.InstrPos(at))
	}
	return r
}

func (p *e19Prover) le1(v ssa.Value, t e19Term, strict bool, facts []core.Fact, at ssa.Instruction, d int) bool {
	if d > 10 {
		return false
	}
	key := e19BusyKey{v, t, strict}
	if p.busy[key] {
		return true // loop induction: the claim is assumed for the value flowing round the loop
	}
	p.busy[key] = true
	defer delete(p.busy, key)

	// 0. the length of a record of a fixed (rectangular) view is the length of its header
	if t.val == nil && t.minus == nil && t.base != nil {
		if bi, ok := t.base.(ssa.Instruction); ok {
			if vw := e19RecordOfFixedView(t.base, bi); vw != nil {
				if p.le(v, e19Term{obj: vw, fkey: "lib/query.View.Header"}, strict, facts, at, d+1) {
					return true
				}
			}
		}
	}
	// 1. v is the target itself
	if p.matches(v, t) {
		return !strict
	}
	// a target value that is itself a len(): switch to the len term
	if t.val != nil && t.minus == nil {
		if call, ok := t.val.(*ssa.Call); ok {
			if b, ok := call.Common().Value.(*ssa.Builtin); ok && b.Name() == "len" {
				if p.le(v, e19Term{base: call.Common().Args[0]}, strict, facts, at, d+1) {
					return true
				}
			}
		}
	}
	// 1b. io.Reader/io.Writer contract: n of r.Read(p) / w.Write(p) is ≤ len(p)
	if ex, ok := v.(*ssa.Extract); ok && ex.Index == 0 && !strict && t.minus == nil {
		if call, ok := ex.Tuple.(*ssa.Call); ok {
			name := ""
			var arg ssa.Value
			if call.Common().IsInvoke() {
				name = call.Common().Method.Name()
				if len(call.Common().Args) == 1 {
					arg = call.Common().Args[0]
				}
			} else if f := call.Common().StaticCallee(); f != nil && f.Signature.Recv() != nil && len(call.Common().Args) == 2 {
				name, arg = f.Name(), call.Common().Args[1]
			}
			if (name == "Read" || name == "Write") && arg != nil {
				if _, isSl := arg.Type().Underlying().(*types.Slice); isSl {
					if (t.val != nil && e19DenotesLen(t.val, arg)) || (t.val == nil && t.base != nil && e19SameBase(t.base, arg)) {
						return true
					}
				}
			}
		}
	}
	// 1c. exact lengths of slices made here: len(make(T, L)) is L — also through a
	// constructor whose every return is make(T, p) of one of its parameters
	if d < 8 && t.minus == nil {
		if t.val == nil && t.base != nil {
			if ls := e19MadeLens(p.c, t.base); len(ls) > 0 {
				all := true
				for _, l := range ls {
					if !p.le(v, e19Term{val: l}, strict, facts, at, d+1) {
						all = false
						break
					}
				}
				if all {
					return true
				}
			}
		}
		if lc, ok := v.(*ssa.Call); ok {
			if b, isB := lc.Common().Value.(*ssa.Builtin); isB && b.Name() == "len" {
				if ls := e19MadeLens(p.c, lc.Common().Args[0]); len(ls) > 0 {
					all := true
					for _, l := range ls {
						if !p.le(l, t, strict, facts, at, d+1) {
							all = false
							break
						}
					}
					if all {
						return true
					}
				}
			}
		}
	}
	// 2. intervals
	if t.minus == nil && (t.val != nil || t.base != nil) {
		a := p.e.Eval(v, at, core.KInt)
		var tl core.AV
		if t.val != nil {
			tl = p.e.Eval(t.val, at, core.KInt)
		} else {
			tl = p.e.Eval(t.base, at, core.KLen)
		}
		if a.Bot || tl.Bot {
			return true
		}
		if !math.IsInf(a.Hi, 0) && ((strict && a.Hi < tl.Lo) || (!strict && a.Hi <= tl.Lo)) {
			return true
		}
	}
	// 2b. a lower bound of the length term from dominating comparisons of the
	// length itself (len(x), or a len getter such as view.RecordLen()) with constants
	if t.minus == nil && t.val == nil {
		a := p.e.Eval(v, at, core.KInt)
		if lo, ok := p.lenLowerFromFacts(t, facts); ok && !a.Bot && !math.IsInf(a.Hi, 0) {
			if (strict && a.Hi < lo) || (!strict && a.Hi <= lo) {
				return true
			}
		}
	}
	// 3. dominating comparisons of v
	for _, f := range facts {
		b, ok := f.Cond.(*ssa.BinOp)
		if !ok {
			continue
		}
		op := b.Op
		var o ssa.Value
		switch {
		case core.SameVal(b.X, v):
			o = b.Y
		case core.SameVal(b.Y, v):
			o = b.X
			op = e19Flip(op)
		default:
			continue
		}
		if f.Neg {
			op = e19Neg(op)
		}
		need := strict
		switch op {
		case token.LSS:
			need = false
		case token.LEQ, token.EQL:
		default:
			continue
		}
		if p.matches(o, t) {
			if !need {
				return true
			}
			continue
		}
		if _, isC := o.(*ssa.Const); isC {
			continue // constants are covered by the interval step
		}
		if p.le(o, t, need, core.FactsAt(f.If.Block()), f.If, d+1) {
			return true
		}
	}
	// 3b. across a call boundary: a helper's parameter is bounded if every caller's
	// argument is (the term is re-expressed in the caller: len of the same field of
	// the object the caller passes); a helper's result is bounded if every return is.
	if ot, ok := t.objTerm(); ok && d < 8 {
		if pv, pi := e19ParamIndex(v); pv != nil {
			if _, oi := e19ParamIndex(ot.obj); oi >= 0 && ot.obj.Parent() == pv.Parent() {
				fn := pv.Parent()
				edges := p.c.P.RealCallers(fn)
				okAll := len(edges) > 0 && len(edges) <= 8 && fn.Parent() == nil
				for _, ed := range edges {
					if !okAll {
						break
					}
					if ed.Caller.Func != nil && ed.Caller.Func.Synthetic != "" {
						continue
					}
					site, isCall := ed.Site.(*ssa.Call)
					if !isCall || site.Common().StaticCallee() != fn || len(site.Common().Args) != len(fn.Params) {
						okAll = false
						break
					}
					ct := e19Term{obj: site.Common().Args[oi], fkey: ot.fkey}
					if !p.le(site.Common().Args[pi], ct, strict, core.FactsAt(site.Block()), site, d+1) {
						okAll = false
					}
				}
				if okAll {
					return true
				}
			}
		}
	}
	// 3b'. the same for the LENGTH of a slice parameter: len(p) is bounded if at every
	// call site the argument was made there with a length that is (make([]bool, view.RecordLen());
	// view.retain(flags)).
	if ot, ok := t.objTerm(); ok && d < 8 && t.minus == nil {
		if lc, isCall := v.(*ssa.Call); isCall {
			if b, isB := lc.Common().Value.(*ssa.Builtin); isB && b.Name() == "len" {
				if pv, pi := e19ParamIndex(lc.Common().Args[0]); pv != nil {
					if _, oi := e19ParamIndex(ot.obj); oi >= 0 && ot.obj.Parent() == pv.Parent() {
						fn := pv.Parent()
						edges := p.c.P.RealCallers(fn)
						okAll := len(edges) > 0 && len(edges) <= 8 && fn.Parent() == nil && fn.Object() != nil && !fn.Object().Exported()
						for _, ed := range edges {
							if !okAll {
								break
							}
							site, isCall := ed.Site.(*ssa.Call)
							if !isCall || site.Common().StaticCallee() != fn || len(site.Common().Args) != len(fn.Params) {
								okAll = false
								break
							}
							ls := e19MadeLens(p.c, site.Common().Args[pi])
							if len(ls) == 0 {
								okAll = false
								break
							}
							ct := e19Term{obj: site.Common().Args[oi], fkey: ot.fkey}
							for _, l := range ls {
								if !p.le(l, ct, strict, core.FactsAt(site.Block()), site, d+1) {
									okAll = false
								}
							}
						}
						if okAll {
							return true
						}
					}
				}
			}
		}
	}
	// 3b''. both sides are parameters of one unexported helper — an int parameter, or
	// the length of a slice parameter (rowValueOf(record, fieldLen): len(record) against
	// fieldLen; fill(dst, record): len(record) against len(dst)). The relation holds in
	// the helper if it holds between the arguments at every call site: the argument on
	// the left is bounded by the term built from the argument on the right, its length
	// is the length it was made with there, or both denote the same symbolic length
	// (a record of a fixed view and view.FieldLen()).
	if t.minus == nil && d < 8 {
		lp, li, lIsLen := e19ParamLenOperand(v)
		var rp *ssa.Parameter
		ri, rIsLen := -1, false
		switch {
		case t.val != nil:
			rp, ri, rIsLen = e19ParamLenOperand(t.val)
		case t.base != nil:
			if q, qi := e19ParamIndex(t.base); q != nil {
				if _, isSl := q.Type().Underlying().(*types.Slice); isSl {
					rp, ri, rIsLen = q, qi, true
				}
			}
		}
		if lp != nil && rp != nil && lp != rp && lp.Parent() == rp.Parent() {
			fn := lp.Parent()
			edges := p.c.P.RealCallers(fn)
			okAll := len(edges) > 0 && len(edges) <= 8 && fn.Parent() == nil && fn.Object() != nil && !fn.Object().Exported()
			for _, ed := range edges {
				if !okAll {
					break
				}
				site, isCall := ed.Site.(*ssa.Call)
				if !isCall || site.Common().StaticCallee() != fn || len(site.Common().Args) != len(fn.Params) {
					okAll = false
					break
				}
				la, ra := site.Common().Args[li], site.Common().Args[ri]
				sfacts := core.FactsAt(site.Block())
				// holds: (len of) the left argument is bounded by term ct at the call site
				holds := func(ct e19Term) bool {
					if !lIsLen {
						return p.le(la, ct, strict, sfacts, site, d+1)
					}
					if !strict {
						var rsyms []e19Sym
						if ct.val != nil {
							rsyms = e19LenSyms(ct.val)
						} else {
							rsyms = e19ContainerLenSyms(ct.base, site)
						}
						if e19AnySymEq(e19ContainerLenSyms(la, site), rsyms) {
							return true
						}
					}
					ls := e19MadeLens(p.c, la)
					if len(ls) == 0 {
						return false
					}
					for _, l := range ls {
						if !p.le(l, ct, strict, sfacts, site, d+1) {
							return false
						}
					}
					return true
				}
				good := false
				if !rIsLen {
					good = holds(e19Term{val: ra})
				} else if holds(e19Term{base: ra}) {
					good = true
				} else if ls := e19MadeLens(p.c, ra); len(ls) > 0 {
					// the right argument was made at the call site: its length is the length it was made with
					good = true
					for _, l := range ls {
						if !holds(e19Term{val: l}) {
							good = false
							break
						}
					}
				}
				if !good {
					okAll = false
				}
			}
			if okAll {
				return true
			}
		}
	}
	// 3c. a helper's result is bounded if every successful return of the helper is:
	// the term is re-expressed in the callee — len of a field of the object passed
	// (objTerm), or the int parameter that receives a value denoting the term
	// (strlen := len(runes); helper(pos, strlen)). Failure returns (non-nil error /
	// false) are skipped only where the caller is known to have seen success.
	if t.minus == nil && d < 8 {
		var call *ssa.Call
		idx := 0
		switch x := v.(type) {
		case *ssa.Call:
			call = x
		case *ssa.Extract:
			if c2, ok := x.Tuple.(*ssa.Call); ok {
				call, idx = c2, x.Index
			}
		}
		if call != nil {
			if f := call.Common().StaticCallee(); f != nil && f.Blocks != nil && p.c.P.Name(f) != f.String() && len(call.Common().Args) == len(f.Params) {
				var cts []e19Term
				if ot, ok := t.objTerm(); ok {
					for i, a := range call.Common().Args {
						if core.SameVal(a, ot.obj) {
							cts = append(cts, e19Term{obj: f.Params[i], fkey: ot.fkey})
						}
					}
				}
				for i, a := range call.Common().Args {
					if e19IsIntType(a.Type()) && p.matches(a, t) {
						cts = append(cts, e19Term{val: f.Params[i]})
					}
				}
				success := core.SuccessKnown(call, at)
				for _, ct := range cts {
					okAll, n := true, 0
					for _, ret := range core.Returns(f) {
						if idx >= len(ret.Results) {
							okAll = false
							break
						}
						if idx != len(ret.Results)-1 && core.FailureReturn(f, ret) && success {
							continue
						}
						for _, rv := range core.ReturnOperand(ret, idx) {
							n++
							if rv == nil {
								continue // zero
							}
							if !p.le(rv, ct, strict, core.FactsAt(ret.Block()), ret, d+1) {
								okAll = false
							}
						}
					}
					if okAll && n > 0 {
						return true
					}
				}
			}
		}
	}
	switch x := v.(type) {
	case *ssa.Phi:
		// 4. every incoming edge
		all := true
		for i, ev := range x.Edges {
			pred := x.Block().Preds[i]
			if !p.le(ev, t, strict, core.EdgeFacts(pred, x.Block()), e19LastInstr(pred), d+1) {
				all = false
				break
			}
		}
		if all {
			return true
		}
	case *ssa.Convert:
		if e19IsIntType(x.X.Type()) && e19IsIntType(x.Type()) && p.le(x.X, t, strict, facts, at, d+1) {
			return true
		}
	case *ssa.ChangeType:
		if p.le(x.X, t, strict, facts, at, d+1) {
			return true
		}
	case *ssa.Call:
		if b, ok := x.Common().Value.(*ssa.Builtin); ok && b.Name() == "min" {
			for _, a := range x.Common().Args {
				if p.le(a, t, strict, facts, at, d+1) {
					return true
				}
			}
		}
	case *ssa.BinOp:
		switch x.Op {
		case token.SUB:
			// 5. a - b with b ≥ 0 and a not near MinInt
			bl := p.lo(x.Y, x)
			if bl >= 0 && !math.IsInf(p.lo(x.X, x), -1) {
				if bl > 0 && p.le(x.X, t, false, facts, at, d+1) {
					return true
				}
				if p.le(x.X, t, strict, facts, at, d+1) {
					return true
				}
			}
		case token.ADD:
			if k, ok := core.ConstInt(x.Y); ok {
				if k == 1 && !strict && p.le(x.X, t, true, facts, at, d+1) { // a < T ⇒ a+1 ≤ T
					return true
				}
				break
			}
			// 6. a + b ≤ T  ⇐  b ≤ T - a with a ≥ 0 (or symmetrically)
			if t.minus == nil {
				if p.lo(x.X, x) >= 0 && p.le(x.Y, e19Term{val: t.val, base: t.base, minus: x.X}, strict, facts, at, d+1) {
					return true
				}
				if p.lo(x.Y, x) >= 0 && p.le(x.X, e19Term{val: t.val, base: t.base, minus: x.Y}, strict, facts, at, d+1) {
					return true
				}
			}
		}
	}
	// 8. target side: a Phi target, or target = v + nonneg
	if t.val != nil && t.minus == nil {
		switch tv := t.val.(type) {
		case *ssa.Phi:
			all := true
			for i, ev := range tv.Edges {
				pred := tv.Block().Preds[i]
				// facts of the use point stay valid for SSA values; add the edge's own
				fs := append(append([]core.Fact{}, facts...), core.EdgeFacts(pred, tv.Block())...)
				if !p.le(v, e19Term{val: ev}, strict, fs, e19LastInstr(pred), d+1) {
					all = false
					break
				}
			}
			if all {
				return true
			}
		case *ssa.BinOp:
			if tv.Op == token.ADD && !strict {
				sum := p.e.Eval(tv, tv, core.KInt)
				if !sum.IsTop() {
					if core.SameVal(tv.X, v) && p.lo(tv.Y, tv) >= 0 {
						return true
					}
					if core.SameVal(tv.Y, v) && p.lo(tv.X, tv) >= 0 {
						return true
					}
				}
			}
		}
	}
	return false
}

// lenLowerFromFacts: the largest lower bound of the length term that the facts
// establish by comparing the length with a constant (switch / if on len or a getter).
func (p *e19Prover) lenLowerFromFacts(t e19Term, facts []core.Fact) (float64, bool) {
	best, found := 0.0, false
	for _, f := range facts {
		b, ok := f.Cond.(*ssa.BinOp)
		if !ok {
			continue
		}
		op := b.Op
		var o ssa.Value
		switch {
		case p.matches(b.X, t):
			o = b.Y
		case p.matches(b.Y, t):
			o = b.X
			op = e19Flip(op)
		default:
			continue
		}
		k, isK := core.ConstInt(o)
		if !isK {
			continue
		}
		if f.Neg {
			op = e19Neg(op)
		}
		lo := -1.0
		switch op {
		case token.GTR:
			lo = float64(k + 1)
		case token.GEQ, token.EQL:
			lo = float64(k)
		case token.NEQ:
			if k == 0 {
				lo = 1
			}
		}
		if lo > best || !found && lo >= 0 {
			if lo >= 0 {
				best, found = lo, true
			}
		}
	}
	return best, found
}

func e19Flip(op token.Token) token.Token {
	switch op {
	case token.LSS:
		return token.GTR
	case token.LEQ:
		return token.GEQ
	case token.GTR:
		return token.LSS
	case token.GEQ:
		return token.LEQ
	}
	return op
}

func e19Neg(op token.Token) token.Token {
	switch op {
	case token.LSS:
		return token.GEQ
	case token.LEQ:
		return token.GTR
	case token.GTR:
		return token.LEQ
	case token.GEQ:
		return token.LSS
	case token.EQL:
		return token.NEQ
	case token.NEQ:
		return token.EQL
	}
	return op
}

// frozen exceptions of R-ERR-11 (value-level facts), each with a re-checked side condition
type e19TaintException struct {
	fn, reason string
	side       func(c *Ctx, e *core.Bounds, in ssa.Instruction, base, operand ssa.Value) (bool, string)
}

var err11Exceptions = []e19TaintException{
	{"lib/json.Extract", "ArrayItem.Index is strconv.Atoi of a PATH_INDEX token, which the query scanner builds from decimal digits only ('-' is a syntax error; an overflowing literal yields MaxInt), so it is never negative; the upper bound is checked",
		func(c *Ctx, e *core.Bounds, in ssa.Instruction, base, operand ssa.Value) (bool, string) {
			src := e.Tainted(operand)
			call, ok := src.(*ssa.Call)
			if !ok || c.P.CalleeName(call) != "strconv.Atoi" || !c.P.InPkg(call.Parent(), "lib/json") {
				return false, "the index is not an Atoi result of the lib/json query parser"
			}
			pr := &e19Prover{c: c, e: e, busy: map[e19BusyKey]bool{}}
			if !pr.le(operand, e19Term{base: base}, true, core.FactsAt(in.Block()), in, 0) {
				return false, "the upper bound is no longer checked"
			}
			return true, "index is strconv.Atoi of the json path lexer's token and is tested against len"
		}},
	{"lib/query.execStringsPadding", "the padding is strings.Repeat(padstr, ceil(padLen/padstrLen)) with padstrLen the rune count of padstr, so it has at least padLen runes",
		func(c *Ctx, e *core.Bounds, in ssa.Instruction, base, operand ssa.Value) (bool, string) {
			// base = []rune(strings.Repeat(_, int(math.Ceil(float64(operand) / _)))); the string and
			// the bound may reach a helper as parameters: then every caller must have that shape
			cv, ok := base.(*ssa.Convert)
			if !ok {
				return false, "the sliced value is not a []rune conversion"
			}
			var shape func(str, bound ssa.Value, d int) (bool, string)
			shape = func(str, bound ssa.Value, d int) (bool, string) {
				for _, o := range core.Origins(str, false) {
					if sp, si := e19ParamIndex(o); sp != nil && d < 3 {
						bp, bi := e19ParamIndex(bound)
						if bp == nil || bp.Parent() != sp.Parent() {
							return false, "the string is a parameter but the bound is not"
						}
						edges := c.P.RealCallers(sp.Parent())
						if len(edges) == 0 || len(edges) > 4 {
							return false, "the helper has no or too many callers"
						}
						for _, ed := range edges {
							site, isCall := ed.Site.(*ssa.Call)
							if !isCall || site.Common().StaticCallee() != sp.Parent() || len(site.Common().Args) != len(sp.Parent().Params) {
								return false, "dynamic call of the helper"
							}
							if ok, why := shape(site.Common().Args[si], site.Common().Args[bi], d+1); !ok {
								return false, why
							}
						}
						continue
					}
					call, ok := o.(*ssa.Call)
					if !ok || c.P.CalleeName(call) != "strings.Repeat" {
						return false, "the converted string is not the result of strings.Repeat"
					}
					n, ok := call.Common().Args[1].(*ssa.Convert)
					if !ok {
						return false, "Repeat count is not int(...)"
					}
					ceil, ok := n.X.(*ssa.Call)
					if !ok || c.P.CalleeName(ceil) != "math.Ceil" {
						return false, "Repeat count is not int(math.Ceil(...))"
					}
					q, ok := ceil.Common().Args[0].(*ssa.BinOp)
					if !ok || q.Op != token.QUO {
						return false, "Repeat count is not a rounded-up quotient"
					}
					num, ok := q.X.(*ssa.Convert)
					if !ok || !core.SameVal(num.X, bound) {
						return false, "the quotient's numerator is not the slice bound"
					}
				}
				return true, ""
			}
			if ok, why := shape(cv.X, operand, 0); !ok {
				return false, why
			}
			return true, "sliced value is []rune(strings.Repeat(_, int(math.Ceil(float64(bound)/_))))"
		}},
	{"lib/query.Update", "the index is the internal record id, a column csvq generates itself when it loads the view with useInternalId (0..n-1); data cannot supply it (a user column of that name makes the reference ambiguous)",
		func(c *Ctx, e *core.Bounds, in ssa.Instruction, base, operand ssa.Value) (bool, string) {
			src := e.Tainted(operand)
			if src == nil || src.Parent() == nil || c.P.Name(src.Parent()) != "lib/query.(*View).InternalRecordId" {
				return false, "the index does not come from (*View).InternalRecordId"
			}
			return true, "the index is read by (*View).InternalRecordId"
		}},
}

func ruleErr11(c *Ctx, scope func(*ssa.Function) bool) {
	e := e19NewBounds(c)
	pr := &e19Prover{c: c, e: e, busy: map[e19BusyKey]bool{}}
	seq := e19SeqKey{}
	isContainer := func(t types.Type) bool {
		switch u := t.Underlying().(type) {
		case *types.Slice:
			return true
		case *types.Basic:
			return u.Info()&types.IsString != 0
		}
		return false
	}
	check := func(fn *ssa.Function, in ssa.Instruction, base, op ssa.Value, strict bool, role string, lowOf ssa.Value) {
		if op == nil || !isContainer(base.Type()) {
			return
		}
		src := e.Tainted(op)
		if src == nil && (lowOf == nil || e.Tainted(lowOf) == nil) {
			return
		}
		if _, isC := op.(*ssa.Const); isC && lowOf == nil {
			return
		}
		c.Sites++
		c.Touch(fn)
		kfn := e19KeyFn(c, fn)
		key := seq.key(c, kfn, fmt.Sprintf("%s[%s]%s", e19ExprLabel(base), e19ExprLabel(op), role))
		facts := core.FactsAt(in.Block())
		var bad []string
		if a := e.Eval(op, in, core.KInt); !a.Bot && a.Lo < 0 {
			bad = append(bad, fmt.Sprintf("not shown ≥ 0 (interval %s; a sum or difference of two unclamped user values may wrap)", e19FmtAV(a)))
		}
		if !pr.le(op, e19Term{base: base}, strict, facts, in, 0) {
			rel := "≤"
			if strict {
				rel = "<"
			}
			bad = append(bad, fmt.Sprintf("not shown %s len(%s): no dominating comparison of this value (or of a value it is derived from) with the length of the same container, no clamp", rel, e19ExprLabel(base)))
		}
		if lowOf != nil {
			if !pr.le(lowOf, e19Term{val: op}, false, facts, in, 0) {
				bad = append(bad, fmt.Sprintf("low bound %s not shown ≤ high bound", e19ExprLabel(lowOf)))
			}
		}
		if len(bad) == 0 {
			c.Ok(key, c.Pos(in), "in range at the use")
			return
		}
		srcTxt := ""
		if src != nil {
			srcTxt = " (user-controlled through " + valueLabel(src) + " at " + c.P.InstrPos(e19InstrOf(src)) + ")"
		}
		for _, ex := range err11Exceptions {
			if e19OnlyCalledFrom(c, fn, ex.fn) {
				if ok, why := ex.side(c, e, in, base, op); ok {
					c.Ok(key, c.Pos(in), "frozen exception: "+ex.reason+" — side condition checked: "+why)
				} else {
					c.Bad(key, c.Pos(in), "frozen exception ("+ex.reason+") no longer holds: "+why)
				}
				return
			}
		}
		c.Bad(key, c.Pos(in), fmt.Sprintf("%s%s is used as index/bound of %s but is %s — index / slice bounds out of range → internal Fatal Error", valueLabel(op), srcTxt, e19ExprLabel(base), strings.Join(bad, "; ")))
	}
	for _, fn := range e19HandWritten(c, scope) {
		for _, b := range fn.Blocks {
			for _, in := range b.Instrs {
				switch x := in.(type) {
				case *ssa.Index:
					check(fn, x, x.X, x.Index, true, "", nil)
				case *ssa.IndexAddr:
					check(fn, x, x.X, x.Index, true, "", nil)
				case *ssa.Slice:
					if x.Low != nil {
						check(fn, x, x.X, x.Low, false, " (low)", nil)
					}
					if x.High != nil {
						check(fn, x, x.X, x.High, false, " (high)", x.Low)
					}
					if x.Max != nil {
						check(fn, x, x.X, x.Max, false, " (max)", nil)
					}
				}
			}
		}
	}
}
