package rules

// R-CUR-11 (eighth round, seed C16-15): a cursor that is opened again starts from nothing, and
// a fetched row belongs to whoever fetched it.

import (
	"fmt"
	"go/token"
	"go/types"
	"sort"

	"golang.org/x/tools/go/ssa"

	"verif/checker/core"
)

func init() {
	Register(&Rule{ID: "R-CUR-11", Props: []string{"C16", "C14"}, Floor: 4,
		Doc:      "nothing of an earlier OPEN survives into the next: (a) every field of lib/query.Cursor that a method other than Open stores into (position, fetched flag, view — and whatever buffer a later change adds) is stored by Open before each of its returns with a nil error, so a re-OPEN cannot see state sized or filled for the previous result set; (b) every slice a method of Cursor returns is allocated by that call (make / append onto nil / a literal) or nil — never loaded from a field of the cursor, which would hand the same backing array to every FETCH (a kept row changes under its holder) and keep its length across CLOSE / OPEN (a narrower result is padded with cells of the closed snapshot, a wider one indexes past the end)",
		Controls: []string{"ctlReopenCursor.Open: starts row afresh", "ctlReopenCursor).Fetch"},
		Run:      ruleCur11})
}

func cur11IsCursor(t types.Type) bool {
	n := core.NamedOf(t)
	return n == "lib/query.Cursor" || n == core.ControlPkg+".ctlReopenCursor"
}

// cur11Fresh: v is nil, or storage allocated by this call.
func cur11Fresh(v ssa.Value, seen map[ssa.Value]bool) (bool, string) {
	if seen[v] {
		return true, ""
	}
	seen[v] = true
	switch x := v.(type) {
	case *ssa.Const:
		return x.Value == nil, "a constant"
	case *ssa.MakeSlice:
		return true, ""
	case *ssa.Slice:
		// a slice of a fresh array (literal) or of a fresh slice
		if al, ok := x.X.(*ssa.Alloc); ok {
			_ = al
			return true, ""
		}
		return cur11Fresh(x.X, seen)
	case *ssa.Phi:
		for _, e := range x.Edges {
			if ok, why := cur11Fresh(e, seen); !ok {
				return false, why
			}
		}
		return true, ""
	case *ssa.Call:
		if b, ok := x.Call.Value.(*ssa.Builtin); ok && b.Name() == "append" {
			return cur11Fresh(x.Call.Args[0], seen)
		}
		return false, "the result of a call"
	case *ssa.UnOp:
		if x.Op == token.MUL {
			if fa, ok := x.X.(*ssa.FieldAddr); ok {
				return false, "loaded from the field " + core.FieldName(fa)
			}
			if al, ok := x.X.(*ssa.Alloc); ok {
				// a local: every value stored into it
				for _, r := range *al.Referrers() {
					if st, isSt := r.(*ssa.Store); isSt && st.Addr == ssa.Value(al) {
						if ok, why := cur11Fresh(st.Val, seen); !ok {
							return false, why
						}
					}
				}
				return true, ""
			}
		}
	}
	return false, "not allocated by this call"
}

func ruleCur11(c *Ctx) {
	start := len(c.Obs)
	type methods struct {
		open  *ssa.Function
		all   []*ssa.Function
		owner string
	}
	byType := map[string]*methods{}
	for _, fn := range c.P.FuncsIn(true, "lib/query") {
		if fn.Signature.Recv() == nil || fn.Parent() != nil || !cur11IsCursor(fn.Signature.Recv().Type()) {
			continue
		}
		tn := core.NamedOf(fn.Signature.Recv().Type())
		m := byType[tn]
		if m == nil {
			m = &methods{owner: tn}
			byType[tn] = m
		}
		m.all = append(m.all, fn)
		if fn.Name() == "Open" {
			m.open = fn
		}
	}
	var tns []string
	for tn := range byType {
		tns = append(tns, tn)
	}
	sort.Strings(tns)
	real := 0
	for _, tn := range tns {
		m := byType[tn]
		sort.Slice(m.all, func(i, j int) bool { return c.P.Name(m.all[i]) < c.P.Name(m.all[j]) })
		ctl := tn != "lib/query.Cursor"
		if m.open == nil {
			c.Unknown("anchor:"+tn+".Open", "-", "cannot-analyse: the type has no method Open")
			continue
		}
		// (a) fields stored by the other methods (and the closures / private helpers they use)
		written := map[string]string{} // field → first writer
		storesOf := func(fn *ssa.Function) map[string]ssa.Instruction {
			out := map[string]ssa.Instruction{}
			fns := append([]*ssa.Function{fn}, fn.AnonFuncs...)
			for _, g := range fns {
				for _, b := range g.Blocks {
					for _, in := range b.Instrs {
						st, ok := in.(*ssa.Store)
						if !ok {
							continue
						}
						fa, ok := st.Addr.(*ssa.FieldAddr)
						if !ok || !cur11IsCursor(fa.X.Type()) {
							continue
						}
						if _, has := out[core.FieldName(fa)]; !has || g == fn {
							out[core.FieldName(fa)] = st
						}
					}
				}
			}
			return out
		}
		for _, fn := range m.all {
			if fn == m.open {
				continue
			}
			for f := range storesOf(fn) {
				if _, has := written[f]; !has {
					written[f] = c.P.Name(fn)
				}
			}
		}
		var fields []string
		for f := range written {
			fields = append(fields, f)
		}
		sort.Strings(fields)
		c.Touch(m.open)
		openStores := map[string][]ssa.Instruction{}
		for _, b := range m.open.Blocks {
			for _, in := range b.Instrs {
				if st, ok := in.(*ssa.Store); ok {
					if fa, ok := st.Addr.(*ssa.FieldAddr); ok && cur11IsCursor(fa.X.Type()) {
						openStores[core.FieldName(fa)] = append(openStores[core.FieldName(fa)], st)
					}
				}
			}
		}
		// the returns of Open with a nil error
		var okReturns []*ssa.BasicBlock
		for _, ret := range core.Returns(m.open) {
			if len(ret.Results) == 0 {
				continue
			}
			for _, v := range core.ReturnOperand(ret, len(ret.Results)-1) {
				if v == nil || curErrKind(c, v, ret) != core.NonNil {
					okReturns = append(okReturns, ret.Block())
					break
				}
			}
		}
		for _, f := range fields {
			key := fmt.Sprintf("%s.Open: starts %s afresh", tn, f)
			c.Sites++
			if !ctl {
				real++
			}
			good := len(okReturns) > 0
			for _, r := range okReturns {
				passed := false
				for _, st := range openStores[f] {
					if st.Block() == r || st.Block().Dominates(r) {
						passed = true
					}
				}
				if !passed {
					good = false
				}
			}
			c.Check(good, key, c.FnPos(m.open), fmt.Sprintf("stored before each of the %d successful returns of Open", len(okReturns)),
				"the field "+f+" is written by "+written[f]+" but Open does not store it before every return with a nil error: what an earlier OPEN / FETCH left there (sized and filled for the previous result set) is what the first FETCH after a re-OPEN works with")
		}
		// (b) returned slices are fresh
		for _, fn := range m.all {
			res := fn.Signature.Results()
			for i := 0; i < res.Len(); i++ {
				if _, isSlice := res.At(i).Type().Underlying().(*types.Slice); !isSlice {
					continue
				}
				c.Touch(fn)
				c.Sites++
				if !ctl {
					real++
				}
				key := c.KeyAt(fn, fmt.Sprintf("result %d is storage of its own", i))
				bad := ""
				var at ssa.Instruction
				for _, ret := range core.Returns(fn) {
					if i >= len(ret.Results) {
						continue
					}
					for _, v := range core.ReturnOperand(ret, i) {
						if v == nil {
							continue
						}
						if ok, why := cur11Fresh(v, map[ssa.Value]bool{}); !ok && bad == "" {
							bad, at = why, ret
						}
					}
				}
				if bad == "" {
					c.Ok(key, c.FnPos(fn), "every return hands out nil or a slice allocated by this call")
				} else {
					c.Bad(key, c.Pos(at), "the slice returned is "+bad+", not allocated by this call: every FETCH hands out the same backing array (a row kept by the caller changes with the next fetch) and its length survives CLOSE / OPEN")
				}
			}
		}
	}
	c.negControls(start, "okReopen")
	if real < 4 {
		c.Unknown("anchor:fields and results of Cursor", "-", fmt.Sprintf("cannot-analyse: expected at least 4 obligations over lib/query.Cursor (view, index, fetched; the row of Fetch), got %d", real))
	}
}
