package rules

import (
	"fmt"
	"go/token"
	"go/types"

	"golang.org/x/tools/go/ssa"

	"verif/checker/core"
)

// R-ITER-1: what a per-record callback leaves behind is defined even if it never ran.
//
// csvq walks records with higher-order helpers (EvaluateSequentially, the
// task manager's Run, Range over pools and maps): the caller hands a closure
// over and the helper decides how often it runs — for an empty table, never.
// A closure may leave results in variables of the caller. Accumulators
// (append, +=, count++) are defined for zero runs: they keep their initial,
// neutral value. A variable that the closure *overwrites* ("the header of the
// first joined row", "the last value seen") is not: after zero runs it still
// holds the zero value of its type, and a caller that uses it as the result —
// e.g. as the header of a join whose left side is empty — produces a view
// without columns.

func init() {
	Register(&Rule{ID: "R-ITER-1", Props: []string{"C03"}, Floor: 6,
		Doc:      "in lib/query, for every closure that is handed to another function as an argument (a callback: the callee decides how often it runs, possibly never) and every variable of the enclosing function that the closure assigns: either (a) every assignment in the closure is cumulative — the stored value is computed from the variable's previous value (append, +, ++): zero runs leave the neutral initial value; or (b) the variable is an error (nil = no run failed); or (c) it is not read after the call; or (d) on every path from the function entry to such a read the variable holds a value: it was assigned outside the closure on the way (directly or by a helper closure called on the spot; a nil/zero constant does not count), or the path passed the call after a branch outcome that implies the iterated collection is non-empty — the branch compares a length of one of the call's arguments (builtin len of it or of a field of it, or a method of it that returns such a len) with a constant and the outcome taken implies length ≥ 1. — or the path passed, after the call, the outcome `err == nil` of the call's own error result where the callee returns a nil error only after invoking the callback itself (every return of a possibly nil error in the callee is dominated by a call of the callback parameter: a search helper for which no successful run is an error, unlike an iterator that returns nil after zero runs) — or the true outcome of a bool flag that is false before the call and assigned only by the same callback. A path that reaches the read with none of these (the call made on a possibly empty collection, or skipped without a replacement value) is a violation. Otherwise the value read after the call is the zero value whenever the callback did not run, although the result (the header of a LATERAL join, …) is defined for an empty input as well. Decides the shape of the data flow between callback and caller; not whether the value assigned for the empty case is the right one",
		Controls: []string{"CtlFirstRowDecidesHeader", "CtlIterEmptyBranchForgetsResult"},
		Run:      ruleIter1})
}

func ruleIter1(c *Ctx) {
	lenMemo := map[*ssa.Function]int{} // 0 unknown, 1 yes, 2 no, 3 busy
	var isLenAccessor func(fn *ssa.Function) bool
	isLenCall := func(v ssa.Value) (ssa.Value, bool) {
		call, ok := v.(*ssa.Call)
		if !ok {
			return nil, false
		}
		com := call.Common()
		if b, ok := com.Value.(*ssa.Builtin); ok && b.Name() == "len" && len(com.Args) == 1 {
			return com.Args[0], true
		}
		if f := com.StaticCallee(); f != nil && f.Signature.Recv() != nil && len(com.Args) == 1 && isLenAccessor(f) {
			return com.Args[0], true
		}
		return nil, false
	}
	isLenAccessor = func(fn *ssa.Function) bool {
		switch lenMemo[fn] {
		case 1:
			return true
		case 2, 3:
			return false
		}
		lenMemo[fn] = 3
		ok := fn.Blocks != nil && fn.Signature.Results().Len() == 1
		if ok {
			if b, isB := fn.Signature.Results().At(0).Type().Underlying().(*types.Basic); !isB || b.Info()&types.IsInteger == 0 {
				ok = false
			}
		}
		if ok {
			vals := core.ReturnedValues(fn, 0)
			if len(vals) == 0 {
				ok = false
			}
			for _, v := range vals {
				if _, isLen := isLenCall(v); !isLen {
					ok = false
				}
			}
		}
		if ok {
			lenMemo[fn] = 1
		} else {
			lenMemo[fn] = 2
		}
		return ok
	}
	// base of a length operand: strip loads and field selections
	base := func(v ssa.Value) ssa.Value {
		for {
			switch x := v.(type) {
			case *ssa.UnOp:
				if x.Op != token.MUL {
					return v
				}
				v = x.X
			case *ssa.FieldAddr:
				v = x.X
			case *ssa.Field:
				v = x.X
			case *ssa.ChangeType:
				v = x.X
			case *ssa.Slice:
				v = x.X
			default:
				return v
			}
		}
	}
	// factImpliesNonEmpty: the branch outcome (cond, neg) implies len(arg of k) >= 1
	factImpliesNonEmpty := func(cond ssa.Value, neg bool, k *ssa.Call) bool {
		args := map[ssa.Value]bool{}
		for _, a := range k.Common().Args {
			args[a] = true
			args[base(a)] = true
		}
		if k.Common().IsInvoke() {
			args[k.Common().Value] = true
		}
		bo, ok := cond.(*ssa.BinOp)
		if !ok {
			return false
		}
		op := bo.Op
		var lenOf ssa.Value
		var cst int64
		if of, ok := isLenCall(bo.X); ok {
			if n, isC := core.ConstInt(bo.Y); isC {
				lenOf, cst = of, n
			}
		} else if of, ok := isLenCall(bo.Y); ok {
			if n, isC := core.ConstInt(bo.X); isC {
				lenOf, cst = of, n
				switch op { // c op L  ==  L op' c
				case token.LSS:
					op = token.GTR
				case token.LEQ:
					op = token.GEQ
				case token.GTR:
					op = token.LSS
				case token.GEQ:
					op = token.LEQ
				}
			}
		}
		if lenOf == nil || !(args[lenOf] || args[base(lenOf)]) {
			return false
		}
		if neg {
			switch op {
			case token.LSS:
				op = token.GEQ
			case token.LEQ:
				op = token.GTR
			case token.GTR:
				op = token.LEQ
			case token.GEQ:
				op = token.LSS
			case token.EQL:
				op = token.NEQ
			case token.NEQ:
				op = token.EQL
			}
		}
		return op == token.GTR && cst >= 0 || op == token.GEQ && cst >= 1 || op == token.NEQ && cst == 0 || op == token.EQL && cst >= 1
	}
	// assignsCell: a direct call of a closure of fn that assigns the cell (helper closure `setHeader()`)
	assignsCell := func(in ssa.Instruction, cell ssa.Value) bool {
		call, ok := in.(*ssa.Call)
		if !ok {
			return false
		}
		mc, ok := call.Common().Value.(*ssa.MakeClosure)
		if !ok {
			return false
		}
		g, _ := mc.Fn.(*ssa.Function)
		if g == nil {
			return false
		}
		for i, fv := range g.FreeVars {
			if i >= len(mc.Bindings) || mc.Bindings[i] != cell {
				continue
			}
			for _, gb := range g.Blocks {
				for _, gin := range gb.Instrs {
					if s, ok := gin.(*ssa.Store); ok && s.Addr == ssa.Value(fv) {
						return true
					}
				}
			}
		}
		return false
	}
	// deliberateValue: a value assigned outside the callback that counts as an initial value: anything but the nil
	// constant (`found := false`, `n := 0` are deliberate; `var h Header = nil` says nothing)
	deliberateValue := func(v ssa.Value) bool {
		cst, ok := v.(*ssa.Const)
		if !ok {
			return true
		}
		if cst.IsNil() {
			return false
		}
		_, basic := cst.Type().Underlying().(*types.Basic)
		return basic
	}
	// calleeReportsRun: the function the closure is handed to returns a nil error only after it has invoked the
	// closure itself: every return whose error result may be the nil constant is dominated by a call of the
	// parameter the closure is bound to (a search helper: "not found" is an error; unlike a plain iterator, which
	// returns nil after zero runs).
	calleeReportsRun := func(k *ssa.Call, mc *ssa.MakeClosure) bool {
		g := k.Common().StaticCallee()
		if g == nil || g.Blocks == nil {
			return false
		}
		pi := -1
		for i, a := range k.Common().Args {
			if a == ssa.Value(mc) {
				pi = i
			}
		}
		if pi < 0 || pi >= len(g.Params) {
			return false
		}
		ei := core.ErrorResultIndex(g)
		if ei < 0 {
			return false
		}
		var invocations []ssa.Instruction
		for _, b := range g.Blocks {
			for _, in := range b.Instrs {
				if call, ok := in.(*ssa.Call); ok && call.Common().Value == ssa.Value(g.Params[pi]) {
					invocations = append(invocations, call)
				}
			}
		}
		if len(invocations) == 0 {
			return false
		}
		for _, r := range core.Returns(g) {
			mayBeNil := false
			for _, o := range core.ReturnOperand(r, ei) {
				if o == nil {
					mayBeNil = true
					continue
				}
				for _, oo := range core.Origins(o, false) {
					if core.IsNilConst(oo) {
						mayBeNil = true
					}
				}
			}
			if !mayBeNil {
				continue
			}
			dominated := false
			for _, inv := range invocations {
				if core.Dominates(inv, r) {
					dominated = true
				}
			}
			if !dominated {
				return false
			}
		}
		return true
	}
	// errIsNilOutcome: the branch outcome says that the error result of k is nil
	errIsNilOutcome := func(cond ssa.Value, neg bool, k *ssa.Call) bool {
		bo, ok := cond.(*ssa.BinOp)
		if !ok || bo.Op != token.EQL && bo.Op != token.NEQ {
			return false
		}
		var e ssa.Value
		if core.IsNilConst(bo.Y) {
			e = bo.X
		} else if core.IsNilConst(bo.X) {
			e = bo.Y
		} else {
			return false
		}
		if !core.IsErrorType(e.Type()) {
			return false
		}
		fromK := false
		for _, o := range core.Origins(e, false) {
			if call, _, ok := core.ExtractOf(o); ok && call == k {
				fromK = true
			} else {
				return false
			}
		}
		if !fromK {
			return false
		}
		return bo.Op == token.EQL && !neg || bo.Op == token.NEQ && neg
	}
	// undefinedRead walks every path from the entry of fn and returns a read (among reads) that is reached while the
	// cell holds neither a value assigned outside the callback nor the result of a call k made where the iterated
	// collection was known to be non-empty.
	undefinedRead := func(fn *ssa.Function, k *ssa.Call, mc *ssa.MakeClosure, cell ssa.Value, reads map[ssa.Instruction]bool, flags map[ssa.Value]bool) (ssa.Instruction, bool) {
		reports := calleeReportsRun(k, mc)
		type state struct {
			b        *ssa.BasicBlock
			defined  bool
			nonEmpty bool
		}
		seen := map[state]bool{}
		var bad ssa.Instruction
		guarded := false
		var walk func(st state)
		walk = func(st state) {
			if bad != nil || seen[st] {
				return
			}
			seen[st] = true
			defined := st.defined
			for _, in := range st.b.Instrs {
				if in == ssa.Instruction(k) {
					if st.nonEmpty {
						defined = true
						guarded = true
					}
					continue
				}
				if s, ok := in.(*ssa.Store); ok && s.Addr == cell {
					if deliberateValue(s.Val) {
						defined = true
					}
					continue
				}
				if assignsCell(in, cell) {
					defined = true
					continue
				}
				if reads[in] && !defined {
					bad = in
					return
				}
			}
			var iff *ssa.If
			if n := len(st.b.Instrs); n > 0 {
				iff, _ = st.b.Instrs[n-1].(*ssa.If)
			}
			for i, succ := range st.b.Succs {
				ne := st.nonEmpty
				def := defined
				if iff != nil && len(st.b.Succs) == 2 && st.b.Succs[0] != st.b.Succs[1] {
					if factImpliesNonEmpty(iff.Cond, i == 1, k) {
						ne = true
					}
					// the callee reports whether the callback ran: `if err != nil { return }` after the call
					if reports && errIsNilOutcome(iff.Cond, i == 1, k) {
						def = true
						guarded = true
					}
					// a flag that only the callback raises: `if !found { return }`
					if u, ok := iff.Cond.(*ssa.UnOp); ok && u.Op == token.MUL && flags[u.X] && i == 0 {
						def = true
						guarded = true
					}
				}
				walk(state{succ, def, ne})
			}
		}
		if len(fn.Blocks) > 0 {
			walk(state{fn.Blocks[0], false, false})
		}
		return bad, guarded
	}
	// cumulative: the stored value is computed from a load of the same captured variable
	cumulative := func(s *ssa.Store, fv *ssa.FreeVar) bool {
		seen := map[ssa.Value]bool{}
		var dep func(v ssa.Value) bool
		dep = func(v ssa.Value) bool {
			if v == nil || seen[v] {
				return false
			}
			seen[v] = true
			if u, ok := v.(*ssa.UnOp); ok && u.Op == token.MUL && u.X == ssa.Value(fv) {
				return true
			}
			in, ok := v.(ssa.Instruction)
			if !ok {
				return false
			}
			for _, op := range in.Operands(nil) {
				if op != nil && *op != nil && dep(*op) {
					return true
				}
			}
			return false
		}
		return dep(s.Val)
	}
	errT := types.Universe.Lookup("error").Type()

	n := 0
	for _, fn := range c.P.FuncsIn(true, "lib/query") {
		for _, b := range fn.Blocks {
			for _, in := range b.Instrs {
				mc, ok := in.(*ssa.MakeClosure)
				if !ok {
					continue
				}
				g, _ := mc.Fn.(*ssa.Function)
				if g == nil {
					continue
				}
				// the calls the closure is an argument of
				var calls []*ssa.Call
				for _, r := range *mc.Referrers() {
					k, ok := r.(*ssa.Call)
					if !ok || k.Common().Value == ssa.Value(mc) {
						continue
					}
					for _, a := range k.Common().Args {
						if a == ssa.Value(mc) {
							calls = append(calls, k)
							break
						}
					}
				}
				if len(calls) == 0 {
					continue
				}
				// captured variables the closure assigns
				type cellInfo struct {
					fv     *ssa.FreeVar
					cell   ssa.Value
					stores []*ssa.Store
				}
				var cells []*cellInfo
				for i, fv := range g.FreeVars {
					if i >= len(mc.Bindings) {
						continue
					}
					ci := &cellInfo{fv: fv, cell: mc.Bindings[i]}
					for _, gb := range g.Blocks {
						for _, gin := range gb.Instrs {
							if s, ok := gin.(*ssa.Store); ok && s.Addr == ssa.Value(fv) {
								ci.stores = append(ci.stores, s)
							}
						}
					}
					if len(ci.stores) > 0 {
						cells = append(cells, ci)
					}
				}
				for _, k := range calls {
					for _, ci := range cells {
						n++
						c.Touch(fn)
						c.Sites++
						key := c.KeyAt(fn, fmt.Sprintf("%s assigned by the callback of %s", ci.fv.Name(), short2(c.P.CalleeName(k))))
						pos := c.Pos(k)
						allCum := true
						var overwrite *ssa.Store
						for _, s := range ci.stores {
							if !cumulative(s, ci.fv) {
								allCum = false
								if overwrite == nil {
									overwrite = s
								}
							}
						}
						if allCum {
							c.Ok(key, pos, "accumulator: every assignment in the callback is computed from the previous value; zero runs leave the initial value")
							continue
						}
						if pt, ok := ci.fv.Type().(*types.Pointer); ok && types.Identical(pt.Elem(), errT) {
							c.Ok(key, pos, "an error: nil after zero runs means no run failed")
							continue
						}
						// reads after the call
						reads := map[ssa.Instruction]bool{}
						core.WalkFrom(k, func(x ssa.Instruction) bool {
							if u, ok := x.(*ssa.UnOp); ok && u.Op == token.MUL && u.X == ci.cell {
								reads[u] = true
							}
							return true
						})
						if len(reads) == 0 {
							c.Ok(key, pos, "not read by the enclosing function after the call")
							continue
						}
						// flags: other variables the same callback assigns, bool, explicitly false before the call
						flags := map[ssa.Value]bool{}
						for _, other := range cells {
							if other == ci {
								continue
							}
							pt, ok := other.fv.Type().(*types.Pointer)
							if !ok {
								continue
							}
							if b, ok := pt.Elem().Underlying().(*types.Basic); !ok || b.Kind() != types.Bool {
								continue
							}
							initFalse := false
							if refs := other.cell.Referrers(); refs != nil {
								for _, r := range *refs {
									if st, ok := r.(*ssa.Store); ok && st.Addr == other.cell {
										if v, isC := core.ConstBool(st.Val); isC && !v {
											initFalse = true
										} else {
											initFalse = false
											break
										}
									}
								}
							}
							if initFalse {
								flags[other.cell] = true
							}
						}
						bad, guarded := undefinedRead(fn, k, mc, ci.cell, reads, flags)
						if bad == nil {
							if guarded {
								c.Ok(key, pos, "on every path to a read after the call the variable was assigned outside the callback, or the callback is known to have run (the call was made where a length of its argument is at least 1, the callee returned the nil error it returns only after invoking the callback, or a flag that only the callback raises is set)")
							} else {
								c.Ok(key, pos, "assigned outside the callback on every path to a read after the call")
							}
							continue
						}
						c.Bad(key, pos, fmt.Sprintf("the callback overwrites %s (at %s; not computed from its previous value) and the enclosing function reads it after the call (%s) on a path on which nothing ensures a value: %s was not assigned outside the callback, and the call was not made under a test that its argument is non-empty (or was not made at all) — for an empty input the zero value is used as the result", ci.fv.Name(), c.Pos(overwrite), c.Pos(bad), ci.fv.Name()))
					}
				}
			}
		}
	}
	_ = n
}
