package rules

import (
	"fmt"
	"go/token"
	"sort"
	"strings"

	"golang.org/x/tools/go/ssa"

	"verif/checker/core"
)

// R-FMT-17 — the mirror image of the loader rules (R-FMT-3 / R-FMT-8) for a table
// that is CREATED: the FileInfo of a created table has never been read, so every
// dialect attribute that (*FileInfo).ExportOptions feeds back into the writer at
// COMMIT must come from the session's EXPORT options (the conventions the user
// asked csvq to write with), never from the IMPORT options (the conventions of
// the files that are read). Field-provenance table over everything that
// initialises that FileInfo: the constructor that returned it, the creating
// function itself and the helpers the FileInfo is handed to.

const (
	fcCreateHandler = "lib/file.(*Container).CreateHandlerForCreate"
	fcFileInfo      = "lib/query.FileInfo"
	fcImport        = "lib/option.ImportOptions"
	fcExport        = "lib/option.ExportOptions"
)

// the attributes of a created table that have an export flag of their own and
// therefore must be taken from it (the other four keep the value the constructor
// derives from the file name, or their zero value: Format is decided by the
// extension, a created file is never FIXED so DelimiterPositions / SingleLine are
// not used, JsonEscape only chooses between spellings every JSON reader accepts).
var fcRequired = map[string]bool{
	"Delimiter": true, "Encoding": true, "LineBreak": true, "NoHeader": true, "EncloseAll": true, "PrettyPrint": true,
}

func init() {
	Register(&Rule{ID: "R-FMT-17", Props: []string{"C02"}, Floor: 10,
		Doc:      "for a CREATED table (the FileInfo whose Handler is the result of (*file.Container).CreateHandlerForCreate) every one of the 10 dialect attributes that (*FileInfo).ExportOptions feeds back into the writer is initialised from the EXPORT options only: over all stores into the field — in the constructor that returned the FileInfo (parameters mapped back to the arguments), in the creating function and its closures, and in every lib/query helper the FileInfo is handed to (recursively) — no stored value is made from a field of option.ImportOptions, a value made from a field of option.ExportOptions is made from the field of the same attribute (NoHeader ← WithoutHeader), and the six attributes that have an export flag (Delimiter, Encoding, LineBreak, NoHeader, EncloseAll, PrettyPrint) have at least one such store. A created table written with the import conventions gains or loses its header line at COMMIT",
		Controls: []string{"CtlCreateTableImportDefaults", "CtlCreateTableCrossWired"},
		Run:      ruleFmt17})
}

type fcLeaf struct {
	kind  string // "import", "export", "const", "other"
	field string // option field for import / export
	what  string
	pos   string
}

// fcFrame maps the parameters of a callee back to the arguments of the call.
type fcFrame struct {
	fn     *ssa.Function
	args   []ssa.Value
	parent *fcFrame
}

type fcStore struct {
	st    *ssa.Store
	frame *fcFrame
}

// fcClassify follows a stored value to what it is made from.
func fcClassify(c *Ctx, v ssa.Value, fr *fcFrame, seen map[ssa.Value]bool, out *[]fcLeaf) {
	if v == nil {
		return
	}
	if seen[v] {
		return
	}
	seen[v] = true
	other := func() { *out = append(*out, fcLeaf{kind: "other", what: valueLabel(v)}) }
	optField := func(x ssa.Value, f ssa.Value) bool {
		switch core.NamedOf(x.Type()) {
		case fcImport:
			*out = append(*out, fcLeaf{kind: "import", field: core.FieldName(f), what: "ImportOptions." + core.FieldName(f)})
			return true
		case fcExport:
			*out = append(*out, fcLeaf{kind: "export", field: core.FieldName(f), what: "ExportOptions." + core.FieldName(f)})
			return true
		}
		return false
	}
	switch x := v.(type) {
	case *ssa.Const:
		*out = append(*out, fcLeaf{kind: "const", what: valueLabel(v)})
	case *ssa.Phi:
		for _, e := range x.Edges {
			fcClassify(c, e, fr, seen, out)
		}
	case *ssa.Convert:
		fcClassify(c, x.X, fr, seen, out)
	case *ssa.ChangeType:
		fcClassify(c, x.X, fr, seen, out)
	case *ssa.MakeInterface:
		fcClassify(c, x.X, fr, seen, out)
	case *ssa.ChangeInterface:
		fcClassify(c, x.X, fr, seen, out)
	case *ssa.TypeAssert:
		fcClassify(c, x.X, fr, seen, out)
	case *ssa.BinOp:
		fcClassify(c, x.X, fr, seen, out)
		fcClassify(c, x.Y, fr, seen, out)
	case *ssa.Parameter:
		if fr != nil && fr.fn == x.Parent() {
			for i, p := range fr.fn.Params {
				if p == x && i < len(fr.args) {
					// a fresh seen set per frame: the same SSA value may be met in two frames
					fcClassify(c, fr.args[i], fr.parent, map[ssa.Value]bool{}, out)
					return
				}
			}
		}
		other()
	case *ssa.Field:
		if !optField(x.X, x) {
			other()
		}
	case *ssa.UnOp:
		if x.Op != token.MUL {
			fcClassify(c, x.X, fr, seen, out)
			return
		}
		switch a := x.X.(type) {
		case *ssa.FieldAddr:
			if !optField(a.X, a) {
				other()
			}
		case *ssa.Alloc, *ssa.FreeVar:
			vals, complete := core.StoresTo(a)
			if complete && len(vals) > 0 {
				for _, sv := range vals {
					fcClassify(c, sv, fr, seen, out)
				}
				return
			}
			other()
		default:
			other()
		}
	case *ssa.Extract:
		fcClassify(c, x.Tuple, fr, seen, out)
	case *ssa.Call:
		// a value computed from option fields still follows those options (TrimSpace(importOptions.X), Copy())
		n := len(*out)
		for _, a := range x.Call.Args {
			var sub []fcLeaf
			fcClassify(c, a, fr, seen, &sub)
			for _, l := range sub {
				if l.kind == "import" || l.kind == "export" {
					*out = append(*out, l)
				}
			}
		}
		if len(*out) == n {
			other()
		}
	default:
		other()
	}
}

// fcIsObject: the address base of a field store is the created FileInfo (one of
// its origins is one of the object's origins, or the frame's parameter the object was passed as).
func fcSameObject(base ssa.Value, obj map[ssa.Value]bool) bool {
	for _, o := range core.Origins(base, false) {
		if obj[o] {
			return true
		}
	}
	return false
}

// fcCollect gathers the stores into fields of the object `obj` inside fn (and its
// closures), and descends into lib/query helpers that are handed the object.
func fcCollect(c *Ctx, fn *ssa.Function, obj map[ssa.Value]bool, fr *fcFrame, depth int, visited map[*ssa.Function]bool, stores map[string][]fcStore) {
	if depth > 4 || visited[fn] {
		return
	}
	visited[fn] = true
	c.Touch(fn)
	for _, f := range fxWithClosures(fn) {
		// a closure sees the object through a free variable bound to the same cell
		for _, b := range f.Blocks {
			for _, in := range b.Instrs {
				st, ok := in.(*ssa.Store)
				if !ok {
					continue
				}
				fa, ok := st.Addr.(*ssa.FieldAddr)
				if !ok || !strings.HasPrefix(core.FieldOwner(fa), fcFileInfo+".") {
					continue
				}
				if fcSameObject(fa.X, obj) {
					name := core.FieldName(fa)
					stores[name] = append(stores[name], fcStore{st, fr})
				}
			}
		}
		for _, ci := range core.Calls(f) {
			H := core.StaticCallee(ci)
			if H == nil || H.Blocks == nil || !(c.P.InPkg(H, "lib/query") || c.P.IsControl(H)) {
				continue
			}
			args := ci.Common().Args
			sub := map[ssa.Value]bool{}
			for i, a := range args {
				if i < len(H.Params) && core.NamedOf(a.Type()) == fcFileInfo && fcSameObject(a, obj) {
					sub[H.Params[i]] = true
				}
			}
			if len(sub) == 0 {
				continue
			}
			fcCollect(c, H, sub, &fcFrame{fn: H, args: args, parent: fr}, depth+1, visited, stores)
		}
	}
}

func ruleFmt17(c *Ctx) {
	var creators []*ssa.Function
	for _, fn := range c.P.FuncsIn(true, "lib/query") {
		if len(c.P.CallsNamed(fn, fcCreateHandler)) == 0 {
			continue
		}
		// the overlay package holds create-like controls of other rules too: only this rule's own take part
		if c.P.IsControl(fn) && !strings.HasPrefix(fn.Name(), "CtlCreateTable") && !strings.HasPrefix(fn.Name(), "okCreateTable") {
			continue
		}
		creators = append(creators, fn)
	}
	sortFuncs(c.P, creators)
	real := 0
	for _, fn := range creators {
		if !c.P.IsControl(fn) {
			real++
		}
	}
	if real == 0 {
		c.Unknown("anchor:the function of lib/query that calls "+fcCreateHandler, "-", "cannot-analyse: no function of lib/query calls (*file.Container).CreateHandlerForCreate: the rule does not see where a table is created")
	}
	for _, fn := range creators {
		fcCheckCreator(c, fn)
	}
}

func fcCheckCreator(c *Ctx, fn *ssa.Function) {
	// the created FileInfo: the object whose Handler receives the result of CreateHandlerForCreate
	obj := map[ssa.Value]bool{}
	var objVals []ssa.Value
	for _, f := range fxWithClosures(fn) {
		for _, b := range f.Blocks {
			for _, in := range b.Instrs {
				st, ok := in.(*ssa.Store)
				if !ok {
					continue
				}
				fa, ok := st.Addr.(*ssa.FieldAddr)
				if !ok || core.FieldOwner(fa) != fcFileInfo+".Handler" {
					continue
				}
				fromCreate := false
				for _, o := range core.Origins(st.Val, false) {
					if oc, _ := fxCallOf(o); oc != nil && c.P.CalleeName(oc) == fcCreateHandler {
						fromCreate = true
					}
				}
				if !fromCreate {
					continue
				}
				for _, o := range core.Origins(fa.X, false) {
					if !obj[o] {
						obj[o] = true
						objVals = append(objVals, o)
					}
				}
			}
		}
	}
	if len(obj) == 0 {
		c.Unknown(c.KeyAt(fn, "created FileInfo"), c.FnPos(fn), "cannot-analyse: the handler returned by CreateHandlerForCreate is not stored into the Handler field of a FileInfo in this function: the rule does not see which FileInfo describes the created table")
		return
	}
	stores := map[string][]fcStore{}
	visited := map[*ssa.Function]bool{}
	fcCollect(c, fn, obj, nil, 0, visited, stores)
	// the constructor(s) the object came from: the fields of the returned allocation
	for _, o := range objVals {
		oc, idx := fxCallOf(o)
		if oc == nil {
			if _, isAlloc := o.(*ssa.Alloc); isAlloc {
				continue // built in place: its stores were collected above
			}
			c.Unknown(c.KeyAt(fn, "created FileInfo"), c.FnPos(fn), "cannot-analyse: the created FileInfo is "+valueLabel(o)+", neither built here nor returned by a constructor the rule can read")
			return
		}
		K := core.StaticCallee(oc)
		if K == nil || K.Blocks == nil {
			c.Unknown(c.KeyAt(fn, "created FileInfo"), c.Pos(oc), "cannot-analyse: the created FileInfo is returned by "+calleeLabel(oc)+", which has no body to read")
			return
		}
		sub := map[ssa.Value]bool{}
		for _, rv := range core.ReturnedValues(K, idx) {
			if core.IsNilConst(rv) {
				continue
			}
			sub[rv] = true
		}
		fcCollect(c, K, sub, &fcFrame{fn: K, args: oc.Common().Args}, 1, visited, stores)
	}

	isOK := strings.HasPrefix(fn.Name(), "ok")
	for _, d := range fxDialect {
		key := c.KeyAt(fn, "created FileInfo."+d.In+" <- export options")
		sts := stores[d.In]
		sort.SliceStable(sts, func(i, j int) bool { return c.Pos(sts[i].st) < c.Pos(sts[j].st) })
		bad, und, okWhy := "", "", ""
		pos := c.FnPos(fn)
		nExport := 0
		for _, s := range sts {
			var leaves []fcLeaf
			fcClassify(c, s.st.Val, s.frame, map[ssa.Value]bool{}, &leaves)
			for _, l := range leaves {
				switch l.kind {
				case "import":
					if bad == "" {
						bad = fmt.Sprintf("%s of the created table is assigned from the IMPORT option %s (%s): the attribute that FileInfo.ExportOptions hands back to the writer as %s at COMMIT follows the convention of the files that are read, not the one the session writes with", d.In, l.what, c.Pos(s.st), d.Out)
						pos = c.Pos(s.st)
					}
				case "export":
					if l.field != d.Out {
						if bad == "" {
							bad = fmt.Sprintf("%s of the created table is assigned from %s (%s), the export option of another attribute; expected ExportOptions.%s", d.In, l.what, c.Pos(s.st), d.Out)
							pos = c.Pos(s.st)
						}
					} else {
						nExport++
						if okWhy == "" {
							okWhy = "assigned from ExportOptions." + d.Out
							pos = c.Pos(s.st)
						}
					}
				case "other":
					if und == "" {
						und = fmt.Sprintf("cannot-analyse: %s of the created table is assigned from %s (%s); the rule cannot tell which options it is made from", d.In, l.what, c.Pos(s.st))
					}
				}
			}
		}
		if bad == "" && und == "" && nExport == 0 && fcRequired[d.In] {
			bad = fmt.Sprintf("%s of the created table is never taken from the export option %s (%d assignment(s) seen): the table is written with the zero value / the constructor's default instead of the convention the session writes with", d.In, d.Out, len(sts))
		}
		if c.P.IsControl(fn) {
			pos = c.FnPos(fn) // a control's obligations are recognised by their position in the overlay package
		}
		switch {
		case bad != "":
			if isOK {
				c.Unknown(key+" (negative control reported)", "-", "a correct spelling is reported: "+bad)
			} else {
				c.Bad(key, pos, bad)
			}
		case und != "":
			c.Unknown(key, pos, und)
		default:
			if okWhy == "" {
				okWhy = fmt.Sprintf("%d assignment(s), constants only (decided by the file name) or left at the zero value; no import option", len(sts))
			}
			c.OkN(key, pos, okWhy, len(sts)+1)
		}
	}
}
