package rules

import (
	"fmt"
	"go/token"
	"go/types"
	"sort"
	"strings"

	"golang.org/x/tools/go/ssa"

	"verif/checker/core"
)

// R-ORD-1 (engine E7) — map iteration order must not decide data.
//
// Map-ordered loops: `range` over a map and callbacks of (*sync.Map).Range (or
// of wrappers that forward their func parameter to it). Inside such a loop
// only order-insensitive effects are allowed: writes keyed by the iteration
// key or value, deletes, integer counters/sums, constant flags, pure calls.
// An append / string concatenation into an outer variable makes that variable
// *map-ordered*; it must be sorted before anything else looks at it, or be
// returned (then the callers' use of the result is checked the same way).
// Calls with side effects and uses of map-ordered slices that are not
// sorted are reported unless the (function, construct) pair is listed below with
// the reason why the order cannot reach query results or file contents.

func init() {
	Register(&Rule{ID: "R-ORD-1", Props: []string{"C12", "C05", "C01"}, Floor: 30,
		Doc:      "no map iteration (range over a map, sync.Map.Range callback) decides the order of data: loop bodies contain only key-addressed writes, deletes, integer counters, constant flags and pure calls (a call of a function-typed parameter is pure when the enclosing function is only called statically and every call site passes a pure function, method expression or literal); slices accumulated in map order are sorted before use or listed as feeding log lines / clean-up only",
		Controls: []string{"CtlMapOrderAppend", "CtlSyncMapOrderAppend", "keysOf", "CtlOrdEffectThroughFuncParam"},
		Run:      ruleOrd1})
}

// ordExceptions: (function: construct) → reason. One named construct each.
var ordExceptions = map[string]string{
	// COMMIT / ROLLBACK: per-file work, each file independent of the others
	"lib/query.(*Transaction).Commit: effect calls in loop over result #0 of UncommittedFiles":   "encodes each created file into its own handler; the order affects only the order of file operations and log lines, never the bytes of a file",
	"lib/query.(*Transaction).Commit: effect calls in loop over result #1 of UncommittedFiles":   "same for updated files",
	"lib/query.(*Transaction).Commit: map-ordered createFileInfo":                                "list of files to swap; each swap is independent",
	"lib/query.(*Transaction).Commit: map-ordered updateFileInfo":                                "list of files to swap; each swap is independent",
	"lib/query.(*Transaction).Rollback: effect calls in loop over result #0 of UncommittedFiles": "log lines only",
	"lib/query.(*Transaction).Rollback: effect calls in loop over result #1 of UncommittedFiles": "log lines only",
	"lib/query.(*ReferenceScope).StoreTemporaryTable: map-ordered msglist":                       "joined into one log message by Commit",
	"lib/query.(*ReferenceScope).RestoreTemporaryTable: map-ordered msglist":                     "joined into one log message by Rollback",
	// release of all handlers / cached views
	"lib/file.(*Container).CloseAll: effect calls in loop over lib/file.Container.m":           "closes every handler; handlers are independent files",
	"lib/file.(*Container).CloseAllWithErrors: effect calls in loop over lib/file.Container.m": "closes every handler; handlers are independent files",
	"lib/file.(*Container).CloseAllWithErrors: map-ordered errs":                               "error list of a forced unlock, shown as a message",
	"lib/query.(SyncMap).Keys: map-ordered keys":                                               "callers either sort (SortedKeys) or dispose every entry (ViewMap.Clean, CleanWithErrors)",
	// multi-table UPDATE / DELETE: one log line and one count per table
	"lib/query.Update: map-ordered fileInfos":     "parallel to updateRecords; ExecuteStatement prints one log line per table and sums the counts",
	"lib/query.Update: map-ordered updateRecords": "see fileInfos",
	"lib/query.Delete: map-ordered fileInfos":     "parallel to deletedCounts; ExecuteStatement prints one log line per table and sums the counts",
	"lib/query.Delete: map-ordered deletedCounts": "see fileInfos",
}

// ordPaired: exceptions that are only valid while the two slices are filled by
// one and the same loop (element i of one belongs to element i of the other).
// Filling them in two separate map iterations pairs counts with the wrong tables.
var ordPaired = map[string]string{
	"lib/query.Update: map-ordered fileInfos":     "lib/query.Update: map-ordered updateRecords",
	"lib/query.Update: map-ordered updateRecords": "lib/query.Update: map-ordered fileInfos",
	"lib/query.Delete: map-ordered fileInfos":     "lib/query.Delete: map-ordered deletedCounts",
	"lib/query.Delete: map-ordered deletedCounts": "lib/query.Delete: map-ordered fileInfos",
}

type ordEngine struct {
	keyed     map[*ssa.Function]int
	c         *Ctx
	pure      map[*ssa.Function]bool
	rangeLike map[*ssa.Function]int // wrapper → index of the forwarded func parameter
	producers map[*ssa.Function]string
}

func ruleOrd1(c *Ctx) {
	start := len(c.Obs)
	defer c.negControls(start, "OkOrdCountByPredicate")
	e := &ordEngine{c: c, pure: map[*ssa.Function]bool{}, rangeLike: map[*ssa.Function]int{}, producers: map[*ssa.Function]string{}}
	e.computePure()
	e.findRangeLike()
	pkgs := []string{"lib/query", "lib/json", "lib/value", "lib/file", "lib/option", "lib/action", "lib/cli"}
	fns := c.P.FuncsIn(true, pkgs...)
	type pending struct {
		fn     *ssa.Function
		cell   ssa.Value
		from   ssa.Instruction // uses after this instruction
		what   string
		skip   func(ssa.Instruction) bool
		origin string // key of the accumulation this value descends from
		opos   string
	}
	var work []pending
	report := func(fn *ssa.Function, construct string, pos string, msg string) {
		key := c.KeyAt(fn, construct)
		if why, ok := ordExceptions[key]; ok {
			c.Ok(key, pos, "listed exception: "+why)
			return
		}
		c.Bad(key, pos, msg)
	}
	for _, fn := range fns {
		// (a) range over a map
		for _, b := range fn.Blocks {
			for _, in := range b.Instrs {
				rg, ok := in.(*ssa.Range)
				if !ok {
					continue
				}
				if _, isMap := rg.X.Type().Underlying().(*types.Map); !isMap {
					continue
				}
				c.Touch(fn)
				body, next := mapLoopBody(rg)
				if next == nil {
					c.Unknown(c.KeyAt(fn, "range over "+mapLabel(rg.X)), c.Pos(rg), "cannot find the loop of this map range")
					continue
				}
				label := mapLabel(rg.X)
				iter := func(v ssa.Value) bool { return dependsOn(v, next, map[ssa.Value]bool{}) }
				res := e.classifyBody(fn, body, iter)
				for _, s := range res.sensitive {
					report(fn, s.what+" in loop over "+label, c.Pos(s.in), "map iteration order decides "+s.what+" ("+s.detail+"): Go randomises the order on every run")
				}
				if len(res.effects) > 0 {
					var names []string
					for _, ef := range res.effects {
						names = append(names, callDesc(c.P, ef))
					}
					report(fn, "effect calls in loop over "+label, c.Pos(res.effects[0]), "calls with side effects run in map iteration order: "+strings.Join(dedup(names), ", "))
				}
				for _, t := range res.tainted {
					bodyCopy := body
					work = append(work, pending{fn, t.cell, rg, "filled in the loop over " + label, func(in ssa.Instruction) bool { return inBlocks(in.Block(), bodyCopy) },
						c.KeyAt(fn, "map-ordered "+cellLabel(t.cell)), c.Pos(t.in)})
				}
				if len(res.sensitive) == 0 && len(res.effects) == 0 {
					c.Ok(c.KeyAt(fn, "loop over "+label), c.Pos(rg), fmt.Sprintf("body is order-insensitive (%d accumulation(s) followed separately)", len(res.tainted)))
				}
			}
		}
		// (b) callbacks of sync.Map.Range and wrappers
		for _, call := range core.Calls(fn) {
			cbIdx := -1
			name := c.P.CalleeName(call)
			if name == "(*sync.Map).Range" {
				cbIdx = 1
			} else if f := call.Common().StaticCallee(); f != nil {
				if i, ok := e.rangeLike[f]; ok {
					cbIdx = i
				}
			}
			if cbIdx < 0 || cbIdx >= len(call.Common().Args) {
				continue
			}
			for _, o := range core.Origins(call.Common().Args[cbIdx], false) {
				mc, ok := o.(*ssa.MakeClosure)
				if !ok {
					continue
				}
				cb := mc.Fn.(*ssa.Function)
				c.Touch(fn)
				label := "sync.Map via " + short2(name)
				var body []*ssa.BasicBlock
				body = append(body, cb.Blocks...)
				params := map[ssa.Value]bool{}
				for _, p := range cb.Params {
					params[p] = true
				}
				iter := func(v ssa.Value) bool { return dependsOnSet(v, params, map[ssa.Value]bool{}) }
				res := e.classifyBody(cb, body, iter)
				for _, s := range res.sensitive {
					if s.what == "first-match return" {
						continue // the bool result of a Range callback only continues/stops the iteration
					}
					report(fn, s.what+" in callback over "+label, c.Pos(s.in), "map iteration order decides "+s.what+" ("+s.detail+")")
				}
				if len(res.effects) > 0 {
					var names []string
					for _, ef := range res.effects {
						names = append(names, callDesc(c.P, ef))
					}
					report(fn, "effect calls in callback over "+label, c.Pos(res.effects[0]), "calls with side effects run in map iteration order: "+strings.Join(dedup(names), ", "))
				}
				for _, t := range res.tainted {
					// the cell is a free variable of the callback: follow the parent's variable
					cell := t.cell
					if fv, ok := cell.(*ssa.FreeVar); ok {
						for i, x := range cb.FreeVars {
							if x == fv && i < len(mc.Bindings) {
								cell = mc.Bindings[i]
							}
						}
					}
					work = append(work, pending{fn, cell, call.(ssa.Instruction), "filled in a callback over " + label, nil,
						c.KeyAt(fn, "map-ordered "+cellLabel(cell)), c.Pos(t.in)})
				}
				if len(res.sensitive) == 0 && len(res.effects) == 0 {
					c.Ok(c.KeyAt(fn, "callback over "+label), c.Pos(call), fmt.Sprintf("body is order-insensitive (%d accumulation(s) followed separately)", len(res.tainted)))
				}
			}
		}
	}
	// follow map-ordered variables; returning one makes the function a producer
	done := map[string]bool{}
	producerSeen := map[string]bool{}
	originSinks := map[string][]string{}
	originPos := map[string]string{}
	originLoop := map[string]ssa.Instruction{}
	var originOrder []string
	for len(work) > 0 {
		w := work[0]
		work = work[1:]
		k := c.P.Name(w.fn) + "|" + w.cell.Name() + "|" + w.what
		if done[k] {
			continue
		}
		done[k] = true
		uses := e.usesAfter(w.fn, w.cell, w.from, w.skip)
		cellName := cellLabel(w.cell)
		if _, ok := originSinks[w.origin]; !ok {
			originSinks[w.origin] = nil
			originPos[w.origin] = w.opos
			originOrder = append(originOrder, w.origin)
			originLoop[w.origin] = w.from
		}
		for _, u := range uses {
			switch u.kind {
			case "sorted":
			case "returned":
				pk := fmt.Sprintf("%s#%d", c.P.Name(w.fn), u.idx)
				if !producerSeen[pk] {
					producerSeen[pk] = true
					e.producers[w.fn] = cellName + " " + w.what
					for _, ed := range c.P.RealCallers(w.fn) {
						if ed.Site == nil {
							continue
						}
						cv, isVal := ed.Site.(ssa.Value)
						if !isVal {
							continue
						}
						if w.fn.Signature.Results().Len() > 1 {
							var ex ssa.Value
							for _, rr := range *cv.Referrers() {
								if e2, ok := rr.(*ssa.Extract); ok && e2.Index == u.idx {
									ex = e2
								}
							}
							if ex == nil {
								continue // that result is dropped by this caller
							}
							cv = ex
						}
						work = append(work, pending{ed.Caller.Func, cv, ed.Site, "returned by " + c.P.Name(w.fn), nil, w.origin, w.opos})
					}
				}
			case "len":
			default:
				originSinks[w.origin] = append(originSinks[w.origin], fmt.Sprintf("%s in %s at %s", u.kind, c.P.Name(w.fn), c.Pos(u.in)))
			}
			if u.kind == "sorted" {
				break
			}
		}
	}
	for _, o := range originOrder {
		sinks := dedup(originSinks[o])
		if why, ok := ordExceptions[o]; ok {
			if partner, paired := ordPaired[o]; paired {
				if originLoop[partner] == nil || originLoop[partner] != originLoop[o] {
					c.Bad(o, originPos[o], "this slice and its partner ("+partner+") are consumed pairwise (element i with element i) but are not filled by the same loop: two separate map iterations run in independent random orders, so counts are attached to the wrong tables")
					continue
				}
			}
			c.Ok(o, originPos[o], "listed exception: "+why)
			continue
		}
		if len(sinks) == 0 {
			c.Ok(o, originPos[o], "accumulated in map order but sorted, only measured, or never consumed element by element")
			continue
		}
		n := len(sinks)
		if n > 4 {
			sinks = sinks[:4]
		}
		c.Bad(o, originPos[o], fmt.Sprintf("this slice is filled in the random iteration order of a Go map and reaches %d use(s) that depend on element order without being sorted: %s", n, strings.Join(sinks, "; ")))
	}
}

func cellLabel(v ssa.Value) string {
	switch x := v.(type) {
	case *ssa.Alloc:
		if x.Comment != "" {
			return x.Comment
		}
	case *ssa.FreeVar:
		return x.Name()
	case *ssa.FieldAddr:
		return core.FieldOwner(x)
	case *ssa.Parameter:
		return x.Name()
	case *ssa.Phi:
		if x.Comment != "" {
			return x.Comment
		}
	case *ssa.Call:
		return "result of " + calleeLabel(x)
	case *ssa.Extract:
		if c, ok := x.Tuple.(*ssa.Call); ok {
			return fmt.Sprintf("result #%d of %s", x.Index, calleeLabel(c))
		}
	}
	return v.Name()
}

func mapLabel(v ssa.Value) string {
	switch x := v.(type) {
	case *ssa.UnOp:
		return cellLabel(x.X)
	case *ssa.Parameter:
		return x.Name()
	case *ssa.Call:
		return "result of " + calleeLabel(x)
	case *ssa.Extract:
		return cellLabel(x)
	case *ssa.Lookup:
		return "element of " + mapLabel(x.X)
	case *ssa.MakeMap:
		return "local map"
	case *ssa.Phi:
		if x.Comment != "" {
			return x.Comment
		}
	}
	return v.Name()
}

// mapLoopBody returns the blocks of the loop driven by rg and its Next.
func mapLoopBody(rg *ssa.Range) ([]*ssa.BasicBlock, *ssa.Next) {
	var next *ssa.Next
	for _, r := range *rg.Referrers() {
		if n, ok := r.(*ssa.Next); ok {
			next = n
		}
	}
	if next == nil {
		return nil, nil
	}
	h := next.Block()
	var body []*ssa.BasicBlock
	for _, b := range h.Parent().Blocks {
		if b != h && h.Dominates(b) && reachesBlock(b, h) {
			body = append(body, b)
		}
	}
	return body, next
}

func reachesBlock(from, to *ssa.BasicBlock) bool {
	seen := map[*ssa.BasicBlock]bool{}
	st := []*ssa.BasicBlock{from}
	for len(st) > 0 {
		b := st[len(st)-1]
		st = st[:len(st)-1]
		for _, s := range b.Succs {
			if s == to {
				return true
			}
			if !seen[s] {
				seen[s] = true
				st = append(st, s)
			}
		}
	}
	return false
}

func dependsOn(v ssa.Value, root ssa.Value, seen map[ssa.Value]bool) bool {
	return dependsOnSet(v, map[ssa.Value]bool{root: true}, seen)
}

func dependsOnSet(v ssa.Value, roots map[ssa.Value]bool, seen map[ssa.Value]bool) bool {
	if v == nil || seen[v] {
		return false
	}
	if roots[v] {
		return true
	}
	seen[v] = true
	in, ok := v.(ssa.Instruction)
	if !ok {
		return false
	}
	for _, op := range in.Operands(nil) {
		if *op != nil && dependsOnSet(*op, roots, seen) {
			return true
		}
	}
	// a local cell: look at what is stored into it
	if u, ok := v.(*ssa.UnOp); ok && u.Op == token.MUL {
		if al, ok := u.X.(*ssa.Alloc); ok {
			vals, _ := core.StoresTo(al)
			for _, s := range vals {
				if dependsOnSet(s, roots, seen) {
					return true
				}
			}
		}
	}
	return false
}

type ordSensitive struct {
	what, detail string
	in           ssa.Instruction
}

type ordTaint struct {
	cell ssa.Value
	in   ssa.Instruction
}

type ordBody struct {
	sensitive []ordSensitive
	effects   []ssa.CallInstruction
	tainted   []ordTaint
}

func inBlocks(b *ssa.BasicBlock, set []*ssa.BasicBlock) bool {
	for _, x := range set {
		if x == b {
			return true
		}
	}
	return false
}

func (e *ordEngine) classifyBody(fn *ssa.Function, body []*ssa.BasicBlock, iter func(ssa.Value) bool) ordBody {
	var res ordBody
	taintSeen := map[ssa.Value]bool{}
	// register-promoted accumulators: φ = phi(init, append(φ, …)) / φ + string
	for _, b := range fn.Blocks {
		for _, in := range b.Instrs {
			phi, ok := in.(*ssa.Phi)
			if !ok {
				break
			}
			for i, ed := range phi.Edges {
				if i >= len(b.Preds) || !inBlocks(b.Preds[i], body) && !inBlocks(b, body) {
					continue
				}
				if accumulatesInto(ed, phi, body, map[ssa.Value]bool{}) && !taintSeen[phi] {
					taintSeen[phi] = true
					res.tainted = append(res.tainted, ordTaint{phi, phi})
				}
			}
		}
	}
	for _, b := range body {
		for _, in := range b.Instrs {
			switch x := in.(type) {
			case *ssa.Store:
				addr := x.Addr
				// declared inside the body: private to one iteration
				if al, ok := addr.(*ssa.Alloc); ok && inBlocks(al.Block(), body) {
					continue
				}
				if root := rootAlloc(addr); root != nil && inBlocks(root.Block(), body) {
					continue
				}
				if ia, ok := addr.(*ssa.IndexAddr); ok && iter(ia.Index) {
					continue // slot addressed by the iteration key
				}
				if addrDerivedFromIter(addr, iter) {
					continue // field of the object the iteration yielded
				}
				// append / concatenation into an outer variable
				if isAccumulation(x) {
					cell := addr
					if !taintSeen[cell] {
						taintSeen[cell] = true
						res.tainted = append(res.tainted, ordTaint{cell, in})
					}
					continue
				}
				if isCommutativeUpdate(x) || isConstValue(x.Val) {
					continue
				}
				if !iter(x.Val) {
					continue // same value whatever the order
				}
				if core.IsErrorType(x.Val.Type()) {
					continue // which error is reported first is not part of the result
				}
				res.sensitive = append(res.sensitive, ordSensitive{"last-writer value of " + cellLabel(addr), "the value stored depends on the element visited last", in})
			case *ssa.MapUpdate:
				if iter(x.Key) || isConstValue(x.Value) || !iter(x.Value) {
					continue
				}
				res.sensitive = append(res.sensitive, ordSensitive{"last-writer value of a map entry", "fixed key, iteration-dependent value", in})
			case *ssa.Send:
				res.sensitive = append(res.sensitive, ordSensitive{"channel send order", "values are sent in map order", in})
			case *ssa.Return:
				for _, r := range x.Results {
					if core.IsErrorType(r.Type()) || isConstValue(r) {
						continue
					}
					if iter(r) {
						res.sensitive = append(res.sensitive, ordSensitive{"first-match return", "the value returned depends on which element is visited first", in})
					}
				}
			case ssa.CallInstruction:
				com := x.Common()
				if bi, ok := com.Value.(*ssa.Builtin); ok {
					_ = bi
					continue
				}
				if e.callIsPure(x) {
					continue
				}
				name := e.c.P.CalleeName(x)
				switch name {
				case "(*sync.Map).Delete", "(*sync.Map).Store", "(*sync.Map).Load", "(*sync.Map).LoadOrStore", "os.Setenv":
					if len(com.Args) > 1 && iter(com.Args[1]) || name == "os.Setenv" && iter(com.Args[0]) {
						continue // keyed by the iteration key
					}
				}
				if f := com.StaticCallee(); f != nil && e.keyedWriter(f) {
					keyed := false
					for _, a := range com.Args {
						if iter(a) {
							keyed = true
						}
					}
					if keyed {
						continue
					}
				}
				// a method of the very object the iteration yielded, with no other mutable argument
				if f := com.StaticCallee(); f != nil && f.Signature.Recv() != nil && len(com.Args) == 1 && iter(com.Args[0]) {
					continue
				}
				res.effects = append(res.effects, x)
			}
		}
	}
	return res
}

// accumulatesInto: v is (through phis inside the loop) an append onto acc or a
// string concatenation with acc, performed inside the loop body.
func accumulatesInto(v ssa.Value, acc *ssa.Phi, body []*ssa.BasicBlock, seen map[ssa.Value]bool) bool {
	if v == nil || seen[v] {
		return false
	}
	seen[v] = true
	switch x := v.(type) {
	case *ssa.Call:
		if bi, ok := x.Common().Value.(*ssa.Builtin); ok && bi.Name() == "append" && inBlocks(x.Block(), body) {
			return reachesPhi(x.Common().Args[0], acc, map[ssa.Value]bool{})
		}
	case *ssa.BinOp:
		if bt, ok := x.Type().Underlying().(*types.Basic); ok && bt.Info()&types.IsString != 0 && x.Op == token.ADD && inBlocks(x.Block(), body) {
			return reachesPhi(x.X, acc, map[ssa.Value]bool{}) || reachesPhi(x.Y, acc, map[ssa.Value]bool{})
		}
	case *ssa.Phi:
		if x == acc {
			return false
		}
		for _, ed := range x.Edges {
			if accumulatesInto(ed, acc, body, seen) {
				return true
			}
		}
	}
	return false
}

func reachesPhi(v ssa.Value, acc *ssa.Phi, seen map[ssa.Value]bool) bool {
	if v == acc {
		return true
	}
	if v == nil || seen[v] {
		return false
	}
	seen[v] = true
	switch x := v.(type) {
	case *ssa.Phi:
		for _, ed := range x.Edges {
			if reachesPhi(ed, acc, seen) {
				return true
			}
		}
	case *ssa.Call:
		if bi, ok := x.Common().Value.(*ssa.Builtin); ok && bi.Name() == "append" {
			return reachesPhi(x.Common().Args[0], acc, seen)
		}
	case *ssa.Slice:
		return reachesPhi(x.X, acc, seen)
	}
	return false
}

func rootAlloc(addr ssa.Value) *ssa.Alloc {
	for i := 0; i < 10; i++ {
		switch x := addr.(type) {
		case *ssa.Alloc:
			return x
		case *ssa.FieldAddr:
			addr = x.X
		case *ssa.IndexAddr:
			addr = x.X
		default:
			return nil
		}
	}
	return nil
}

func addrDerivedFromIter(addr ssa.Value, iter func(ssa.Value) bool) bool {
	switch x := addr.(type) {
	case *ssa.FieldAddr:
		return iter(x.X)
	case *ssa.IndexAddr:
		return iter(x.X) || iter(x.Index)
	}
	return false
}

func isConstValue(v ssa.Value) bool {
	_, ok := v.(*ssa.Const)
	return ok
}

// isAccumulation: *addr = append(*addr, …) or *addr = *addr + string.
func isAccumulation(st *ssa.Store) bool {
	switch v := st.Val.(type) {
	case *ssa.Call:
		if bi, ok := v.Common().Value.(*ssa.Builtin); ok && bi.Name() == "append" {
			return loadsFrom(v.Common().Args[0], st.Addr)
		}
	case *ssa.BinOp:
		if v.Op == token.ADD {
			if b, ok := v.Type().Underlying().(*types.Basic); ok && b.Info()&types.IsString != 0 {
				return loadsFrom(v.X, st.Addr) || loadsFrom(v.Y, st.Addr)
			}
		}
	}
	return false
}

func loadsFrom(v ssa.Value, addr ssa.Value) bool {
	seen := map[ssa.Value]bool{}
	var walk func(v ssa.Value) bool
	walk = func(v ssa.Value) bool {
		if v == nil || seen[v] {
			return false
		}
		seen[v] = true
		switch x := v.(type) {
		case *ssa.UnOp:
			return x.Op == token.MUL && (x.X == addr || core.SameAddr(x.X, addr))
		case *ssa.Phi:
			for _, ed := range x.Edges {
				if walk(ed) {
					return true
				}
			}
		case *ssa.Slice:
			return walk(x.X)
		case *ssa.ChangeType:
			return walk(x.X)
		case *ssa.Call:
			if bi, ok := x.Common().Value.(*ssa.Builtin); ok && bi.Name() == "append" {
				return walk(x.Common().Args[0])
			}
		}
		return false
	}
	return walk(v)
}

// isCommutativeUpdate: *addr = *addr (+|*|&|'|'|^) x on integers, or bool or/and.
func isCommutativeUpdate(st *ssa.Store) bool {
	b, ok := st.Val.(*ssa.BinOp)
	if !ok {
		return false
	}
	bt, ok := b.Type().Underlying().(*types.Basic)
	if !ok || bt.Info()&(types.IsInteger|types.IsBoolean) == 0 {
		return false
	}
	switch b.Op {
	case token.ADD, token.MUL, token.AND, token.OR, token.XOR, token.SUB:
		return loadsFrom(b.X, st.Addr) || loadsFrom(b.Y, st.Addr)
	}
	return false
}

// ---------------------------------------------------------------------------
// purity (no writes to non-local memory, no effectful callees)

var pureForeignPrefixes = []string{"strings.", "strconv.", "fmt.Sprint", "fmt.Errorf", "errors.", "math.", "unicode", "bytes.Equal", "bytes.Compare",
	"path/filepath.", "(time.Time).", "time.", "sort.Search", "(*strings.Builder)", "(*bytes.Buffer)", "os.Getenv", "(*regexp.Regexp).Match", "(*regexp.Regexp).Find",
	"(*sync.RWMutex)", "(*sync.Mutex)", "(*sync.Map).Load", "(*sync.Pool)", "github.com/mithrandie/ternary.", "(github.com/mithrandie/ternary.Value)."}

func (e *ordEngine) computePure() {
	p := e.c.P
	fns := p.SrcFuncs()
	for _, f := range fns {
		e.pure[f] = true
	}
	impure := e.bodyImpure
	for changed := true; changed; {
		changed = false
		for _, f := range fns {
			if e.pure[f] && impure(f) {
				e.pure[f] = false
				changed = true
			}
		}
	}
}

// bodyImpure: f writes non-local memory, sends, starts a goroutine or calls something that is not pure.
func (e *ordEngine) bodyImpure(f *ssa.Function) bool {
	for _, b := range f.Blocks {
		for _, in := range b.Instrs {
			switch x := in.(type) {
			case *ssa.Store:
				root := rootAlloc(x.Addr)
				if root == nil && !localBase(x.Addr) {
					// stores through pool objects just taken from a pool (value constructors) are local in effect
					if fa, ok := x.Addr.(*ssa.FieldAddr); ok && isValueNamed(fa.X.Type(), "String", "Integer", "Float", "Datetime") {
						continue
					}
					return true
				}
			case *ssa.MapUpdate:
				if _, ok := x.Map.(*ssa.MakeMap); !ok {
					if !localMap(x.Map) {
						return true
					}
				}
			case *ssa.Send, *ssa.Go:
				return true
			case ssa.CallInstruction:
				if _, ok := x.Common().Value.(*ssa.Builtin); ok {
					continue
				}
				if !e.callIsPure(x) {
					return true
				}
			}
		}
	}
	return false
}

// funcValueIsPure: the function a function value denotes is pure. Source functions (and function
// literals) are judged by computePure; the synthetic functions the compiler makes for a method
// expression / method value (thunk, bound-method wrapper, promoted-method wrapper) are judged by
// their own tiny body, i.e. by the method they forward to.
func (e *ordEngine) funcValueIsPure(f *ssa.Function, depth int) bool {
	if f == nil || depth > 4 {
		return false
	}
	if pure, ok := e.pure[f]; ok {
		return pure
	}
	if f.Synthetic != "" && f.Blocks != nil {
		for _, b := range f.Blocks {
			for _, in := range b.Instrs {
				if call, ok := in.(ssa.CallInstruction); ok {
					if _, isB := call.Common().Value.(*ssa.Builtin); isB {
						continue
					}
					g := call.Common().StaticCallee()
					if g == nil || call.Common().IsInvoke() {
						return false
					}
					if !e.funcValueIsPure(g, depth+1) && !core.HasPrefixAny(e.c.P.FnRef(g), pureForeignPrefixes...) {
						return false
					}
				}
			}
		}
		return !e.bodyImpureIgnoringCalls(f)
	}
	return core.HasPrefixAny(e.c.P.FnRef(f), pureForeignPrefixes...)
}

// bodyImpureIgnoringCalls: the non-call part of bodyImpure (the calls of a synthetic wrapper are judged by funcValueIsPure).
func (e *ordEngine) bodyImpureIgnoringCalls(f *ssa.Function) bool {
	for _, b := range f.Blocks {
		for _, in := range b.Instrs {
			switch x := in.(type) {
			case *ssa.Store:
				if rootAlloc(x.Addr) == nil && !localBase(x.Addr) {
					return true
				}
			case *ssa.MapUpdate:
				if !localMap(x.Map) {
					return true
				}
			case *ssa.Send, *ssa.Go:
				return true
			}
		}
	}
	return false
}

// paramCallIsPure: the call `p(…)` of a function-typed parameter p of fn is pure when the set of
// functions p can denote is closed and every member is pure: fn is only ever called statically
// (every call-graph edge into it is a static call of fn itself), and at every such call site the
// argument is a function, a method expression / method value, a function literal, or the caller's
// own function-typed parameter (resolved the same way).
func (e *ordEngine) paramCallIsPure(prm *ssa.Parameter, depth int) bool {
	if depth > 3 {
		return false
	}
	fn := prm.Parent()
	if fn == nil {
		return false
	}
	if _, ok := prm.Type().Underlying().(*types.Signature); !ok {
		return false
	}
	idx := -1
	for i, q := range fn.Params {
		if q == prm {
			idx = i
		}
	}
	if idx < 0 {
		return false
	}
	edges := e.c.P.RealCallers(fn)
	if len(edges) == 0 {
		return false
	}
	for _, ed := range edges {
		if ed.Site == nil {
			return false
		}
		com := ed.Site.Common()
		if com.IsInvoke() || com.StaticCallee() != fn || idx >= len(com.Args) {
			return false // fn is reached as a value / through an interface: the arguments are not enumerable
		}
		origins := core.Origins(com.Args[idx], false)
		if len(origins) == 0 {
			return false
		}
		for _, o := range origins {
			switch x := o.(type) {
			case *ssa.Function:
				if !e.funcValueIsPure(x, 0) {
					return false
				}
			case *ssa.MakeClosure:
				g, _ := x.Fn.(*ssa.Function)
				if !e.funcValueIsPure(g, 0) {
					return false
				}
			case *ssa.Parameter:
				if !e.paramCallIsPure(x, depth+1) {
					return false
				}
			default:
				return false
			}
		}
	}
	return true
}

func localMap(v ssa.Value) bool {
	for _, o := range core.Origins(v, false) {
		if _, ok := o.(*ssa.MakeMap); !ok {
			return false
		}
	}
	return true
}

func (e *ordEngine) callIsPure(call ssa.CallInstruction) bool {
	com := call.Common()
	if com.IsInvoke() {
		// interface method: pure if every csvq implementation is pure and it is a known reader
		switch com.Method.Name() {
		case "String", "Ternary", "Error", "Raw", "Len", "Line", "Char", "SourceFile", "HasParseInfo", "GetBaseExpr", "IsEmpty", "Err", "Done", "Value", "Deadline":
			return true
		}
		return false
	}
	f := com.StaticCallee()
	if f == nil {
		if prm, ok := com.Value.(*ssa.Parameter); ok {
			return e.paramCallIsPure(prm, 0)
		}
		return false
	}
	if pure, ok := e.pure[f]; ok {
		return pure
	}
	name := e.c.P.FnRef(f)
	return core.HasPrefixAny(name, pureForeignPrefixes...)
}

// findRangeLike: wrappers that forward their func parameter to sync.Map.Range.
func (e *ordEngine) findRangeLike() {
	p := e.c.P
	for changed := true; changed; {
		changed = false
		for _, f := range p.SrcFuncs() {
			if _, ok := e.rangeLike[f]; ok {
				continue
			}
			for _, call := range core.Calls(f) {
				idx := -1
				if p.CalleeName(call) == "(*sync.Map).Range" {
					idx = 1
				} else if sc := call.Common().StaticCallee(); sc != nil {
					if i, ok := e.rangeLike[sc]; ok {
						idx = i
					}
				}
				if idx < 0 || idx >= len(call.Common().Args) {
					continue
				}
				if prm, ok := call.Common().Args[idx].(*ssa.Parameter); ok {
					for i, fp := range f.Params {
						if fp == prm {
							e.rangeLike[f] = i
							changed = true
						}
					}
				}
			}
		}
	}
}

// ---------------------------------------------------------------------------
// uses of a map-ordered variable after the loop

type ordUse struct {
	kind string // "sorted", "returned", "len", or a description of the sink
	in   ssa.Instruction
	idx  int // result index for "returned"
}

// usesAfter lists, in CFG order, how the content of cell (a variable's address,
// or a call result value) is used after instruction `from`.
func (e *ordEngine) usesAfter(fn *ssa.Function, cell ssa.Value, from ssa.Instruction, skip func(ssa.Instruction) bool) []ordUse {
	var out []ordUse
	// values that carry the content: loads of the cell after `from`, or the value itself
	isCarrier := map[ssa.Value]bool{}
	var carriers []ssa.Value
	addCarrier := func(v ssa.Value) {
		if !isCarrier[v] {
			isCarrier[v] = true
			carriers = append(carriers, v)
		}
	}
	if _, isAddr := cell.Type().Underlying().(*types.Pointer); isAddr {
		if _, isCall := cell.(*ssa.Call); !isCall {
			core.WalkFrom(from, func(in ssa.Instruction) bool {
				if u, ok := in.(*ssa.UnOp); ok && u.Op == token.MUL && (u.X == cell || core.SameAddr(u.X, cell)) {
					addCarrier(u)
				}
				return true
			})
			// a named result / variable that is returned by a bare return: Return loads it
		} else {
			addCarrier(cell)
		}
	} else {
		addCarrier(cell)
	}
	for i := 0; i < len(carriers); i++ {
		v := carriers[i]
		refs := v.Referrers()
		if refs == nil {
			continue
		}
		for _, r := range *refs {
			if skip != nil && skip(r) {
				// inside the producing loop: only value flow matters
				switch x := r.(type) {
				case *ssa.Phi:
					addCarrier(x)
				case *ssa.Slice:
					addCarrier(x)
				case ssa.CallInstruction:
					if bi, ok := x.Common().Value.(*ssa.Builtin); ok && bi.Name() == "append" {
						if cv, ok := x.(ssa.Value); ok {
							addCarrier(cv)
						}
					}
				}
				continue
			}
			switch x := r.(type) {
			case *ssa.Phi:
				addCarrier(x)
			case *ssa.ChangeType:
				addCarrier(x)
			case *ssa.MakeInterface:
				addCarrier(x)
			case *ssa.Slice:
				addCarrier(x)
			case *ssa.Extract:
				addCarrier(x)
			case *ssa.Return:
				for ri, rv := range x.Results {
					if rv == v {
						out = append(out, ordUse{"returned", x, ri})
					}
				}
			case *ssa.Store:
				if x.Val == v {
					if al, ok := x.Addr.(*ssa.Alloc); ok && !al.Heap {
						// copied into another local: follow its loads
						for _, rr := range *al.Referrers() {
							if u, ok := rr.(*ssa.UnOp); ok {
								addCarrier(u)
							}
						}
						continue
					}
					if x.Addr == cell || core.SameAddr(x.Addr, cell) {
						continue // re-assignment of the variable itself (append result)
					}
					if al, ok := x.Addr.(*ssa.Alloc); ok {
						// heap-allocated local (captured or named result): follow loads and returns
						for _, rr := range *al.Referrers() {
							if u, ok := rr.(*ssa.UnOp); ok {
								addCarrier(u)
							}
						}
						continue
					}
					out = append(out, ordUse{"stored into " + addrDesc(x.Addr), x, 0})
				}
			case *ssa.IndexAddr, *ssa.Index:
				out = append(out, ordUse{"indexed / iterated element by element", r, 0})
			case *ssa.Range:
				out = append(out, ordUse{"iterated", x, 0})
			case ssa.CallInstruction:
				name := e.c.P.CalleeName(x)
				if bi, ok := x.Common().Value.(*ssa.Builtin); ok {
					switch bi.Name() {
					case "len", "cap":
						out = append(out, ordUse{"len", x, 0})
					case "append":
						if cv, ok := x.(ssa.Value); ok {
							addCarrier(cv)
						}
					default:
						out = append(out, ordUse{"passed to " + bi.Name(), x, 0})
					}
					continue
				}
				if strings.HasPrefix(name, "sort.") || strings.HasSuffix(name, ".Sort") {
					out = append(out, ordUse{"sorted", x, 0})
					continue
				}
				out = append(out, ordUse{"passed to " + callDesc(e.c.P, x), x, 0})
			case *ssa.BinOp, *ssa.DebugRef, *ssa.If:
			default:
				_ = x
			}
		}
	}
	// CFG order: a use dominated by a sort is irrelevant; put sorts first when they dominate
	sort.SliceStable(out, func(i, j int) bool {
		if out[i].in.Block() == out[j].in.Block() {
			return core.InstrIndex(out[i].in) < core.InstrIndex(out[j].in)
		}
		return out[i].in.Block().Dominates(out[j].in.Block())
	})
	// drop uses dominated by a sort
	var sorted []ssa.Instruction
	for _, u := range out {
		if u.kind == "sorted" {
			sorted = append(sorted, u.in)
		}
	}
	var res []ordUse
	for _, u := range out {
		dom := false
		for _, s := range sorted {
			if s != u.in && core.Dominates(s, u.in) {
				dom = true
			}
		}
		if !dom {
			res = append(res, u)
		}
	}
	// a sort that does not dominate the other uses does not protect them
	for i, u := range res {
		if u.kind == "sorted" && i > 0 {
			res[i].kind = "len" // harmless itself
		}
	}
	return res
}

// keyedWriter: every impure effect of f is a map store/delete whose key derives
// from one of f's parameters (wrappers around sync.Map / map fields), possibly
// under a lock, or a call of such a function with a parameter-derived key.
func (e *ordEngine) keyedWriter(f *ssa.Function) bool {
	if e.keyed == nil {
		e.keyed = map[*ssa.Function]int{}
	}
	switch e.keyed[f] {
	case 1:
		return true
	case 2, 3:
		return false
	}
	if f.Blocks == nil {
		e.keyed[f] = 2
		return false
	}
	e.keyed[f] = 3
	params := map[ssa.Value]bool{}
	for _, p := range f.Params {
		params[p] = true
	}
	fromParam := func(v ssa.Value) bool { return dependsOnSet(v, params, map[ssa.Value]bool{}) }
	ok := true
	for _, b := range f.Blocks {
		for _, in := range b.Instrs {
			switch x := in.(type) {
			case *ssa.Store:
				if rootAlloc(x.Addr) == nil && !localBase(x.Addr) {
					ok = false
				}
			case *ssa.MapUpdate:
				if !fromParam(x.Key) && !localMap(x.Map) {
					ok = false
				}
			case *ssa.Send, *ssa.Go:
				ok = false
			case ssa.CallInstruction:
				com := x.Common()
				if bi, isB := com.Value.(*ssa.Builtin); isB {
					if bi.Name() == "delete" && !fromParam(com.Args[1]) {
						ok = false
					}
					continue
				}
				if e.callIsPure(x) {
					continue
				}
				name := e.c.P.CalleeName(x)
				switch name {
				case "(*sync.Map).Delete", "(*sync.Map).Store", "(*sync.Map).LoadOrStore":
					if len(com.Args) > 1 && fromParam(com.Args[1]) {
						continue
					}
				}
				if g := com.StaticCallee(); g != nil && g != f && e.keyedWriter(g) {
					keyed := false
					for _, a := range com.Args[minInt(1, len(com.Args)):] {
						if fromParam(a) {
							keyed = true
						}
					}
					if keyed {
						continue
					}
				}
				// a method of the very object a parameter denotes, with no other argument (as in classifyBody):
				// its effect is confined to the object the iteration yielded
				if g := com.StaticCallee(); g != nil && g.Signature.Recv() != nil && len(com.Args) == 1 && fromParam(com.Args[0]) {
					continue
				}
				ok = false
			}
		}
	}
	if ok {
		e.keyed[f] = 1
	} else {
		e.keyed[f] = 2
	}
	return ok
}

func minInt(a, b int) int {
	if a < b {
		return a
	}
	return b
}

// localBase: the address lies in memory allocated by this function (make / new / composite literal).
func localBase(addr ssa.Value) bool {
	for i := 0; i < 10; i++ {
		switch x := addr.(type) {
		case *ssa.Alloc:
			return true
		case *ssa.FieldAddr:
			addr = x.X
		case *ssa.IndexAddr:
			ok := true
			for _, o := range core.Origins(x.X, true) {
				switch o.(type) {
				case *ssa.MakeSlice, *ssa.Alloc:
				default:
					ok = false
				}
			}
			return ok
		default:
			return false
		}
	}
	return false
}
