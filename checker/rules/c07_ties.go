package rules

import (
	"fmt"
	"sort"
	"strings"

	"golang.org/x/tools/go/ssa"

	"verif/checker/absint"
)

// R-SRT-9 — WITH TIES, RANK and the other consumers of SortValue.EquivalentTo
// see the same ties as the sort: EquivalentTo is the tie relation of Less.
//
// LIMIT n WITH TIES keeps the rows that follow the n-th one while their keys
// are EquivalentTo its keys; the rows were ordered by Less. If Less ties two
// values (UNKNOWN both ways: neither sorts first) that EquivalentTo tells
// apart, rows with the same key are cut off (1 and 1.0); if EquivalentTo
// equates what Less orders, rows with another key are added.

// srt9Class: the comparability classes of the property's quantifier (C07: sort
// key columns hold mutually comparable values — numbers, datetimes or
// non-numeric text — plus NULLs). BooleanType is in no class: csvq does not
// order booleans (Less ties all of them with everything), so a column of
// booleans is outside the quantifier and nothing is demanded for it.
var srt9Class = map[string]string{
	"IntegerType":  "number",
	"FloatType":    "number",
	"DatetimeType": "datetime",
	"StringType":   "text",
}

func init() {
	Register(&Rule{ID: "R-SRT-9", Props: []string{"C07", "C17"}, Floor: 1,
		Doc: "SortValue.EquivalentTo is the tie relation of SortValue.Less on mutually comparable keys: over all (type × type × per-field orderings × NaN flags) worlds without --strict-equal, for two values of one comparability class of the property (numbers: IntegerType / FloatType in any mix; DatetimeType; StringType) or with a NULL on either side, " +
			"EquivalentTo(a,b) and EquivalentTo(b,a) hold exactly when Less(a,b) and Less(b,a) are both UNKNOWN and the two values are both NULL or both not NULL (a NULL ties with everything in Less — SortValues.Less orders it by NULLS FIRST/LAST — but is equivalent to a NULL only). " +
			"Both functions are executed by the abstract interpreter of R-SRT-1 on the same world (same feasibility conditions F1, F2), so every pair of type tags and every ordering of the payloads is a table cell. Not demanded: pairs across classes and BooleanType (outside the property's quantifier: csvq does not order them), and --strict-equal worlds (there EquivalentTo is identity of the typed key, which R-SRT-1 shows to imply a tie; 1 and 1.0 are different keys by definition)",
		Controls: []string{"CtlSortTiesNarrow", "CtlSortTiesWide"},
		Run:      ruleSrt9})
}

func ruleSrt9(c *Ctx) {
	less := c.Fn("lib/query.(*SortValue).Less")
	equiv := c.Fn("lib/query.(*SortValue).EquivalentTo")
	if less != nil && equiv != nil {
		srt9Check(c, less, equiv, "lib/query.(*SortValue).EquivalentTo", false)
	}
	// control pairs: <Name>Less / <Name>EquivalentTo in the control package
	pairs := map[string][2]*ssa.Function{}
	for _, cf := range c.P.FuncsIn(true) {
		if !c.P.IsControl(cf) || cf.Parent() != nil {
			continue
		}
		n := cf.Name()
		if !strings.HasPrefix(n, "CtlSortTies") && !strings.HasPrefix(n, "OkSortTies") {
			continue
		}
		switch {
		case strings.HasSuffix(n, "Less"):
			p := pairs[strings.TrimSuffix(n, "Less")]
			p[0] = cf
			pairs[strings.TrimSuffix(n, "Less")] = p
		case strings.HasSuffix(n, "EquivalentTo"):
			p := pairs[strings.TrimSuffix(n, "EquivalentTo")]
			p[1] = cf
			pairs[strings.TrimSuffix(n, "EquivalentTo")] = p
		}
	}
	var names []string
	for n := range pairs {
		names = append(names, n)
	}
	sort.Strings(names)
	for _, n := range names {
		p := pairs[n]
		l, e := p[0], p[1]
		if l == nil {
			l = less // a control that only replaces EquivalentTo is paired with the real Less
		}
		if e == nil {
			e = equiv
		}
		if l == nil || e == nil {
			continue
		}
		c.Touch(l)
		c.Touch(e)
		srt9Check(c, l, e, c.P.Name(e), strings.HasPrefix(n, "Ok"))
	}
}

func srt9Check(c *Ctx, less, equiv *ssa.Function, name string, negative bool) {
	key := name + ": the tie relation of Less"
	if len(less.Params) != 2 || len(equiv.Params) != 2 {
		c.Unknown(key, c.FnPos(equiv), "cannot-analyse: expected two parameters (receiver and the value compared)")
		return
	}
	svPtr := less.Params[0].Type()
	svt := c.P.Type("lib/query", "SortValueType")
	if svt == nil {
		c.Unknown(key, c.FnPos(equiv), "cannot-analyse: lib/query.SortValueType not found")
		return
	}
	cs := enumConstsOf(svt)
	tname := func(w *absint.World, obj string) string {
		i := w.Get("enum:" + obj + ".Type")
		if i < 0 || i >= len(cs) {
			return "?"
		}
		return cs[i].Name()
	}
	groups := map[string][]string{}
	var errs []string
	demanded, strict, outside, infeasible := 0, 0, 0, 0
	pairsSeen := map[string]bool{}
	worlds, err := absint.Enumerate(400000, func(w *absint.World) {
		it := sortValueInterp(c, w)
		A, B := absint.Obj("A", svPtr), absint.Obj("B", svPtr)
		lab := it.Call(less, []absint.Val{A, B}, nil)
		lba := it.Call(less, []absint.Val{B, A}, nil)
		eab := it.Call(equiv, []absint.Val{A, B}, nil)
		eba := it.Call(equiv, []absint.Val{B, A}, nil)
		// a result that is itself an undecided comparison (return x == y on opaque operands) is one more atom
		asBool := func(v absint.Val) (bool, bool) {
			if b, ok := v.BoolVal(); ok {
				return b, true
			}
			if v.K == absint.KSym && it.Err == nil {
				b := it.Decide(v)
				return b, it.Err == nil
			}
			return false, false
		}
		e1, ok1 := asBool(eab)
		e2, ok2 := asBool(eba)
		if it.Err != nil {
			if len(errs) < 3 {
				errs = append(errs, it.Err.Error())
			}
			return
		}
		// --strict-equal: the values carry a typed identical-key (atom answered "not nil")
		if w.Get("b:nil:A.SerializedKey") == 0 {
			strict++
			return
		}
		ta, tb := tname(w, "A"), tname(w, "B")
		if ta == "?" || tb == "?" {
			// a type tag nobody looked at: the functions decided without it — evaluate the law for
			// every tag it could have is not possible here; such a world is a deviation in itself
			groups["decided without looking at the type tag"] = append(groups["decided without looking at the type tag"], strings.Join(filterAsked(w.Asked()), " "))
			return
		}
		if (w.Get("nan:A.Float") == 1 && ta != "FloatType") || (w.Get("nan:B.Float") == 1 && tb != "FloatType") {
			infeasible++
			return
		}
		numeric := func(t string) bool { return t == "IntegerType" || t == "FloatType" }
		if w.Get("ord:A.String|B.String") == 1 && ((numeric(ta) && tb == "StringType") || (numeric(tb) && ta == "StringType")) {
			infeasible++
			return
		}
		aNull, bNull := ta == "NullType", tb == "NullType"
		if !aNull && !bNull && (srt9Class[ta] == "" || srt9Class[ta] != srt9Class[tb]) {
			outside++
			return
		}
		demanded++
		tp := []string{ta, tb}
		sort.Strings(tp)
		pair := strings.Join(tp, " vs ")
		pairsSeen[pair] = true
		l1, l2 := ternaryName(c, lab), ternaryName(c, lba)
		desc := fmt.Sprintf("A.Type=%s B.Type=%s {%s}: Less(A,B)=%s Less(B,A)=%s EquivalentTo=%v/%v", ta, tb, strings.Join(filterAsked(w.Asked()), " "), l1, l2, e1, e2)
		if !ok1 || !ok2 {
			groups["EquivalentTo is not a constant of the world | "+pair] = append(groups["EquivalentTo is not a constant of the world | "+pair], desc)
			return
		}
		tie := l1 == "UNKNOWN" && l2 == "UNKNOWN"
		want := tie && aNull == bNull
		switch {
		case e1 == want && e2 == want:
		case want:
			k := "tied by Less, told apart by EquivalentTo (WITH TIES / RANK cut rows with the same key) | " + pair
			groups[k] = append(groups[k], desc)
		case aNull != bNull:
			k := "a NULL equivalent to a value that is not NULL | " + pair
			groups[k] = append(groups[k], desc)
		default:
			k := "ordered by Less, equated by EquivalentTo (WITH TIES / RANK join rows with different keys) | " + pair
			groups[k] = append(groups[k], desc)
		}
	})
	switch {
	case err != nil:
		c.Unknown(key, c.FnPos(equiv), err.Error())
		return
	case len(errs) > 0:
		c.Unknown(key, c.FnPos(equiv), "cannot evaluate: "+strings.Join(dedup(errs), "; "))
		return
	}
	if len(groups) > 0 {
		var ks []string
		for k := range groups {
			ks = append(ks, k)
		}
		sort.Strings(ks)
		for _, k := range ks {
			sort.Strings(groups[k])
			why := fmt.Sprintf("%d abstract world(s), e.g. %s", len(groups[k]), groups[k][0])
			c.Bad(name+": "+k, c.FnPos(equiv), why)
			if negative {
				c.Unknown("negative-control:"+name+": "+k, "-", "the rule reports "+name+", a correct spelling: "+why)
			}
		}
		return
	}
	// the table must have covered the pairs the property quantifies over
	var missing []string
	for _, p := range []string{"FloatType vs IntegerType", "IntegerType vs IntegerType", "FloatType vs FloatType", "DatetimeType vs DatetimeType", "StringType vs StringType", "NullType vs NullType"} {
		if !pairsSeen[p] {
			missing = append(missing, p)
		}
	}
	if len(missing) > 0 {
		c.Unknown(key, c.FnPos(equiv), "the enumeration never reached "+strings.Join(missing, ", "))
		return
	}
	c.OkN(key, c.FnPos(equiv), fmt.Sprintf("%d abstract worlds: in the %d worlds of mutually comparable keys (and NULLs) EquivalentTo holds exactly for a symmetric tie of two NULLs or two non-NULLs; %d strict-equal, %d cross-class / boolean, %d infeasible worlds not demanded", worlds, demanded, strict, outside, infeasible), worlds)
}
