package rules

import (
	"fmt"
	"go/token"
	"go/types"
	"sort"
	"strings"

	"golang.org/x/tools/go/ssa"

	"verif/checker/core"
)

// R-RELEASE-1 / R-RELEASE-2 — the end of a transaction gives everything back, whatever the release reports.
//
// Written after the report that a failing release leaves the table cache behind COMMIT / ROLLBACK (observed_round7,
// C20 / C01 / C11): ViewMap.Dispose returned before it deleted the entry when the close failed, ViewMap.Clean and
// Container.CloseAll stopped at the first error, ReleaseResources returned before CloseAll when Clean had failed and
// Commit returned the error of a failed swap without reaching ReleaseResources. After `ROLLBACK` had reported
// "failed to rollback" the next SELECT was served from the cache and showed the rolled-back change.
//
// R-TXN-5 decides the success returns only. These two rules decide the clause for ALL returns:
//
//	R-RELEASE-1  (a) whoever forgets the uncommitted marks ends the transaction, and whoever ends the transaction releases:
//	                 in every lib/query function that reaches UncommittedViews.Clean (not through the statement interpreter),
//	                 every return — error returns included — reachable from a file swap (a call that reaches
//	                 (*file.Container).Commit and not the release: a call that reaches both is judged in its callee; from the
//	                 entry when no call of the function reaches the swap) has passed a call, or the registration of a
//	                 deferred call, that reaches ReleaseResources / ReleaseResourcesWithErrors;
//	             (b) the release takes every step: every return of ReleaseResources / ReleaseResourcesWithErrors has passed
//	                 the emptying of the cache AND the closing of the container;
//	             (c) an entry is evicted whatever its close reports: in every lib/query function that closes a handler
//	                 through the container and deletes a ViewMap entry, no path from the entry to a return passes the
//	                 close without passing the Delete (in either order).
//	R-RELEASE-2  a clean-up loop visits every entry: a natural loop of lib/file or lib/query that runs over the handlers of
//	             a container or the keys of a view map / container and whose body reaches the close of a handler has no
//	             exit except the exhaustion of the collection (no return, break or goto out of the body).

const (
	relContClose  = "lib/file.(*Container).Close"
	relContCloseE = "lib/file.(*Container).CloseWithErrors"
	relHClose     = "lib/file.(*Handler).close"
	relHCloseE    = "lib/file.(*Handler).closeWithErrors"
	relVMDelete   = "lib/query.(ViewMap).Delete"
	relCtlTag     = "RelAll"
)

func init() {
	Register(&Rule{ID: "R-RELEASE-1", Props: []string{"C20", "C01", "C11"}, Floor: 7,
		Doc: "the end of a transaction releases on every return: (a) in every lib/query function that reaches UncommittedViews.Clean without going through the statement interpreter (Commit, Rollback, " +
			"their helpers and forwarders: forgetting the uncommitted marks ends the transaction) every return, error returns included, that is reachable from a file swap (a call reaching " +
			"(*file.Container).Commit but not the release — a call that reaches both is judged in its callee; from the entry when no call of the function reaches the swap) has passed a call — " +
			"or the registration of a deferred call — that reaches ReleaseResources / ReleaseResourcesWithErrors; " +
			"(b) every return of ReleaseResources / ReleaseResourcesWithErrors has passed both the emptying of the cached views and the closing of the file container; " +
			"(c) in every lib/query function that closes a handler through the container and deletes a ViewMap entry, no path from the entry to a return passes the close " +
			"without passing the Delete, in either order: a release that fails cannot leave a cached table behind COMMIT / ROLLBACK",
		Controls: []string{"CtlRelAllSwapErrorReturns", "CtlRelAllRollbackEarlyError", "CtlRelAllEvictAfterCloseOnly", "CtlRelAllReleaseStopsAtClean"},
		Run:      ruleRelease1})
	Register(&Rule{ID: "R-RELEASE-2", Props: []string{"C20", "C11"}, Floor: 4,
		Doc: "a clean-up loop visits every entry: every natural loop of lib/file and lib/query that runs over the handlers of a container (a map or slice of *file.Handler) or over " +
			"the result of the Keys method of a ViewMap / Container, and whose body reaches (*Handler).close / closeWithErrors, is left only through the exhaustion of the collection — " +
			"no return, break or goto leaves it from the body, so one handler whose lock file cannot be removed does not keep the other tables cached and locked",
		Controls: []string{"CtlRelAllLoopStopsAtFirstError"},
		Run:      ruleRelease2})
}

// relFuncs: the lib/query (or lib/file) source functions plus the controls of this file.
func relFuncs(c *Ctx, pkgs ...string) []*ssa.Function {
	var out []*ssa.Function
	out = append(out, c.P.FuncsIn(false, pkgs...)...)
	out = append(out, txnCtl(c, relCtlTag)...)
	return out
}

// relIsCallOrDefer: a call, or the registration of a deferred call, that reaches one of names.
func relIsCallOrDefer(p *core.Prog, names ...string) func(ssa.Instruction) bool {
	set := txnSet(p, names...)
	return func(in ssa.Instruction) bool {
		switch x := in.(type) {
		case *ssa.Call:
			return txnCallIn(p, x, set)
		case *ssa.Defer:
			return txnCallIn(p, x, set)
		}
		return false
	}
}

func relDirectCalls(p *core.Prog, fn *ssa.Function, names ...string) []*ssa.Call {
	var out []*ssa.Call
	for _, ci := range p.CallsNamed(fn, names...) {
		if call, ok := ci.(*ssa.Call); ok {
			out = append(out, call)
		}
	}
	return out
}

func ruleRelease1(c *Ctx) {
	p := c.P
	if c.Fn(txnUVClean) == nil || c.Fn(txnTxRelease) == nil || c.Fn(txnTxReleaseE) == nil || c.Fn(txnContCommit) == nil {
		return
	}
	isRelease := relIsCallOrDefer(p, txnTxRelease, txnTxReleaseE)

	// (a) enders: the functions of lib/query that can forget the uncommitted marks (they reach UncommittedViews.Clean, not through the
	// statement interpreter). A call that reaches the swap AND the release is judged inside its callee.
	canEnd := txnSet(p, txnUVClean)
	relSet := txnSet(p, txnTxRelease, txnTxReleaseE)
	swapSet := txnSet(p, txnContCommit)
	for _, fn := range relFuncs(c, "lib/query") {
		if !canEnd[fn] || fn == c.P.Func(txnUVClean) {
			continue
		}
		var swaps, starts []ssa.CallInstruction
		for _, ci := range core.Calls(fn) {
			if _, isCall := ci.(*ssa.Call); !isCall || !txnCallIn(p, ci, swapSet) {
				continue
			}
			swaps = append(swaps, ci)
			if !txnCallIn(p, ci, relSet) {
				starts = append(starts, ci)
			}
		}
		if len(swaps) == 0 {
			c.Touch(fn)
			key := c.KeyAt(fn, "every return passes the release")
			if ex := core.EscapeFromEntry(fn, isRelease, nil); ex != nil {
				c.Bad(key, c.Pos(ex), fmt.Sprintf("the function can forget the uncommitted marks (it reaches UncommittedViews.Clean: the transaction is over) but a path from its entry reaches the exit at %s without a call that reaches ReleaseResources: the cached tables and their lock files outlive the transaction and the next read is served from the cache", c.Pos(ex)))
			} else {
				c.Ok(key, c.FnPos(fn), "every return, error returns included, has passed a call that reaches ReleaseResources")
			}
			continue
		}
		seen := map[string]int{}
		for _, s := range starts {
			c.Touch(fn)
			in := s.(ssa.Instruction)
			key := txnOrd(seen, c.KeyAt(fn, "every return after the swap "+txnCallLabel(p, s)+" passes the release"))
			if ex := core.EscapeWithout(in, isRelease, nil); ex != nil {
				c.Bad(key, c.Pos(in), fmt.Sprintf("after the file swap at %s (some files may already be replaced, the handler that failed cannot be used again) the exit at %s is reached without a call that reaches ReleaseResources: the transaction has ended for the user but its cached tables and lock files stay, later reads are served from the cache", c.Pos(in), c.Pos(ex)))
			} else {
				c.Ok(key, c.Pos(in), "every return reachable from the swap, error returns included, has passed a call that reaches ReleaseResources")
			}
		}
	}

	// (b) the release takes every step
	type step struct {
		fn, label string
		names     []string
	}
	steps := []step{
		{txnTxRelease, "the emptying of the cached views", []string{txnVMClean, txnVMCleanE}},
		{txnTxRelease, "the closing of the file container", []string{txnContCloseAll, txnContCloseE}},
		{txnTxReleaseE, "the emptying of the cached views", []string{txnVMClean, txnVMCleanE}},
		{txnTxReleaseE, "the closing of the file container", []string{txnContCloseAll, txnContCloseE}},
	}
	type job struct {
		fn *ssa.Function
		st step
	}
	var jobs []job
	for _, st := range steps {
		if fn := c.Fn(st.fn); fn != nil {
			jobs = append(jobs, job{fn, st})
		}
	}
	for _, fn := range txnCtl(c, relCtlTag+"Release") {
		jobs = append(jobs, job{fn, steps[0]}, job{fn, steps[1]})
	}
	for _, j := range jobs {
		c.Touch(j.fn)
		key := c.KeyAt(j.fn, "every return passes "+j.st.label)
		if ex := core.EscapeFromEntry(j.fn, relIsCallOrDefer(p, j.st.names...), nil); ex != nil {
			c.Bad(key, c.Pos(ex), fmt.Sprintf("a path from the entry reaches the exit at %s without %s: when an earlier step of the release fails the later ones are skipped and what they hold (cached tables, lock and temporary files) survives the end of the transaction", c.Pos(ex), j.st.label))
		} else {
			c.Ok(key, c.FnPos(j.fn), "every return, error returns included, has passed "+j.st.label)
		}
	}

	// (c) eviction does not depend on the close
	isDelete := txnIsDirect(p, relVMDelete)
	for _, fn := range relFuncs(c, "lib/query") {
		closes := relDirectCalls(p, fn, relContClose, relContCloseE)
		if len(closes) == 0 || len(relDirectCalls(p, fn, relVMDelete)) == 0 {
			continue
		}
		c.Touch(fn)
		// instructions reachable from the entry without passing a Delete
		before := map[ssa.Instruction]bool{}
		core.WalkFromEntry(fn, func(in ssa.Instruction) bool {
			if isDelete(in) {
				return false
			}
			before[in] = true
			return true
		})
		seen := map[string]int{}
		for _, cl := range closes {
			key := txnOrd(seen, c.KeyAt(fn, "the entry is deleted whatever "+txnCallLabel(p, cl)+" reports"))
			var ex ssa.Instruction
			if before[cl] {
				ex = core.EscapeWithout(cl, isDelete, nil)
			}
			if ex != nil {
				c.Bad(key, c.Pos(cl), fmt.Sprintf("a path passes the close at %s and reaches the exit at %s without (ViewMap).Delete: when the handler cannot be closed (a lock file that cannot be removed) the view stays in the cache and every later read of the table, after COMMIT or ROLLBACK as well, is served from it", c.Pos(cl), c.Pos(ex)))
			} else {
				c.Ok(key, c.Pos(cl), "every path through the close passes (ViewMap).Delete, before or after it")
			}
		}
	}
}

// txnIsDirect: a call whose static callee / invoked method has one of names.
func txnIsDirect(p *core.Prog, names ...string) func(ssa.Instruction) bool {
	set := map[string]bool{}
	for _, n := range names {
		set[n] = true
	}
	return func(in ssa.Instruction) bool {
		call, ok := in.(*ssa.Call)
		return ok && set[p.CalleeName(call)]
	}
}

// ---------------------------------------------------------------------------
// R-RELEASE-2

// relLoopCollection returns the value a natural loop runs over: the operand of the `range` of a map / string
// iteration, or the operand of the len() that bounds an index loop (range over a slice, or for i := 0; i < len(x); i++).
func relLoopCollection(l *core.Loop) ssa.Value {
	for _, in := range l.Header.Instrs {
		if nx, ok := in.(*ssa.Next); ok {
			if r, ok := nx.Iter.(*ssa.Range); ok {
				return r.X
			}
		}
	}
	iff, ok := l.Header.Instrs[len(l.Header.Instrs)-1].(*ssa.If)
	if !ok {
		return nil
	}
	bo, ok := iff.Cond.(*ssa.BinOp)
	if !ok {
		return nil
	}
	for _, side := range []ssa.Value{bo.Y, bo.X} {
		if bo.Op != token.LSS && bo.Op != token.GTR && bo.Op != token.NEQ && bo.Op != token.LEQ && bo.Op != token.GEQ {
			continue
		}
		if call, ok := side.(*ssa.Call); ok {
			if b, ok := call.Call.Value.(*ssa.Builtin); ok && b.Name() == "len" && len(call.Call.Args) == 1 {
				return call.Call.Args[0]
			}
		}
	}
	return nil
}

func relIsHandlerPtr(t types.Type) bool {
	pt, ok := t.Underlying().(*types.Pointer)
	return ok && core.NamedOf(pt.Elem()) == "lib/file.Handler"
}

// relHandlerCollection: "" unless v is a collection of the entries a transaction has to give back.
func relHandlerCollection(p *core.Prog, v ssa.Value) string {
	switch t := v.Type().Underlying().(type) {
	case *types.Map:
		if relIsHandlerPtr(t.Elem()) {
			return "the map of handlers " + relValueLabel(v)
		}
	case *types.Slice:
		if relIsHandlerPtr(t.Elem()) {
			return "the list of handlers " + relValueLabel(v)
		}
	}
	for _, o := range core.Origins(v, false) {
		call, ok := o.(*ssa.Call)
		if !ok {
			continue
		}
		n := p.CalleeName(call)
		if !(strings.HasSuffix(n, ".Keys") || strings.HasSuffix(n, ".SortedKeys")) || len(call.Call.Args) == 0 {
			continue
		}
		rt := call.Call.Args[0].Type()
		if pt, ok := rt.Underlying().(*types.Pointer); ok {
			rt = pt.Elem()
		}
		switch core.NamedOf(rt) {
		case "lib/query.ViewMap", "lib/query.SyncMap", "lib/file.Container":
			return "the keys returned by " + n
		}
	}
	return ""
}

func relValueLabel(v ssa.Value) string {
	if u, ok := v.(*ssa.UnOp); ok && u.Op == token.MUL {
		if fa, ok := u.X.(*ssa.FieldAddr); ok {
			return core.FieldOwner(fa)
		}
	}
	return v.Name()
}

func ruleRelease2(c *Ctx) {
	p := c.P
	if c.Fn(relHClose) == nil || c.Fn(relHCloseE) == nil {
		return
	}
	closers := txnSet(p, relHClose, relHCloseE)
	n := 0
	for _, fn := range relFuncs(c, "lib/query", "lib/file") {
		loops := core.NaturalLoops(fn)
		if len(loops) == 0 {
			continue
		}
		seen := map[string]int{}
		for _, l := range loops {
			coll := relLoopCollection(l)
			if coll == nil {
				continue
			}
			what := relHandlerCollection(p, coll)
			if what == "" {
				continue
			}
			// the body reaches the close of a handler
			var blocks []*ssa.BasicBlock
			for b := range l.Blocks {
				blocks = append(blocks, b)
			}
			sort.Slice(blocks, func(i, j int) bool { return blocks[i].Index < blocks[j].Index })
			var closing ssa.CallInstruction
			for _, b := range blocks {
				for _, in := range b.Instrs {
					if call, ok := in.(*ssa.Call); ok && closing == nil && txnCallIn(p, call, closers) {
						closing = call
					}
				}
			}
			if closing == nil {
				continue
			}
			n++
			c.Touch(fn)
			key := txnOrd(seen, c.KeyAt(fn, "the clean-up loop over "+what+" visits every entry"))
			hpos := c.P.InstrPos(l.Header.Instrs[0])
			exits := l.ExitEdges(false)
			if len(exits) == 0 {
				c.Ok(key, hpos, "the loop (it closes handlers through "+txnCallLabel(p, closing)+") is left only when the collection is exhausted")
				continue
			}
			e := exits[0]
			at := hpos
			if len(e[1].Instrs) > 0 {
				at = c.P.InstrPos(e[1].Instrs[len(e[1].Instrs)-1])
			}
			c.Bad(key, hpos, fmt.Sprintf("the loop closes handlers through %s but can be left from its body (towards %s) before every entry was visited: one handler whose release fails keeps all the others — their cached views, lock and temporary files — alive behind COMMIT / ROLLBACK", txnCallLabel(p, closing), at))
		}
	}
	if n == 0 {
		c.Unknown("anchor: clean-up loops", "-", "cannot-analyse: no loop over handlers or view-map keys that closes handlers was found in lib/file and lib/query")
	}
}

// ---------------------------------------------------------------------------
// R-RELEASE-3 — a release that failed half-way can be tried again.
//
// Found while finishing the repair of R-RELEASE-1/2: ControlFile.Close closed the descriptor of the lock file, failed to
// remove the file and returned; the descriptor stayed in the struct, so the second attempt (the next ROLLBACK, the forced
// release at exit) ended in "bad file descriptor" before it reached the removal — the lock file stayed for good.

func init() {
	Register(&Rule{ID: "R-RELEASE-3", Props: []string{"C11", "C20"}, Floor: 3,
		Doc: "a descriptor kept in a struct field is closed once: in lib/file, after every close of a file loaded from a struct field (go-file's Close or (*os.File).Close) " +
			"every path on which the close succeeded stores nil into that field before the function returns — a release that fails at a later step (the lock file cannot be removed) " +
			"is tried again by the next COMMIT / ROLLBACK and by the forced release at exit, and the second attempt must reach the removal instead of failing on the closed descriptor",
		Controls: []string{"CtlRelAllDescriptorKept"},
		Run:      ruleRelease3})
}

func ruleRelease3(c *Ctx) {
	p := c.P
	n := 0
	for _, fn := range relFuncs(c, "lib/file") {
		seen := map[string]int{}
		for _, ci := range core.Calls(fn) {
			call, ok := ci.(*ssa.Call)
			if !ok || len(call.Call.Args) == 0 {
				continue
			}
			name := p.CalleeName(call)
			if !(strings.HasSuffix(name, "go-file/v2.Close") || name == "(*os.File).Close") {
				continue
			}
			ld, ok := core.Strip(call.Call.Args[0]).(*ssa.UnOp)
			if !ok || ld.Op != token.MUL {
				continue
			}
			fa, ok := ld.X.(*ssa.FieldAddr)
			if !ok {
				continue
			}
			if !p.IsControl(fn) {
				n++
			}
			c.Touch(fn)
			label := core.FieldOwner(fa)
			key := txnOrd(seen, c.KeyAt(fn, "the closed descriptor "+label+" is cleared"))
			isClear := func(in ssa.Instruction) bool {
				st, ok := in.(*ssa.Store)
				return ok && core.IsNilConst(st.Val) && core.SameAddr(st.Addr, fa)
			}
			cut := func(from, to *ssa.BasicBlock) bool {
				return txnNilEdge(from, to, func(v ssa.Value) bool { return v == ssa.Value(call) }, false)
			}
			var ex ssa.Instruction
			for _, e := range core.ExitsAfter(call, isClear, cut) {
				ex = e
				break
			}
			if ex != nil {
				c.Bad(key, c.Pos(call), fmt.Sprintf("after the successful close at %s the exit at %s is reached with the closed file still in %s: when a later step of the release fails (the control file cannot be removed) the next attempt closes the descriptor again, fails with 'bad file descriptor' and never reaches the removal — the lock file stays", c.Pos(call), c.Pos(ex), label))
			} else {
				c.Ok(key, c.Pos(call), "every path on which the close succeeded stores nil into "+label+" before the function returns")
			}
		}
	}
	if n == 0 {
		c.Unknown("anchor: closes of field-held descriptors", "-", "cannot-analyse: lib/file closes no descriptor loaded from a struct field")
	}
}
