package rules

import (
	"fmt"
	"go/constant"
	"go/token"
	"regexp"
	"sort"
	"strings"

	"golang.org/x/tools/go/ssa"

	"verif/checker/core"
)

// R-EXT-1: file extensions are compared case-insensitively everywhere.
//
// The format of a table file is chosen from its extension in several places
// (loading, CREATE TABLE, --out): they agree only if every one of them folds
// the case before comparing with the lower-case extension constants. If CREATE
// TABLE `Report.TSV` compares the raw extension, the file is written as CSV
// while every later load reads it as TSV.

func init() {
	Register(&Rule{ID: "R-EXT-1", Props: []string{"C02"}, Floor: 3,
		Doc:      "extension tests see a lower-cased extension: for every comparison (==, !=, switch case) of a string with one of the file-extension constants of lib/option (the string constants of the form '.' + lower-case letters), the compared value originates — through φ, local variables and, for a parameter, at every call site (two levels) — from strings.ToLower(…), or is itself an extension constant; a raw filepath.Ext result, or a parameter that some caller feeds with one, is reported at the comparison with the offending origin. Writers and readers of a table pick its format by the same case-insensitive rule; deciding the format from the raw extension at one site makes `CREATE TABLE \"Report.TSV\"` a CSV file that is read back as TSV. Decides the case-folding of the compared value, not which format an extension maps to (R-FMT-1)",
		Controls: []string{"CtlExtensionComparedRaw"},
		Run:      ruleExt1})
}

var extConstRe = regexp.MustCompile(`^\.[a-z0-9]{1,8}$`)

func ruleExt1(c *Ctx) {
	// the extension constants of lib/option
	exts := map[string]bool{}
	if pk := c.P.SSAPkgs["lib/option"]; pk != nil {
		for _, m := range pk.Members {
			if nc, ok := m.(*ssa.NamedConst); ok && nc.Value != nil && nc.Value.Value != nil && nc.Value.Value.Kind() == constant.String {
				s := constant.StringVal(nc.Value.Value)
				if extConstRe.MatchString(s) && strings.HasSuffix(nc.Name(), "Ext") {
					exts[s] = true
				}
			}
		}
	}
	if len(exts) < 3 {
		c.Unknown("anchor: lib/option.*Ext", "-", "cannot-analyse: the file-extension constants of lib/option were not found")
		return
	}
	isExt := func(v ssa.Value) bool {
		k, ok := v.(*ssa.Const)
		return ok && k.Value != nil && k.Value.Kind() == constant.String && exts[constant.StringVal(k.Value)]
	}
	var folded func(fn *ssa.Function, v ssa.Value, depth int, seen map[ssa.Value]bool) string
	folded = func(fn *ssa.Function, v ssa.Value, depth int, seen map[ssa.Value]bool) string {
		for _, o := range core.Origins(v, true) {
			if seen[o] {
				continue
			}
			seen[o] = true
			switch x := o.(type) {
			case *ssa.Const:
				continue
			case *ssa.Call:
				name := c.P.CalleeName(x)
				switch name {
				case "strings.ToLower":
					continue
				case "strings.ToUpper":
					return "an upper-cased value (never equal to a lower-case extension)"
				case "strings.TrimSpace":
					if w := folded(fn, x.Common().Args[0], depth, seen); w != "" {
						return w
					}
					continue
				}
				return "the result of " + ctxCalleeLabel(c, x) + " (not lower-cased)"
			case *ssa.Parameter:
				if depth >= 2 {
					return "parameter " + x.Name() + " (callers not followed further)"
				}
				idx := -1
				for i, p := range x.Parent().Params {
					if p == x {
						idx = i
					}
				}
				callers := c.P.RealCallers(x.Parent())
				if c.P.IsControl(x.Parent()) {
					callers = c.P.Callers(x.Parent())
				}
				if len(callers) == 0 {
					return "parameter " + x.Name() + " of a function without known callers"
				}
				for _, e := range callers {
					if e.Site == nil || idx >= len(e.Site.Common().Args) {
						continue
					}
					if w := folded(e.Caller.Func, e.Site.Common().Args[idx], depth+1, seen); w != "" {
						return w + " — passed by " + c.P.Name(e.Caller.Func) + " at " + c.Pos(e.Site)
					}
				}
				continue
			case *ssa.UnOp:
				if x.Op == token.MUL {
					// an element of a slice of extension constants (range over the accepted extensions)
					if ia, ok := x.X.(*ssa.IndexAddr); ok && extList(ia.X, isExt) {
						continue
					}
				}
				return fmt.Sprintf("%s (not lower-cased)", describeValue(c.P, o))
			default:
				return fmt.Sprintf("%s (not lower-cased)", describeValue(c.P, o))
			}
		}
		return ""
	}
	n := 0
	for _, fn := range c.P.SrcFuncs() {
		k := 0
		var bad []string
		badPos, firstPos := "", ""
		for _, b := range fn.Blocks {
			for _, in := range b.Instrs {
				bo, ok := in.(*ssa.BinOp)
				if !ok || bo.Op != token.EQL && bo.Op != token.NEQ {
					continue
				}
				var other ssa.Value
				switch {
				case isExt(bo.X) && !isExt(bo.Y):
					other = bo.Y
				case isExt(bo.Y) && !isExt(bo.X):
					other = bo.X
				default:
					continue
				}
				k++
				n++
				if firstPos == "" {
					firstPos = c.Pos(bo)
				}
				if w := folded(fn, other, 0, map[ssa.Value]bool{}); w != "" {
					bad = append(bad, fmt.Sprintf("the value compared with an extension constant at %s is %s", c.Pos(bo), w))
					if badPos == "" {
						badPos = c.Pos(bo)
					}
				}
			}
		}
		if k == 0 {
			continue
		}
		c.Touch(fn)
		key := c.KeyAt(fn, "extension comparisons see a lower-cased value")
		if len(bad) > 0 {
			sort.Strings(bad)
			c.Bad(key, badPos, strings.Join(dedup(bad), "; ")+": a file whose extension is written with a capital letter gets another format here than where it is read")
		} else {
			c.OkN(key, firstPos, fmt.Sprintf("%d comparison(s) with extension constants, all on lower-cased values", k), k)
		}
	}
	c.Sites += n
}

// extList: v is a slice whose elements are all extension constants (a literal list of accepted extensions)
func extList(v ssa.Value, isExt func(ssa.Value) bool) bool {
	for _, o := range core.Origins(v, true) {
		switch x := o.(type) {
		case *ssa.Alloc:
			ok := false
			for _, r := range *x.Referrers() {
				if ia, isIA := r.(*ssa.IndexAddr); isIA {
					for _, rr := range *ia.Referrers() {
						if st, isSt := rr.(*ssa.Store); isSt && st.Addr == ssa.Value(ia) {
							if !isExt(st.Val) {
								return false
							}
							ok = true
						}
					}
				}
			}
			if !ok {
				return false
			}
		case *ssa.Parameter:
			return false
		default:
			return false
		}
	}
	return true
}
