package rules

import (
	"fmt"
	"go/token"
	"go/types"
	"sort"
	"strings"

	"golang.org/x/tools/go/ssa"

	"verif/checker/absint"
	"verif/checker/core"
)

// R-KEY-8 — the key SortValues.Serialize writes (PARTITION BY buckets by it)
// agrees with SortValue.EquivalentTo, the equality of the sort values.
//
// R-KEY-3 states it for SerializeKey (GROUP BY / DISTINCT / set operators);
// PARTITION BY goes through the second serialiser, which works on SortValues
// and was left behind by the repair of D84: FloatType is written with the float
// tag although EquivalentTo equates an integer and a float of the same value.

func init() {
	Register(&Rule{ID: "R-KEY-8", Props: []string{"C04", "C17"}, Floor: 1,
		Doc: "SortValues.Serialize and SortValue.EquivalentTo agree on every pair of sort value types of one comparability class (numbers: IntegerType / FloatType; DatetimeType; StringType; NullType against everything — BooleanType is outside, as in R-SRT-9). " +
			"From the code of Serialize: for every SortValueType constant the serialiser calls (csvq functions whose first parameter is the key buffer) reachable when every test of the value's Type is answered for that constant, each with its constant type tag (R-KEY-4's extraction) and the SortValue fields its payload is computed from. " +
			"From the code of EquivalentTo, executed by the abstract interpreter of R-SRT-1 over all non-strict worlds: the set of type pairs that can be equivalent. " +
			"Decided: every type writes a key; its payload comes only from the field that holds that type's datum (Integer, Float, Datetime, String; none for NULL); two types that can never be equivalent share no tag; two different types that can be equivalent share a tag, and where the float arm writes the integer's tag it does so for int64(f) under a test that f has no fractional part (R-KEY-3's recogniser: f == math.Trunc(f) written out, or a verified func(float64) (int64, bool) helper), and still writes the float tag otherwise",
		Controls: []string{"CtlSortValuesKeyFloatTagged"},
		Run:      ruleKey8})
}

var key8Field = map[string]string{"IntegerType": "Integer", "BooleanType": "Integer", "FloatType": "Float", "DatetimeType": "Datetime", "StringType": "String", "NullType": ""}

type key8Call struct {
	call   ssa.CallInstruction
	tag    string
	fields []string
}

func ruleKey8(c *Ctx) {
	equiv := c.Fn("lib/query.(*SortValue).EquivalentTo")
	ser := c.Fn("lib/query.(SortValues).Serialize")
	if equiv == nil || ser == nil {
		return
	}
	svt := c.P.Type("lib/query", "SortValueType")
	if svt == nil {
		c.Unknown("anchor:lib/query.SortValueType", "-", "cannot-analyse: lib/query.SortValueType not found")
		return
	}
	canEq, err := key8CanEq(c, equiv, svt)
	if err != "" {
		c.Unknown(c.KeyAt(ser, "key agrees with EquivalentTo"), c.FnPos(equiv), "cannot evaluate EquivalentTo: "+err)
		return
	}
	key8Check(c, ser, svt, canEq, false)
	for _, cf := range c.P.FuncsIn(true) {
		if !c.P.IsControl(cf) || cf.Parent() != nil {
			continue
		}
		neg := strings.HasPrefix(cf.Name(), "OkSortValuesKey")
		if !neg && !strings.HasPrefix(cf.Name(), "CtlSortValuesKey") {
			continue
		}
		c.Touch(cf)
		key8Check(c, cf, svt, canEq, neg)
	}
}

// key8CanEq: pairs of type names for which EquivalentTo answers true in some non-strict world.
func key8CanEq(c *Ctx, equiv *ssa.Function, svt types.Type) (map[string]bool, string) {
	if len(equiv.Params) != 2 {
		return nil, "expected two parameters"
	}
	cs := enumConstsOf(svt)
	svPtr := equiv.Params[0].Type()
	out := map[string]bool{}
	var errs []string
	_, err := absint.Enumerate(100000, func(w *absint.World) {
		it := sortValueInterp(c, w)
		A, B := absint.Obj("A", svPtr), absint.Obj("B", svPtr)
		r := it.Call(equiv, []absint.Val{A, B}, nil)
		if it.Err != nil {
			if len(errs) < 2 {
				errs = append(errs, it.Err.Error())
			}
			return
		}
		b, ok := r.BoolVal()
		if !ok && r.K == absint.KSym {
			b = it.Decide(r)
			ok = it.Err == nil
		}
		if !ok || w.Get("b:nil:A.SerializedKey") == 0 {
			return
		}
		ia, ib := w.Get("enum:A.Type"), w.Get("enum:B.Type")
		if ia < 0 || ib < 0 || ia >= len(cs) || ib >= len(cs) {
			return
		}
		if b {
			out[cs[ia].Name()+"|"+cs[ib].Name()] = true
		}
	})
	if err != nil {
		return nil, err.Error()
	}
	if len(errs) > 0 {
		return nil, strings.Join(errs, "; ")
	}
	return out, ""
}

func key8Check(c *Ctx, fn *ssa.Function, svt types.Type, canEq map[string]bool, negative bool) {
	key := c.KeyAt(fn, "key agrees with EquivalentTo")
	var bad []string
	unknown := ""
	arms := map[string][]key8Call{}
	cs := enumConstsOf(svt)
	var base ssa.Value
	// the tests on the type tag
	isTypeTest := func(cond ssa.Value) (k *ssa.Const, neq bool, ok bool) {
		b, isB := cond.(*ssa.BinOp)
		if !isB || (b.Op != token.EQL && b.Op != token.NEQ) {
			return nil, false, false
		}
		x, y := b.X, b.Y
		if _, isK := x.(*ssa.Const); isK {
			x, y = y, x
		}
		kk, isK := y.(*ssa.Const)
		if !isK || !types.Identical(x.Type(), svt) {
			return nil, false, false
		}
		if u, isU := x.(*ssa.UnOp); isU && u.Op == token.MUL {
			if fa, isFA := u.X.(*ssa.FieldAddr); isFA {
				if base == nil {
					base = fa.X
				} else if base != fa.X {
					unknown = "the type tags of two different sort values are tested"
				}
			}
		}
		return kk, b.Op == token.NEQ, true
	}
	for _, k := range cs {
		seen := map[*ssa.BasicBlock]bool{}
		var walk func(b *ssa.BasicBlock)
		walk = func(b *ssa.BasicBlock) {
			if seen[b] {
				return
			}
			seen[b] = true
			for _, in := range b.Instrs {
				call, ok := in.(ssa.CallInstruction)
				if !ok {
					continue
				}
				g := core.StaticCallee(call)
				if g == nil || g.Blocks == nil || (!c.P.InPkg(g, "lib/query") && !c.P.IsControl(g)) || len(g.Params) == 0 || g.Signature.Recv() != nil {
					continue
				}
				if !strings.HasSuffix(g.Params[0].Type().String(), "bytes.Buffer") {
					continue
				}
				tag, ok := tagOf(c, g)
				if !ok {
					unknown = "cannot extract the constant type tag of " + c.P.FnRef(g)
					continue
				}
				kc := key8Call{call: call, tag: tag}
				fs := map[string]bool{}
				for _, a := range call.Common().Args[1:] {
					key8Origins(a, fs, map[ssa.Value]bool{})
				}
				kc.fields = keysOf(fs)
				arms[k.Name()] = append(arms[k.Name()], kc)
			}
			if iff, ok := b.Instrs[len(b.Instrs)-1].(*ssa.If); ok {
				if kk, neq, isT := isTypeTest(iff.Cond); isT {
					eq := kk.Value != nil && kk.Value.ExactString() == k.Val().ExactString()
					if eq != neq {
						walk(b.Succs[0])
					} else {
						walk(b.Succs[1])
					}
					return
				}
			}
			for _, s := range b.Succs {
				walk(s)
			}
		}
		walk(fn.Blocks[0])
	}
	if base == nil {
		unknown = "no test of a SortValue's Type against a SortValueType constant found"
	}
	if unknown != "" {
		c.Unknown(key, c.FnPos(fn), "cannot-analyse: "+unknown)
		return
	}
	tags := func(t string) map[string]bool {
		m := map[string]bool{}
		for _, kc := range arms[t] {
			m[kc.tag] = true
		}
		return m
	}
	var names []string
	for _, k := range cs {
		names = append(names, k.Name())
	}
	for _, t := range names {
		if len(arms[t]) == 0 {
			bad = append(bad, t+" writes no key")
			continue
		}
		want, known := key8Field[t]
		if !known {
			bad = append(bad, "a SortValueType the rule has no datum field for: "+t)
			continue
		}
		for _, kc := range arms[t] {
			for _, f := range kc.fields {
				if f != want && f != "Type" {
					bad = append(bad, fmt.Sprintf("%s: the key %q is computed from the field %s, the datum EquivalentTo compares for this type is %s (at %s)", t, kc.tag, f, map[bool]string{true: "none", false: want}[want == ""], c.Pos(kc.call)))
				}
			}
		}
	}
	demanded := []string{"NullType", "IntegerType", "FloatType", "DatetimeType", "StringType"}
	pairs := 0
	for i, t1 := range demanded {
		for _, t2 := range demanded[i+1:] {
			if len(arms[t1]) == 0 || len(arms[t2]) == 0 {
				continue
			}
			pairs++
			eq := canEq[t1+"|"+t2] || canEq[t2+"|"+t1]
			var shared []string
			for tg := range tags(t1) {
				if tags(t2)[tg] {
					shared = append(shared, tg)
				}
			}
			sort.Strings(shared)
			switch {
			case !eq && len(shared) > 0:
				bad = append(bad, fmt.Sprintf("%s and %s are never equivalent but both write the tag %q: different values share a bucket", t1, t2, shared[0]))
			case eq && len(shared) == 0:
				bad = append(bad, fmt.Sprintf("EquivalentTo equates %s and %s of the same value (1 and 1.0 are peers of an ORDER BY and 1 = 1.0 is TRUE), but their keys never coincide (tags %s / %s): PARTITION BY puts them into different partitions", t1, t2, strings.Join(keysOf(tags(t1)), ","), strings.Join(keysOf(tags(t2)), ",")))
			case eq:
				// the float arm writes the integer's tag: only for a float without a fractional part, as that integer
				own := 0
				for _, kc := range arms["FloatType"] {
					if (t1 == "FloatType" || t2 == "FloatType") && kc.tag == shared[0] {
						if !key3IntegerKeyOfWholeFloat(c, kc.call) {
							bad = append(bad, fmt.Sprintf("FloatType writes the tag %q of %s at %s, but not as int64(f) under a test that f has no fractional part: 1.5 would share the key of 1", shared[0], t1, c.Pos(kc.call)))
						}
					} else {
						own++
					}
				}
				if (t1 == "FloatType" || t2 == "FloatType") && own == 0 {
					bad = append(bad, "FloatType never writes a key of its own: a float with a fractional part has no key")
				}
			}
		}
	}
	if len(bad) > 0 {
		bad = dedup(bad)
		sort.Strings(bad)
		why := strings.Join(bad, "; ")
		c.Bad(key, c.FnPos(fn), why)
		if negative {
			c.Unknown("negative-control:"+key, "-", "the rule reports "+fn.Name()+", a correct spelling: "+why)
		}
		return
	}
	c.OkN(key, c.FnPos(fn), fmt.Sprintf("%d types × serialiser calls, %d pairs of one comparability class: tags coincide exactly for the pairs EquivalentTo can equate (%s), the float arm writes the integer key only for a whole float", len(names), pairs, strings.Join(keysOf(canEq), " ")), len(names)*len(names))
}

// key8Origins: the SortValue fields a payload expression is computed from.
func key8Origins(v ssa.Value, out map[string]bool, seen map[ssa.Value]bool) {
	if v == nil || seen[v] {
		return
	}
	seen[v] = true
	switch x := v.(type) {
	case *ssa.UnOp:
		if x.Op == token.MUL {
			if fa, ok := x.X.(*ssa.FieldAddr); ok {
				if n := core.FieldName(fa); n != "" {
					out[n] = true
				}
				return
			}
		}
		key8Origins(x.X, out, seen)
	case *ssa.Field:
		if n := core.FieldName(x); n != "" {
			out[n] = true
		}
	case *ssa.Call:
		for _, a := range x.Call.Args {
			key8Origins(a, out, seen)
		}
		if x.Call.IsInvoke() {
			key8Origins(x.Call.Value, out, seen)
		}
	case *ssa.Extract:
		key8Origins(x.Tuple, out, seen)
	case *ssa.Convert:
		key8Origins(x.X, out, seen)
	case *ssa.ChangeType:
		key8Origins(x.X, out, seen)
	case *ssa.MakeInterface:
		key8Origins(x.X, out, seen)
	case *ssa.BinOp:
		key8Origins(x.X, out, seen)
		key8Origins(x.Y, out, seen)
	case *ssa.Phi:
		for _, e := range x.Edges {
			key8Origins(e, out, seen)
		}
	}
}
