package rules

import (
	"fmt"
	"go/constant"
	"go/token"
	"go/types"
	"sort"
	"strings"

	"golang.org/x/tools/go/ssa"

	"verif/checker/core"
)

// C01 — the transaction skeleton: R-TXN-1,2,3,4,5,7,8 (R-TXN-6 lives in c01.go).
//
// All rules here are path / call-site / who-may-call rules over the SSA of a
// handful of anchored functions. "calls X" always means "calls something that
// reaches X in the VTA call graph", so extracting a step into a helper does not
// change a verdict.

const (
	txnTxCommit     = "lib/query.(*Transaction).Commit"
	txnTxRollback   = "lib/query.(*Transaction).Rollback"
	txnTxRelease    = "lib/query.(*Transaction).ReleaseResources"
	txnTxReleaseE   = "lib/query.(*Transaction).ReleaseResourcesWithErrors"
	txnProcExecute  = "lib/query.(*Processor).Execute"
	txnExecStmt     = "lib/query.(*Processor).ExecuteStatement"
	txnNewProcessor = "lib/query.NewProcessor"
	txnEncodeView   = "lib/query.EncodeView"
	txnContCommit   = "lib/file.(*Container).Commit"
	txnUVClean      = "lib/query.(*UncommittedViews).Clean"
	txnUVUnset      = "lib/query.(*UncommittedViews).Unset"
	txnUVFiles      = "lib/query.(*UncommittedViews).UncommittedFiles"
	txnUVTemp       = "lib/query.(*UncommittedViews).UncommittedTempViews"
	txnUVSetUpd     = "lib/query.(*UncommittedViews).SetForUpdatedView"
	txnUVSetCre     = "lib/query.(*UncommittedViews).SetForCreatedView"
	txnStoreTemp    = "lib/query.(*ReferenceScope).StoreTemporaryTable"
	txnRestoreTemp  = "lib/query.(*ReferenceScope).RestoreTemporaryTable"
	txnSetTemp      = "lib/query.(*ReferenceScope).SetTemporaryTable"
	txnReplaceTemp  = "lib/query.(*ReferenceScope).ReplaceTemporaryTable"
	txnVMSet        = "lib/query.(ViewMap).Set"
	txnVMStore      = "lib/query.(ViewMap).Store"
	txnVMClean      = "lib/query.(ViewMap).Clean"
	txnVMCleanE     = "lib/query.(ViewMap).CleanWithErrors"
	txnContCloseAll = "lib/file.(*Container).CloseAll"
	txnContCloseE   = "lib/file.(*Container).CloseAllWithErrors"
	txnFileForUpd   = "lib/file.(*Handler).FileForUpdate"
	txnActionRun    = "lib/action.Run"
	txnCmdAction    = "lib/cli.commandAction"
)

func init() {
	Register(&Rule{ID: "R-TXN-1", Props: []string{"C01"}, Floor: 7,
		Doc:      "commit gating: every call site that can invoke (*Transaction).Commit is (a) a single-block forwarder whose own callers are examined instead, (b) reachable only through the true edge of `<TransactionControl>.Token == COMMIT`, or (c) reachable only through the edges `e == nil` and `flow == Terminate` on the two results of one call that reaches ExecuteStatement; Tx.AutoCommit is stored only by its constructor (false) and by action.Run (true), and in action.Run the store of true lies on every path to the call of (*Processor).Execute",
		Controls: []string{"CtlTxn1CommitOnAnyFlow", "CtlTxn1AutoCommitElsewhere"},
		Run:      ruleTxn1})
	Register(&Rule{ID: "R-TXN-2", Props: []string{"C01", "C11"}, Floor: 7,
		Doc:      "rollback on every exit: in the closure returned by cli.commandAction, deferred calls that on each of their paths reach (*Transaction).Rollback and (*Transaction).ReleaseResourcesWithErrors dominate every call that receives the *Processor or can reach (*Processor).Execute; calls made before that defer open files only through a container of their own that a dominating defer closes; signal.Notify is given action.Signals and, like the `go` statement whose function receives from that channel and calls the cancel function of the context handed to the action, dominates those calls; action.Signals (loaded GOOS; darwin and windows too in the thorough tier) contains SIGINT, SIGTERM, SIGQUIT, SIGHUP and SIGPIPE — a signal outside the table ends the process by its default action, without the deferred rollback",
		Controls: []string{"CtlTxn2LateRollbackDefer"},
		Run:      ruleTxn2})
	Register(&Rule{ID: "R-TXN-3", Props: []string{"C01", "C10"}, Floor: 6,
		Doc:      "two-phase commit order: in (*Transaction).Commit, in every lib/query function reachable from it that swaps files, and in every lib/query function Commit statically calls (transitively) that writes a table file itself (truncate/seek/EncodeView/write helper), no path leads from a call that reaches (*file.Container).Commit to a call that reaches EncodeView or to (*os.File).Write/WriteString/WriteAt/Truncate/Seek/ReadFrom: every new content is completely written before the first file is swapped; and on the path where such a write returns a non-nil error (a discarded error counts as failing) neither a swap nor a return that can report success is reachable",
		Controls: []string{"CtlTxn3SwapInsideEncodeLoop", "CtlTxn3WriteErrorOnlyLogged"},
		Run:      ruleTxn3})
	Register(&Rule{ID: "R-TXN-4", Props: []string{"C01"}, Floor: 24,
		Doc:      "every publisher is marked: (i) the callers of (ViewMap).Set/Store, SetTemporaryTable and ReplaceTemporaryTable are exactly a frozen table (9 statement functions, 2 loaders, DeclareView, plumbing); an unexported function that hands only its own *View parameter to these primitives and has callers counts as a publishing helper and the question is decided on its callers instead (two levels); (ii) for every call of a statement function F (a publisher returning *FileInfo or []*FileInfo), on every path after the call on which F's error is nil and F's own count is positive, UncommittedViews.SetForUpdatedView/SetForCreatedView is called with F's FileInfo before the function returns — directly, or by a csvq helper (followed for two levels) that receives the FileInfo and the count, or the two slices, and is itself shown to mark what it receives (for slice results: the loop over the FileInfos is reached, runs 0..len, and in each iteration the element whose count of the same index is positive is marked)",
		Controls: []string{"CtlTxn4MarkNeedsTwoRows", "CtlTxn4MarkOnlyFirst", "CtlTxn4UnlistedPublisher"},
		Run:      ruleTxn4})
	Register(&Rule{ID: "R-TXN-5", Props: []string{"C01", "C20"}, Floor: 16,
		Doc:      "terminal steps: every return of Commit that may yield nil has passed StoreTemporaryTable, UncommittedViews.Clean and ReleaseResources; of Rollback: RestoreTemporaryTable (on paths where scope != nil), Clean, ReleaseResources; of ReleaseResources: CachedViews.Clean and FileContainer.CloseAll; every return of ReleaseResourcesWithErrors has passed CleanWithErrors and CloseAllWithErrors; UncommittedViews.Clean is never followed by a read of the uncommitted sets; in the Range callbacks of Restore/StoreTemporaryTable the IsTemporaryTable arm (guarded only by membership in the uncommitted set and !IsStdin) always calls View.Restore / View.CreateRestorePoint and the IsStdin arm ViewMap.Delete / Session.updateStdinView; DeclareView calls CreateRestorePoint on the view before SetTemporaryTable",
		Controls: []string{"CtlTxn5RollbackSkipsRestore", "CtlTxn5CleanBeforeStore"},
		Run:      ruleTxn5})
	Register(&Rule{ID: "R-TXN-7", Props: []string{"C01", "C11"}, Floor: 9,
		Doc:      "no process exit under an open transaction: no function outside the standard library (whose only such call, log.Fatalf in net/http's idle-connection invariant check, is not a csvq decision) that is reachable from (*Processor).Execute calls os.Exit, syscall.Exit, runtime.Goexit, log.Fatal/Fatalf/Fatalln or (*log.Logger).Fatal*: the deferred rollback always gets to run",
		Controls: []string{"CtlTxn7ExitInStatement"},
		Run:      ruleTxn7})
	Register(&Rule{ID: "R-TXN-8", Props: []string{"C01", "C10"}, Floor: 7,
		Doc:      "what is encoded is what is swapped: in (*Transaction).Commit every encode — a direct EncodeView call, or a call of a per-view helper shown to encode one view and to return that view's FileInfo on every success return — writes through the FileForUpdate descriptor of the handler of the view it encodes; after a successful encode every path appends that view's FileInfo to a slice before the next encode, a swap or a return that can report success; the slices whose elements' handlers are swapped (Container.Commit in a loop over the whole slice) are exactly those slices, each built only by one make and those appends; the encoded views derive from both maps returned by UncommittedFiles; after a successful swap the same FileInfo is Unset before the next swap or success return. Helper extraction is followed for two levels on the encode side (per-view helper; helper that encodes the view it is handed into the file it is handed and returns only the error — view and file parameters are mapped back to the arguments of the call, which then stands for the encode; helper that encodes the views of its map parameter and returns the list) and one level on the swap side (helper that swaps and Unsets every element of its slice parameter); anything else is reported as undecided",
		Controls: []string{"CtlTxn8SwapsOtherList", "CtlTxn8HandedOtherFile"},
		Run:      ruleTxn8})
}

// ---------------------------------------------------------------------------
// shared helpers

// txnCtl returns the control-package functions (incl. their closures) whose
// name contains tag.
func txnCtl(c *Ctx, tag string) []*ssa.Function {
	var out []*ssa.Function
	for _, f := range c.P.FuncsIn(true) {
		if strings.Contains(c.P.Name(f), tag) {
			out = append(out, f)
		}
	}
	return out
}

// txnIsSrc: g is a csvq (or control) function known by its short name.
func txnIsSrc(p *core.Prog, g *ssa.Function) bool { return g != nil && p.Func(p.Name(g)) == g }

// txnBarrier: the statement interpreter. "f reaches X" below means "without
// going through the interpreter": SELECT can run a user-defined function whose
// body contains COMMIT, which would otherwise make every evaluation "reach"
// every transaction step.
var txnBarrier = []string{txnExecStmt}

// txnSet: the functions that can reach one of names (not through the interpreter).
func txnSet(p *core.Prog, names ...string) map[*ssa.Function]bool {
	return p.CanReach(names, txnBarrier)
}

// txnCallIn is Prog.CallIn, except that a call whose static callee belongs to
// the standard library reaches csvq code only through a closure it is handed:
// the call graph otherwise lets fmt.Sprintf & co. "reach" every function that is
// also used as a callback somewhere (sync.Map.Range callbacks made
// View.Restore / CreateRestorePoint reachable from 2384 stdlib functions).
func txnCallIn(p *core.Prog, call ssa.CallInstruction, set map[*ssa.Function]bool) bool {
	if k := core.StaticCallee(call); k != nil && k.Parent() == nil && txn7StdLib(k) && core.FnPkg(k) != nil {
		for _, a := range call.Common().Args {
			if mc, ok := a.(*ssa.MakeClosure); ok {
				if f, ok := mc.Fn.(*ssa.Function); ok && set[f] {
					return true
				}
			}
		}
		return false
	}
	return p.CallIn(call, set)
}

func txnReaches(p *core.Prog, call ssa.CallInstruction, names ...string) bool {
	return txnCallIn(p, call, txnSet(p, names...))
}

// txnCallsReaching lists the call sites of fn that reach one of names.
func txnCallsReaching(p *core.Prog, fn *ssa.Function, names ...string) []ssa.CallInstruction {
	set := txnSet(p, names...)
	return core.CallsWhere(fn, func(c ssa.CallInstruction) bool { return txnCallIn(p, c, set) })
}

// txnIsCall builds an instruction predicate: a call (not a defer/go
// registration) that reaches one of names.
func txnIsCall(p *core.Prog, names ...string) func(ssa.Instruction) bool {
	set := txnSet(p, names...)
	return func(in ssa.Instruction) bool {
		call, ok := in.(*ssa.Call)
		return ok && txnCallIn(p, call, set)
	}
}

// txnOrd makes keys unique within one rule run: the first occurrence keeps the
// plain key, later ones get " #2", " #3" … (in source order, stable).
func txnOrd(seen map[string]int, key string) string {
	seen[key]++
	if n := seen[key]; n > 1 {
		return fmt.Sprintf("%s #%d", key, n)
	}
	return key
}

func txnCallLabel(p *core.Prog, call ssa.CallInstruction) string {
	if n := p.CalleeName(call); n != "" {
		return n
	}
	return "dynamic call " + call.Common().Value.Name()
}

// txnConst looks up a package-level integer constant.
func txnConst(p *core.Prog, pkg, name string) (int64, bool) {
	pk := p.ByPath[pkg]
	if pk == nil {
		return 0, false
	}
	k, ok := pk.Types.Scope().Lookup(name).(*types.Const)
	if !ok || k.Val().Kind() != constant.Int {
		return 0, false
	}
	v, exact := constant.Int64Val(k.Val())
	return v, exact
}

// txnValueIs: v is target, or a load of a local cell whose only store is target.
func txnValueIs(v, target ssa.Value) bool {
	if v == target {
		return true
	}
	if a, ok := core.Addr(v).(*ssa.Alloc); ok && a != nil {
		vals, complete := core.StoresTo(a)
		return complete && len(vals) == 1 && vals[0] == target
	}
	return false
}

// txnThroughCell: a load of a local cell with exactly one store is that store's value.
func txnThroughCell(v ssa.Value) ssa.Value {
	for i := 0; i < 4; i++ {
		a, ok := core.Addr(v).(*ssa.Alloc)
		if !ok || a == nil {
			return v
		}
		vals, complete := core.StoresTo(a)
		if !complete || len(vals) != 1 {
			return v
		}
		v = vals[0]
	}
	return v
}

// txnErrOf returns the error result value of a call (nil if it has none or the
// result is discarded).
func txnErrOf(call *ssa.Call) (errV ssa.Value, hasErr bool) {
	res := call.Call.Signature().Results()
	if res.Len() == 0 || !core.IsErrorType(res.At(res.Len()-1).Type()) {
		return nil, false
	}
	if res.Len() == 1 {
		return call, true
	}
	return txnExtract(call, res.Len()-1), true
}

// txnNilEdge: the edge asserts `x == nil` (wantNil) / `x != nil` (!wantNil) for an x
// accepted by is.
func txnNilEdge(from, to *ssa.BasicBlock, is func(ssa.Value) bool, wantNil bool) bool {
	cond, holds, ok := core.CondEdge(from, to)
	if !ok {
		return false
	}
	cond, neg := core.UnNot(cond)
	if neg {
		holds = !holds
	}
	x, neq, ok := core.NilCmp(cond)
	if !ok || !is(x) {
		return false
	}
	isNil := neq != holds // (x != nil) false, or (x == nil) true
	return isNil == wantNil
}

// txnCmpConst decomposes `x OP const` / `const OP x` into (x, op normalised so
// that x is on the left, const value).
func txnCmpConst(cond ssa.Value) (x ssa.Value, op token.Token, k int64, ok bool) {
	b, isB := cond.(*ssa.BinOp)
	if !isB {
		return nil, 0, 0, false
	}
	switch b.Op {
	case token.EQL, token.NEQ, token.LSS, token.LEQ, token.GTR, token.GEQ:
	default:
		return nil, 0, 0, false
	}
	if v, isK := core.ConstInt(b.Y); isK {
		return b.X, b.Op, v, true
	}
	if v, isK := core.ConstInt(b.X); isK {
		flip := map[token.Token]token.Token{token.EQL: token.EQL, token.NEQ: token.NEQ, token.LSS: token.GTR, token.LEQ: token.GEQ, token.GTR: token.LSS, token.GEQ: token.LEQ}
		return b.Y, flip[b.Op], v, true
	}
	return nil, 0, 0, false
}

// txnEqEdge: the edge asserts `x == k` for an x accepted by is.
func txnEqEdge(from, to *ssa.BasicBlock, is func(ssa.Value) bool, k int64) bool {
	cond, holds, ok := core.CondEdge(from, to)
	if !ok {
		return false
	}
	cond, neg := core.UnNot(cond)
	if neg {
		holds = !holds
	}
	x, op, kv, ok := txnCmpConst(cond)
	if !ok || kv != k || !is(x) {
		return false
	}
	return (op == token.EQL && holds) || (op == token.NEQ && !holds)
}

// txnPositive classifies a condition as equivalent to `x > 0` (pos=true) or to
// its negation (pos=false) for an integer x that is a count (never negative).
func txnPositive(cond ssa.Value) (x ssa.Value, pos bool, ok bool) {
	cond, neg := core.UnNot(cond)
	v, op, k, isCmp := txnCmpConst(cond)
	if !isCmp {
		return nil, false, false
	}
	switch {
	case op == token.GTR && k == 0, op == token.GEQ && k == 1, op == token.NEQ && k == 0:
		return v, !neg, true
	case op == token.LEQ && k == 0, op == token.LSS && k == 1, op == token.EQL && k == 0:
		return v, neg, true
	}
	return nil, false, false
}

func txnExtract(call *ssa.Call, idx int) ssa.Value {
	if call.Referrers() == nil {
		return nil
	}
	for _, r := range *call.Referrers() {
		if e, ok := r.(*ssa.Extract); ok && e.Index == idx {
			return e
		}
	}
	return nil
}

func txnSortedFuncs(p *core.Prog, set map[*ssa.Function]bool) []*ssa.Function {
	var out []*ssa.Function
	for f := range set {
		out = append(out, f)
	}
	sort.Slice(out, func(i, j int) bool { return p.FnRef(out[i]) < p.FnRef(out[j]) })
	return out
}

// txnMayReturnNil: the error result of r may be nil (the return is, or may be,
// a success return).
func txnMayReturnNil(r *ssa.Return, errIdx int) bool {
	for _, v := range core.ReturnOperand(r, errIdx) {
		if v == nil || core.ClassifyNil(v, r) != core.NonNil {
			return true
		}
	}
	return false
}

// ---------------------------------------------------------------------------
// R-TXN-1 commit gating

func ruleTxn1(c *Ctx) {
	p := c.P
	txCommit := c.Fn(txnTxCommit)
	execStmt := c.Fn(txnExecStmt)
	run := c.Fn(txnActionRun)
	if txCommit == nil || execStmt == nil || run == nil {
		return
	}
	terminate, ok1 := txnConst(p, "lib/query", "Terminate")
	commitTok, ok2 := txnConst(p, "lib/parser", "COMMIT")
	if !ok1 || !ok2 {
		c.Unknown("anchor:constants", "-", "cannot-analyse: constants lib/query.Terminate / lib/parser.COMMIT do not resolve")
		return
	}
	reachesExec := txnSet(p, txnExecStmt)

	isTokenOfTC := func(v ssa.Value) bool {
		switch x := v.(type) {
		case *ssa.Field:
			return core.FieldOwner(x) == "lib/parser.TransactionControl.Token"
		case *ssa.UnOp:
			if fa, ok := x.X.(*ssa.FieldAddr); ok && x.Op == token.MUL {
				return core.FieldOwner(fa) == "lib/parser.TransactionControl.Token"
			}
		}
		return false
	}

	ord := map[string]int{}
	commitFns := map[*ssa.Function]bool{txCommit: true}
	work := []*ssa.Function{txCommit}
	seenSite := map[ssa.CallInstruction]bool{}
	for len(work) > 0 {
		target := work[0]
		work = work[1:]
		edges := p.Callers(target)
		sort.Slice(edges, func(i, j int) bool { return p.FnRef(edges[i].Caller.Func) < p.FnRef(edges[j].Caller.Func) })
		for _, e := range edges {
			g := e.Caller.Func
			if g.Synthetic != "" && g.Parent() == nil { // wrappers, bound-method thunks: transparent
				if !commitFns[g] {
					commitFns[g] = true
					work = append(work, g)
				}
				continue
			}
			site := e.Site
			if site == nil || seenSite[site] {
				continue
			}
			seenSite[site] = true
			if !txnIsSrc(p, g) {
				continue
			}
			c.Sites++
			c.Touch(g)
			in := site.(ssa.Instruction)
			key := txnOrd(ord, c.KeyAt(g, "commit via "+p.FnRef(target)))
			// (b) the COMMIT arm
			armCut := func(from, to *ssa.BasicBlock) bool { return txnEqEdge(from, to, isTokenOfTC, commitTok) }
			if !core.ReachesFromEntry(g, in, nil, armCut) {
				c.Ok(key, c.Pos(in), "reachable only through the true edge of TransactionControl.Token == COMMIT")
				continue
			}
			// (c) err == nil ∧ flow == Terminate on the results of one statement-executing call
			gated, partial := false, ""
			for _, k := range core.Calls(g) {
				kc, isCall := k.(*ssa.Call)
				if !isCall || !txnCallIn(p, kc, reachesExec) {
					continue
				}
				sig := kc.Call.Signature().Results()
				if sig.Len() != 2 || core.NamedOf(sig.At(0).Type()) != "lib/query.StatementFlow" || !core.IsErrorType(sig.At(1).Type()) {
					continue
				}
				flowV, errV := txnExtract(kc, 0), txnExtract(kc, 1)
				isErr := func(v ssa.Value) bool { return errV != nil && txnValueIs(v, errV) }
				isFlow := func(v ssa.Value) bool { return flowV != nil && txnValueIs(v, flowV) }
				errOK := !core.ReachesFromEntry(g, in, nil, func(f, t *ssa.BasicBlock) bool { return txnNilEdge(f, t, isErr, true) })
				flowOK := !core.ReachesFromEntry(g, in, nil, func(f, t *ssa.BasicBlock) bool { return txnEqEdge(f, t, isFlow, terminate) })
				if errOK && flowOK {
					gated = true
					break
				}
				if errOK {
					partial = "it is guarded by the error of " + txnCallLabel(p, kc) + " being nil but can be reached without its flow being Terminate (EXIT, BREAK … would commit)"
				} else if flowOK {
					partial = "it is guarded by the flow of " + txnCallLabel(p, kc) + " being Terminate but can be reached when its error is non-nil"
				}
			}
			if gated {
				c.Ok(key, c.Pos(in), "reachable only through `err == nil` and `flow == Terminate` of the statement-executing call")
				continue
			}
			// (a) forwarder
			if len(g.Blocks) == 1 && !p.IsControl(g) {
				if !commitFns[g] {
					commitFns[g] = true
					work = append(work, g)
				}
				c.Ok(key, c.Pos(in), "single-block forwarder: its own callers are examined instead")
				continue
			}
			why := "this call can start a commit without being the COMMIT statement arm and without `err == nil && flow == Terminate` of a statement-executing call"
			if partial != "" {
				why = "commit is not gated on a clean normal end: " + partial
			}
			c.Bad(key, c.Pos(in), why)
		}
	}

	// Tx.AutoCommit: who stores it, and the store in action.Run precedes Execute
	const field = "lib/query.Transaction.AutoCommit"
	var runStores []ssa.Instruction
	for _, fn := range p.SrcFuncs() {
		n := 0
		for _, b := range fn.Blocks {
			for _, in := range b.Instrs {
				st, ok := in.(*ssa.Store)
				if !ok || core.FieldOwner(st.Addr) != field {
					continue
				}
				n++
				c.Touch(fn)
				key := c.KeyAt(fn, fmt.Sprintf("store to Transaction.AutoCommit #%d", n))
				bv, isConst := core.ConstBool(st.Val)
				switch {
				case fn == run && isConst && bv:
					runStores = append(runStores, in)
					c.Ok(key, c.Pos(in), "action.Run enables auto-commit for a non-interactive run")
				case isConst && !bv && txnFreshTransaction(st.Addr):
					c.Ok(key, c.Pos(in), "constructor initialises the field of the Transaction it allocates to false")
				default:
					c.Bad(key, c.Pos(in), "Transaction.AutoCommit is written outside action.Run / the constructor: a normal end could silently roll back, or an interactive session commit without COMMIT")
				}
			}
		}
	}
	isRunStore := func(in ssa.Instruction) bool {
		for _, s := range runStores {
			if s == in {
				return true
			}
		}
		return false
	}
	nExec := 0
	for _, call := range txnCallsReaching(p, run, txnProcExecute) {
		if _, isCall := call.(*ssa.Call); !isCall {
			continue
		}
		nExec++
		in := call.(ssa.Instruction)
		key := c.KeyAt(run, fmt.Sprintf("AutoCommit enabled before %s #%d", txnCallLabel(p, call), nExec))
		if core.ReachesFromEntry(run, in, isRunStore, nil) {
			c.Bad(key, c.Pos(in), "a path reaches the execution of the statements without `proc.Tx.AutoCommit = true`: the procedure would end normally and be rolled back by the deferred AutoRollback")
		} else {
			c.Ok(key, c.Pos(in), "every path to the call stores true into Tx.AutoCommit first")
		}
	}
	if nExec == 0 {
		c.Unknown(c.KeyAt(run, "call of (*Processor).Execute"), c.FnPos(run), "cannot-analyse: action.Run no longer reaches (*Processor).Execute")
	}
}

// txnFreshTransaction: addr is a field of a Transaction allocated right here.
func txnFreshTransaction(addr ssa.Value) bool {
	fa, ok := addr.(*ssa.FieldAddr)
	if !ok {
		return false
	}
	_, isAlloc := fa.X.(*ssa.Alloc)
	return isAlloc
}

// ---------------------------------------------------------------------------
// R-TXN-2 rollback on every exit

func ruleTxn2(c *Ctx) {
	p := c.P
	ca := c.Fn(txnCmdAction)
	if ca == nil || c.Fn(txnTxRollback) == nil || c.Fn(txnTxReleaseE) == nil || c.Fn(txnProcExecute) == nil {
		return
	}
	var closures []*ssa.Function
	for _, af := range ca.AnonFuncs {
		if len(p.CallsNamed(af, txnNewProcessor)) > 0 {
			closures = append(closures, af)
		}
	}
	if len(closures) == 0 {
		c.Unknown(c.KeyAt(ca, "closure creating the Processor"), c.FnPos(ca), "cannot-analyse: no closure of commandAction calls query.NewProcessor")
		return
	}
	for _, f := range closures {
		txn2Closure(c, f, true)
	}
	for _, f := range txnCtl(c, "Txn2") {
		if f.Parent() == nil {
			txn2Closure(c, f, false)
		}
	}
	txn2SignalTable(c)
}

// txn2MustReach: every path through the deferred callee passes a call reaching name.
func txn2MustReach(p *core.Prog, d *ssa.Defer, name string) bool {
	callees := p.Callees(d)
	if len(callees) == 0 {
		return false
	}
	for _, k := range callees {
		if p.FnRef(k) == name {
			continue
		}
		if k.Blocks == nil {
			return false
		}
		if len(k.Blocks) == 1 {
			if !txnSet(p, name)[k] {
				return false
			}
			continue
		}
		if len(core.ExitsFromEntry(k, txnIsCall(p, name), nil)) > 0 {
			return false
		}
	}
	return true
}

func txn2Closure(c *Ctx, f *ssa.Function, full bool) {
	p := c.P
	c.Touch(f)
	var dRoll, dRel []*ssa.Defer
	for _, call := range core.Calls(f) {
		d, ok := call.(*ssa.Defer)
		if !ok {
			continue
		}
		if txn2MustReach(p, d, txnTxRollback) {
			dRoll = append(dRoll, d)
		}
		if txn2MustReach(p, d, txnTxReleaseE) {
			dRel = append(dRel, d)
		}
	}
	keyD := c.KeyAt(f, "deferred rollback and release")
	switch {
	case len(dRoll) == 0:
		c.Bad(keyD, c.FnPos(f), "no deferred call reaches (*Transaction).Rollback on all of its paths: an error, EXIT or interrupt would leave the uncommitted changes without a rollback")
	case len(dRel) == 0:
		c.Bad(keyD, c.FnPos(f), "no deferred call reaches (*Transaction).ReleaseResourcesWithErrors on all of its paths: lock and temporary files would survive the process")
	default:
		c.Ok(keyD, c.Pos(dRoll[0]), fmt.Sprintf("%d deferred call(s) always reach Rollback, %d always reach ReleaseResourcesWithErrors", len(dRoll), len(dRel)))
	}
	domBy := func(ds []*ssa.Defer, in ssa.Instruction) bool {
		for _, d := range ds {
			if core.Dominates(d, in) {
				return true
			}
		}
		return false
	}
	isOurDefer := func(in ssa.Instruction) bool {
		for _, d := range append(append([]*ssa.Defer{}, dRoll...), dRel...) {
			if d == in {
				return true
			}
		}
		return false
	}
	reachesExec := txnSet(p, txnProcExecute)
	ord := map[string]int{}
	var uses []ssa.CallInstruction // calls that receive the processor or can execute statements
	var early []ssa.CallInstruction
	for _, call := range core.Calls(f) {
		in := call.(ssa.Instruction)
		if isOurDefer(in) {
			continue
		}
		recv := false
		args := call.Common().Args
		if call.Common().IsInvoke() {
			args = append([]ssa.Value{call.Common().Value}, args...)
		}
		for _, a := range args {
			if core.NamedOf(a.Type()) == "lib/query.Processor" {
				recv = true
			}
		}
		runs := txnCallIn(p, call, reachesExec)
		if recv || runs {
			uses = append(uses, call)
			c.Sites++
			what := "receives the Processor"
			if runs {
				what = "can reach (*Processor).Execute"
			}
			key := txnOrd(ord, c.KeyAt(f, "rollback registered before "+txnCallLabel(p, call)))
			if len(dRoll) > 0 && len(dRel) > 0 && domBy(dRoll, in) && domBy(dRel, in) {
				c.Ok(key, c.Pos(in), "the call "+what+" and is dominated by the rollback/release defer")
			} else {
				c.Bad(key, c.Pos(in), "the call "+what+" but the deferred Rollback + ReleaseResourcesWithErrors is not yet registered on every path to it: a failure here leaves uncommitted changes and lock/temp files behind")
			}
			continue
		}
		if len(dRoll) > 0 && len(dRel) > 0 && domBy(dRoll, in) && domBy(dRel, in) {
			continue
		}
		early = append(early, call)
	}
	if len(uses) == 0 {
		c.Unknown(c.KeyAt(f, "calls using the Processor"), c.FnPos(f), "cannot-analyse: the closure has no call that receives the Processor or reaches Execute")
	}
	if !full {
		return
	}

	// side condition: what runs before the defer opens files only in a container of its own
	reachEarly := map[*ssa.Function]bool{}
	for _, call := range early {
		for _, k := range p.Callees(call) {
			for g := range p.ReachSet(k) {
				reachEarly[g] = true
			}
		}
	}
	for _, g := range txnSortedFuncs(p, reachEarly) {
		if !txnIsSrc(p, g) || g.Blocks == nil || p.InPkg(g, "lib/file") {
			continue
		}
		for _, call := range core.Calls(g) {
			n := p.CalleeName(call)
			if !strings.HasPrefix(n, "lib/file.(*Container).CreateHandler") {
				continue
			}
			c.Touch(g)
			in := call.(ssa.Instruction)
			key := txnOrd(ord, c.KeyAt(g, "own container for "+strings.TrimPrefix(n, "lib/file.(*Container).")))
			if why, where := txn2ContainerOwned(p, g, call.Common().Args[0], in, 0); why != "" {
				c.Bad(key, c.Pos(in), "runs before the rollback defer of commandAction is registered and "+why+": nothing would release the file on failure")
			} else {
				c.Ok(key, c.Pos(in), "runs before the rollback defer, on a container created in "+where+" and closed there by a dominating defer")
			}
		}
	}

	// signals → cancel
	var execCalls []ssa.CallInstruction
	for _, u := range uses {
		if txnCallIn(p, u, reachesExec) {
			if _, isCall := u.(*ssa.Call); isCall {
				execCalls = append(execCalls, u)
			}
		}
	}
	domAll := func(in ssa.Instruction) bool {
		for _, u := range execCalls {
			if !core.Dominates(in, u.(ssa.Instruction)) {
				return false
			}
		}
		return true
	}
	// the context handed to the action and its cancel function
	keyN := c.KeyAt(f, "signal.Notify(ch, action.Signals...)")
	keyG := c.KeyAt(f, "goroutine: signal -> cancel of the action's context")
	var ctxs []ssa.Value
	for _, u := range execCalls {
		for _, a := range u.Common().Args {
			if strings.HasSuffix(a.Type().String(), "context.Context") {
				ctxs = append(ctxs, a)
			}
		}
	}
	var withCancel *ssa.Call
	ctxOK := len(ctxs) > 0
	for _, cv := range ctxs {
		call, idx, ok := core.ExtractOf(txnThroughCell(cv))
		if !ok || idx != 0 || p.CalleeName(call) != "context.WithCancel" || (withCancel != nil && withCancel != call) {
			ctxOK = false
			break
		}
		withCancel = call
	}
	var cancelV ssa.Value
	if ctxOK && withCancel != nil {
		cancelV = txnExtract(withCancel, 1)
	}
	// where the signal handling lives: the closure itself, or a private helper of
	// it that is handed the cancel function (followed for two levels)
	scopes := txn2SignalScopes(p, f, cancelV)
	// domScope: the instruction of the scope is executed before every call of the
	// closure that can execute statements — it dominates them (closure), or the
	// call of the helper does and no path through the helper(s) returns without it
	domScope := func(sc txn2Scope, in ssa.Instruction) bool {
		if len(sc.chain) == 0 {
			return domAll(in)
		}
		if !domAll(sc.chain[0]) {
			return false
		}
		for _, link := range sc.chain[1:] {
			if !txn2OnEveryPath(link) {
				return false
			}
		}
		return txn2OnEveryPath(in)
	}
	var notify *ssa.Call
	var scope txn2Scope
	for _, sc := range scopes {
		for _, call := range p.CallsNamed(sc.fn, "os/signal.Notify") {
			if nc, ok := call.(*ssa.Call); ok && len(nc.Call.Args) == 2 {
				sigs := false
				for _, o := range core.Origins(nc.Call.Args[1], true) {
					if g, ok := core.Addr(o).(*ssa.Global); ok && g != nil && g.Name() == "Signals" && g.Pkg != nil && core.Short(g.Pkg.Pkg.Path()) == "lib/action" {
						sigs = true
					}
				}
				if sigs {
					notify, scope = nc, sc
				}
			}
		}
		if notify != nil {
			break
		}
	}
	where := ""
	if notify != nil && len(scope.chain) > 0 {
		c.Touch(scope.fn)
		where = " (in " + p.FnRef(scope.fn) + ", which only this function calls and which is handed the cancel function)"
	}
	var chCell ssa.Value
	switch {
	case notify == nil:
		c.Bad(keyN, c.FnPos(f), "signal.Notify is not called with action.Signals: SIGINT/SIGTERM/SIGQUIT would kill the process without running the deferred rollback")
	case !domScope(scope, notify):
		c.Bad(keyN, c.Pos(notify), "signal.Notify"+where+" does not dominate every call that can execute statements: a signal arriving earlier kills the process without the deferred rollback")
	default:
		c.Ok(keyN, c.Pos(notify), "called with action.Signals before any statement can execute"+where)
		chCell = core.Addr(core.Strip(notify.Call.Args[0]))
		if chCell == nil {
			chCell = core.Strip(notify.Call.Args[0])
		}
	}
	if !ctxOK || withCancel == nil {
		c.Bad(keyG, c.FnPos(f), "the calls that execute statements do not all receive the context returned by one context.WithCancel call: a signal could not cancel them")
		return
	}
	if notify == nil {
		scope = scopes[0]
	}
	cancelV = scope.cancel
	found := ""
	good := false
	for _, call := range core.Calls(scope.fn) {
		g, ok := call.(*ssa.Go)
		if !ok {
			continue
		}
		k := core.StaticCallee(g)
		if k == nil || k.Blocks == nil {
			continue
		}
		// … after which every path calls the cancel function
		isCancel := func(in ssa.Instruction) bool {
			call, ok := in.(*ssa.Call)
			if !ok || call.Call.IsInvoke() {
				return false
			}
			return cancelV != nil && txn2OuterValueIs(k, g, call.Call.Value, cancelV)
		}
		// a receive from the Notify channel: `<-ch`, or the `case <-ch` of a select
		nRecv := 0
		okAll := true
		for _, b := range k.Blocks {
			for _, in := range b.Instrs {
				switch x := in.(type) {
				case *ssa.UnOp:
					if x.Op == token.ARROW && txn2SameOuter(k, g, x.X, chCell) {
						nRecv++
						if len(core.ExitsAfter(x, isCancel, nil)) > 0 {
							okAll = false
						}
					}
				case *ssa.Select:
					for i, st := range x.States {
						if st.Dir != types.RecvOnly || !txn2SameOuter(k, g, st.Chan, chCell) {
							continue
						}
						nRecv++
						// only the paths on which this case was chosen: other cases
						// (ctx.Done()) may legitimately end the goroutine
						idx := int64(i)
						cut := func(from, to *ssa.BasicBlock) bool {
							cond, holds, ok := core.CondEdge(from, to)
							if !ok {
								return false
							}
							v, op, kv, ok := txnCmpConst(cond)
							if !ok || (op != token.EQL && op != token.NEQ) {
								return false
							}
							ex, isEx := v.(*ssa.Extract)
							if !isEx || ex.Tuple != ssa.Value(x) || ex.Index != 0 {
								return false
							}
							chosen := (op == token.EQL) == holds // edge asserts index == kv (true) or index != kv (false)
							if chosen {
								return kv != idx
							}
							return kv == idx
						}
						if len(core.ExitsAfter(x, isCancel, cut)) > 0 {
							okAll = false
						}
					}
				}
			}
		}
		if nRecv == 0 {
			continue
		}
		if !okAll {
			found = "the goroutine receives the signal but a path ends without calling the cancel function of the action's context"
			continue
		}
		if !domScope(scope, g) {
			found = "the signal goroutine is not started before every call that can execute statements"
			continue
		}
		good = true
		c.Ok(keyG, c.Pos(g), "started before any statement executes; receives from the Notify channel, then always calls cancel of the context passed to the action")
	}
	if !good {
		if found == "" {
			found = "no goroutine receives from the channel given to signal.Notify"
		}
		c.Bad(keyG, c.FnPos(f), found+": a signal would not cancel the running statements, the deferred rollback would not run before the process is killed")
	}
}

// txn2ContainerOwned: the container `recv` used at instruction `at` of g is
// created by file.NewContainer() in g and closed by a defer of g that dominates
// `at`; or it is a parameter of g and every caller of g in the program passes a
// container for which the same holds at the call (followed for two levels: the
// obligation is judged at the creator). Returns "" and the creator's name, or
// what is wrong.
func txn2ContainerOwned(p *core.Prog, g *ssa.Function, recv ssa.Value, at ssa.Instruction, depth int) (why string, where string) {
	origins := core.Origins(txnThroughCell(recv), false)
	if len(origins) == 0 {
		return "opens a file in a container of unknown origin", ""
	}
	// created here?
	allNew, allParam := true, true
	var param *ssa.Parameter
	for _, o := range origins {
		if oc, ok := o.(*ssa.Call); !ok || p.CalleeName(oc) != "lib/file.NewContainer" || oc.Parent() != g {
			allNew = false
		}
		if pa, ok := o.(*ssa.Parameter); ok && (param == nil || param == pa) {
			param = pa
		} else {
			allParam = false
		}
	}
	if allNew {
		for _, dc := range core.Calls(g) {
			if d, ok := dc.(*ssa.Defer); ok && core.Dominates(d, at) && txnReaches(p, d, txnContCloseAll, txnContCloseE) {
				return "", p.FnRef(g)
			}
		}
		return "no dominating defer of " + p.FnRef(g) + " closes the container it creates", ""
	}
	if !allParam || param == nil {
		return "opens a file in a container it neither created itself nor received as a parameter", ""
	}
	if depth >= 2 {
		return "the container is handed down through more than two helpers", ""
	}
	idx := -1
	for i, pa := range g.Params {
		if pa == param {
			idx = i
		}
	}
	n := 0
	for _, e := range p.Callers(g) {
		caller := e.Caller.Func
		if e.Site == nil || (caller.Synthetic != "" && caller.Parent() == nil) {
			return "the helper " + p.FnRef(g) + " that receives the container is called through a wrapper or function value", ""
		}
		args := e.Site.Common().Args
		if e.Site.Common().IsInvoke() || idx < 0 || idx >= len(args) || core.StaticCallee(e.Site) != g {
			return "the helper " + p.FnRef(g) + " that receives the container is not called statically", ""
		}
		n++
		w, wh := txn2ContainerOwned(p, caller, args[idx], e.Site.(ssa.Instruction), depth+1)
		if w != "" {
			return "its caller " + p.FnRef(caller) + " hands it a container for which this does not hold (" + w + ")", ""
		}
		where = wh
	}
	if n == 0 {
		return "the helper " + p.FnRef(g) + " receives the container but has no caller in the program", ""
	}
	return "", where
}

// txn2Scope: a function in which the signal handling of the closure may live.
type txn2Scope struct {
	fn     *ssa.Function
	chain  []*ssa.Call // the calls that lead from the closure to fn (none: the closure itself)
	cancel ssa.Value   // the cancel function as fn sees it: the WithCancel result, or fn's parameter
}

// txn2SignalScopes: the closure, and the private helpers it hands the cancel
// function to — same package, a declared function with a body, called statically
// and by nobody else than the scope above it, with the cancel function (directly
// or through a local cell that holds nothing else) as an argument.
func txn2SignalScopes(p *core.Prog, f *ssa.Function, cancelV ssa.Value) []txn2Scope {
	out := []txn2Scope{{fn: f, cancel: cancelV}}
	for i := 0; i < len(out); i++ {
		sc := out[i]
		if sc.cancel == nil || len(sc.chain) >= 2 {
			continue
		}
		for _, call := range core.Calls(sc.fn) {
			cc, ok := call.(*ssa.Call)
			if !ok || cc.Call.IsInvoke() {
				continue
			}
			h := core.StaticCallee(cc)
			if h == nil || h.Blocks == nil || h.Parent() != nil || core.FnPkg(h) != core.FnPkg(f) || !txn2OnlyCalledFrom(p, h, sc.fn) {
				continue
			}
			for j, a := range cc.Call.Args {
				if j < len(h.Params) && txnThroughCell(a) == sc.cancel {
					chain := append(append([]*ssa.Call{}, sc.chain...), cc)
					out = append(out, txn2Scope{fn: h, chain: chain, cancel: h.Params[j]})
					break
				}
			}
		}
	}
	return out
}

// txn2OnlyCalledFrom: every call-graph edge into h is a static call made by caller.
func txn2OnlyCalledFrom(p *core.Prog, h, caller *ssa.Function) bool {
	edges := p.RealCallers(h)
	if len(edges) == 0 {
		return false
	}
	for _, e := range edges {
		if e.Caller.Func != caller || e.Site == nil || core.StaticCallee(e.Site) != h {
			return false
		}
	}
	return true
}

// txn2OnEveryPath: no path from the entry of the function to a return avoids in.
func txn2OnEveryPath(in ssa.Instruction) bool {
	for _, x := range core.ExitsFromEntry(in.Parent(), func(y ssa.Instruction) bool { return y == in }, nil) {
		if _, isRet := x.(*ssa.Return); isRet {
			return false
		}
	}
	return true
}

// txn2OuterCell maps a value inside closure k (started by `go`) that is a load
// of a captured variable to the cell bound in the parent.
func txn2OuterCell(k *ssa.Function, g *ssa.Go, v ssa.Value) ssa.Value {
	a := core.Addr(v)
	fv, ok := a.(*ssa.FreeVar)
	if !ok || fv == nil {
		return nil
	}
	mc, ok := g.Call.Value.(*ssa.MakeClosure)
	if !ok {
		return nil
	}
	for i, x := range k.FreeVars {
		if x == fv && i < len(mc.Bindings) {
			return mc.Bindings[i]
		}
	}
	return nil
}

func txn2SameOuter(k *ssa.Function, g *ssa.Go, v ssa.Value, cell ssa.Value) bool {
	if cell == nil {
		return false
	}
	oc := txn2OuterCell(k, g, v)
	return oc != nil && oc == cell
}

// txn2OuterValueIs: v (inside k) is a load of a captured cell whose only store
// in the parent is target.
func txn2OuterValueIs(k *ssa.Function, g *ssa.Go, v ssa.Value, target ssa.Value) bool {
	oc := txn2OuterCell(k, g, v)
	if oc == nil {
		return false
	}
	vals, complete := core.StoresTo(oc)
	return complete && len(vals) == 1 && vals[0] == target
}

// txn2SignalTable checks action.Signals in the loaded configuration and, in
// the thorough tier, in the darwin and windows configurations.
func txn2SignalTable(c *Ctx) {
	txn2SignalsOf(c, c.P, "")
	if c.Tier != "thorough" {
		return
	}
	for _, goos := range []string{"darwin", "windows"} {
		q, err := core.Load(c.P.Repo, nil, goos, "amd64")
		if err != nil {
			c.Unknown("lib/action.Signals ["+goos+"]", "-", "cannot-analyse: loading GOOS="+goos+" failed: "+err.Error())
			continue
		}
		txn2SignalsOf(c, q, goos)
	}
}

// txn2Signals: the signals that must be in action.Signals. A signal outside the
// table ends the process by its default action, without the deferred rollback:
// SIGINT/SIGQUIT/SIGTERM from the user or the system, SIGHUP when the terminal
// goes away, SIGPIPE when the reader of the output closes the pipe
// (`csvq 'UPDATE …; SELECT …' | head -1`).
var txn2Signals = []string{"SIGINT", "SIGQUIT", "SIGTERM", "SIGHUP", "SIGPIPE"}

func txn2SignalsOf(c *Ctx, p *core.Prog, goos string) {
	label := "lib/action.Signals"
	if goos != "" {
		label += " [" + goos + "]"
	}
	sp := p.SSAPkgs["lib/action"]
	if sp == nil {
		c.Unknown("anchor:"+label, "-", "cannot-analyse: package lib/action not loaded")
		return
	}
	g, _ := sp.Members["Signals"].(*ssa.Global)
	initFn := sp.Func("init")
	if g == nil || initFn == nil {
		c.Unknown("anchor:"+label, "-", "cannot-analyse: lib/action.Signals does not resolve to a package variable")
		return
	}
	sys := p.SSA.ImportedPackage("syscall")
	want := map[string]int64{}
	for _, n := range txn2Signals {
		if sys != nil {
			if k, ok := sys.Members[n].(*ssa.NamedConst); ok {
				if v, exact := constant.Int64Val(constant.ToInt(k.Value.Value)); exact {
					want[n] = v
				}
			}
		}
	}
	if len(want) != len(txn2Signals) {
		c.Unknown("anchor:"+label, "-", "cannot-analyse: syscall."+strings.Join(txn2Signals, "/")+" do not all resolve")
		return
	}
	// the elements stored into the backing array of the slice literal
	have := map[int64]bool{}
	pos := "-"
	for _, b := range initFn.Blocks {
		for _, in := range b.Instrs {
			st, ok := in.(*ssa.Store)
			if !ok || st.Addr != g {
				continue
			}
			pos = p.InstrPos(in)
			sl, ok := st.Val.(*ssa.Slice)
			if !ok {
				continue
			}
			arr := sl.X
			for _, b2 := range initFn.Blocks {
				for _, in2 := range b2.Instrs {
					es, ok := in2.(*ssa.Store)
					if !ok {
						continue
					}
					ia, ok := es.Addr.(*ssa.IndexAddr)
					if !ok || ia.X != arr {
						continue
					}
					if k, ok := core.Strip(es.Val).(*ssa.Const); ok && k.Value != nil && k.Value.Kind() == constant.Int {
						have[k.Int64()] = true
					}
				}
			}
		}
	}
	var missing []string
	for _, n := range txn2Signals {
		if !have[want[n]] {
			missing = append(missing, n)
		}
	}
	if len(missing) > 0 {
		c.Bad(label, pos, "the signal table lacks "+strings.Join(missing, ", ")+": that signal kills the process without cancel → deferred rollback, leaving lock/temp files and a half-written commit")
	} else {
		c.Ok(label, pos, "contains "+strings.Join(txn2Signals, ", "))
	}
}

// ---------------------------------------------------------------------------
// R-TXN-3 two-phase commit order

func ruleTxn3(c *Ctx) {
	p := c.P
	commit := c.Fn(txnTxCommit)
	if commit == nil || c.Fn(txnEncodeView) == nil || c.FnOpt(txnContCommit) == nil {
		if commit != nil {
			c.Unknown("anchor:"+txnContCommit, "-", "cannot-analyse: anchor does not resolve")
		}
		return
	}
	fns := []*ssa.Function{commit}
	swapSet := txnSet(p, txnContCommit)
	inFns := map[*ssa.Function]bool{commit: true}
	for _, f := range p.FuncsIn(false, "lib/query") {
		// lib/query functions that take part in a commit: reachable from Commit and able to swap
		if f != commit && swapSet[f] && p.ReachSet(commit)[f] {
			fns = append(fns, f)
			inFns[f] = true
		}
	}
	// … and the lib/query functions Commit statically calls (transitively) that
	// write a table file themselves: a helper holding the truncate / seek /
	// EncodeView / trailing-write sequence belongs to the encode phase
	encodeView := p.Func(txnEncodeView)
	{
		seenF := map[*ssa.Function]bool{commit: true}
		queue := []*ssa.Function{commit}
		for len(queue) > 0 {
			g := queue[0]
			queue = queue[1:]
			for _, call := range core.Calls(g) {
				k := core.StaticCallee(call)
				if k == nil || seenF[k] || k == encodeView || k.Blocks == nil || !p.InPkg(k, "lib/query") {
					continue
				}
				seenF[k] = true
				queue = append(queue, k)
				writes := false
				for _, kc := range core.Calls(k) {
					switch p.CalleeName(kc) {
					case "(*os.File).Write", "(*os.File).WriteString", "(*os.File).WriteAt", "(*os.File).Truncate", "(*os.File).Seek", "(*os.File).ReadFrom", txnEncodeView:
						writes = true
					}
				}
				if writes && !inFns[k] {
					fns = append(fns, k)
					inFns[k] = true
				}
			}
		}
	}
	sortFuncs(p, fns)
	fns = append(fns, txnCtl(c, "Txn3")...)
	analysed := map[*ssa.Function]bool{}
	for _, f := range fns {
		analysed[f] = true
	}
	// a call whose every callee is itself examined by this rule (a helper that
	// encodes and then swaps) is not charged with its own internal order
	selfAnalysed := func(call ssa.CallInstruction) bool {
		ks := p.Callees(call)
		for _, k := range ks {
			if !analysed[k] {
				return false
			}
		}
		return len(ks) > 0
	}
	isWrite := func(in ssa.Instruction) bool {
		call, ok := in.(ssa.CallInstruction)
		if !ok {
			return false
		}
		switch p.CalleeName(call) {
		case "(*os.File).Write", "(*os.File).WriteString", "(*os.File).WriteAt", "(*os.File).Truncate", "(*os.File).Seek", "(*os.File).ReadFrom":
			return true
		}
		return txnReaches(p, call, txnEncodeView)
	}
	for _, fn := range fns {
		swaps := txnCallsReaching(p, fn, txnContCommit)
		nWrites := 0
		for _, b := range fn.Blocks {
			for _, in := range b.Instrs {
				if isWrite(in) {
					nWrites++
				}
			}
		}
		if fn == commit && (len(swaps) == 0 || nWrites == 0) {
			c.Unknown(c.KeyAt(fn, "encode and swap phases"), c.FnPos(fn), fmt.Sprintf("cannot-analyse: Commit has %d swap call(s) and %d encode/write call(s); the rule no longer sees both phases", len(swaps), nWrites))
			continue
		}
		c.Touch(fn)
		// a failed encode / write aborts the commit before anything is swapped
		nw := 0
		errIdx := core.ErrorResultIndex(fn)
		for _, b := range fn.Blocks {
			for _, in := range b.Instrs {
				wc, isCall := in.(*ssa.Call)
				if !isCall || !isWrite(in) || (len(swaps) == 0 && p.IsControl(fn)) {
					continue
				}
				errV, hasErr := txnErrOf(wc)
				if !hasErr {
					continue
				}
				nw++
				key := c.KeyAt(fn, fmt.Sprintf("failure of write #%d (%s) aborts before any swap", nw, txnCallLabel(p, wc)))
				cut := func(from, to *ssa.BasicBlock) bool {
					return txnNilEdge(from, to, func(v ssa.Value) bool { return errV != nil && txnValueIs(v, errV) }, true)
				}
				off := ""
				core.WalkPruned(wc.Block(), core.InstrIndex(wc)+1, func(x ssa.Instruction) bool {
					if off != "" {
						return false
					}
					if xc, ok := x.(ssa.CallInstruction); ok && txnCallIn(p, xc, swapSet) && !(x == in) {
						off = "the swap at " + c.Pos(x)
						return false
					}
					if r, ok := x.(*ssa.Return); ok && errIdx >= 0 && txnMayReturnNil(r, errIdx) {
						off = "the return at " + c.Pos(x) + " (which can report success)"
						return false
					}
					return true
				}, cut)
				switch {
				case off != "" && errV == nil:
					c.Bad(key, c.Pos(wc), "the error of this write is discarded and "+off+" is reachable: a table could be replaced by an incompletely written file")
				case off != "":
					c.Bad(key, c.Pos(wc), "on the path where this write fails, "+off+" is still reachable: a table could be replaced by an incompletely written file, or the failure be reported as success")
				default:
					c.Ok(key, c.Pos(wc), "when it fails, no swap and no success return is reachable")
				}
			}
		}
		for i, s := range swaps {
			c.Sites++
			in := s.(ssa.Instruction)
			key := c.KeyAt(fn, fmt.Sprintf("swap #%d (%s) after all writes", i+1, txnCallLabel(p, s)))
			var off ssa.Instruction
			if isWrite(in) && !selfAnalysed(s) {
				off = in
			}
			core.WalkFrom(in, func(x ssa.Instruction) bool {
				if off == nil && isWrite(x) {
					off = x
				}
				return off == nil
			})
			if off != nil {
				c.Bad(key, c.Pos(in), fmt.Sprintf("after this file has been swapped into place, the encode/write at %s can still run (e.g. for the next file): a failure there leaves some tables new and some old", c.Pos(off)))
			} else {
				c.Ok(key, c.Pos(in), "no encode or file write is reachable after the swap")
			}
		}
	}
}

// ---------------------------------------------------------------------------
// R-TXN-4 every publisher is marked

// who may publish a view into a ViewMap (frozen; one line of reason each)
var txn4Publishers = map[string]string{
	"lib/query.Insert":                                  "statement function",
	"lib/query.Update":                                  "statement function",
	"lib/query.Replace":                                 "statement function",
	"lib/query.Delete":                                  "statement function",
	"lib/query.CreateTable":                             "statement function",
	"lib/query.AddColumns":                              "statement function",
	"lib/query.DropColumns":                             "statement function",
	"lib/query.RenameColumn":                            "statement function",
	"lib/query.SetTableAttribute":                       "statement function",
	"lib/query.DeclareView":                             "DECLARE VIEW creates a temporary table together with its restore point (R-TXN-5)",
	"lib/query.cacheViewFromFile":                       "loader: caches the file as read",
	"lib/query.loadObjectFromStdin":                     "loader: caches stdin data as read",
	"lib/query.(ViewMap).Set":                           "plumbing: Set is Store keyed by IdentifiedPath",
	"lib/query.(*ReferenceScope).SetTemporaryTable":     "plumbing: publication primitive itself",
	"lib/query.(*ReferenceScope).ReplaceTemporaryTable": "plumbing: publication primitive itself",
	"lib/query.(*Session).GetStdinView":                 "session-level stdin snapshot map, not a transaction cache",
	"lib/query.(*Session).updateStdinView":              "session-level stdin snapshot map, written by StoreTemporaryTable at commit",
	"lib/query.(*ReferenceScope).AllTemporaryTables$1":  "fills a fresh map returned to the caller (checked: receiver is NewViewMap() of the enclosing function)",
}

func ruleTxn4(c *Ctx) {
	p := c.P
	prims := []string{txnVMSet, txnVMStore, txnSetTemp, txnReplaceTemp}
	// (i) who may publish
	publishers := map[*ssa.Function]bool{}
	seen := map[string]bool{}
	primSet := map[*ssa.Function]bool{} // primitives and accepted publishing helpers
	for _, pn := range prims {
		if f := p.Func(pn); f != nil {
			primSet[f] = true
		}
	}
	// pureHelper: g is an unexported top-level csvq function outside the table
	// that has callers and hands only its own *View parameter(s) to the
	// publishing primitives: it is part of whoever calls it, so "who may
	// publish" is decided on its callers.
	pureHelper := func(g *ssa.Function) (bool, string) {
		if p.IsControl(g) || g.Parent() != nil || g.Object() == nil || g.Object().Exported() {
			return false, ""
		}
		n := 0
		for _, call := range core.Calls(g) {
			k := core.StaticCallee(call)
			if k == nil || !primSet[k] {
				if k == nil && txnCallIn(p, call, primSet) {
					return false, ""
				}
				continue
			}
			n++
			for _, a := range call.Common().Args {
				if core.NamedOf(a.Type()) != "lib/query.View" {
					continue
				}
				isParam := false
				for _, pa := range g.Params {
					if txnValueIs(a, pa) {
						isParam = true
					}
				}
				if !isParam {
					return false, ""
				}
			}
		}
		if n == 0 {
			return false, ""
		}
		real := 0
		for _, e := range p.Callers(g) {
			if txnIsSrc(p, e.Caller.Func) {
				real++
			}
		}
		if real == 0 {
			return false, "it looks like a publishing helper but nothing calls it"
		}
		return true, ""
	}
	var visit func(target *ssa.Function, via string, depth, hdepth int)
	visit = func(target *ssa.Function, via string, depth, hdepth int) {
		edges := p.Callers(target)
		sort.SliceStable(edges, func(i, j int) bool { return p.FnRef(edges[i].Caller.Func) < p.FnRef(edges[j].Caller.Func) })
		for _, e := range edges {
			g := e.Caller.Func
			if g.Synthetic != "" && g.Parent() == nil {
				if depth < 3 {
					visit(g, via, depth+1, hdepth)
				}
				continue
			}
			name := p.Name(g)
			if !txnIsSrc(p, g) {
				continue
			}
			key := name + ": publishes via " + via
			if seen[key] {
				continue
			}
			seen[key] = true
			c.Touch(g)
			pos := c.FnPos(g)
			if e.Site != nil {
				pos = c.Pos(e.Site.(ssa.Instruction))
			}
			reason, listed := txn4Publishers[name]
			if !listed && hdepth < 2 {
				if ok, _ := pureHelper(g); ok {
					c.Ok(key, pos, "publishing helper: unexported, publishes only its own *View parameter; who may publish is decided on its callers")
					if !primSet[g] {
						primSet[g] = true
						visit(g, strings.TrimPrefix(name, "lib/query."), 0, hdepth+1)
					}
					continue
				}
			}
			publishers[g] = true
			if !listed || p.IsControl(g) {
				why := "this function publishes a view into a view map but is not in the who-may-publish table: nothing guarantees that ExecuteStatement marks the change as uncommitted, so COMMIT would not write it and ROLLBACK would not undo it"
				if _, w := pureHelper(g); w != "" {
					why += " (" + w + ")"
				}
				c.Bad(key, pos, why)
				continue
			}
			if strings.HasSuffix(name, "AllTemporaryTables$1") && e.Site != nil {
				fresh := false
				for _, o := range core.Origins(e.Site.Common().Args[0], false) {
					if oc, ok := o.(*ssa.Call); ok && p.CalleeName(oc) == "lib/query.NewViewMap" {
						fresh = true
					} else {
						fresh = false
						break
					}
				}
				if !fresh {
					c.Bad(key, pos, "exception `fresh map` no longer holds: the receiver is not a NewViewMap() result of the enclosing function")
					continue
				}
			}
			c.Ok(key, pos, "listed: "+reason)
		}
	}
	for _, pn := range prims {
		prim := c.Fn(pn)
		if prim == nil {
			continue
		}
		visit(prim, strings.TrimPrefix(pn, "lib/query."), 0, 0)
	}
	// every listed publisher still exists (a vanished one is reported once)
	for name := range txn4Publishers {
		if p.Func(name) == nil {
			c.Unknown("anchor:"+name, "-", "cannot-analyse: who-may-publish table names "+name+" which no longer exists")
		}
	}

	// (ii) statement functions are the publishers that hand a FileInfo back
	ord := map[string]int{}
	stmtFns := map[*ssa.Function]bool{}
	for g := range publishers {
		if p.IsControl(g) || g.Parent() != nil {
			continue
		}
		res := g.Signature.Results()
		if res.Len() < 2 || !core.IsErrorType(res.At(res.Len()-1).Type()) {
			continue
		}
		if txn4IsFileInfo(res.At(0).Type()) != 0 {
			stmtFns[g] = true
		}
	}
	for _, fn := range p.SrcFuncs() {
		for _, call := range core.Calls(fn) {
			k := core.StaticCallee(call)
			if k == nil || !stmtFns[k] {
				continue
			}
			fc, isCall := call.(*ssa.Call)
			if !isCall {
				c.Bad(c.KeyAt(fn, "marking after "+p.FnRef(k)), c.Pos(call.(ssa.Instruction)), "statement function started by go/defer: its results cannot be marked")
				continue
			}
			c.Sites++
			c.Touch(fn)
			txn4Site(c, ord, fn, fc, k)
		}
	}
}

// txn4IsFileInfo: 1 for *FileInfo, 2 for []*FileInfo, 0 otherwise.
func txn4IsFileInfo(t types.Type) int {
	if core.NamedOf(t) == "lib/query.FileInfo" {
		if _, ok := t.(*types.Pointer); ok {
			return 1
		}
	}
	if s, ok := t.Underlying().(*types.Slice); ok {
		if _, isPtr := s.Elem().(*types.Pointer); isPtr && core.NamedOf(s.Elem()) == "lib/query.FileInfo" {
			return 2
		}
	}
	return 0
}

// txn4Mark is one place where a FileInfo of the statement gets marked: a direct
// SetForUpdatedView/SetForCreatedView call, or a call of a csvq helper that is
// itself shown to mark what it receives (up to two levels of helper extraction).
type txn4Mark struct {
	in    *ssa.Call
	info  ssa.Value // the FileInfo argument at the call (element or whole slice)
	whole bool      // a helper that receives the whole []*FileInfo (and counts) and marks every element
}

// txn4Query: in function g, after instruction start (nil: from the entry), is
// the FileInfo value info (single) / every element of the slice info (!single)
// marked on all paths on which errV is nil and the own count cnt is positive?
type txn4Query struct {
	g        *ssa.Function
	start    ssa.Instruction
	info     ssa.Value
	cnt      ssa.Value // nil: no count
	cntSlice bool
	errV     ssa.Value // nil: no error in scope
	single   bool
	depth    int
}

const txn4MaxDepth = 2

func txn4Exits(q txn4Query, stop func(ssa.Instruction) bool, cut core.EdgeCut) []ssa.Instruction {
	if q.start == nil {
		return core.ExitsFromEntry(q.g, stop, cut)
	}
	return core.ExitsAfter(q.start, stop, cut)
}

// txn4Guaranteed returns "" when the marking is guaranteed, else what is wrong
// and where.
func txn4Guaranteed(c *Ctx, q txn4Query) (why string, pos string) {
	p := c.P
	g := q.g
	pos = c.FnPos(g)
	if q.start != nil {
		pos = c.Pos(q.start)
	}
	infoV, cntV := q.info, q.cnt
	isErr := func(v ssa.Value) bool { return q.errV != nil && txnValueIs(v, q.errV) }
	// isOwnCnt: v is the statement's own count belonging to FileInfo value info
	isOwnCnt := func(v, info ssa.Value) bool {
		if cntV == nil {
			return false
		}
		if q.single {
			return !q.cntSlice && txnValueIs(v, cntV)
		}
		ia, xa := txn4ElemOf(info, infoV), txn4ElemOf(v, cntV)
		return q.cntSlice && ia != nil && xa != nil && xa.Index == ia.Index
	}
	// marking calls fed by the FileInfo
	marksSet := p.CanReach([]string{txnUVSetUpd, txnUVSetCre}, txnBarrier)
	var marks []txn4Mark
	helperWhy := ""
	for _, m := range core.Calls(g) {
		mc, ok := m.(*ssa.Call)
		if !ok || ssa.Instruction(mc) == q.start {
			continue
		}
		switch n := p.CalleeName(mc); {
		case n == txnUVSetUpd || n == txnUVSetCre:
			if len(mc.Call.Args) == 2 && core.DependsOn(mc.Call.Args[1], infoV) {
				marks = append(marks, txn4Mark{in: mc, info: mc.Call.Args[1]})
			}
		case txnCallIn(p, mc, marksSet):
			h := core.StaticCallee(mc)
			if h == nil || !txnIsSrc(p, h) || h.Blocks == nil || q.depth >= txn4MaxDepth || len(h.Params) != len(mc.Call.Args) {
				continue
			}
			args := mc.Call.Args
			for i, a := range args {
				switch {
				case txn4IsFileInfo(a.Type()) == 1 && core.DependsOn(a, infoV):
					// helper(info, …, cnt, …): marks its parameter when its count parameter is positive
					sub := txn4Query{g: h, info: h.Params[i], single: true, depth: q.depth + 1}
					for j := range args {
						if isOwnCnt(args[j], a) {
							sub.cnt = h.Params[j]
						}
					}
					if w, at := txn4Guaranteed(c, sub); w == "" {
						marks = append(marks, txn4Mark{in: mc, info: a})
					} else {
						helperWhy = fmt.Sprintf("; helper %s does not guarantee it (%s: %s)", p.FnRef(h), at, w)
					}
				case !q.single && txn4IsFileInfo(a.Type()) == 2 && txnValueIs(a, infoV):
					// helper(infos, cnts, …): marks every element whose count is positive
					sub := txn4Query{g: h, info: h.Params[i], single: false, depth: q.depth + 1}
					for j := range args {
						if cntV != nil && q.cntSlice && txnValueIs(args[j], cntV) {
							sub.cnt = h.Params[j]
							sub.cntSlice = true
						}
					}
					if w, at := txn4Guaranteed(c, sub); w == "" {
						marks = append(marks, txn4Mark{in: mc, info: a, whole: true})
					} else {
						helperWhy = fmt.Sprintf("; helper %s does not guarantee it (%s: %s)", p.FnRef(h), at, w)
					}
				}
			}
		}
	}
	if len(marks) == 0 {
		return "no UncommittedViews.SetForUpdatedView/SetForCreatedView call (direct, or in a helper that is shown to mark what it receives) gets the FileInfo returned by this statement: COMMIT would not write the change and ROLLBACK would not report it" + helperWhy, pos
	}
	errCut := func(from, to *ssa.BasicBlock) bool { return txnNilEdge(from, to, isErr, false) } // edges on which err != nil
	retErrIdx := core.ErrorResultIndex(g)
	successRet := func(r *ssa.Return) bool { return retErrIdx < 0 || txnMayReturnNil(r, retErrIdx) }

	if q.single {
		isMark := func(in ssa.Instruction) bool {
			for _, m := range marks {
				if m.in == in {
					return true
				}
			}
			return false
		}
		cut := func(from, to *ssa.BasicBlock) bool {
			if errCut(from, to) {
				return true
			}
			// edges on which the statement's own count is not positive
			if cond, holds, ok := core.CondEdge(from, to); ok {
				if x, posi, ok := txnPositive(cond); ok && isOwnCnt(x, infoV) && posi != holds {
					return true
				}
			}
			return false
		}
		for _, m := range marks {
			if !txnValueIs(m.info, infoV) {
				return "the marked FileInfo is computed from, but is not, the FileInfo returned by the statement", c.Pos(m.in)
			}
		}
		for _, ex := range txn4Exits(q, isMark, cut) {
			return fmt.Sprintf("with a nil error and a positive count the function can still reach the exit at %s without marking the FileInfo as uncommitted (the marking is skipped or depends on something else than `e == nil` / `0 < count`)", c.Pos(ex)), pos
		}
		return "", pos
	}

	// slice results
	// (a) a helper that takes the whole slice: reached on every path with a nil error
	var whole []txn4Mark
	for _, m := range marks {
		if m.whole {
			whole = append(whole, m)
		}
	}
	if len(whole) > 0 {
		isWhole := func(in ssa.Instruction) bool {
			for _, m := range whole {
				if m.in == in {
					return true
				}
			}
			return false
		}
		if exits := txn4Exits(q, isWhole, errCut); len(exits) > 0 {
			return fmt.Sprintf("with a nil error the function can reach the exit at %s without calling the helper that marks the returned FileInfos", c.Pos(exits[0])), pos
		}
		return "", pos
	}
	// (b) for i, info := range infos { if 0 < cnts[i] { mark(info) } }
	for _, m := range marks {
		ia := txn4ElemOf(m.info, infoV)
		if ia == nil {
			return "the marked FileInfo is not an element of the slice returned by the statement", c.Pos(m.in)
		}
		head := txn4LoopHead(ia.Index)
		if head == nil {
			return "the marking is not inside a loop over the returned FileInfos: only some of the changed files are marked", c.Pos(m.in)
		}
		// A: the loop is reached whenever the error is nil
		inHead := func(in ssa.Instruction) bool { return in.Block() == head }
		if exits := txn4Exits(q, inHead, errCut); len(exits) > 0 {
			return fmt.Sprintf("with a nil error the function can reach the exit at %s without entering the loop that marks the returned FileInfos", c.Pos(exits[0])), pos
		}
		// B: the loop visits every element: index starts at 0, steps by 1, runs to len
		if w := txn4FullRange(head, ia.Index, infoV); w != "" {
			return "the marking loop does not visit every returned FileInfo: " + w, c.Pos(m.in)
		}
		// C: in each iteration the element with a positive count is marked
		body := head.Succs[0]
		minfo, min := m.info, m.in
		cut := func(from, to *ssa.BasicBlock) bool {
			cond, holds, ok := core.CondEdge(from, to)
			if !ok {
				return false
			}
			x, posi, ok := txnPositive(cond)
			return ok && posi != holds && isOwnCnt(x, minfo)
		}
		escaped := ""
		core.WalkPruned(body, 0, func(in ssa.Instruction) bool {
			if escaped != "" || in == min {
				return false
			}
			if in.Block() == head {
				escaped = "the next iteration"
				return false
			}
			if r, ok := in.(*ssa.Return); ok {
				if successRet(r) {
					escaped = "the return at " + c.Pos(in)
				}
				return false
			}
			return true
		}, cut)
		if escaped != "" {
			return "inside the loop an element whose count is positive can reach " + escaped + " without being marked (the marking depends on something else than `0 < counts[i]` of the same index)", c.Pos(m.in)
		}
	}
	return "", pos
}

func txn4Site(c *Ctx, ord map[string]int, fn *ssa.Function, fc *ssa.Call, k *ssa.Function) {
	p := c.P
	key := txnOrd(ord, c.KeyAt(fn, "marking after "+p.FnRef(k)))
	pos := c.Pos(fc)
	res := k.Signature.Results()
	q := txn4Query{g: fn, start: fc, info: txnExtract(fc, 0), errV: txnExtract(fc, res.Len()-1)}
	for i := 1; i < res.Len()-1; i++ {
		t := res.At(i).Type()
		if b, ok := t.Underlying().(*types.Basic); ok && b.Kind() == types.Int {
			q.cnt = txnExtract(fc, i)
		}
		if s, ok := t.Underlying().(*types.Slice); ok {
			if b, ok := s.Elem().Underlying().(*types.Basic); ok && b.Kind() == types.Int {
				q.cnt = txnExtract(fc, i)
				q.cntSlice = true
			}
		}
	}
	if q.info == nil {
		c.Bad(key, pos, "the FileInfo result of the statement function is discarded: the change can never be marked as uncommitted")
		return
	}
	q.single = txn4IsFileInfo(res.At(0).Type()) == 1
	if why, at := txn4Guaranteed(c, q); why != "" {
		c.Bad(key, at, why)
		return
	}
	if q.single {
		c.Ok(key, pos, "on every path with a nil error (and a positive count) the returned FileInfo is marked before the function returns")
	} else {
		c.Ok(key, pos, "with a nil error every returned FileInfo whose own count is positive is marked (loop over the whole slice, or a helper shown to do so)")
	}
}

// txn4ElemOf: v is `*(&S[i])` / S[i] with S == slice (or a cell holding it).
func txn4ElemOf(v ssa.Value, slice ssa.Value) *ssa.IndexAddr {
	ia, ok := core.Addr(v).(*ssa.IndexAddr)
	if !ok || ia == nil {
		return nil
	}
	if !txnValueIs(ia.X, slice) {
		return nil
	}
	return ia
}

// txn4LoopHead: the block of the Phi the index value steps from.
func txn4LoopHead(idx ssa.Value) *ssa.BasicBlock {
	switch x := idx.(type) {
	case *ssa.Phi:
		return x.Block()
	case *ssa.BinOp:
		if ph, ok := x.X.(*ssa.Phi); ok && x.Op == token.ADD && x.Block() == ph.Block() {
			return ph.Block()
		}
	}
	return nil
}

// txn4FullRange: idx enumerates 0..len(slice)-1: it is phi+1 with phi starting
// at -1 (range loop) or a phi starting at 0 and stepping by 1, and the head's
// condition is idx < len(slice).
func txn4FullRange(head *ssa.BasicBlock, idx ssa.Value, slice ssa.Value) string {
	iff := core.IfOf(head)
	if iff == nil {
		return "the loop head has no bound test"
	}
	var ph *ssa.Phi
	start := int64(0)
	switch x := idx.(type) {
	case *ssa.BinOp:
		ph, _ = x.X.(*ssa.Phi)
		if k, ok := core.ConstInt(x.Y); !ok || k != 1 {
			return "the index does not step by 1"
		}
		start = -1
	case *ssa.Phi:
		ph = x
	}
	if ph == nil {
		return "the index is not a loop counter"
	}
	okStart, okStep := false, false
	for _, e := range ph.Edges {
		if k, ok := core.ConstInt(e); ok {
			if k == start {
				okStart = true
			} else {
				return fmt.Sprintf("the loop counter starts at %d", k-start)
			}
			continue
		}
		if b, ok := e.(*ssa.BinOp); ok && b.Op == token.ADD {
			if k, isK := core.ConstInt(b.Y); isK && k == 1 && (b.X == ph) {
				okStep = true
				continue
			}
		}
		return "the loop counter is modified irregularly"
	}
	if !okStart || !okStep {
		return "the loop counter does not run from 0 in steps of 1"
	}
	b, ok := iff.Cond.(*ssa.BinOp)
	if !ok || b.Op != token.LSS || b.X != idx {
		return "the loop bound is not `index < len(infos)`"
	}
	ln, ok := b.Y.(*ssa.Call)
	if !ok {
		return "the loop bound is not len of the returned slice"
	}
	if bi, isB := ln.Call.Value.(*ssa.Builtin); !isB || bi.Name() != "len" || !txnValueIs(ln.Call.Args[0], slice) {
		return "the loop bound is not len of the returned slice"
	}
	return ""
}

// ---------------------------------------------------------------------------
// R-TXN-5 terminal steps

func ruleTxn5(c *Ctx) {
	p := c.P
	type req struct {
		fn        string
		step      string
		names     []string
		whenParam bool // required only on paths where the receiver parameter of the step is non-nil
		allRets   bool // every return (not only the possibly-nil ones)
	}
	reqs := []req{
		{txnTxCommit, "StoreTemporaryTable", []string{txnStoreTemp}, false, false},
		{txnTxCommit, "UncommittedViews.Clean", []string{txnUVClean}, false, false},
		{txnTxCommit, "ReleaseResources", []string{txnTxRelease}, false, false},
		{txnTxRollback, "RestoreTemporaryTable", []string{txnRestoreTemp}, true, false},
		{txnTxRollback, "UncommittedViews.Clean", []string{txnUVClean}, false, false},
		{txnTxRollback, "ReleaseResources", []string{txnTxRelease}, false, false},
		{txnTxRelease, "CachedViews.Clean", []string{txnVMClean}, false, false},
		{txnTxRelease, "FileContainer.CloseAll", []string{txnContCloseAll}, false, false},
		{txnTxReleaseE, "CachedViews.CleanWithErrors", []string{txnVMCleanE}, false, true},
		{txnTxReleaseE, "FileContainer.CloseAllWithErrors", []string{txnContCloseE}, false, true},
	}
	check := func(fn *ssa.Function, r req, label string) {
		c.Touch(fn)
		key := c.KeyAt(fn, label+" passes "+r.step)
		errIdx := core.ErrorResultIndex(fn)
		isStep := txnIsCall(p, r.names...)
		var cut core.EdgeCut
		if r.whenParam {
			// parameters used as receiver of the step
			recv := map[ssa.Value]bool{}
			for _, call := range txnCallsReaching(p, fn, r.names...) {
				if args := call.Common().Args; len(args) > 0 {
					if pa, ok := args[0].(*ssa.Parameter); ok {
						recv[pa] = true
					}
				}
			}
			cut = func(from, to *ssa.BasicBlock) bool {
				return txnNilEdge(from, to, func(v ssa.Value) bool { return recv[v] }, true)
			}
		}
		n := 0
		for _, ex := range core.ExitsFromEntry(fn, isStep, cut) {
			ret, ok := ex.(*ssa.Return)
			if !ok {
				continue
			}
			if !r.allRets && errIdx >= 0 && !txnMayReturnNil(ret, errIdx) {
				continue
			}
			n++
			c.Bad(key, c.Pos(ret), fmt.Sprintf("a path from the entry reaches the return at %s, which can report success, without having called %s: the transaction end would leave state behind (restore points, uncommitted marks, cached views or lock files)", c.Pos(ret), r.step))
			break
		}
		if n == 0 {
			if len(txnCallsReaching(p, fn, r.names...)) == 0 {
				c.Bad(key, c.FnPos(fn), "the function never calls "+r.step)
				return
			}
			c.Ok(key, c.FnPos(fn), "every return that can report success is preceded by "+r.step)
		}
	}
	for _, r := range reqs {
		fn := c.Fn(r.fn)
		if fn == nil {
			continue
		}
		check(fn, r, "success path")
	}
	for _, f := range txnCtl(c, "Txn5Rollback") {
		check(f, req{"", "RestoreTemporaryTable", []string{txnRestoreTemp}, true, false}, "success path")
	}

	// Clean is never followed by a read of the uncommitted sets
	readers := []string{txnUVFiles, txnUVTemp, txnStoreTemp, txnRestoreTemp, txnUVUnset}
	var cleanFns []*ssa.Function
	for _, n := range []string{txnTxCommit, txnTxRollback} {
		if f := c.FnOpt(n); f != nil {
			cleanFns = append(cleanFns, f)
		}
	}
	cleanFns = append(cleanFns, txnCtl(c, "Txn5Clean")...)
	for _, fn := range cleanFns {
		isReader := txnIsCall(p, readers...)
		for i, call := range txnCallsReaching(p, fn, txnUVClean) {
			in := call.(ssa.Instruction)
			key := c.KeyAt(fn, fmt.Sprintf("UncommittedViews.Clean #%d is last", i+1))
			var off ssa.Instruction
			core.WalkFrom(in, func(x ssa.Instruction) bool {
				if off == nil && isReader(x) {
					off = x
				}
				return off == nil
			})
			if off != nil {
				c.Bad(key, c.Pos(in), fmt.Sprintf("after the uncommitted sets have been cleared, %s reads them at %s: temporary tables would get no restore point / would not be restored", txnCallLabel(p, off.(ssa.CallInstruction)), c.Pos(off)))
			} else {
				c.Ok(key, c.Pos(in), "no read of the uncommitted sets is reachable after Clean")
			}
		}
	}

	// Range callbacks: arm → action
	type arm struct{ owner, test, step, stepName string }
	arms := []arm{
		{txnRestoreTemp, "lib/query.(*FileInfo).IsTemporaryTable", "lib/query.(*View).Restore", "View.Restore"},
		{txnRestoreTemp, "lib/query.(*FileInfo).IsStdin", "lib/query.(ViewMap).Delete", "ViewMap.Delete"},
		{txnStoreTemp, "lib/query.(*FileInfo).IsTemporaryTable", "lib/query.(*View).CreateRestorePoint", "View.CreateRestorePoint"},
		{txnStoreTemp, "lib/query.(*FileInfo).IsStdin", "lib/query.(*Session).updateStdinView", "Session.updateStdinView"},
	}
	// badGuard: a dominating condition of block b other than membership in the
	// uncommitted set, "not the other kind of view" and nil checks; "" if none.
	badGuard := func(b *ssa.BasicBlock, skip *ssa.If) string {
		bad := ""
		for _, f := range core.FactsAt(b) {
			if f.If == skip {
				continue
			}
			cond, _ := core.UnNot(f.Cond)
			if ex, ok := cond.(*ssa.Extract); ok {
				if lk, ok := ex.Tuple.(*ssa.Lookup); ok && lk.CommaOk && ex.Index == 1 {
					if !f.Neg {
						continue // present in the uncommitted map
					}
				}
			}
			if call, ok := cond.(*ssa.Call); ok && strings.HasPrefix(p.CalleeName(call), "lib/query.(*FileInfo).Is") && f.Neg {
				continue // not the other kind of view
			}
			if _, _, isNil := core.NilCmp(cond); isNil {
				continue
			}
			bad = c.Pos(f.If)
		}
		return bad
	}
	// armScope: a function in which an arm may live — a Range callback of the
	// owner (also one bound to a local before the loop) or a lib/query helper the
	// callback statically calls (two levels) — with the extra guard, if any, on
	// the way from the callback to it.
	type armScope struct {
		fn       *ssa.Function
		badOnWay string
	}
	scopesOf := func(owner *ssa.Function) []armScope {
		var out []armScope
		seen := map[*ssa.Function]bool{}
		var add func(fn *ssa.Function, bad string, depth int)
		add = func(fn *ssa.Function, bad string, depth int) {
			if seen[fn] {
				return
			}
			seen[fn] = true
			out = append(out, armScope{fn, bad})
			if depth >= 2 {
				return
			}
			for _, call := range core.Calls(fn) {
				cc, ok := call.(*ssa.Call)
				if !ok {
					continue
				}
				k := core.StaticCallee(cc)
				if k == nil || k.Blocks == nil || k.Parent() != nil || !p.InPkg(k, "lib/query") {
					continue
				}
				// only helpers that receive the view (or its FileInfo)
				takesView := false
				for _, a := range cc.Call.Args {
					if n := core.NamedOf(a.Type()); n == "lib/query.View" || n == "lib/query.FileInfo" {
						takesView = true
					}
				}
				if !takesView {
					continue
				}
				b := bad
				if b == "" {
					b = badGuard(cc.Block(), nil)
				}
				add(k, b, depth+1)
			}
		}
		for _, cb := range owner.AnonFuncs {
			add(cb, "", 0)
		}
		return out
	}
	// isStepOf: a call of the step itself, or of a lib/query function that calls
	// it directly (the transitive call graph is useless here: the steps are
	// reached from Range callbacks, which makes them "reachable" from everything
	// that ranges over a sync map)
	isStepOf := func(step string) func(ssa.Instruction) bool {
		return func(in ssa.Instruction) bool {
			call, ok := in.(*ssa.Call)
			if !ok {
				return false
			}
			k := core.StaticCallee(call)
			if k == nil {
				return false
			}
			if p.FnRef(k) == step {
				return true
			}
			return txnIsSrc(p, k) && k.Parent() == nil && len(p.CallsNamed(k, step)) > 0
		}
	}
	for _, a := range arms {
		owner := c.Fn(a.owner)
		if owner == nil {
			continue
		}
		key := c.KeyAt(owner, "callback arm "+strings.TrimPrefix(a.test, "lib/query.(*FileInfo).")+" -> "+a.stepName)
		found := false
		for _, sc := range scopesOf(owner) {
			cb := sc.fn
			for _, b := range cb.Blocks {
				iff := core.IfOf(b)
				if iff == nil {
					continue
				}
				tc, ok := iff.Cond.(*ssa.Call)
				if !ok || p.CalleeName(tc) != a.test {
					continue
				}
				// a helper qualifies only if it also performs the step (View.Copy etc. test IsStdin for other reasons)
				if cb.Parent() == nil && len(core.CallsWhere(cb, func(ci ssa.CallInstruction) bool { return isStepOf(a.step)(ci.(ssa.Instruction)) })) == 0 {
					continue
				}
				found = true
				c.Touch(cb)
				// the arm always performs the step
				if exits := txnExitsFromBlock(b.Succs[0], isStepOf(a.step)); len(exits) > 0 {
					c.Bad(key, c.Pos(iff), fmt.Sprintf("when %s holds, the callback can return (at %s) without calling %s", a.test, c.Pos(exits[0]), a.stepName))
					continue
				}
				// the test itself is guarded only by membership in the uncommitted set and by the other arm's test
				bad := badGuard(b, iff)
				if bad == "" {
					bad = sc.badOnWay
				}
				if bad != "" {
					c.Bad(key, c.Pos(iff), "the arm is additionally guarded by the condition at "+bad+": some uncommitted views of this kind would be skipped")
					continue
				}
				where := ""
				if cb.Parent() == nil {
					where = " (in helper " + p.FnRef(cb) + ", called from the callback)"
				}
				c.Ok(key, c.Pos(iff), "the arm is guarded only by membership in the uncommitted set and always calls "+a.stepName+where)
			}
		}
		if !found {
			c.Unknown(key, c.FnPos(owner), "cannot-analyse: no Range callback of this function (nor a helper it hands the view to) branches on "+a.test)
		}
	}

	// DeclareView: restore point before publication
	if dv := c.Fn("lib/query.DeclareView"); dv != nil {
		pubs := p.CallsNamed(dv, txnSetTemp)
		if len(pubs) == 0 {
			c.Unknown(c.KeyAt(dv, "restore point before SetTemporaryTable"), c.FnPos(dv), "cannot-analyse: DeclareView no longer calls SetTemporaryTable")
		}
		for i, pub := range pubs {
			in := pub.(ssa.Instruction)
			key := c.KeyAt(dv, fmt.Sprintf("restore point before SetTemporaryTable #%d", i+1))
			args := pub.Common().Args
			ok := false
			for _, rp := range p.CallsNamed(dv, "lib/query.(*View).CreateRestorePoint") {
				ra := rp.Common().Args
				if len(args) >= 2 && len(ra) >= 1 && (ra[0] == args[1] || core.SameCell(ra[0], args[1])) && core.Dominates(rp.(ssa.Instruction), in) {
					ok = true
				}
			}
			c.Check(ok, key, c.Pos(in), "CreateRestorePoint on the same view dominates the publication",
				"the temporary table is published without a restore point taken first: a ROLLBACK before the first COMMIT could not restore its declared contents")
		}
	}
}

func txnExitsFromBlock(b *ssa.BasicBlock, stop func(ssa.Instruction) bool) []ssa.Instruction {
	var out []ssa.Instruction
	core.WalkPruned(b, 0, func(in ssa.Instruction) bool {
		if stop(in) {
			return false
		}
		switch in.(type) {
		case *ssa.Return, *ssa.Panic:
			out = append(out, in)
			return false
		}
		return true
	}, nil)
	return out
}

// ---------------------------------------------------------------------------
// R-TXN-7 no process exit under an open transaction

var txn7Forbidden = []string{"os.Exit", "syscall.Exit", "runtime.Goexit", "log.Fatal", "log.Fatalf", "log.Fatalln",
	"(*log.Logger).Fatal", "(*log.Logger).Fatalf", "(*log.Logger).Fatalln"}

func txn7StdLib(f *ssa.Function) bool {
	pk := core.FnPkg(f)
	if pk == nil {
		return true // synthetic / runtime-internal
	}
	path := pk.Pkg.Path()
	first := path
	if i := strings.IndexByte(path, '/'); i >= 0 {
		first = path[:i]
	}
	return !strings.Contains(first, ".")
}

func ruleTxn7(c *Ctx) {
	p := c.P
	root := c.Fn(txnProcExecute)
	if root == nil {
		return
	}
	roots := []*ssa.Function{root}
	for _, f := range txnCtl(c, "Txn7") {
		if f.Parent() == nil {
			roots = append(roots, f)
		}
	}
	forbidden := p.NameIs(txn7Forbidden...)
	for _, r := range roots {
		// BFS with parents so that a finding can name the call chain
		parent := map[*ssa.Function]*ssa.Function{r: nil}
		queue := []*ssa.Function{r}
		cg := p.CG()
		hits := map[string][]*ssa.Function{} // forbidden name → non-stdlib callers
		for len(queue) > 0 {
			f := queue[0]
			queue = queue[1:]
			var next []*ssa.Function
			if n := cg.Nodes[f]; n != nil {
				for _, e := range n.Out {
					next = append(next, e.Callee.Func)
				}
			}
			next = append(next, f.AnonFuncs...)
			for _, g := range next {
				if forbidden(g) && !txn7StdLib(f) {
					hits[p.FnRef(g)] = append(hits[p.FnRef(g)], f)
				}
				if _, seen := parent[g]; !seen {
					parent[g] = f
					queue = append(queue, g)
				}
			}
		}
		c.Touch(r)
		if p.IsControl(r) && len(hits) == 0 {
			c.Ok(c.KeyAt(r, "cannot reach a process exit"), c.FnPos(r), "no forbidden call reachable")
			continue
		}
		for _, name := range txn7Forbidden {
			key := c.KeyAt(r, "cannot reach "+name)
			callers := hits[name]
			if len(callers) == 0 {
				if p.IsControl(r) {
					continue
				}
				c.Ok(key, c.FnPos(r), fmt.Sprintf("none of the %d functions reachable from here calls it outside the standard library", len(parent)))
				continue
			}
			sort.Slice(callers, func(i, j int) bool { return p.FnRef(callers[i]) < p.FnRef(callers[j]) })
			f := callers[0]
			var chain []string
			for g := f; g != nil; g = parent[g] {
				chain = append([]string{p.FnRef(g)}, chain...)
			}
			c.Bad(key, c.FnPos(f), fmt.Sprintf("%s calls %s and is reachable while a transaction is open (%s): the process would end without the deferred rollback, leaving lock and temporary files and possibly a half-swapped commit", p.FnRef(f), name, strings.Join(chain, " -> ")))
		}
	}
}

// ---------------------------------------------------------------------------
// R-TXN-8 what is encoded is what is swapped

func ruleTxn8(c *Ctx) {
	commit := c.Fn(txnTxCommit)
	if commit == nil {
		return
	}
	start := len(c.Obs)
	defer func() { c.negControls(start, "okTxn8HandedFileHelper") }()
	txn8Func(c, commit, true)
	for _, f := range txnCtl(c, "Txn8") {
		if f.Parent() == nil {
			txn8Func(c, f, false)
		}
	}
}

// txn8SliceRoots: the make() instructions a slice variable grows from, and the
// appends on the way; ok=false if anything else feeds it.
func txn8SliceRoots(v ssa.Value, extra map[ssa.Value]bool) (roots map[ssa.Value]bool, appends []*ssa.Call, ok bool) {
	roots = map[ssa.Value]bool{}
	ok = true
	seen := map[ssa.Value]bool{}
	var walk func(v ssa.Value)
	walk = func(v ssa.Value) {
		if seen[v] {
			return
		}
		seen[v] = true
		if extra[v] {
			roots[v] = true
			return
		}
		if tv := txnThroughCell(v); tv != v {
			walk(tv)
			return
		}
		switch x := v.(type) {
		case *ssa.Phi:
			for _, e := range x.Edges {
				walk(e)
			}
		case *ssa.MakeSlice:
			roots[x] = true
		case *ssa.Slice:
			// make([]T, const) is compiled to a fresh array that is sliced
			if al, isAlloc := x.X.(*ssa.Alloc); isAlloc && al.Comment == "makeslice" {
				roots[al] = true
			} else {
				ok = false
			}
		case *ssa.Call:
			if b, isB := x.Call.Value.(*ssa.Builtin); isB && b.Name() == "append" {
				appends = append(appends, x)
				walk(x.Call.Args[0])
				return
			}
			ok = false
		case *ssa.Const:
			if x.Value != nil {
				ok = false
			} else {
				roots[x] = true // var s []T
			}
		default:
			ok = false
		}
	}
	walk(v)
	return
}

// txn8Appended: the single element appended by `append(s, x)` (variadic of one).
func txn8Appended(ap *ssa.Call) ssa.Value {
	if len(ap.Call.Args) != 2 {
		return nil
	}
	sl, ok := ap.Call.Args[1].(*ssa.Slice)
	if !ok {
		return nil
	}
	arr, ok := sl.X.(*ssa.Alloc)
	if !ok || arr.Referrers() == nil {
		return nil
	}
	var val ssa.Value
	n := 0
	for _, r := range *arr.Referrers() {
		if ia, ok := r.(*ssa.IndexAddr); ok && ia.Referrers() != nil {
			for _, rr := range *ia.Referrers() {
				if st, ok := rr.(*ssa.Store); ok && st.Addr == ia {
					val = st.Val
					n++
				}
			}
		}
	}
	if n != 1 {
		return nil
	}
	return val
}

// txn8SwapSite decomposes a direct `Container.Commit(<list>[i].Handler)` call:
// the slice, the index and the FileInfo element whose handler is swapped.
func txn8SwapSite(s *ssa.Call) (list, idx, owner ssa.Value, ok bool) {
	if len(s.Call.Args) != 2 {
		return nil, nil, nil, false
	}
	fa, isFA := core.Addr(s.Call.Args[1]).(*ssa.FieldAddr)
	if !isFA || fa == nil || core.FieldName(fa) != "Handler" {
		return nil, nil, nil, false
	}
	ia, isIA := core.Addr(fa.X).(*ssa.IndexAddr)
	if !isIA || ia == nil {
		return nil, nil, nil, false
	}
	return ia.X, ia.Index, fa.X, true
}

// txn8AfterSwap: after the successful swap s (of FileInfo owner), what can be
// reached without UncommittedViews.Unset(owner)? "" if nothing that matters.
func txn8AfterSwap(c *Ctx, s *ssa.Call, owner ssa.Value, isSwap func(ssa.Instruction) bool, successReturn func(ssa.Instruction) bool) string {
	p := c.P
	isUnset := func(in ssa.Instruction) bool {
		u, ok := in.(*ssa.Call)
		return ok && p.CalleeName(u) == txnUVUnset && len(u.Call.Args) == 2 && (u.Call.Args[1] == owner || core.SamePath(u.Call.Args[1], owner))
	}
	errV := ssa.Value(s)
	cut := func(from, to *ssa.BasicBlock) bool {
		return txnNilEdge(from, to, func(v ssa.Value) bool { return v == errV }, false)
	}
	off := ""
	core.WalkPruned(s.Block(), core.InstrIndex(s)+1, func(in ssa.Instruction) bool {
		if off != "" || isUnset(in) {
			return false
		}
		if isSwap(in) {
			off = "the next swap at " + c.Pos(in)
			return false
		}
		if successReturn(in) {
			off = "the return at " + c.Pos(in)
			return false
		}
		return true
	}, cut)
	return off
}

// txn8SwapHelper: h swaps exactly the elements of its []*FileInfo parameter #i:
// every direct Container.Commit in h takes <param>[k].Handler inside a loop
// over the whole parameter and is followed by Unset; h has no other call that
// can swap. Returns "" or the reason why not.
func txn8SwapHelper(c *Ctx, h *ssa.Function, i int) string {
	p := c.P
	if h == nil || h.Blocks == nil || i >= len(h.Params) {
		return "no body"
	}
	param := h.Params[i]
	swapSet := txnSet(p, txnContCommit)
	errIdx := core.ErrorResultIndex(h)
	var swaps []*ssa.Call
	for _, call := range core.Calls(h) {
		if !txnCallIn(p, call, swapSet) {
			continue
		}
		cc, ok := call.(*ssa.Call)
		if !ok || p.CalleeName(cc) != txnContCommit {
			return "it swaps through a further call (" + txnCallLabel(p, call) + ")"
		}
		swaps = append(swaps, cc)
	}
	if len(swaps) == 0 {
		return "no direct Container.Commit call"
	}
	isSwap := func(in ssa.Instruction) bool {
		for _, s := range swaps {
			if s == in {
				return true
			}
		}
		return false
	}
	successReturn := func(in ssa.Instruction) bool {
		r, ok := in.(*ssa.Return)
		return ok && (errIdx < 0 || txnMayReturnNil(r, errIdx))
	}
	for _, s := range swaps {
		list, idx, owner, ok := txn8SwapSite(s)
		if !ok || !txnValueIs(list, param) {
			return "the swap at " + c.Pos(s) + " does not take <parameter>[i].Handler"
		}
		head := txn4LoopHead(idx)
		if head == nil {
			return "the swap at " + c.Pos(s) + " is not in a loop over the parameter"
		}
		if why := txn4FullRange(head, idx, param); why != "" {
			return "the swap loop does not visit every element: " + why
		}
		if off := txn8AfterSwap(c, s, owner, isSwap, successReturn); off != "" {
			return "after the swap at " + c.Pos(s) + ", " + off + " is reachable without Unset"
		}
	}
	return ""
}

// txn8Enc is one place in a function where a view gets encoded into its table
// file: a direct EncodeView call, or a call of a per-view encode helper (a csvq
// function shown to encode one view through its own handler and to return that
// view's FileInfo).
type txn8Enc struct {
	call   *ssa.Call
	errV   ssa.Value
	direct bool
	view   ssa.Value               // direct: the encoded view
	result ssa.Value               // helper: the returned *FileInfo
	from   []ssa.Value             // values the encoded view is derived from (for "both maps are encoded")
	helper *ssa.Function           // helper only
	isFI   func(el ssa.Value) bool // el is the FileInfo of the view encoded here
	// write helper (a helper that encodes the view it is handed into the file it is handed and returns
	// only the error): view is the argument handed for the view; writer the argument handed for the file
	// (nil when the helper takes FileForUpdate() of the view's own handler itself)
	handed bool
	writer ssa.Value
}

func txn8DirectEnc(e *ssa.Call) txn8Enc {
	enc := txn8Enc{call: e, direct: true, errV: txnExtract(e, 1)}
	if len(e.Call.Args) >= 3 {
		view := e.Call.Args[2]
		enc.view = view
		enc.from = []ssa.Value{view}
		enc.isFI = func(el ssa.Value) bool {
			r, path, pk := core.AccessPath(el)
			return pk && r == view && path == ".FileInfo"
		}
	} else {
		enc.isFI = func(ssa.Value) bool { return false }
	}
	return enc
}

// txn8Collect classifies the calls of g that can encode or swap. Encodes are
// direct EncodeView calls and calls of verified per-view helpers; list helpers
// (encode the views of a map, return the list) and swaps are reported through
// the callbacks. why != "" when a call cannot be classified.
type txn8ListHelper struct {
	in        *ssa.Call
	list      ssa.Value
	h         *ssa.Function
	mapParams map[int]bool
}

func txn8CollectEncs(c *Ctx, g *ssa.Function, depth int, onSwap func(call ssa.CallInstruction) string) (encs []txn8Enc, lists []txn8ListHelper, why string, at ssa.Instruction) {
	p := c.P
	encSet, swapSet := txnSet(p, txnEncodeView), txnSet(p, txnContCommit)
	for _, call := range core.Calls(g) {
		isEnc, isSw := txnCallIn(p, call, encSet), txnCallIn(p, call, swapSet)
		if !isEnc && !isSw {
			continue
		}
		in := call.(ssa.Instruction)
		cc, ok := call.(*ssa.Call)
		name := p.CalleeName(call)
		switch {
		case ok && name == txnEncodeView:
			encs = append(encs, txn8DirectEnc(cc))
		case isSw && !isEnc:
			if w := onSwap(call); w != "" {
				return nil, nil, w, in
			}
		case ok && isEnc && !isSw:
			h := core.StaticCallee(cc)
			if h == nil || !txnIsSrc(p, h) || depth >= 2 {
				return nil, nil, "views are encoded inside " + txnCallLabel(p, call) + ", which is not a statically known csvq function the rule can follow", in
			}
			res := h.Signature.Results()
			kind := 0
			if res.Len() >= 1 {
				kind = txn4IsFileInfo(res.At(0).Type())
			}
			switch kind {
			case 1: // per-view helper: fi, err := h(…)
				w := txn8ViewHelper(c, h, depth+1)
				if w != "" {
					return nil, nil, "views are encoded inside " + txnCallLabel(p, call) + " and the rule cannot relate them to the swapped files (" + w + ")", in
				}
				c.Touch(h)
				enc := txn8Enc{call: cc, helper: h}
				enc.errV, _ = txnErrOf(cc)
				var result ssa.Value = cc
				if res.Len() > 1 {
					result = txnExtract(cc, 0)
				}
				enc.result = result
				enc.from = append(enc.from, cc.Call.Args...)
				enc.isFI = func(el ssa.Value) bool { return result != nil && txnValueIs(el, result) }
				encs = append(encs, enc)
			case 2: // list helper: list, err := h(files)
				mp, w := txn8EncodeHelper(c, h, depth+1)
				if w != "" {
					return nil, nil, "views are encoded inside " + txnCallLabel(p, call) + " and the rule cannot relate them to the swapped files (" + w + ")", in
				}
				c.Touch(h)
				var list ssa.Value = cc
				if res.Len() > 1 {
					list = txnExtract(cc, 0)
				}
				lists = append(lists, txn8ListHelper{cc, list, h, mp})
			default: // write helper: err := h(…, file, view, …)
				pw, pv, w := txn8WriteHelper(c, h, depth+1)
				if w != "" || pv >= len(cc.Call.Args) || pw >= len(cc.Call.Args) {
					return nil, nil, "views are encoded inside " + txnCallLabel(p, call) + ", which returns neither the FileInfo nor the list of FileInfos of what it encoded, and is not shown to encode exactly the view it is handed into the file it is handed (" + w + ")", in
				}
				c.Touch(h)
				enc := txn8Enc{call: cc, helper: h, handed: true}
				enc.errV, _ = txnErrOf(cc)
				view := cc.Call.Args[pv]
				enc.view = view
				enc.from = []ssa.Value{view}
				enc.isFI = func(el ssa.Value) bool {
					r, path, pk := core.AccessPath(el)
					return pk && r == view && path == ".FileInfo"
				}
				if pw >= 0 {
					enc.writer = cc.Call.Args[pw]
				}
				encs = append(encs, enc)
			}
		default:
			return nil, nil, "EncodeView / Container.Commit is reached through " + txnCallLabel(p, call) + "; the correspondence between encoded and swapped files is not visible in this function", in
		}
	}
	return encs, lists, "", nil
}

// txn8WriterOK: a direct EncodeView writes through FileForUpdate() of the
// handler of the view it encodes.
func txn8WriterOK(p *core.Prog, e *ssa.Call) bool {
	if len(e.Call.Args) < 3 {
		return false
	}
	return txn8WriterIs(p, e.Call.Args[1], e.Call.Args[2])
}

// txn8WriterIs: writer is FileForUpdate() of view.FileInfo.Handler.
func txn8WriterIs(p *core.Prog, writer, view ssa.Value) bool {
	w := core.Strip(writer)
	fu, idx, ok := core.ExtractOf(w)
	if ok && idx == 0 && p.CalleeName(fu) == txnFileForUpd && len(fu.Call.Args) == 1 {
		r, path, pk := core.AccessPath(fu.Call.Args[0])
		return pk && r == view && path == ".FileInfo.Handler"
	}
	return false
}

// txn8Reassigned: g reassigns View.FileInfo / FileInfo.Handler of an existing
// object (side condition of the access-path comparisons); "" or the position.
func txn8Reassigned(c *Ctx, g *ssa.Function) string {
	for _, b := range g.Blocks {
		for _, in := range b.Instrs {
			if st, ok := in.(*ssa.Store); ok {
				switch core.FieldOwner(st.Addr) {
				case "lib/query.View.FileInfo", "lib/query.FileInfo.Handler":
					if fa, isFA := st.Addr.(*ssa.FieldAddr); isFA {
						if _, fresh := fa.X.(*ssa.Alloc); fresh {
							continue // initialising a struct allocated here
						}
					}
					return c.Pos(in)
				}
			}
		}
	}
	return ""
}

// txn8EncodePhase examines the encodes of g: a direct EncodeView writes through
// FileForUpdate() of the handler of the view it encodes, and after the success
// of an encode every path appends the FileInfo of the encoded view to a
// []*FileInfo before it reaches another encode, a stop instruction (swap) or a
// return that can report success. Returns the appends found and, per encode,
// "" or what is wrong.
func txn8EncodePhase(c *Ctx, g *ssa.Function, encs []txn8Enc, isStop func(ssa.Instruction) bool) (fills []*ssa.Call, bad []string) {
	p := c.P
	errIdx := core.ErrorResultIndex(g)
	isEncode := func(in ssa.Instruction) bool {
		for _, e := range encs {
			if e.call == in {
				return true
			}
		}
		return false
	}
	bad = make([]string, len(encs))
	reassigned := txn8Reassigned(c, g)
	for i, e := range encs {
		if e.direct {
			if reassigned != "" {
				bad[i] = "the function reassigns View.FileInfo / FileInfo.Handler at " + reassigned + ": the rule cannot tell that the handler written to is the handler that is swapped"
				continue
			}
			if !txn8WriterOK(p, e.call) {
				bad[i] = "the writer given to EncodeView is not FileForUpdate() of the handler of the encoded view itself: a view could be written into another table's file"
				continue
			}
		} else if e.handed {
			if reassigned != "" {
				bad[i] = "the function reassigns View.FileInfo / FileInfo.Handler at " + reassigned + ": the rule cannot tell that the handler written to is the handler that is swapped"
				continue
			}
			if e.writer != nil && !txn8WriterIs(p, e.writer, e.view) {
				bad[i] = "the file handed to " + p.FnRef(e.helper) + ", which encodes the view into it, is not FileForUpdate() of the handler of the encoded view itself: a view could be written into another table's file"
				continue
			}
		} else if e.result == nil {
			bad[i] = "the FileInfo returned by the encode helper is discarded: the file can never be put on the swap list"
			continue
		}
		errV := e.errV
		cut := func(from, to *ssa.BasicBlock) bool {
			return txnNilEdge(from, to, func(v ssa.Value) bool { return errV != nil && txnValueIs(v, errV) }, false)
		}
		isFI := e.isFI
		off := ""
		core.WalkPruned(e.call.Block(), core.InstrIndex(e.call)+1, func(in ssa.Instruction) bool {
			if off != "" {
				return false
			}
			if ap, isCall := in.(*ssa.Call); isCall {
				if bi, isB := ap.Call.Value.(*ssa.Builtin); isB && bi.Name() == "append" && txn4IsFileInfo(ap.Type()) == 2 {
					if el := txn8Appended(ap); el != nil && isFI(el) {
						fills = append(fills, ap)
						return false
					}
				}
			}
			switch {
			case isEncode(in):
				off = "the next encode"
			case isStop(in):
				off = "the swap phase at " + c.Pos(in)
			default:
				if r, isRet := in.(*ssa.Return); isRet && (errIdx < 0 || txnMayReturnNil(r, errIdx)) {
					off = "the return at " + c.Pos(in)
				}
			}
			return off == ""
		}, cut)
		if off != "" {
			bad[i] = "after this view has been encoded successfully, " + off + " is reachable without its FileInfo having been appended to the list that is swapped: the new contents would stay in the temp file and be discarded, while the statement reported success"
		}
	}
	return
}

// txn8AppendsOK: every append feeding a swapped list puts the FileInfo of a view
// whose encode dominates it; returns the position of a bad append or "".
func txn8AppendsOK(c *Ctx, apps []*ssa.Call, encs []txn8Enc) string {
	for _, ap := range apps {
		el := txn8Appended(ap)
		okAp := false
		for _, e := range encs {
			if el != nil && core.Dominates(e.call, ap) && e.isFI(el) {
				okAp = true
			}
		}
		if !okAp {
			return c.Pos(ap)
		}
	}
	return ""
}

// txn8ViewHelper: h encodes one view — directly, through FileForUpdate() of
// that view's own handler, or through a further per-view helper — and every
// return that can report success yields the FileInfo of a view whose encode
// dominates the return and cannot have failed on the way to it.
func txn8ViewHelper(c *Ctx, h *ssa.Function, depth int) string {
	p := c.P
	if h == nil || h.Blocks == nil {
		return "no body"
	}
	encs, lists, why, _ := txn8CollectEncs(c, h, depth, func(call ssa.CallInstruction) string { return "it also swaps files" })
	if why != "" {
		return why
	}
	if len(lists) > 0 || len(encs) == 0 {
		return "it does not encode exactly the view it is called for"
	}
	if pos := txn8Reassigned(c, h); pos != "" {
		return "it reassigns View.FileInfo / FileInfo.Handler at " + pos
	}
	for _, e := range encs {
		if e.direct && !txn8WriterOK(p, e.call) {
			return "the writer given to EncodeView at " + c.Pos(e.call) + " is not FileForUpdate() of the handler of the encoded view itself"
		}
		if e.handed && e.writer != nil && !txn8WriterIs(p, e.writer, e.view) {
			return "the file handed to the encode helper at " + c.Pos(e.call) + " is not FileForUpdate() of the handler of the encoded view itself"
		}
	}
	errIdx := core.ErrorResultIndex(h)
	n := 0
	for _, r := range core.Returns(h) {
		if errIdx >= 0 && !txnMayReturnNil(r, errIdx) {
			continue
		}
		n++
		for _, v := range core.ReturnOperand(r, 0) {
			ok := false
			for _, e := range encs {
				if v == nil || !core.Dominates(e.call, r) || !e.isFI(v) {
					continue
				}
				// not reachable from the failure edge of the encode
				errV := e.errV
				cut := func(from, to *ssa.BasicBlock) bool {
					return txnNilEdge(from, to, func(x ssa.Value) bool { return errV != nil && txnValueIs(x, errV) }, true)
				}
				if errV != nil && !core.ReachesAfter(e.call, r, nil, cut) {
					ok = true
				}
			}
			if !ok {
				return "the return at " + c.Pos(r) + " can report success with something else than the FileInfo of a view that was successfully encoded before it"
			}
		}
	}
	if n == 0 {
		return "it has no return that can report success"
	}
	return ""
}

// txn8WriteHelper: h encodes exactly the view it is handed (parameter #pv) — directly or through a
// further such helper — into the file it is handed (parameter #pw; pw = -1 when h itself takes
// FileForUpdate() of the handler of that view), it swaps nothing, and every return that can report
// success is dominated by an encode and cannot be reached from the failure edge of that encode:
// "h returned nil" means "the view was encoded". The caller then stands for the encode, with the
// parameters mapped back to its arguments.
func txn8WriteHelper(c *Ctx, h *ssa.Function, depth int) (pw, pv int, why string) {
	p := c.P
	if h == nil || h.Blocks == nil {
		return -1, -1, "no body"
	}
	errIdx := core.ErrorResultIndex(h)
	if errIdx < 0 {
		return -1, -1, "it returns no error: a failed encode cannot be told from a successful one"
	}
	encs, lists, w, _ := txn8CollectEncs(c, h, depth, func(call ssa.CallInstruction) string { return "it also swaps files" })
	if w != "" {
		return -1, -1, w
	}
	if len(lists) > 0 || len(encs) == 0 {
		return -1, -1, "it does not encode exactly the view it is called for"
	}
	if pos := txn8Reassigned(c, h); pos != "" {
		return -1, -1, "it reassigns View.FileInfo / FileInfo.Handler at " + pos
	}
	paramIdx := func(v ssa.Value) int {
		q, ok := core.Strip(v).(*ssa.Parameter)
		if !ok {
			if pp, i := fxParamOf(v); pp != nil && pp.Parent() == h {
				return i
			}
			return -1
		}
		for i, x := range h.Params {
			if x == q {
				return i
			}
		}
		return -1
	}
	pw, pv = -2, -2
	for _, e := range encs {
		var view, writer ssa.Value
		switch {
		case e.direct && len(e.call.Call.Args) >= 3:
			view, writer = e.call.Call.Args[2], e.call.Call.Args[1]
		case e.handed:
			view, writer = e.view, e.writer
		default:
			return -1, -1, "it encodes through a helper that returns a FileInfo of its own"
		}
		vi := paramIdx(view)
		if vi < 0 {
			return -1, -1, "the view encoded at " + c.Pos(e.call) + " is not the view it is handed"
		}
		wi := -1
		if writer != nil {
			if wi = paramIdx(writer); wi < 0 && !txn8WriterIs(p, writer, view) {
				return -1, -1, "the writer at " + c.Pos(e.call) + " is neither a file it is handed nor FileForUpdate() of the handler of the encoded view"
			}
		}
		if (pv != -2 && pv != vi) || (pw != -2 && pw != wi) {
			return -1, -1, "it encodes more than one view / into more than one file"
		}
		pv, pw = vi, wi
	}
	n := 0
	for _, r := range core.Returns(h) {
		if !txnMayReturnNil(r, errIdx) {
			continue
		}
		n++
		ok := false
		for _, e := range encs {
			if e.errV == nil || !core.Dominates(e.call, r) {
				continue
			}
			errV := e.errV
			cut := func(from, to *ssa.BasicBlock) bool {
				return txnNilEdge(from, to, func(x ssa.Value) bool { return txnValueIs(x, errV) }, true)
			}
			if !core.ReachesAfter(e.call, r, nil, cut) {
				ok = true
			}
		}
		if !ok {
			return -1, -1, "the return at " + c.Pos(r) + " can report success although the view was not (successfully) encoded before it"
		}
	}
	if n == 0 {
		return -1, -1, "it has no return that can report success"
	}
	return pw, pv, ""
}

// txn8EncodeHelper: h encodes views derived from its map parameter(s) and
// returns, on every return that can report success, exactly the list of the
// FileInfos of the views it encoded.
func txn8EncodeHelper(c *Ctx, h *ssa.Function, depth int) (mapParams map[int]bool, why string) {
	if h == nil || h.Blocks == nil {
		return nil, "no body"
	}
	res := h.Signature.Results()
	if res.Len() < 1 || txn4IsFileInfo(res.At(0).Type()) != 2 {
		return nil, "it does not return the []*FileInfo list of what it encoded"
	}
	encs, lists, w, _ := txn8CollectEncs(c, h, depth, func(call ssa.CallInstruction) string { return "it also swaps files" })
	if w != "" {
		return nil, w
	}
	if len(lists) > 0 {
		return nil, "it encodes through a further list helper"
	}
	if len(encs) == 0 {
		return nil, "no encode"
	}
	fills, bad := txn8EncodePhase(c, h, encs, func(ssa.Instruction) bool { return false })
	for i, b := range bad {
		if b != "" {
			return nil, fmt.Sprintf("encode at %s: %s", c.Pos(encs[i].call), b)
		}
	}
	fillRoots := map[ssa.Value]bool{}
	for _, ap := range fills {
		roots, _, ok := txn8SliceRoots(ap, nil)
		if !ok || len(roots) != 1 {
			return nil, "the list it fills is not built only by one make() and appends"
		}
		for r := range roots {
			fillRoots[r] = true
		}
	}
	errIdx := core.ErrorResultIndex(h)
	for _, r := range core.Returns(h) {
		if errIdx >= 0 && !txnMayReturnNil(r, errIdx) {
			continue
		}
		for _, v := range core.ReturnOperand(r, 0) {
			if v == nil {
				return nil, "a success return yields no list"
			}
			roots, apps, ok := txn8SliceRoots(v, nil)
			if !ok || len(roots) != 1 {
				return nil, "the returned list is not built only by one make() and appends"
			}
			for rt := range roots {
				if !fillRoots[rt] {
					return nil, "the returned list is not the list filled after the encodes"
				}
			}
			if bp := txn8AppendsOK(c, apps, encs); bp != "" {
				return nil, "the append at " + bp + " puts something else than the FileInfo of an encoded view into the returned list"
			}
		}
	}
	if len(fillRoots) != 1 {
		return nil, "it fills more than one list"
	}
	mapParams = map[int]bool{}
	for j, pj := range h.Params {
		if _, isMap := pj.Type().Underlying().(*types.Map); !isMap {
			continue
		}
		all := true
		for _, e := range encs {
			dep := false
			for _, f := range e.from {
				if core.DependsOn(f, pj) {
					dep = true
				}
			}
			if !dep {
				all = false
			}
		}
		if all {
			mapParams[j] = true
		}
	}
	return mapParams, ""
}

func txn8Func(c *Ctx, fn *ssa.Function, full bool) {
	p := c.P
	c.Touch(fn)
	errIdx := core.ErrorResultIndex(fn)
	type swapT struct {
		in     *ssa.Call // direct Container.Commit call, or call of a swap helper
		list   ssa.Value // the slice whose elements are swapped
		idx    ssa.Value // direct only
		owner  ssa.Value // direct only
		helper *ssa.Function
	}
	var swaps []swapT
	badSwap := false
	onSwap := func(call ssa.CallInstruction) string {
		cc, ok := call.(*ssa.Call)
		if !ok {
			return "files are swapped by a go/defer statement"
		}
		if p.CalleeName(cc) == txnContCommit {
			list, idx, owner, okS := txn8SwapSite(cc)
			if !okS {
				c.Bad(c.KeyAt(fn, "swap handler"), c.Pos(cc), "the swapped handler is not `<slice>[i].Handler` of a slice built by the encode phase: files could be swapped that were not (completely) encoded")
				badSwap = true
				return "swap"
			}
			swaps = append(swaps, swapT{in: cc, list: list, idx: idx, owner: owner})
			return ""
		}
		// one level of helper extraction: h(list) swaps all elements of its parameter
		h := core.StaticCallee(cc)
		why := "it is not a statically known csvq function"
		if h != nil && txnIsSrc(p, h) {
			why = "it takes no []*FileInfo argument"
			for i, a := range cc.Call.Args {
				if txn4IsFileInfo(a.Type()) != 2 {
					continue
				}
				if why = txn8SwapHelper(c, h, i); why == "" {
					c.Touch(h)
					swaps = append(swaps, swapT{in: cc, list: a, helper: h})
					break
				}
			}
		}
		if why != "" {
			return "files are swapped inside " + txnCallLabel(p, call) + " and the rule cannot relate them to the encoded files (" + why + ")"
		}
		return ""
	}
	encs, encHelpers, why, at := txn8CollectEncs(c, fn, 0, onSwap)
	if badSwap {
		return
	}
	if why != "" {
		c.Unknown(c.KeyAt(fn, "encode/swap through "+txnCallLabel(p, at.(ssa.CallInstruction))), c.Pos(at), "cannot-analyse: "+why)
		return
	}
	if len(encs)+len(encHelpers) == 0 || len(swaps) == 0 {
		c.Unknown(c.KeyAt(fn, "encode and swap calls"), c.FnPos(fn), fmt.Sprintf("cannot-analyse: %d encode(s) and %d swap(s) in this function; the correspondence between encoded and swapped files is no longer visible here", len(encs)+len(encHelpers), len(swaps)))
		return
	}
	isSwap := func(in ssa.Instruction) bool {
		for _, s := range swaps {
			if s.in == in {
				return true
			}
		}
		return false
	}
	successReturn := func(in ssa.Instruction) bool {
		r, ok := in.(*ssa.Return)
		return ok && (errIdx < 0 || txnMayReturnNil(r, errIdx))
	}
	helperLists := map[ssa.Value]bool{}
	for _, eh := range encHelpers {
		if eh.list != nil {
			helperLists[eh.list] = true
		}
	}

	// swapped collections
	swapRoots := map[ssa.Value]bool{}
	for i, s := range swaps {
		c.Sites++
		key := c.KeyAt(fn, fmt.Sprintf("swap #%d takes its handler from a slice filled by the encode phase", i+1))
		roots, apps, ok := txn8SliceRoots(s.list, helperLists)
		if !ok || len(roots) != 1 {
			c.Bad(key, c.Pos(s.in), "the slice the swap loop ranges over is not built only by one make() (or one encode helper) and appends")
			continue
		}
		for r := range roots {
			swapRoots[r] = true
		}
		// every append into it follows a successful encode of the same view
		if bad := txn8AppendsOK(c, apps, encs); bad != "" {
			c.Bad(key, c.Pos(s.in), "the append at "+bad+" puts something else than the FileInfo of a view whose encode dominates it into the swap list")
			continue
		}
		if s.helper != nil {
			c.Ok(key, c.Pos(s.in), "helper "+p.FnRef(s.helper)+" swaps and Unsets every element of the list; the list holds only FileInfos of successfully encoded views")
			continue
		}
		// the loop visits the whole list
		head := txn4LoopHead(s.idx)
		if head == nil {
			c.Bad(key, c.Pos(s.in), "the swap is not inside a loop over the list: only some of the encoded files are renamed into place")
			continue
		}
		if why := txn4FullRange(head, s.idx, s.list); why != "" {
			c.Bad(key, c.Pos(s.in), "the swap loop does not visit every encoded file: "+why)
			continue
		}
		// after a successful swap: Unset(same FileInfo) before the next swap / success
		if off := txn8AfterSwap(c, s.in, s.owner, isSwap, successReturn); off != "" {
			c.Bad(key, c.Pos(s.in), "after this file has been swapped successfully, "+off+" is reachable without UncommittedViews.Unset of the same FileInfo: a later failure would report the file as rolled back although it is already committed")
			continue
		}
		c.Ok(key, c.Pos(s.in), "handler of <list>[i] in a loop over the whole list; the list holds only FileInfos of successfully encoded views; Unset follows the swap")
	}

	// every encode writes to its own view's handler and is followed by an append into a list
	fills, bad := txn8EncodePhase(c, fn, encs, isSwap)
	for i, e := range encs {
		c.Sites++
		key := c.KeyAt(fn, fmt.Sprintf("encode #%d is swapped", i+1))
		switch {
		case bad[i] != "":
			c.Bad(key, c.Pos(e.call), bad[i])
		case e.direct:
			c.Ok(key, c.Pos(e.call), "written through FileForUpdate of its own handler; its FileInfo is appended to a list on every continuing path")
		case e.handed:
			c.Ok(key, c.Pos(e.call), "helper "+p.FnRef(e.helper)+" encodes the view it is handed into the file it is handed — FileForUpdate of the view's own handler — and reports success only after the encode; the view's FileInfo is appended to a list on every continuing path")
		default:
			c.Ok(key, c.Pos(e.call), "helper "+p.FnRef(e.helper)+" writes the view through FileForUpdate of its own handler and returns its FileInfo, which is appended to a list on every continuing path")
		}
	}
	for i, eh := range encHelpers {
		c.Sites++
		key := c.KeyAt(fn, fmt.Sprintf("encode helper #%d (%s) returns what it encoded", i+1, p.FnRef(eh.h)))
		if eh.list == nil {
			c.Bad(key, c.Pos(eh.in), "the list of encoded files returned by the helper is discarded: its files are never renamed into place")
			continue
		}
		c.Ok(key, c.Pos(eh.in), "each view is written through FileForUpdate of its own handler and its FileInfo is in the returned list on every success return")
	}

	// filled == swapped (no list is filled and then forgotten)
	fillRoots := map[ssa.Value]bool{}
	for _, ap := range fills {
		roots, _, ok := txn8SliceRoots(ap, helperLists)
		if !ok {
			continue
		}
		for r := range roots {
			fillRoots[r] = true
		}
	}
	for l := range helperLists {
		fillRoots[l] = true
	}
	keyS := c.KeyAt(fn, "every filled FileInfo list is swapped")
	lost := ""
	for r := range fillRoots {
		if !swapRoots[r] {
			lost = c.FnPos(fn)
			if in, isInstr := r.(ssa.Instruction); isInstr {
				lost = c.Pos(in)
			}
		}
	}
	if lost != "" {
		c.Bad(keyS, lost, "the []*FileInfo list created here is filled by the encode phase but no swap loop reads it (another list is swapped in its place): its files are encoded and never renamed into place")
	} else {
		c.Ok(keyS, c.FnPos(fn), fmt.Sprintf("%d list(s) filled, the same %d swapped", len(fillRoots), len(swapRoots)))
	}

	if !full {
		return
	}
	// both maps of UncommittedFiles are encoded
	var uf *ssa.Call
	for _, call := range p.CallsNamed(fn, txnUVFiles) {
		if cc, ok := call.(*ssa.Call); ok {
			uf = cc
		}
	}
	if uf == nil {
		c.Unknown(c.KeyAt(fn, "UncommittedFiles"), c.FnPos(fn), "cannot-analyse: Commit no longer calls UncommittedViews.UncommittedFiles")
		return
	}
	for i, what := range []string{"created", "updated"} {
		key := c.KeyAt(fn, "the "+what+" files of UncommittedFiles are encoded")
		ex := txnExtract(uf, i)
		ok := false
		if ex != nil {
			for _, e := range encs {
				for _, f := range e.from {
					if core.DependsOn(f, ex) {
						ok = true
					}
				}
			}
			for _, eh := range encHelpers {
				for j := range eh.mapParams {
					if j < len(eh.in.Call.Args) && core.DependsOn(eh.in.Call.Args[j], ex) {
						ok = true
					}
				}
			}
		}
		c.Check(ok, key, c.Pos(uf), "an encode handles views derived from this map",
			"no EncodeView call encodes views derived from result #"+fmt.Sprint(i)+" of UncommittedFiles: the "+what+" files would never be written")
	}
}
