package rules

// R-ONCE-1 — an expression of the syntax tree is evaluated by one call per path.
//
// The arguments of a table function (`FILE::('t' || (@i := @i + 1) || '.csv')`), like every other
// expression of a statement, may have side effects (variable substitution, user-defined functions,
// RAND …). A function that hands the same syntax-tree expression to two evaluating calls on one path
// runs it twice: loadView asked ParseTableName for the name of the view (NormalizeTableObject →
// ConvertTableFunction → Evaluate of the arguments) and then gave the same table object to loadObject
// (NormalizeTableObject again) — the view was named after the first result and loaded from the second,
// and the variable was advanced twice.
//
// Decided for every function of lib/query, interprocedurally over static calls:
//
//   * a summary per function: the access paths, relative to its parameters, of the syntax-tree
//     expressions it can hand to Evaluate (directly or through callees' summaries). An access path is a
//     chain of field selections, type assertions and element selections (`.Object(parser.TableFunction).Args[]`);
//     values are followed back through fields, loads, type assertions, interface conversions, phis,
//     locally built composite literals (a struct or slice literal resolves to what was stored in the
//     selected field / element), local cells and results of calls that return one of their parameters;
//   * in each function, two different call sites that (by their callees' summaries) evaluate the same
//     expression of a parameter — equal paths, or one a prefix of the other (evaluating an expression
//     evaluates its sub-expressions) — must not lie on one path: the second must not be reachable from the
//     first without passing through the redefinition of the index value by which both select an element
//     (the next iteration of a loop is another element; a constant index [0] is another element than [1]
//     and may be the element a variable index selects) and, when the expression reaches the second call
//     through a phi, only along the phi's edge. A call of the function itself is the next step of a
//     recursion (selectSetForRecursion runs the recursive term again by calling itself), like the back
//     edge of a loop, and is not a second site.
//
// Paths that differ in a type assertion at the same position are different expressions (mutually
// exclusive arms). Interface calls, closures' free variables and values that do not come from a
// parameter are not followed (misses, never alarms).

import (
	"fmt"
	"go/token"
	"go/types"
	"sort"
	"strings"

	"golang.org/x/tools/go/ssa"

	"verif/checker/core"
)

func init() {
	Register(&Rule{ID: "R-ONCE-1", Props: []string{"C14"}, Floor: 60,
		Doc:      "in every function of lib/query, no syntax-tree expression reachable from a parameter (access path of fields, type assertions and element selections; followed through loads, interface conversions, phis, local composite literals, local cells and pass-through results) is handed to two different evaluating call sites on one path: per function a summary of the parameter paths it can hand to Evaluate is computed over static calls (fixpoint), and two call sites whose summaries name the same path (or a prefix of it) must be mutually unreachable — up to the redefinition of the index by which both select an element (next loop iteration; a constant index [0] differs from [1] and matches a variable index; an element of args[1:] is an element from 1 on) and the edge of the phi through which the expression arrives; a call of the function itself (recursion = the next iteration) is not a second site — so the arguments of a table function, like any clause, are evaluated once per execution of the statement (loadView: ParseTableName and loadObject both normalized the table object)",
		Controls: []string{"CtlOnceNameThenLoad", "CtlOnceTwiceDirect", "CtlOnceFirstAndAll"},
		Run:      ruleOnce1})
}

const (
	onceMaxLen   = 9    // steps of an access path
	onceMaxPaths = 1500 // paths per parameter in a summary
)

type onceOrigin struct {
	param *ssa.Parameter
	path  []string
	elems []ssa.Value          // the (non-constant) index values of the element selections made in this function on the way
	edges [][2]*ssa.BasicBlock // phi edges (pred, block) the value came through
}

type onceRun struct {
	c        *Ctx
	eval     *ssa.Function
	inScope  map[*ssa.Function]bool
	sum      map[*ssa.Function]map[int]map[string]bool // fn → param index → path (joined by \x00)
	passthru map[*ssa.Function]map[int]bool            // fn → params it may return
	changed  bool
}

func onceJoin(p []string) string { return strings.Join(p, "\x00") }
func onceShow(p []string) string { return strings.Join(p, "") }
func onceSplit(s string) []string {
	if s == "" {
		return nil
	}
	return strings.Split(s, "\x00")
}

func onceTypeStep(t types.Type) string {
	return "(" + types.TypeString(t, func(p *types.Package) string { return p.Name() }) + ")"
}

func onceFieldStep(t types.Type, idx int) string {
	if p, ok := t.Underlying().(*types.Pointer); ok {
		t = p.Elem()
	}
	if st, ok := t.Underlying().(*types.Struct); ok && idx < st.NumFields() {
		return "." + st.Field(idx).Name()
	}
	return fmt.Sprintf(".#%d", idx)
}

// onceIndexStep: "[k]" for a constant index, "[]" for any other element selection.
func onceIndexStep(idx ssa.Value) string {
	if k, ok := core.ConstInt(idx); ok {
		return fmt.Sprintf("[%d]", k)
	}
	if p, ok := idx.(*ssa.Parameter); ok {
		// selected by a parameter of the function: the call site says which element (see onceBindIndex)
		return fmt.Sprintf("[@%d]", onceParamIndex(p))
	}
	return "[]"
}

// onceIndexRange reads an element step: "[k]" = exactly k, "[]" = any element, "[k+]" = any element from k on.
func onceIndexRange(step string) (lo int64, exact bool, ok bool) {
	if !strings.HasPrefix(step, "[") {
		return 0, false, false
	}
	body := strings.TrimSuffix(strings.TrimPrefix(step, "["), "]")
	if body == "" || strings.HasPrefix(body, "@") {
		return 0, false, true
	}
	exact = !strings.HasSuffix(body, "+")
	if _, err := fmt.Sscanf(strings.TrimSuffix(body, "+"), "%d", &lo); err != nil {
		return 0, false, false
	}
	return lo, exact, true
}

// onceShiftIndex moves an element step of a sub-slice s[k:] to the slice s.
func onceShiftIndex(step string, k int64) string {
	lo, exact, ok := onceIndexRange(step)
	if !ok {
		return step
	}
	if exact {
		return fmt.Sprintf("[%d]", lo+k)
	}
	return fmt.Sprintf("[%d+]", lo+k)
}

// onceStepMatch: equal steps, or element selections that can select the same element.
func onceStepMatch(a, b string) bool {
	if a == b {
		return true
	}
	la, ea, oka := onceIndexRange(a)
	lb, eb, okb := onceIndexRange(b)
	if !oka || !okb {
		return false
	}
	switch {
	case ea && eb:
		return la == lb
	case ea:
		return la >= lb
	case eb:
		return lb >= la
	}
	return true
}

// onceBindIndex replaces, in a callee's path, the element steps selected by a parameter of the callee
// ("[@j]") with what the call site passes for it: a constant, a parameter of the caller, or any element.
func onceBindIndex(path []string, args []ssa.Value) []string {
	out := path
	for i, st := range path {
		if !strings.HasPrefix(st, "[@") {
			continue
		}
		var j int
		if _, err := fmt.Sscanf(st, "[@%d]", &j); err != nil || j >= len(args) {
			continue
		}
		if &out[0] == &path[0] {
			out = append([]string(nil), path...)
		}
		out[i] = onceIndexStep(args[j])
	}
	return out
}

func cons(s string, rest []string) []string {
	out := make([]string, 0, len(rest)+1)
	out = append(out, s)
	return append(out, rest...)
}

// resolve follows v back to parameters of its function; suffix is the access path still to be applied
// to v. It returns the origins (parameter, full path).
func (r *onceRun) resolve(v ssa.Value, suffix []string, o onceOrigin, depth int, seen map[ssa.Value]int, out *[]onceOrigin) {
	if depth > 40 || len(suffix) > onceMaxLen || seen[v] > 2 {
		return
	}
	seen[v]++
	defer func() { seen[v]-- }()
	switch x := v.(type) {
	case *ssa.Parameter:
		o.param = x
		o.path = append([]string(nil), suffix...)
		*out = append(*out, o)
	case *ssa.Field:
		r.resolve(x.X, cons(onceFieldStep(x.X.Type(), x.Field), suffix), o, depth+1, seen, out)
	case *ssa.UnOp:
		if x.Op != token.MUL {
			return
		}
		r.resolveLoad(x, x.X, suffix, o, depth+1, seen, out)
	case *ssa.TypeAssert:
		if _, isIface := x.AssertedType.Underlying().(*types.Interface); isIface {
			r.resolve(x.X, suffix, o, depth+1, seen, out)
		} else {
			r.resolve(x.X, cons(onceTypeStep(x.AssertedType), suffix), o, depth+1, seen, out)
		}
	case *ssa.Extract:
		switch t := x.Tuple.(type) {
		case *ssa.TypeAssert:
			if x.Index == 0 {
				r.resolve(t, suffix, o, depth, seen, out)
			}
		case *ssa.Call:
			r.resolveCall(t, x.Index, suffix, o, depth+1, seen, out)
		}
	case *ssa.Call:
		r.resolveCall(x, 0, suffix, o, depth+1, seen, out)
	case *ssa.MakeInterface:
		if len(suffix) > 0 && strings.HasPrefix(suffix[0], "(") {
			if suffix[0] != onceTypeStep(x.X.Type()) {
				return // another dynamic type: not this expression
			}
			suffix = suffix[1:]
		}
		r.resolve(x.X, suffix, o, depth+1, seen, out)
	case *ssa.ChangeInterface:
		r.resolve(x.X, suffix, o, depth+1, seen, out)
	case *ssa.ChangeType:
		r.resolve(x.X, suffix, o, depth+1, seen, out)
	case *ssa.Slice:
		// args[k:]: element j of the sub-slice is element j+k of the slice, any element of it is an element from k on
		if k, ok := core.ConstInt(x.Low); ok && k > 0 && len(suffix) > 0 && strings.HasPrefix(suffix[0], "[") {
			suffix = cons(onceShiftIndex(suffix[0], k), suffix[1:])
		}
		r.resolve(x.X, suffix, o, depth+1, seen, out)
	case *ssa.Phi:
		for i, e := range x.Edges {
			o2 := o
			o2.edges = append(append([][2]*ssa.BasicBlock(nil), o.edges...), [2]*ssa.BasicBlock{x.Block().Preds[i], x.Block()})
			r.resolve(e, suffix, o2, depth+1, seen, out)
		}
	case *ssa.Index:
		if _, isConst := x.Index.(*ssa.Const); !isConst {
			o.elems = append(append([]ssa.Value(nil), o.elems...), x.Index)
		}
		r.resolve(x.X, cons(onceIndexStep(x.Index), suffix), o, depth+1, seen, out)
	case *ssa.FieldAddr:
		// the address of a field, used as the base of a further selection (pointer semantics are transparent)
		r.resolve(x.X, cons(onceFieldStep(x.X.Type(), x.Field), suffix), o, depth+1, seen, out)
	case *ssa.IndexAddr:
		if _, isConst := x.Index.(*ssa.Const); !isConst {
			o.elems = append(append([]ssa.Value(nil), o.elems...), x.Index)
		}
		r.resolve(x.X, cons(onceIndexStep(x.Index), suffix), o, depth+1, seen, out)
	case *ssa.Alloc:
		// the address of a local aggregate (pointer semantics are transparent)
		r.readAlloc(x, suffix, o, depth+1, seen, out)
	}
}

// resolveLoad resolves the value loaded from addr.
func (r *onceRun) resolveLoad(load *ssa.UnOp, addr ssa.Value, suffix []string, o onceOrigin, depth int, seen map[ssa.Value]int, out *[]onceOrigin) {
	switch a := addr.(type) {
	case *ssa.FieldAddr:
		if al, ok := a.X.(*ssa.Alloc); ok {
			r.readAllocAt(al, cons(onceFieldStep(a.X.Type(), a.Field), suffix), load, o, depth, seen, out)
			return
		}
		r.resolve(a.X, cons(onceFieldStep(a.X.Type(), a.Field), suffix), o, depth, seen, out)
	case *ssa.IndexAddr:
		if _, isConst := a.Index.(*ssa.Const); !isConst {
			o.elems = append(append([]ssa.Value(nil), o.elems...), a.Index)
		}
		r.resolve(a.X, cons(onceIndexStep(a.Index), suffix), o, depth, seen, out)
	case *ssa.Alloc:
		r.readAlloc(a, suffix, o, depth, seen, out)
	default:
		// a pointer held in a value (parameter *T, field of pointer type): transparent
		r.resolve(addr, suffix, o, depth, seen, out)
	}
}

// readAlloc resolves what a local cell holds at the given access path: whole-value stores, and stores
// to the field / element the path selects first (composite literals, assigned fields).
func (r *onceRun) readAlloc(a *ssa.Alloc, suffix []string, o onceOrigin, depth int, seen map[ssa.Value]int, out *[]onceOrigin) {
	r.readAllocAt(a, suffix, nil, o, depth, seen, out)
}

// readAllocAt: at (when known) is the load; a whole-value store that a store to the selected field
// overwrites on every path to the load (the whole-value store dominates the field store, the field store
// dominates the load: `query.Tables = bound` after the parameter was spilled) is not what the load reads.
func (r *onceRun) readAllocAt(a *ssa.Alloc, suffix []string, at ssa.Instruction, o onceOrigin, depth int, seen map[ssa.Value]int, out *[]onceOrigin) {
	var fieldStores []ssa.Instruction
	if at != nil && len(suffix) > 0 {
		for _, ref := range *a.Referrers() {
			if fa, ok := ref.(*ssa.FieldAddr); ok && fa.X == a && suffix[0] == onceFieldStep(a.Type(), fa.Field) {
				for _, ref2 := range *fa.Referrers() {
					if st, ok := ref2.(*ssa.Store); ok && st.Addr == fa && core.Dominates(st, at) {
						fieldStores = append(fieldStores, st)
					}
				}
			}
		}
	}
	for _, ref := range *a.Referrers() {
		switch u := ref.(type) {
		case *ssa.Store:
			if u.Addr == a {
				overwritten := false
				for _, fs := range fieldStores {
					if core.Dominates(u, fs) {
						overwritten = true
					}
				}
				if !overwritten {
					r.resolve(u.Val, suffix, o, depth, seen, out)
				}
			}
		case *ssa.FieldAddr:
			if u.X != a || len(suffix) == 0 || suffix[0] != onceFieldStep(a.Type(), u.Field) {
				continue
			}
			for _, ref2 := range *u.Referrers() {
				if st, ok := ref2.(*ssa.Store); ok && st.Addr == u {
					r.resolve(st.Val, suffix[1:], o, depth, seen, out)
				}
			}
		case *ssa.IndexAddr:
			if u.X != a || len(suffix) == 0 || !onceStepMatch(suffix[0], onceIndexStep(u.Index)) {
				continue
			}
			for _, ref2 := range *u.Referrers() {
				if st, ok := ref2.(*ssa.Store); ok && st.Addr == u {
					r.resolve(st.Val, suffix[1:], o, depth, seen, out)
				}
			}
		}
	}
}

// resolveCall: the result of a call that may return one of its parameters is that argument.
func (r *onceRun) resolveCall(call *ssa.Call, idx int, suffix []string, o onceOrigin, depth int, seen map[ssa.Value]int, out *[]onceOrigin) {
	g := core.StaticCallee(call)
	if g == nil || !r.inScope[g] {
		return
	}
	for j := range r.passthru[g] {
		if pj, ok := r.passResult(g, j); ok && pj == idx && j < len(call.Call.Args) {
			r.resolve(call.Call.Args[j], suffix, o, depth, seen, out)
		}
	}
}

// passResult returns the index of the result through which g may return its parameter j.
func (r *onceRun) passResult(g *ssa.Function, j int) (int, bool) {
	for _, ret := range core.Returns(g) {
		for i := range ret.Results {
			for _, v := range core.ReturnOperand(ret, i) {
				if oncePhiReaches(v, g.Params[j], 0) {
					return i, true
				}
			}
		}
	}
	return 0, false
}

func oncePhiReaches(v ssa.Value, p *ssa.Parameter, depth int) bool {
	if v == p {
		return true
	}
	if depth > 6 {
		return false
	}
	switch x := v.(type) {
	case *ssa.Phi:
		for _, e := range x.Edges {
			if oncePhiReaches(e, p, depth+1) {
				return true
			}
		}
	case *ssa.ChangeInterface:
		return oncePhiReaches(x.X, p, depth+1)
	}
	return false
}

func onceParamIndex(p *ssa.Parameter) int {
	for i, q := range p.Parent().Params {
		if q == p {
			return i
		}
	}
	return -1
}

// onceIsAST: the value's type can hold a syntax-tree expression (a type of lib/parser, or a slice of one).
func onceIsAST(t types.Type) bool {
	if p, ok := t.Underlying().(*types.Pointer); ok {
		t = p.Elem()
	}
	if sl, ok := t.Underlying().(*types.Slice); ok {
		t = sl.Elem()
	}
	return strings.HasPrefix(core.NamedOf(t), "lib/parser.")
}

type onceEvent struct {
	call   ssa.CallInstruction
	callee *ssa.Function
	origin onceOrigin
}

// events lists, for fn, the (call, parameter path) pairs: expressions of fn's parameters that the call evaluates.
func (r *onceRun) events(fn *ssa.Function) []onceEvent {
	var out []onceEvent
	for _, call := range core.Calls(fn) {
		g := core.StaticCallee(call)
		if g == nil {
			continue
		}
		var entries map[int]map[string]bool
		if g == r.eval {
			entries = map[int]map[string]bool{2: {"": true}}
		} else {
			entries = r.sum[g]
		}
		if len(entries) == 0 {
			continue
		}
		args := call.Common().Args
		idxs := make([]int, 0, len(entries))
		for j := range entries {
			idxs = append(idxs, j)
		}
		sort.Ints(idxs)
		for _, j := range idxs {
			if j >= len(args) || !onceIsAST(args[j].Type()) {
				continue
			}
			paths := make([]string, 0, len(entries[j]))
			for q := range entries[j] {
				paths = append(paths, q)
			}
			sort.Strings(paths)
			for _, q := range paths {
				var os []onceOrigin
				r.resolve(args[j], onceBindIndex(onceSplit(q), args), onceOrigin{}, 0, map[ssa.Value]int{}, &os)
				for _, o := range os {
					out = append(out, onceEvent{call: call, callee: g, origin: o})
				}
			}
		}
	}
	return out
}

func (r *onceRun) summarise(fn *ssa.Function) {
	if fn == r.eval {
		return
	}
	for _, ev := range r.events(fn) {
		i := onceParamIndex(ev.origin.param)
		if i < 0 || len(ev.origin.path) > onceMaxLen {
			continue
		}
		m := r.sum[fn]
		if m == nil {
			m = map[int]map[string]bool{}
			r.sum[fn] = m
		}
		if m[i] == nil {
			m[i] = map[string]bool{}
		}
		k := onceJoin(ev.origin.path)
		if !m[i][k] && len(m[i]) < onceMaxPaths {
			m[i][k] = true
			r.changed = true
		}
	}
}

func oncePrefix(a, b []string) bool {
	if len(a) > len(b) {
		return false
	}
	for i := range a {
		if !onceStepMatch(a[i], b[i]) {
			return false
		}
	}
	return true
}

// onceOnePath: can control flow from the call of e1 to the call of e2 with e2's expression being the
// same object (no redefinition of the index of a shared element selection in between, phi edges respected)?
func onceOnePath(e1, e2 onceEvent) bool {
	from := e1.call.(ssa.Instruction)
	to := e2.call.(ssa.Instruction)
	// an element both calls select by the same index value is the same element only until that index
	// is redefined (the loop head's phi: the next iteration selects another element)
	stops := map[ssa.Instruction]bool{}
	for _, v1 := range e1.origin.elems {
		for _, v2 := range e2.origin.elems {
			if in, ok := v1.(ssa.Instruction); ok && v1 == v2 {
				stops[in] = true
			}
		}
	}
	stop := func(in ssa.Instruction) bool { return stops[in] }
	if len(e2.origin.edges) == 0 {
		return core.Reachable(from, to, stop)
	}
	// the expression reaches e2's call through phi edges: the path must take each of them after e1
	for _, ed := range e2.origin.edges {
		pred, blk := ed[0], ed[1]
		last := pred.Instrs[len(pred.Instrs)-1]
		if from.Block() != pred || from == last {
			if !core.Reachable(from, last, stop) {
				return false
			}
		}
		first := blk.Instrs[0]
		if first != to && !core.Reachable(first, to, stop) {
			return false
		}
	}
	return core.Reachable(from, to, stop)
}

func ruleOnce1(c *Ctx) {
	start := len(c.Obs)
	eval := c.Fn("lib/query.Evaluate")
	if eval == nil {
		return
	}
	r := &onceRun{c: c, eval: eval, inScope: map[*ssa.Function]bool{}, sum: map[*ssa.Function]map[int]map[string]bool{}, passthru: map[*ssa.Function]map[int]bool{}}
	funcs := c.P.FuncsIn(true, "lib/query")
	for _, fn := range funcs {
		r.inScope[fn] = true
	}
	for _, fn := range funcs {
		if fn.Signature.Results().Len() == 0 {
			continue
		}
		for j, p := range fn.Params {
			if !onceIsAST(p.Type()) {
				continue
			}
			if _, ok := r.passResult(fn, j); ok {
				if r.passthru[fn] == nil {
					r.passthru[fn] = map[int]bool{}
				}
				r.passthru[fn][j] = true
			}
		}
	}
	for round := 0; round < 12; round++ {
		r.changed = false
		for _, fn := range funcs {
			r.summarise(fn)
		}
		if !r.changed {
			break
		}
	}
	if len(r.sum) < 20 {
		c.Unknown("anchor:evaluating functions of lib/query", "-", fmt.Sprintf("cannot-analyse: only %d functions hand a parameter's expression to Evaluate (has Evaluate been renamed or its expression parameter moved?)", len(r.sum)))
		return
	}

	for _, fn := range funcs {
		if c.P.IsControl(fn) && !strings.Contains(fn.Name(), "Once") {
			continue // controls of other rules
		}
		evs := r.events(fn)
		if len(evs) == 0 {
			continue
		}
		c.Touch(fn)
		type pair struct{ k, why, pos string }
		var bad []pair
		seenPair := map[string]bool{}
		sites := map[ssa.CallInstruction]bool{}
		for _, e := range evs {
			sites[e.call] = true
		}
		for _, e1 := range evs {
			for _, e2 := range evs {
				if e1.call == e2.call || e1.origin.param != e2.origin.param {
					continue
				}
				if e1.callee == fn || e2.callee == fn {
					continue // a call of the function itself is the next iteration of a recursion, like the back edge of a loop
				}
				if !oncePrefix(e1.origin.path, e2.origin.path) && !oncePrefix(e2.origin.path, e1.origin.path) {
					continue
				}
				if !onceOnePath(e1, e2) {
					continue
				}
				long := e1.origin.path
				if len(e2.origin.path) > len(long) {
					long = e2.origin.path
				}
				n1, n2 := core.Short(c.P.Name(e1.callee)), core.Short(c.P.Name(e2.callee))
				k := fmt.Sprintf("%s%s is evaluated through %s and again through %s", e1.origin.param.Name(), onceShow(long), n1, n2)
				if seenPair[k] {
					continue
				}
				seenPair[k] = true
				bad = append(bad, pair{k: k, pos: c.Pos(e2.call.(ssa.Instruction)),
					why: fmt.Sprintf("the call of %s at %s and the call of %s at %s lie on one path and both hand the expression %s%s to Evaluate: an expression with a side effect (variable substitution, user-defined function) runs twice, and the two results need not agree", n1, c.Pos(e1.call.(ssa.Instruction)), n2, c.Pos(e2.call.(ssa.Instruction)), e1.origin.param.Name(), onceShow(long))})
			}
		}
		if len(bad) == 0 {
			c.Ok(c.KeyAt(fn, "each expression of a parameter is evaluated by one call per path"), c.FnPos(fn),
				fmt.Sprintf("%d evaluating call sites, %d (call, expression) pairs: no two of them evaluate the same expression on one path", len(sites), len(evs)))
			continue
		}
		sort.Slice(bad, func(i, j int) bool { return bad[i].k < bad[j].k })
		for _, b := range bad {
			c.Bad(c.KeyAt(fn, b.k), b.pos, b.why)
		}
	}
	c.negControls(start, "okOnceNormalizedOnce:", "okOnceExclusiveArms:", "okOnceLoopElements:", "okOnceOverwrittenField:", "okOnceOtherArgument:", "okOnceRestOfArguments:", "okOnceIndexedHelper:")
}
