package rules

import (
	"fmt"
	"go/types"

	"golang.org/x/tools/go/ssa"

	"verif/checker/core"
)

// R-ERR-1 — wrong error variable: `X.Error()` evaluated in code that is reached
// only when a *different* error E is non-nil, while nothing shows X non-nil.
// (cacheViewFromFile / CREATE TABLE IF NOT EXISTS: `e != nil` then err.Error()
// on the still-nil outer err → nil dereference → "Fatal Error".)

func init() {
	Register(&Rule{ID: "R-ERR-1", Props: []string{"C19"}, Floor: 100,
		Doc:      "every err.Error() call that is guarded by a non-nil test is guarded by a test of the same error value (facts keyed by SSA value or by address for named results / captured variables); a call guarded only by a different error's test dereferences a possibly-nil error",
		Controls: []string{"CtlWrongErrorVariable"},
		Run:      ruleErr1})
}

func isErrorMethodCall(c ssa.CallInstruction) bool {
	com := c.Common()
	return com.IsInvoke() && com.Method.Name() == "Error" && core.IsErrorType(com.Value.Type())
}

// sameCtxErr: both values are ctx.Err() calls on the same context value.
func sameCtxErr(a, b ssa.Value) bool {
	ca, ok1 := a.(*ssa.Call)
	cb, ok2 := b.(*ssa.Call)
	if !ok1 || !ok2 {
		return false
	}
	if !ca.Common().IsInvoke() || !cb.Common().IsInvoke() {
		return false
	}
	if ca.Common().Method.Name() != "Err" || cb.Common().Method.Name() != "Err" {
		return false
	}
	return ca.Common().Value == cb.Common().Value || core.SameCell(ca.Common().Value, cb.Common().Value)
}

func ruleErr1(c *Ctx) {
	for _, fn := range c.P.SrcFuncs() {
		for _, call := range core.Calls(fn) {
			if !isErrorMethodCall(call) {
				continue
			}
			if _, isDefer := call.(*ssa.Defer); isDefer {
				continue
			}
			c.Sites++
			x := call.Common().Value
			in := call.(ssa.Instruction)
			if !isErrorVariable(x) {
				continue // fields of error structs (PathError.Err …) and call results are non-nil by their producer's contract
			}
			// facts that dominate the call
			var otherErr ssa.Value
			okSame := false
			for _, f := range core.FactsAt(in.Block()) {
				v, neq, ok := core.NilCmp(f.Cond)
				if !ok || !core.IsErrorType(v.Type()) {
					continue
				}
				if neq == f.Neg {
					continue // this fact says v == nil
				}
				if v == x || sameCtxErr(v, x) {
					okSame = true
				} else if core.SameCell(v, x) {
					okSame = okSame || core.NonNilAt(x, in)
				} else {
					otherErr = v
				}
			}
			if !okSame && otherErr == nil {
				continue // unguarded use: the value is non-nil by the caller's contract (parameter, recovered error …)
			}
			c.Touch(fn)
			key := c.KeyAt(fn, "Error() on "+valueLabel(x))
			if okSame || core.ClassifyNil(x, in) == core.NonNil {
				c.Ok(key, c.Pos(in), "receiver shown non-nil by a dominating test of the same value/cell")
				continue
			}
			if par, isPar := x.(*ssa.Parameter); isPar && paramNonNilAtEveryCall(c.P, fn, par) {
				c.Ok(key, c.Pos(in), "receiver is a parameter that every call site passes under a non-nil test of the argument")
				continue
			}
			c.Bad(key, c.Pos(in), fmt.Sprintf("this code runs when %s is non-nil, but Error() is called on %s, for which no non-nil evidence exists on this path (it is still nil when the guarded error is the only failure): nil dereference → internal Fatal Error", valueLabel(otherErr), valueLabel(x)))
		}
	}
}

// valueLabel gives a source-level name for an SSA value where possible.
func valueLabel(v ssa.Value) string {
	if v == nil {
		return "<nil>"
	}
	if a := core.Addr(v); a != nil {
		switch x := a.(type) {
		case *ssa.Alloc:
			if x.Comment != "" {
				return "variable " + x.Comment
			}
		case *ssa.FreeVar:
			return "captured variable " + x.Name()
		case *ssa.FieldAddr:
			return "field " + core.FieldOwner(x)
		case *ssa.Global:
			return "global " + x.Name()
		}
	}
	switch x := v.(type) {
	case *ssa.Parameter:
		return "parameter " + x.Name()
	case *ssa.Extract:
		if c, ok := x.Tuple.(*ssa.Call); ok {
			return fmt.Sprintf("result #%d of %s", x.Index, calleeLabel(c))
		}
	case *ssa.Call:
		return "result of " + calleeLabel(x)
	case *ssa.Phi:
		if x.Comment != "" {
			return "variable " + x.Comment
		}
	}
	return types.TypeString(v.Type(), nil) + " value " + v.Name()
}

func calleeLabel(c *ssa.Call) string {
	com := c.Common()
	if com.IsInvoke() {
		return com.Method.Name()
	}
	if f := com.StaticCallee(); f != nil {
		return f.Name()
	}
	return com.Value.Name()
}

// isErrorVariable: the receiver is a program variable (local, named result,
// captured) or the nil constant — the things one can confuse with each other.
func isErrorVariable(x ssa.Value) bool {
	switch v := x.(type) {
	case *ssa.Const:
		return true
	case *ssa.Phi, *ssa.Parameter:
		return true
	case *ssa.Extract:
		return true
	case *ssa.Call:
		return true
	case *ssa.UnOp:
		switch v.X.(type) {
		case *ssa.Alloc, *ssa.FreeVar, *ssa.Global:
			return true
		}
	}
	return false
}

// paramNonNilAtEveryCall: fn has callers, all of them static calls, and each passes for par an argument that is
// known to be non-nil at the call (dominating test, non-nil producer).
func paramNonNilAtEveryCall(p *core.Prog, fn *ssa.Function, par *ssa.Parameter) bool {
	idx := -1
	for i, q := range fn.Params {
		if q == par {
			idx = i
		}
	}
	if idx < 0 {
		return false
	}
	callers := p.RealCallers(fn)
	if len(callers) == 0 {
		return false
	}
	for _, e := range callers {
		if e.Site == nil || e.Site.Common().StaticCallee() != fn || idx >= len(e.Site.Common().Args) {
			return false
		}
		arg := e.Site.Common().Args[idx]
		if core.ClassifyNil(arg, e.Site) != core.NonNil {
			return false
		}
	}
	return true
}
