package rules

import (
	"fmt"
	"go/token"
	"go/types"
	"sort"
	"strings"

	"golang.org/x/tools/go/ssa"

	"verif/checker/core"
)

// R-REC-1: inherited mode state of a ReferenceScope is written by its owner only.
//
// A ReferenceScope hands (almost) all of its fields on to every scope derived
// from it: the node of a subquery, the scope of one record, the child block of
// a function. Some of those fields are *mode state* that is changed while a
// query runs — the marker of the recursive inline table being defined, the
// temporary view of the current iteration, the iteration counter. Because
// every nested evaluation sees the same values, "the marker is set" says
// nothing about *which* evaluation the marker was created for: the set
// operation at the top of the definition of the recursive table, a UNION in a
// subquery of its WHERE clause and a UNION in an inline table of its WITH
// clause all read the same field. The evaluation that may drive the recursion
// (and so overwrite the temporary view and count iterations) must therefore be
// told so by the function that created the marker, through something a nested
// evaluation does not receive.

func init() {
	Register(&Rule{ID: "R-REC-1", Props: []string{"C03"}, Floor: 5,
		Doc:      "the mode state that a lib/query.ReferenceScope hands on to every derived scope is written by its owner only. Mode state = the exported fields that a scope constructor copies from the scope it derives from (computed from the stores of lib/query) and that are also assigned on an existing scope while a query runs (today: RecursiveTable, RecursiveTmpView, RecursiveCount). Every such assignment must be (i) a creation: dominated by the test that the same field of the same scope is still nil (the marker is established where there was none; a scope that inherited one cannot pass), or (ii) dominated by a branch whose condition reads a scope field that no constructor copies, or a non-scope parameter that is an ownership token: traced through the arguments of every call site of its function (self-recursive calls, the iteration, excepted) it is a constant, the caller's own parameter passed on unchanged (traced on), a value computed from a scope field that no constructor copies, or a value computed — not from scope state alone — in a creator — a function that contains a creation (i) whose other outcome leaves the function (an existing marker is refused, not lazily kept), or that has such a creation done by an unexported helper it calls; a parameter without call sites, a value computed elsewhere, and a parameter that travels unchanged round a cycle of the evaluation functions back into itself (the nested evaluation is handed the token of the enclosing one, as it is handed ctx) are not tokens; or (iii) located in an unexported helper every call of which (transitively) satisfies (ii)/(iii). Without this a set operation nested anywhere inside the definition of a recursive table — in a subquery, in an operand, in a WITH clause — takes itself for the recursion: it iterates its own right-hand side until the limit and clobbers the temporary view of the real recursion (wrong rows or 'iteration of recursive query exceeded the limit'). Decides who may write; not the polarity of the token, the connective that joins it with other conditions, nor the values written",
		Controls: []string{"CtlRecursionClaimedByInheritedMarker", "ctlRecFlagRoundTrip", "ctlRecFlagFromInheritedState"},
		Run:      ruleRec1})
}

type recParamKey struct {
	fn  *ssa.Function
	idx int
}

type recAnalysis struct {
	c         *Ctx
	ptrT      types.Type
	structT   types.Type
	st        *types.Struct
	inherited map[int]bool
	creators  map[*ssa.Function]bool
	tokenMemo map[recParamKey]string // "" = token, else the reason it is not
	tokenBusy map[recParamKey]bool
}

type recSite struct {
	fn    *ssa.Function
	s     *ssa.Store
	fa    *ssa.FieldAddr
	field int
}

func ruleRec1(c *Ctx) {
	rsT := c.P.Type("lib/query", "ReferenceScope")
	if rsT == nil {
		c.Unknown("anchor: lib/query.ReferenceScope", "-", "cannot-analyse: type not found")
		return
	}
	st, ok := rsT.Underlying().(*types.Struct)
	if !ok {
		c.Unknown("anchor: lib/query.ReferenceScope", "-", "cannot-analyse: not a struct")
		return
	}
	a := &recAnalysis{c: c, structT: rsT, ptrT: types.NewPointer(rsT), st: st, inherited: map[int]bool{}, creators: map[*ssa.Function]bool{},
		tokenMemo: map[recParamKey]string{}, tokenBusy: map[recParamKey]bool{}}

	var sites []recSite
	mutated := map[int]bool{}
	// pass 1: which fields are inherited (copied from another scope), which are assigned on an existing scope
	for _, fn := range c.P.FuncsIn(true, "lib/query") {
		for _, b := range fn.Blocks {
			for _, in := range b.Instrs {
				s, ok := in.(*ssa.Store)
				if !ok {
					continue
				}
				fa, ok := s.Addr.(*ssa.FieldAddr)
				if !ok || !types.Identical(fa.X.Type(), a.ptrT) {
					continue
				}
				if a.isInheritanceCopy(s, fa) {
					if !c.P.IsControl(fn) {
						a.inherited[fa.Field] = true
					}
					continue
				}
				if a.freshScope(fa.X) {
					continue // construction of a new scope, not a change of an existing one
				}
				if !st.Field(fa.Field).Exported() {
					continue // the unexported query-level memos are R-NODE-1's
				}
				sites = append(sites, recSite{fn, s, fa, fa.Field})
				if !c.P.IsControl(fn) {
					mutated[fa.Field] = true
				}
			}
		}
	}
	isMode := func(f int) bool { return a.inherited[f] && mutated[f] }
	var mode []string
	for i := 0; i < st.NumFields(); i++ {
		if isMode(i) {
			mode = append(mode, st.Field(i).Name())
		}
	}
	sort.Strings(mode)
	if len(mode) == 0 {
		c.Unknown("lib/query.ReferenceScope: inherited mode state", "-", "cannot-analyse: no exported field of ReferenceScope is both copied into derived scopes and assigned on an existing scope; the recursion state is no longer kept where this rule looks for it")
		return
	}
	c.Ok("lib/query.ReferenceScope: inherited mode state", "-", "fields copied into derived scopes and assigned while a query runs: "+strings.Join(mode, ", "))

	// pass 2: creations
	creation := map[*ssa.Store]string{}
	for _, sc := range sites {
		if !isMode(sc.field) {
			continue
		}
		if why, exclusive := a.isCreation(sc); why != "" {
			creation[sc.s] = why
			if exclusive {
				a.creators[sc.fn] = true
			}
		}
	}

	// helper extraction: a function that has the creation done by an unexported helper of its own is the creator
	var direct []*ssa.Function
	for f := range a.creators {
		direct = append(direct, f)
	}
	for _, f := range direct {
		if recExported(f) {
			continue
		}
		for _, e := range c.P.RealCallers(f) {
			a.creators[e.Caller.Func] = true
		}
	}

	k := map[string]int{}
	for _, sc := range sites {
		if !isMode(sc.field) {
			continue
		}
		c.Touch(sc.fn)
		c.Sites++
		name := st.Field(sc.field).Name()
		kk := c.P.Name(sc.fn) + "." + name
		k[kk]++
		key := c.KeyAt(sc.fn, fmt.Sprintf("ReferenceScope.%s store #%d", name, k[kk]))
		if why, ok := creation[sc.s]; ok {
			c.Ok(key, c.Pos(sc.s), why)
			continue
		}
		why, ok := a.owned(sc.s, sc.fn, map[*ssa.Function]bool{})
		if ok {
			c.Ok(key, c.Pos(sc.s), why)
		} else {
			c.Bad(key, c.Pos(sc.s), why)
		}
	}
}

// isInheritanceCopy: scope.F = other.F
func (a *recAnalysis) isInheritanceCopy(s *ssa.Store, fa *ssa.FieldAddr) bool {
	os := core.Origins(s.Val, true)
	if len(os) == 0 {
		return false
	}
	for _, o := range os {
		u, ok := o.(*ssa.UnOp)
		if !ok || u.Op != token.MUL {
			return false
		}
		ofa, ok := u.X.(*ssa.FieldAddr)
		if !ok || ofa.Field != fa.Field || !types.Identical(ofa.X.Type(), a.ptrT) || ofa.X == fa.X {
			return false
		}
	}
	return true
}

// freshScope: the scope written to was allocated by this function (composite literal / new)
func (a *recAnalysis) freshScope(v ssa.Value) bool {
	os := core.Origins(v, true)
	if len(os) == 0 {
		return false
	}
	for _, o := range os {
		if _, ok := o.(*ssa.Alloc); !ok {
			return false
		}
	}
	return true
}

// isCreation: the store is dominated by the outcome "this field of this scope is nil". exclusive: the other outcome
// leaves the function at once (the marker is refused where one exists — that is what makes the function the creator
// of the marker, as opposed to a lazy initialisation that carries on either way).
func (a *recAnalysis) isCreation(sc recSite) (string, bool) {
	sameField := func(v ssa.Value) bool {
		u, ok := v.(*ssa.UnOp)
		if !ok || u.Op != token.MUL {
			return false
		}
		ofa, ok := u.X.(*ssa.FieldAddr)
		return ok && ofa.Field == sc.field && ofa.X == sc.fa.X
	}
	for _, f := range core.FactsAt(sc.s.Block()) {
		bo, ok := f.Cond.(*ssa.BinOp)
		if !ok {
			continue
		}
		if !(sameField(bo.X) && core.IsNilConst(bo.Y) || sameField(bo.Y) && core.IsNilConst(bo.X)) {
			continue
		}
		if bo.Op == token.EQL && !f.Neg || bo.Op == token.NEQ && f.Neg {
			other := f.If.Block().Succs[0]
			if !f.Neg {
				other = f.If.Block().Succs[1]
			}
			exclusive := false
			if n := len(other.Instrs); n > 0 {
				switch other.Instrs[n-1].(type) {
				case *ssa.Return, *ssa.Panic:
					exclusive = true
				}
			}
			return fmt.Sprintf("creation: stored where the field of this scope was found nil (test at %s); a scope that inherited a value does not get here", a.c.P.InstrPos(f.If)), exclusive
		}
	}
	return "", false
}

// owned decides whether instruction `in` of fn executes only for the owner of the mode state.
func (a *recAnalysis) owned(in ssa.Instruction, fn *ssa.Function, busy map[*ssa.Function]bool) (string, bool) {
	var rejected []string
	for _, f := range core.FactsAt(in.Block()) {
		why, ok := a.tokenIn(f.Cond, fn)
		if ok {
			return fmt.Sprintf("under the branch at %s on %s", a.c.P.InstrPos(f.If), why), true
		}
		if why != "" {
			rejected = append(rejected, fmt.Sprintf("the condition at %s is no evidence: %s", a.c.P.InstrPos(f.If), why))
		}
	}
	tail := func(s string) string {
		if len(rejected) == 0 {
			return s
		}
		sort.Strings(rejected)
		return s + " [" + strings.Join(dedup(rejected), "; ") + "]"
	}
	if fn.Parent() != nil {
		// a closure runs where it is made (approximation): judge the MakeClosure site
		for _, b := range fn.Parent().Blocks {
			for _, pin := range b.Instrs {
				if mc, ok := pin.(*ssa.MakeClosure); ok && mc.Fn == fn {
					return a.owned(mc, fn.Parent(), busy)
				}
			}
		}
	}
	if recExported(fn) {
		return tail(fmt.Sprintf("no branch on the way reads an ownership token (only state and arguments that a nested evaluation has as well), and %s is exported: any evaluation holding a derived scope gets here", a.c.P.Name(fn))), false
	}
	busy[fn] = true
	defer delete(busy, fn)
	n := 0
	var oks []string
	for _, e := range a.c.P.RealCallers(fn) {
		if e.Site == nil {
			continue
		}
		caller := e.Caller.Func
		if caller == fn || busy[caller] {
			continue // the iteration itself
		}
		n++
		why, ok := a.owned(e.Site, caller, busy)
		if !ok {
			return tail(fmt.Sprintf("no branch on the way in %s reads an ownership token, nor does one above its call in %s (%s) <- %s", a.c.P.Name(fn), a.c.P.Name(caller), a.c.P.InstrPos(e.Site), why)), false
		}
		oks = append(oks, fmt.Sprintf("the call in %s is %s", a.c.P.Name(caller), why))
	}
	if n == 0 {
		return tail(fmt.Sprintf("no branch on the way reads an ownership token, and %s has no caller to look at", a.c.P.Name(fn))), false
	}
	sort.Strings(oks)
	return "every call of " + a.c.P.Name(fn) + " is the owner's: " + strings.Join(dedup(oks), "; "), true
}

func recExported(fn *ssa.Function) bool {
	if !token.IsExported(fn.Name()) {
		return false
	}
	if recv := fn.Signature.Recv(); recv != nil {
		if n := core.NamedOf(recv.Type()); n != "" {
			i := strings.LastIndex(n, ".")
			return token.IsExported(n[i+1:])
		}
	}
	return true
}

// recLeaves lists what a value is computed from inside its function: non-scope parameters (ident = reached through
// value-preserving steps only), whether it reads a scope field no constructor copies, and whether anything else
// that is not scope state or a constant goes into it.
type recLeaves struct {
	params  []*ssa.Parameter
	ident   map[*ssa.Parameter]bool
	private []string // fields of the scope that are not inherited
	other   []string // other non-scope inputs
}

func (a *recAnalysis) leaves(v ssa.Value) *recLeaves {
	out := &recLeaves{ident: map[*ssa.Parameter]bool{}}
	seen := map[ssa.Value]bool{}
	var walk func(v ssa.Value, ident bool)
	walk = func(v ssa.Value, ident bool) {
		if v == nil {
			return
		}
		if seen[v] {
			return
		}
		seen[v] = true
		switch x := v.(type) {
		case *ssa.Const, *ssa.Function, *ssa.Builtin:
		case *ssa.Parameter:
			if a.isScopeType(x.Type()) {
				return
			}
			out.params = append(out.params, x)
			if ident {
				out.ident[x] = true
			}
		case *ssa.FreeVar:
			if a.isScopeType(x.Type()) {
				return
			}
			vals, _ := core.StoresTo(x)
			if len(vals) == 0 {
				out.other = append(out.other, "captured "+x.Name())
			}
			for _, s := range vals {
				walk(s, false)
			}
		case *ssa.Alloc:
			vals, _ := core.StoresTo(x)
			if len(vals) == 0 {
				out.other = append(out.other, "a local value")
			}
			for _, s := range vals {
				walk(s, ident)
			}
		case *ssa.Global:
			out.other = append(out.other, "global "+x.Name())
		case *ssa.BinOp:
			walk(x.X, false)
			walk(x.Y, false)
		case *ssa.UnOp:
			if x.Op == token.MUL {
				if _, ok := x.X.(*ssa.Alloc); ok {
					walk(x.X, ident)
					return
				}
			}
			walk(x.X, false)
		case *ssa.Phi:
			for i, e := range x.Edges {
				walk(e, ident)
				// `token && rest`: the edge carries a value only where the conditions on the way held
				if i < len(x.Block().Preds) {
					for _, f := range core.EdgeFacts(x.Block().Preds[i], x.Block()) {
						if !f.Neg {
							walk(f.Cond, false)
						}
					}
				}
			}
		case *ssa.FieldAddr:
			if a.isScopeType(x.X.Type()) && !a.inherited[x.Field] {
				out.private = append(out.private, a.st.Field(x.Field).Name())
				return
			}
			walk(x.X, false)
		case *ssa.Field:
			if a.isScopeType(x.X.Type()) && !a.inherited[x.Field] {
				out.private = append(out.private, a.st.Field(x.Field).Name())
				return
			}
			walk(x.X, false)
		case *ssa.IndexAddr:
			walk(x.X, false)
			walk(x.Index, false)
		case *ssa.Index:
			walk(x.X, false)
			walk(x.Index, false)
		case *ssa.Lookup:
			walk(x.X, false)
			walk(x.Index, false)
		case *ssa.Slice:
			walk(x.X, false)
		case *ssa.Extract:
			walk(x.Tuple, false)
		case *ssa.ChangeType:
			walk(x.X, ident)
		case *ssa.Convert:
			walk(x.X, false)
		case *ssa.ChangeInterface:
			walk(x.X, ident)
		case *ssa.MakeInterface:
			walk(x.X, ident)
		case *ssa.TypeAssert:
			walk(x.X, ident)
		case *ssa.Call:
			com := x.Common()
			if com.IsInvoke() {
				walk(com.Value, false)
			} else if _, ok := com.Value.(*ssa.Function); !ok {
				walk(com.Value, false)
			}
			if len(com.Args) == 0 && !com.IsInvoke() {
				out.other = append(out.other, "the result of "+a.c.P.CalleeName(x))
			}
			for _, arg := range com.Args {
				walk(arg, false)
			}
		default:
			out.other = append(out.other, strings.TrimPrefix(fmt.Sprintf("%T", v), "*ssa."))
		}
	}
	walk(v, true)
	sort.Slice(out.params, func(i, j int) bool { return out.params[i].Name() < out.params[j].Name() })
	sort.Strings(out.private)
	sort.Strings(out.other)
	return out
}

// tokenIn: does the condition v (in fn) read evidence of ownership? ok → why names it; !ok → why lists the
// parameters it reads and the reason each is not a token ("" when it reads scope state and constants only).
func (a *recAnalysis) tokenIn(v ssa.Value, fn *ssa.Function) (string, bool) {
	l := a.leaves(v)
	if len(l.private) > 0 {
		return "field " + strings.Join(dedup(l.private), ", ") + " of the scope, which no derived scope receives", true
	}
	var no []string
	for _, p := range l.params {
		why := a.isToken(recParamKey{p.Parent(), recParamIndex(p)})
		if why == "" {
			return fmt.Sprintf("parameter %s of %s, an ownership token handed down from the creation of the marker", p.Name(), a.c.P.Name(p.Parent())), true
		}
		// only a flag is worth an explanation; ctx, the expression and the like are plainly not tokens
		if b, ok := p.Type().Underlying().(*types.Basic); ok && b.Info()&types.IsBoolean != 0 {
			no = append(no, fmt.Sprintf("parameter %s: %s", p.Name(), why))
		}
	}
	return strings.Join(no, "; "), false
}

func recParamIndex(p *ssa.Parameter) int {
	for i, q := range p.Parent().Params {
		if q == p {
			return i
		}
	}
	return -1
}

func (a *recAnalysis) isScopeType(t types.Type) bool {
	for i := 0; i < 2; i++ {
		if p, ok := t.(*types.Pointer); ok {
			t = p.Elem()
		}
	}
	return types.Identical(t, a.structT)
}

// isToken: "" when parameter #idx of fn can only carry a value made by a creator of the marker (or a constant),
// handed down unchanged; else the reason it is not.
func (a *recAnalysis) isToken(key recParamKey) string {
	fn, idx := key.fn, key.idx
	if idx < 0 {
		return "parameter not found"
	}
	if r, ok := a.tokenMemo[key]; ok {
		return r
	}
	pname := fn.Params[idx].Name()
	if a.tokenBusy[key] {
		return fmt.Sprintf("%s of %s travels unchanged round a cycle of the evaluation functions back into itself: the nested evaluation is handed the value of the enclosing one", pname, a.c.P.Name(fn))
	}
	a.tokenBusy[key] = true
	res := ""
	n := 0
	for _, e := range a.c.P.RealCallers(fn) {
		if e.Site == nil || e.Caller.Func == fn {
			continue
		}
		com := e.Site.Common()
		i := idx
		if com.IsInvoke() {
			i--
		}
		if i < 0 || i >= len(com.Args) {
			continue
		}
		n++
		arg := com.Args[i]
		if _, ok := arg.(*ssa.Const); ok {
			continue
		}
		caller := e.Caller.Func
		l := a.leaves(arg)
		// handed on unchanged?
		if len(l.params) > 0 && len(l.other) == 0 && len(l.private) == 0 {
			allIdent := true
			for _, p := range l.params {
				if !l.ident[p] {
					allIdent = false
				}
			}
			if allIdent {
				for _, p := range l.params {
					if why := a.isToken(recParamKey{p.Parent(), recParamIndex(p)}); why != "" {
						res = why
					}
				}
				if res != "" {
					break
				}
				continue
			}
		}
		// computed here
		if len(l.private) > 0 {
			continue // reads a field of the scope that no derived scope receives: the caller's own knowledge
		}
		if !a.creators[caller] {
			res = fmt.Sprintf("the value for %s of %s is computed at %s in %s, which does not create the marker", pname, a.c.P.Name(fn), a.c.P.InstrPos(e.Site), a.c.P.Name(caller))
			break
		}
		if len(l.params) == 0 && len(l.other) == 0 && len(l.private) == 0 {
			res = fmt.Sprintf("the value for %s of %s at %s in %s is computed from scope state that derived scopes inherit alone", pname, a.c.P.Name(fn), a.c.P.InstrPos(e.Site), a.c.P.Name(caller))
			break
		}
	}
	if n == 0 && res == "" {
		res = fmt.Sprintf("%s of %s has no call site that could supply a token", pname, a.c.P.Name(fn))
	}
	delete(a.tokenBusy, key)
	a.tokenMemo[key] = res
	return res
}
