package rules

import (
	"fmt"

	"golang.org/x/tools/go/ssa"

	"verif/checker/core"
)

// R-PAR-15: whoever starts worker goroutines waits for all of them.
//
// Every parallel stage of csvq (loading, filtering, grouping, joining,
// analytic functions, the generic task manager) is fork-join: the caller's
// data — the view, its records, the node scope's maps — is handed to the
// workers and taken back when they are done. All race-freedom arguments of the
// other R-PAR rules are made per region "between the go statements and the
// Wait"; they hold only if the Wait is unconditional.

func init() {
	Register(&Rule{ID: "R-PAR-15", Props: []string{"C13", "C12", "C01"}, Floor: 8,
		Doc:      "fork-join is unconditional: for every go statement of csvq (outside the listed process-lifetime watcher), every path from it to a return of the starting function passes a synchronous join — a call of (*sync.WaitGroup).Wait, or of a csvq function all of whose paths from entry to return pass such a call in its own body (GoroutineTaskManager.Wait). A join that is itself performed in a goroutine and merely raced against ctx.Done() (`select { case <-done: case <-ctx.Done(): }`) lets the caller return — and clear, pool or publish the records and scope maps — while workers still read and append to them. Decides that the join is on every path, not that Add/Done are balanced",
		Controls: []string{"CtlJoinRacedAgainstContext"},
		Run:      rulePar15})
}

// goroutines that live as long as the process
var par15ProcessLifetime = map[string]string{
	"lib/cli.commandAction": "the signal watcher: waits for a signal for the whole run and is not joined by design",
}

func rulePar15(c *Ctx) {
	// joiners: csvq functions that synchronously wait on every path
	joiner := map[*ssa.Function]bool{}
	isJoin := func(in ssa.Instruction) bool {
		call, ok := in.(*ssa.Call)
		if !ok {
			return false
		}
		if c.P.CalleeName(call) == "(*sync.WaitGroup).Wait" {
			return true
		}
		if f := call.Common().StaticCallee(); f != nil && joiner[f] {
			return true
		}
		return false
	}
	everyPathJoins := func(fn *ssa.Function) bool {
		if len(fn.Blocks) == 0 {
			return false
		}
		reachedReturn := false
		core.WalkFromEntry(fn, func(in ssa.Instruction) bool {
			if isJoin(in) {
				return false
			}
			if _, ok := in.(*ssa.Return); ok {
				reachedReturn = true
			}
			return true
		})
		return !reachedReturn
	}
	for changed := true; changed; {
		changed = false
		for _, fn := range c.P.SrcFuncs() {
			if !joiner[fn] && everyPathJoins(fn) {
				joiner[fn] = true
				changed = true
			}
		}
	}
	n := 0
	for _, fn := range c.P.SrcFuncs() {
		k := 0
		for _, b := range fn.Blocks {
			for _, in := range b.Instrs {
				g, ok := in.(*ssa.Go)
				if !ok {
					continue
				}
				k++
				n++
				c.Touch(fn)
				host := fn
				for host.Parent() != nil {
					host = host.Parent()
				}
				key := c.KeyAt(fn, fmt.Sprintf("go statement #%d is joined on every path", k))
				if why, ok := par15ProcessLifetime[c.P.Name(host)]; ok {
					c.Ok(key, c.Pos(g), "listed: "+why)
					continue
				}
				var leak ssa.Instruction
				core.WalkFrom(g, func(x ssa.Instruction) bool {
					if isJoin(x) {
						return false
					}
					if _, ok := x.(*ssa.Return); ok && leak == nil {
						leak = x
					}
					return true
				})
				if leak != nil {
					c.Bad(key, c.Pos(g), fmt.Sprintf("the function can return at %s without having waited for this goroutine (no (*sync.WaitGroup).Wait, nor a csvq function that waits on all its paths, lies on that path): the caller goes on — clears and pools the scope, publishes or reuses the records — while the worker still reads and writes them", c.Pos(leak)))
				} else {
					c.Ok(key, c.Pos(g), "every path to a return passes a synchronous Wait")
				}
			}
		}
	}
	c.Sites += n
}
