package rules

import (
	"fmt"
	"go/token"
	"go/types"
	"sort"
	"strings"

	"golang.org/x/tools/go/ssa"

	"verif/checker/core"
)

// R-PAR-15: whoever starts worker goroutines waits for all of them.
//
// Every parallel stage of csvq (loading, filtering, grouping, joining,
// analytic functions, the generic task manager) is fork-join: the caller's
// data — the view, its records, the node scope's maps — is handed to the
// workers and taken back when they are done. All race-freedom arguments of the
// other R-PAR rules are made per region "between the go statements and the
// Wait"; they hold only if the Wait is unconditional.

func init() {
	Register(&Rule{ID: "R-PAR-15", Props: []string{"C13", "C12", "C01"}, Floor: 8,
		Doc:      "fork-join is unconditional: for every go statement of csvq (outside the listed process-lifetime watcher), every path from it to a return of the starting function passes a synchronous join — a call of (*sync.WaitGroup).Wait, or of a csvq function all of whose paths from entry to return pass such a call in its own body (GoroutineTaskManager.Wait). A join that is itself performed in a goroutine and merely raced against ctx.Done() (`select { case <-done: case <-ctx.Done(): }`) lets the caller return — and clear, pool or publish the records and scope maps — while workers still read and append to them. Decides that the join is on every path, not that Add/Done are balanced",
		Controls: []string{"CtlJoinRacedAgainstContext"},
		Run:      rulePar15})
}

// goroutines that live as long as the process
var par15ProcessLifetime = map[string]string{
	"lib/cli.commandAction": "the signal watcher: waits for a signal for the whole run and is not joined by design",
}

// par15ListedAnchorOf: host is a private helper of a listed function — a declared
// function of the same package all of whose callers are static calls made by the
// listed function, by its closures, or by such a helper again (depth levels).
// Returns the name of the listed function, or "".
func par15ListedAnchorOf(p *core.Prog, host *ssa.Function, depth int) string {
	if host == nil || host.Parent() != nil || host.Blocks == nil || depth <= 0 {
		return ""
	}
	edges := p.RealCallers(host)
	if len(edges) == 0 {
		return ""
	}
	anchor := ""
	for _, e := range edges {
		caller := e.Caller.Func
		if e.Site == nil || core.StaticCallee(e.Site) != host || core.FnPkg(caller) != core.FnPkg(host) {
			return ""
		}
		for caller.Parent() != nil {
			caller = caller.Parent()
		}
		a := ""
		if _, listed := par15ProcessLifetime[p.Name(caller)]; listed {
			a = p.Name(caller)
		} else {
			a = par15ListedAnchorOf(p, caller, depth-1)
		}
		if a == "" || (anchor != "" && a != anchor) {
			return ""
		}
		anchor = a
	}
	return anchor
}

// par15IsSignalWatcher: the goroutine started by g in fn receives (`<-ch` or a
// select case) from a channel that fn itself registered with os/signal.Notify.
func par15IsSignalWatcher(p *core.Prog, fn *ssa.Function, g *ssa.Go) bool {
	k := core.StaticCallee(g)
	if k == nil || k.Blocks == nil {
		return false
	}
	for _, call := range p.CallsNamed(fn, "os/signal.Notify") {
		nc, ok := call.(*ssa.Call)
		if !ok || len(nc.Call.Args) < 1 {
			continue
		}
		cell := core.Addr(core.Strip(nc.Call.Args[0]))
		if cell == nil {
			cell = core.Strip(nc.Call.Args[0])
		}
		for _, b := range k.Blocks {
			for _, in := range b.Instrs {
				switch x := in.(type) {
				case *ssa.UnOp:
					if x.Op == token.ARROW && txn2SameOuter(k, g, x.X, cell) {
						return true
					}
				case *ssa.Select:
					for _, st := range x.States {
						if st.Dir == types.RecvOnly && txn2SameOuter(k, g, st.Chan, cell) {
							return true
						}
					}
				}
			}
		}
	}
	return false
}

func rulePar15(c *Ctx) {
	// joiners: csvq functions that synchronously wait on every path
	joiner := map[*ssa.Function]bool{}
	isJoin := func(in ssa.Instruction) bool {
		call, ok := in.(*ssa.Call)
		if !ok {
			return false
		}
		if c.P.CalleeName(call) == "(*sync.WaitGroup).Wait" {
			return true
		}
		if f := call.Common().StaticCallee(); f != nil && joiner[f] {
			return true
		}
		return false
	}
	everyPathJoins := func(fn *ssa.Function) bool {
		if len(fn.Blocks) == 0 {
			return false
		}
		reachedReturn := false
		core.WalkFromEntry(fn, func(in ssa.Instruction) bool {
			if isJoin(in) {
				return false
			}
			if _, ok := in.(*ssa.Return); ok {
				reachedReturn = true
			}
			return true
		})
		return !reachedReturn
	}
	for changed := true; changed; {
		changed = false
		for _, fn := range c.P.SrcFuncs() {
			if !joiner[fn] && everyPathJoins(fn) {
				joiner[fn] = true
				changed = true
			}
		}
	}
	n := 0
	for _, fn := range c.P.SrcFuncs() {
		k := 0
		for _, b := range fn.Blocks {
			for _, in := range b.Instrs {
				g, ok := in.(*ssa.Go)
				if !ok {
					continue
				}
				k++
				n++
				c.Touch(fn)
				host := fn
				for host.Parent() != nil {
					host = host.Parent()
				}
				key := c.KeyAt(fn, fmt.Sprintf("go statement #%d is joined on every path", k))
				if why, ok := par15ProcessLifetime[c.P.Name(host)]; ok {
					c.Ok(key, c.Pos(g), "listed: "+why)
					continue
				}
				// the listed watcher moved into a private helper of the listed function:
				// the exception follows it, but only for the goroutine that is the watcher
				if anchor := par15ListedAnchorOf(c.P, host, 2); anchor != "" && par15IsSignalWatcher(c.P, fn, g) {
					c.Ok(key, c.Pos(g), "listed: "+par15ProcessLifetime[anchor]+" (started in "+c.P.Name(host)+", a helper that only "+anchor+" calls; the goroutine receives from the channel this function gave to signal.Notify)")
					continue
				}
				var leak ssa.Instruction
				core.WalkFrom(g, func(x ssa.Instruction) bool {
					if isJoin(x) {
						return false
					}
					if _, ok := x.(*ssa.Return); ok && leak == nil {
						leak = x
					}
					return true
				})
				if leak != nil {
					c.Bad(key, c.Pos(g), fmt.Sprintf("the function can return at %s without having waited for this goroutine (no (*sync.WaitGroup).Wait, nor a csvq function that waits on all its paths, lies on that path): the caller goes on — clears and pools the scope, publishes or reuses the records — while the worker still reads and writes them", c.Pos(leak)))
				} else {
					c.Ok(key, c.Pos(g), "every path to a return passes a synchronous Wait")
				}
			}
		}
	}
	c.Sites += n
}

// R-PAR-16: the spawner, not the goroutine, registers it with the WaitGroup.
// R-CAN-5: a parallel stage that stops early on cancellation says so.

func init() {
	Register(&Rule{ID: "R-PAR-16", Props: []string{"C12", "C13"}, Floor: 8,
		Doc:      "WaitGroup.Add happens before the go statement: no function started by a go statement of csvq — a closure, a named function or a method value, resolved statically, and the csvq functions it calls directly — calls (*sync.WaitGroup).Add or a csvq wrapper of it (GoroutineTaskManager.Add) for the group its spawner waits on; the registration belongs to the spawner. A goroutine that registers itself races with the spawner's Wait: Wait can see a zero counter and return before any worker has run — an OUTER JOIN over several workers then returns no rows, or some, depending on the schedule. Decides where Add is called, not that Add and Done are balanced",
		Controls: []string{"CtlWorkerRegistersItself"},
		Run:      rulePar16})
	Register(&Rule{ID: "R-CAN-5", Props: []string{"C10", "C01", "C11", "C12"}, Floor: 6,
		Doc:      "a parallel stage that stops early on cancellation reports it: for every go statement whose goroutine polls the context (a branch on ctx.Err() != nil that leaves the work loop), either (1) the cancelled edge records an error where the spawner looks — a store of an error into a variable shared with the spawner, or a call of a csvq SetError method — or (2) every path in the spawner from the go statement to a return that may report success takes the nil edge of a test of a cancellation-derived value, or the return hands such a value back as its error. Cancellation-derived are the result of ctx.Err() and the error result of a csvq function or method (resolved statically, to any depth) that is given the context and in which, again, every return that may report success lies behind the nil edge of a test of ctx.Err() of that parameter or returns such a value — the check `if HasError() {return Err()}; if ctx.Err() != nil {return …}; return nil` moved into a helper. A helper whose result the spawner drops, that looks at another context, or that looks at ctx.Err() and returns nil all the same, covers nothing. Otherwise a SIGINT / SIGTERM during the stage makes the workers return silently and the stage hands back a half-filled result with a nil error: COMMIT then writes a JSON table with holes over the old file. Decides that the cancellation is turned into an error, not how quickly the workers notice it",
		Controls: []string{"CtlCancelledStageReportsSuccess", "CtlCancelledStageHelperSwallows", "CtlCancelledStageHelperResultDropped", "CtlCancelledStageHelperOtherContext"},
		Run:      ruleCan5})
}

// goTargets: the functions a go statement starts (static callee, or the closures a local function value may hold)
func goTargets(g *ssa.Go) []*ssa.Function {
	if f := g.Common().StaticCallee(); f != nil {
		return []*ssa.Function{f}
	}
	var out []*ssa.Function
	for _, o := range core.Origins(g.Common().Value, false) {
		switch x := o.(type) {
		case *ssa.MakeClosure:
			if f, ok := x.Fn.(*ssa.Function); ok {
				out = append(out, f)
			}
		case *ssa.Function:
			out = append(out, x)
		}
	}
	return out
}

func rulePar16(c *Ctx) {
	// adders: csvq functions that call WaitGroup.Add and start no goroutine themselves
	adder := map[*ssa.Function]bool{}
	for _, fn := range c.P.SrcFuncs() {
		hasAdd, hasGo := false, false
		for _, b := range fn.Blocks {
			for _, in := range b.Instrs {
				if _, ok := in.(*ssa.Go); ok {
					hasGo = true
				}
				if call, ok := in.(ssa.CallInstruction); ok && c.P.CalleeName(call) == "(*sync.WaitGroup).Add" {
					hasAdd = true
				}
			}
		}
		if hasAdd && !hasGo {
			adder[fn] = true
		}
	}
	n := 0
	for _, fn := range c.P.SrcFuncs() {
		k := 0
		for _, b := range fn.Blocks {
			for _, in := range b.Instrs {
				g, ok := in.(*ssa.Go)
				if !ok {
					continue
				}
				k++
				n++
				c.Touch(fn)
				key := c.KeyAt(fn, fmt.Sprintf("go statement #%d: the goroutine does not register itself", k))
				var bad string
				seen := map[*ssa.Function]bool{}
				var scan func(w *ssa.Function, depth int)
				scan = func(w *ssa.Function, depth int) {
					if w == nil || seen[w] || w.Blocks == nil || depth > 1 || bad != "" {
						return
					}
					seen[w] = true
					for _, call := range core.Calls(w) {
						if _, isGo := call.(*ssa.Go); isGo {
							continue
						}
						name := c.P.CalleeName(call)
						callee := call.Common().StaticCallee()
						if name == "(*sync.WaitGroup).Add" || callee != nil && adder[callee] && !adder[w] {
							bad = fmt.Sprintf("the started function %s calls %s at %s", c.P.Name(w), ctxCalleeLabel(c, call), c.Pos(call))
							return
						}
						if callee != nil && inModule(callee) && !adder[callee] {
							scan(callee, depth+1)
						}
					}
				}
				for _, w := range goTargets(g) {
					scan(w, 0)
				}
				if bad != "" {
					c.Bad(key, c.Pos(g), bad+": the registration races with the spawner's Wait, which may find the counter at zero and return before the worker has started — the stage's result is then empty or partial, depending on the schedule")
				} else {
					c.Ok(key, c.Pos(g), "no Add in the started function")
				}
			}
		}
	}
	c.Sites += n
}

func isCtxErrCall(v ssa.Value) bool {
	call, ok := v.(*ssa.Call)
	if !ok || !call.Common().IsInvoke() || call.Common().Method.Name() != "Err" {
		return false
	}
	return isContextType(call.Common().Value.Type())
}

func ruleCan5(c *Ctx) {
	n := 0
	rep := &can5Reporters{c: c, memo: map[can5Key]int{}}
	start := len(c.Obs)
	defer func() {
		c.negControls(start, "okCancelledStageReported:", "okCancelledStageReportedByHelper", "okCancelledStageHelperTested")
	}()
	for _, fn := range c.P.SrcFuncs() {
		k := 0
		for _, b := range fn.Blocks {
			for _, in := range b.Instrs {
				g, ok := in.(*ssa.Go)
				if !ok {
					continue
				}
				// poll sites of the started functions (and the csvq functions they call directly)
				type poll struct {
					w         *ssa.Function
					iff       *ssa.If
					cancelled *ssa.BasicBlock
				}
				var polls []poll
				seen := map[*ssa.Function]bool{}
				var collect func(w *ssa.Function, depth int)
				collect = func(w *ssa.Function, depth int) {
					if w == nil || seen[w] || w.Blocks == nil || depth > 1 {
						return
					}
					seen[w] = true
					for _, wb := range w.Blocks {
						if len(wb.Instrs) == 0 {
							continue
						}
						iff, ok := wb.Instrs[len(wb.Instrs)-1].(*ssa.If)
						if !ok {
							continue
						}
						bo, ok := iff.Cond.(*ssa.BinOp)
						if !ok || bo.Op != token.NEQ && bo.Op != token.EQL {
							continue
						}
						if !(isCtxErrCall(bo.X) && core.IsNilConst(bo.Y) || isCtxErrCall(bo.Y) && core.IsNilConst(bo.X)) {
							continue
						}
						succ := 0
						if bo.Op == token.EQL {
							succ = 1
						}
						polls = append(polls, poll{w, iff, wb.Succs[succ]})
					}
					for _, call := range core.Calls(w) {
						if callee := call.Common().StaticCallee(); callee != nil && inModule(callee) {
							collect(callee, depth+1)
						}
					}
				}
				for _, w := range goTargets(g) {
					collect(w, 0)
				}
				if len(polls) == 0 {
					continue
				}
				k++
				n++
				c.Touch(fn)
				key := c.KeyAt(fn, fmt.Sprintf("go statement #%d: a cancelled worker is reported", k))
				// (1) every cancelled edge records an error
				recorded := true
				for _, p := range polls {
					rec := false
					core.WalkFrom(p.iff, func(x ssa.Instruction) bool {
						if !core.RegionFrom(p.cancelled)[x.Block()] {
							return false
						}
						switch y := x.(type) {
						case *ssa.Store:
							if core.IsErrorType(y.Val.Type()) && !core.IsNilConst(y.Val) {
								if _, local := y.Addr.(*ssa.Alloc); !local {
									rec = true
								}
							}
						case ssa.CallInstruction:
							if f := y.Common().StaticCallee(); f != nil && strings.Contains(f.Name(), "SetError") {
								rec = true
							}
						}
						return !rec
					})
					if !rec {
						recorded = false
					}
				}
				if recorded {
					c.Ok(key, c.Pos(g), fmt.Sprintf("%d poll site(s); every cancelled edge records an error for the spawner", len(polls)))
					continue
				}
				// (2) the spawner tests ctx.Err() — itself or through a helper whose error result it
				// honours — before every success return
				var leak ssa.Instruction
				res := fn.Signature.Results()
				hasErr := res.Len() > 0 && core.IsErrorType(res.At(res.Len()-1).Type())
				if hasErr {
					leak = rep.leakFrom(fn, g, -1)
				}
				switch {
				case !hasErr:
					c.Bad(key, c.Pos(g), "the workers stop early when the context is cancelled, but the starting function has no error result through which it could say so")
				case leak != nil:
					c.Bad(key, c.Pos(g), fmt.Sprintf("the workers leave their loop when ctx.Err() != nil without recording an error, and the return at %s can report success without the starting function having looked at ctx.Err(): a cancelled stage hands back a partially filled result as if it were complete", c.Pos(leak)))
				default:
					c.Ok(key, c.Pos(g), fmt.Sprintf("%d poll site(s); every success return of the spawner lies behind a test of ctx.Err()%s", len(polls), rep.via(fn)))
				}
			}
		}
	}
	c.Sites += n
}

// ---------------------------------------------------------------------------
// R-CAN-5, clause (2): where the context error is looked at.
//
// A value is "cancellation-derived" when it is nil only if the context had not
// been cancelled when it was produced: the result of ctx.Err(), or the error
// result of a csvq function (a reporter) in which every return that may report
// success lies behind the nil edge of a test of such a value — the check
// `if HasError() {return Err()}; if ctx.Err() != nil {return Convert(ctx.Err())}; return nil`
// moved into a function or method of its own. The spawner is covered on a path
// once it has branched on a cancellation-derived value and taken the nil edge,
// or when it returns such a value as its error; a helper whose result is
// dropped covers nothing.

type can5Key struct {
	fn    *ssa.Function
	param int
}

type can5Reporters struct {
	c    *Ctx
	memo map[can5Key]int // 1 = being decided (pessimistic), 2 = reporter, 3 = not
	used map[*ssa.Function][]string
}

// via names the reporters the starting function relied on (for the discharge text).
func (r *can5Reporters) via(fn *ssa.Function) string {
	if len(r.used[fn]) == 0 {
		return ""
	}
	names := append([]string(nil), r.used[fn]...)
	sort.Strings(names)
	return " (through " + strings.Join(names, ", ") + ")"
}

// ctxParams: the indices of the parameters of context type
func can5CtxParams(f *ssa.Function) []int {
	var out []int
	for i, p := range f.Params {
		if isContextType(p.Type()) {
			out = append(out, i)
		}
	}
	return out
}

// isReporter: every may-succeed return of f lies behind a look at the error of its context parameter #param.
func (r *can5Reporters) isReporter(f *ssa.Function, param int) bool {
	if f == nil || f.Blocks == nil || !inModule(f) || param >= len(f.Params) {
		return false
	}
	res := f.Signature.Results()
	if res.Len() == 0 || !core.IsErrorType(res.At(res.Len()-1).Type()) {
		return false
	}
	k := can5Key{f, param}
	switch r.memo[k] {
	case 1, 3:
		return false
	case 2:
		return true
	}
	r.memo[k] = 1
	ok := len(core.Returns(f)) > 0 && r.leakFrom(f, nil, param) == nil
	if ok {
		r.memo[k] = 2
	} else {
		r.memo[k] = 3
	}
	return ok
}

// derived: v is nil only if the context (parameter #param of fn; any context when param < 0) was not cancelled.
func (r *can5Reporters) derived(fn *ssa.Function, v ssa.Value, param int, depth int) bool {
	if v == nil || depth > 6 {
		return false
	}
	isCtx := func(x ssa.Value) bool {
		if !isContextType(x.Type()) {
			return false
		}
		if param < 0 {
			return true
		}
		for _, o := range core.Origins(x, false) {
			if o != ssa.Value(fn.Params[param]) {
				return false
			}
		}
		return true
	}
	switch x := v.(type) {
	case *ssa.Call:
		if isCtxErrCall(x) {
			return isCtx(x.Common().Value)
		}
		f := x.Common().StaticCallee()
		if f == nil || f.Signature.Results().Len() != 1 {
			return false
		}
		return r.reporterCall(fn, x, f, isCtx)
	case *ssa.Extract:
		call, ok := x.Tuple.(*ssa.Call)
		if !ok {
			return false
		}
		f := call.Common().StaticCallee()
		if f == nil || x.Index != f.Signature.Results().Len()-1 {
			return false
		}
		return r.reporterCall(fn, call, f, isCtx)
	case *ssa.ChangeInterface:
		return r.derived(fn, x.X, param, depth+1)
	case *ssa.Phi:
		for _, e := range x.Edges {
			if e == v {
				continue
			}
			if !r.derived(fn, e, param, depth+1) {
				return false
			}
		}
		return len(x.Edges) > 0
	case *ssa.UnOp:
		// a local cell (named result, captured variable): every store that reaches the load
		if al, ok := x.X.(*ssa.Alloc); ok && x.Op == token.MUL {
			vals := core.ReachingStores(al, x)
			for _, s := range vals {
				if !r.derived(fn, s, param, depth+1) {
					return false
				}
			}
			return len(vals) > 0
		}
	}
	return false
}

// reporterCall: call hands a context the caller accepts to a parameter for which f is a reporter.
func (r *can5Reporters) reporterCall(fn *ssa.Function, call *ssa.Call, f *ssa.Function, isCtx func(ssa.Value) bool) bool {
	args := call.Common().Args
	for _, i := range can5CtxParams(f) {
		if i < len(args) && isCtx(args[i]) && r.isReporter(f, i) {
			if r.used == nil {
				r.used = map[*ssa.Function][]string{}
			}
			name := r.c.P.Name(f)
			dup := false
			for _, u := range r.used[fn] {
				dup = dup || u == name
			}
			if !dup {
				r.used[fn] = append(r.used[fn], name)
			}
			return true
		}
	}
	return false
}

// leakFrom walks fn from just after `from` (from the entry when from is nil) and returns a return that may
// report success on a path that has not taken the nil edge of a test of a cancellation-derived value.
func (r *can5Reporters) leakFrom(fn *ssa.Function, from ssa.Instruction, param int) ssa.Instruction {
	if len(fn.Blocks) == 0 {
		return nil
	}
	errIdx := fn.Signature.Results().Len() - 1
	var leak ssa.Instruction
	seen := map[*ssa.BasicBlock]bool{}
	var walk func(b *ssa.BasicBlock, start int)
	walk = func(b *ssa.BasicBlock, start int) {
		for i := start; i < len(b.Instrs) && leak == nil; i++ {
			switch x := b.Instrs[i].(type) {
			case *ssa.Return:
				if b == fn.Recover || errIdx >= len(x.Results) {
					return
				}
				vals := core.ReturnOperand(x, errIdx)
				all, isNil := len(vals) > 0, len(vals) > 0
				for _, v := range vals {
					all = all && r.derived(fn, v, param, 0)
					isNil = isNil && (v == nil || core.IsNilConst(v))
				}
				if all {
					return // the cancellation itself (or nil when there was none) is what is returned
				}
				if isNil || !errorExit(r.c, b) {
					leak = x
				}
				return
			case *ssa.If:
				if v, neq, ok := core.NilCmp(x.Cond); ok && len(b.Succs) == 2 && r.derived(fn, v, param, 0) {
					// only the edge on which the value is non-nil stays unchecked
					s := b.Succs[1]
					if neq {
						s = b.Succs[0]
					}
					if !seen[s] {
						seen[s] = true
						walk(s, 0)
					}
					return
				}
			}
		}
		if leak != nil {
			return
		}
		for _, s := range b.Succs {
			if !seen[s] {
				seen[s] = true
				walk(s, 0)
			}
		}
	}
	if from == nil {
		seen[fn.Blocks[0]] = true
		walk(fn.Blocks[0], 0)
	} else {
		walk(from.Block(), core.InstrIndex(from)+1)
	}
	return leak
}
