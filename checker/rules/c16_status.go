package rules

// Seventh round (DESIGN §8):
//
//	R-CUR-10  the range status of a cursor is consulted only by the expression
//	          CURSOR c IS [NOT] IN RANGE (who-may-call): loops and fetches are driven by
//	          what Fetch returns
//	R-CMP-10  no three-to-two collapse: the argument of ternary.ConvertFromBool is never a
//	          comparison of a ternary.Value with a ternary constant

import (
	"fmt"
	"go/token"
	"sort"

	"golang.org/x/tools/go/ssa"

	"verif/checker/core"
)

func init() {
	Register(&Rule{ID: "R-CUR-10", Props: []string{"C16"}, Floor: 2,
		Doc:      "the status functions of ReferenceScope — CursorIsInRange, CursorIsOpen — are called only by the evaluation of the CURSOR … IS … expressions (evalCursorStatus and its private helpers): WHILE … IN and FETCH are driven by what Cursor.Fetch returns. IS IN RANGE is FALSE on both sides of the result set, so a loop that consults it before fetching skips a cursor that was rewound before its first row",
		Controls: []string{"ctlCursorLoopAsksRange"},
		Run:      ruleCur10})
	Register(&Rule{ID: "R-CMP-10", Props: []string{"C06", "C16", "C03"}, Floor: 1,
		Doc:      "no three-to-two collapse: in lib/query and lib/value the argument of ternary.ConvertFromBool never derives from a comparison (== / !=) of a ternary.Value with a ternary constant — `ConvertFromBool(t != TRUE)` written for NOT maps UNKNOWN to TRUE; negation is ternary.Not. The floor is the number of ConvertFromBool call sites examined (all of them take a two-valued Go predicate today)",
		Controls: []string{"ctlTernaryCollapsedNot"},
		Run:      ruleCmp10})
}

func ruleCur10(c *Ctx) {
	allowed := []string{"lib/query.evalCursorStatus"}
	n := 0
	for _, target := range []string{"lib/query.(*ReferenceScope).CursorIsInRange", "lib/query.(*ReferenceScope).CursorIsOpen"} {
		tf := c.Fn(target)
		if tf == nil {
			continue
		}
		for _, fn := range c.P.FuncsIn(true, "lib/query", "lib/action", "lib/cli") {
			for _, call := range core.Calls(fn) {
				if core.StaticCallee(call) != tf {
					continue
				}
				c.Sites++
				outer := fn
				for outer.Parent() != nil {
					outer = outer.Parent()
				}
				key := c.KeyAt(outer, "calls "+tf.Name())
				in := call.(ssa.Instruction)
				if c.P.IsControl(fn) {
					c.Bad(key, c.Pos(in), "a function other than the evaluation of CURSOR … IS … asks for the cursor's status")
					continue
				}
				n++
				if exceptionOwner(c.P, outer, allowed) != "" {
					c.Ok(key, c.Pos(in), "the evaluation of the CURSOR … IS … expression")
				} else {
					c.Bad(key, c.Pos(in), c.P.Name(outer)+" consults "+tf.Name()+": the status of a cursor is for the CURSOR … IS … expressions only; a statement that decides by it what to fetch or whether to loop treats 'before the first row' like 'after the last row' (both are not in range) and skips rows that FETCH NEXT would return")
				}
			}
		}
	}
	if n < 2 {
		c.Unknown("anchor:callers of CursorIsInRange / CursorIsOpen", "-", fmt.Sprintf("cannot-analyse: expected the two calls in evalCursorStatus, found %d", n))
	}
}

func ruleCmp10(c *Ctx) {
	isTernary := func(v ssa.Value) bool {
		return core.NamedOf(v.Type()) == "github.com/mithrandie/ternary.Value" || core.NamedOf(v.Type()) == "ternary.Value"
	}
	n := 0
	type site struct {
		fn   *ssa.Function
		call ssa.CallInstruction
	}
	var sites []site
	for _, fn := range c.P.FuncsIn(true, "lib/query", "lib/value") {
		for _, call := range core.Calls(fn) {
			f := core.StaticCallee(call)
			if f == nil || f.Name() != "ConvertFromBool" || f.Pkg == nil || f.Pkg.Pkg.Name() != "ternary" {
				continue
			}
			sites = append(sites, site{fn, call})
		}
	}
	sort.Slice(sites, func(i, j int) bool {
		return c.Pos(sites[i].call.(ssa.Instruction)) < c.Pos(sites[j].call.(ssa.Instruction))
	})
	perFn := map[*ssa.Function]int{}
	for _, s := range sites {
		perFn[s.fn]++
		c.Sites++
		in := s.call.(ssa.Instruction)
		key := c.KeyAt(s.fn, fmt.Sprintf("ConvertFromBool #%d", perFn[s.fn]))
		if !c.P.IsControl(s.fn) {
			n++
		}
		bad := ""
		var walk func(v ssa.Value, d int)
		seen := map[ssa.Value]bool{}
		walk = func(v ssa.Value, d int) {
			if d > 6 || seen[v] || bad != "" {
				return
			}
			seen[v] = true
			switch x := v.(type) {
			case *ssa.BinOp:
				if (x.Op == token.EQL || x.Op == token.NEQ) && isTernary(x.X) && isTernary(x.Y) {
					_, cx := x.X.(*ssa.Const)
					_, cy := x.Y.(*ssa.Const)
					if cx != cy {
						bad = "the Go predicate is " + x.Op.String() + " of a ternary.Value with a ternary constant"
					}
				}
			case *ssa.UnOp:
				if x.Op == token.NOT {
					walk(x.X, d+1)
				}
			case *ssa.Phi:
				for _, e := range x.Edges {
					walk(e, d+1)
				}
			}
		}
		if len(s.call.Common().Args) > 0 {
			walk(s.call.Common().Args[0], 0)
		}
		if bad != "" {
			c.Bad(key, c.Pos(in), bad+": a three-valued result is folded into two values, UNKNOWN ends up on the side of TRUE or FALSE (written for NOT, `t != TRUE` makes NOT UNKNOWN = TRUE); use ternary.Not / the ternary operators")
		} else {
			c.Ok(key, c.Pos(in), "the argument is a two-valued Go predicate that compares no ternary value with a ternary constant")
		}
	}
	if n < 1 {
		c.Unknown("anchor:ConvertFromBool call sites", "-", "cannot-analyse: no call of ternary.ConvertFromBool found in lib/query / lib/value")
	}
}
