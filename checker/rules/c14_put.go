package rules

import (
	"fmt"

	"golang.org/x/tools/go/ssa"

	"verif/checker/core"
)

// R-POOL-5: an object goes back to its pool once.

func init() {
	Register(&Rule{ID: "R-POOL-5", Props: []string{"C12", "C13", "C14", "C04"}, Floor: 5,
		Doc:      "an object is returned to its sync.Pool at most once: for every call of (*sync.Pool).Put, or of a csvq wrapper that passes its parameter on to it (PutComparisonkeysBuf, the scope pools …; value.Discard is decided by R-POOL-2), no second return of the same object is reachable from it — a deferred return counts at every exit, so a deferred and an explicit return of one object in one function is a double return. An object that sits in a pool twice is handed to two goroutines at once: the key buffers of GROUP BY / DISTINCT / PARTITION BY would be filled by several workers simultaneously (results depend on --cpu and the schedule)",
		Controls: []string{"CtlBufferPutTwice"},
		Run:      rulePool5})
}

// poolPutWrappers: functions that pass one of their parameters to (*sync.Pool).Put (directly or through another wrapper).
func poolPutWrappers(c *Ctx) map[*ssa.Function]int {
	out := map[*ssa.Function]int{}
	for changed, round := true, 0; changed && round < 4; round++ {
		changed = false
		for _, fn := range c.P.SrcFuncs() {
			if _, ok := out[fn]; ok {
				continue
			}
			for _, call := range core.Calls(fn) {
				idx := -1
				if c.P.CalleeName(call) == "(*sync.Pool).Put" && len(call.Common().Args) == 2 {
					idx = 1
				} else if g := call.Common().StaticCallee(); g != nil {
					if i, ok := out[g]; ok {
						idx = i
					}
				}
				if idx < 0 || idx >= len(call.Common().Args) {
					continue
				}
				for _, o := range core.Origins(call.Common().Args[idx], false) {
					if p, ok := o.(*ssa.Parameter); ok {
						for i, q := range fn.Params {
							if q == p {
								out[fn] = i
								changed = true
							}
						}
					}
				}
			}
		}
	}
	return out
}

func rulePool5(c *Ctx) {
	wrappers := poolPutWrappers(c)
	n := 0
	for _, fn := range c.P.SrcFuncs() {
		type put struct {
			in  ssa.CallInstruction
			obj ssa.Value
		}
		var puts []put
		for _, call := range core.Calls(fn) {
			idx := -1
			if c.P.CalleeName(call) == "(*sync.Pool).Put" && len(call.Common().Args) == 2 {
				idx = 1
			} else if g := call.Common().StaticCallee(); g != nil {
				if c.P.Name(g) == "lib/value.Discard" {
					continue
				}
				if i, ok := wrappers[g]; ok {
					idx = i
				}
			}
			if idx < 0 || idx >= len(call.Common().Args) {
				continue
			}
			puts = append(puts, put{call, call.Common().Args[idx]})
		}
		for i, p := range puts {
			n++
			c.Touch(fn)
			key := c.KeyAt(fn, fmt.Sprintf("pool return #%d", i+1))
			bad := ""
			_, pDefer := p.in.(*ssa.Defer)
			for j, q := range puts {
				if i == j || !sameObjectValue(p.obj, q.obj) {
					continue
				}
				_, qDefer := q.in.(*ssa.Defer)
				def, _ := core.Strip(p.obj).(ssa.Instruction)
				again := func(in ssa.Instruction) bool { return def != nil && in == def }
				switch {
				case pDefer && qDefer:
					if core.Reachable(p.in, q.in, again) {
						bad = fmt.Sprintf("two deferred returns of the same object (%s and %s)", c.Pos(p.in), c.Pos(q.in))
					}
				case pDefer && !qDefer:
					// the deferred one runs at the exit, after the explicit one, whenever both are executed on a path
					if core.Reachable(p.in, q.in, again) || core.Reachable(q.in, p.in, again) {
						bad = fmt.Sprintf("returned explicitly at %s and again by the deferred call registered at %s when the function exits", c.Pos(q.in), c.Pos(p.in))
					}
				case !pDefer && !qDefer:
					if core.Reachable(p.in, q.in, again) {
						bad = fmt.Sprintf("returned at %s and again at %s on the same path", c.Pos(p.in), c.Pos(q.in))
					}
				}
			}
			c.Check(bad == "", key, c.Pos(p.in), "no second return of this object is reachable", "the object goes back to its pool twice: "+bad+" — the pool then hands the same object to two users at once")
		}
	}
	if n == 0 {
		c.Unknown("pool returns", "-", "cannot-analyse: no (*sync.Pool).Put call or wrapper call found")
	}
}

func sameObjectValue(a, b ssa.Value) bool {
	if a == b || core.SameCell(a, b) {
		return true
	}
	oa, ob := core.Origins(a, false), core.Origins(b, false)
	if len(oa) != 1 || len(ob) != 1 {
		return false
	}
	return oa[0] == ob[0]
}
